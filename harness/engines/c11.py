"""C11 — node-weighted solving equals solving the explicitly node-expanded instance.

E3: NodeExpandedDiGraph (constructor: nodes, edges, attribute dicts, edges_to_ignore — all in order),
    get_expanded_edge / additional starts / ends / subpath constraints, get_condensed_paths,
    get_condensed_graph and the node-mode glue (ignore list, condensed solution) against the extracted
    Gallina model NodeExp.v; the ".0"/".1" suffix logic is executed by the model, the harness only
    ships character codes.
E2: every exported model class with a node mode is solved in node mode and, in edge mode, on the
    explicit expansion that the *Coq model* produced (all original edges ignored, nodes without the
    attribute ignored, constraints / starts / ends expanded by the model): solved status and objective
    must agree, routes must be valid routes of the ORIGINAL graph in original names, weights/slacks
    lists must have one entry per route.
E1 (LP against LP): for the k-classes the LP that node mode hands to HiGHS is read back and must equal, as
    sets of columns and rows, the LP of edge mode on the model's expansion."""
import copy, json, math, os, time
from fractions import Fraction as F
import networkx as nx
import common, gen, gen2, props, lpdump

LEVEL = "proof"
EXPLANATION = (
    "Theorems of Props/C11.v are about NodeExp.v, a Gallina transcription of flowpaths/nodeexpandeddigraph.py over Coq strings "
    "(constructor incl. networkx' implicit node creation, attribute copying and the order of edges_to_ignore; get_expanded_*; "
    "get_condensed_paths with Python's s[-2:]/s[:-2] slices; get_condensed_graph) and of the node-mode glue of the model classes. "
    "Proved for all graphs/names: condense(expand p) = p (any names, incl. empty and single-node paths), constraint and element "
    "round trips, injectivity/disjointness of the .0/.1 names, the exact edges_to_ignore list, the edge set of the expansion, the "
    "bijection between routes of G and of expand G with visit counts, and ignore-list membership. Equality of status/objective is "
    "then definitional (node mode IS edge mode on the expansion); it is sampled by E2 on the explicit expansion built from the "
    "model's output, and for the k-classes the two LPs handed to HiGHS are read back and compared as sets of columns/rows (E1). get_solution(remove_empty=True) in node mode filters on the INTERNAL route since /repo 7b35658 (C11_full_statement_remove_empty is a theorem of the current model; the old filter on condensed routes is kept as ne_node_solution_old with its refutation); the filter functions of the six k-classes are tied to the model by E3 (kind glue_solution). Lengths: C11_expand_lengths / C11_expanded_route_length (node lengths on node edges, 0 on connecting edges); every E2 case also compares the "
    "expansion the class built for itself (G_internal) with the model, and the six classes with a length_attr parameter are solved with node "
    "lengths and length coverages. Open findings: MinFlowDecompCycles node mode rejects additional starts/ends; kPathCover/MinPathCover node mode "
    "do not forward length_attr to the expansion.")
ASSUMPTIONS = [
    "node names are strings over code points 0..255 (one Coq ascii per character)",
    "attribute values are opaque to the expansion; the harness uses integers in E3",
    "_try_filling_in_missing_flow_values: networkx' min-cost flow is an external engine; every filling it produces is judged by the verified checker FillSpec.fill_certificate_ok_b (certificate = the tapped edge flow); that nothing is filled only when no extension exists is probed, not proved",
    "the harness passes list(G.nodes), list(G.predecessors(v)), list(G.successors(v)) and the attribute dicts exactly as Python enumerates them",
    "HiGHS optimal statuses are trusted as in DESIGN section 4 (E2 compares two runs of the same solver); threads=1",
]
TRUSTED = ["FillSpec.v (contract + checker of the filling step), handler coq/driver/h_fillspec.ml", "model: coq/theories/NodeExp.v; proofs NodeExpProofs.v; driver coq/driver/h_nodeexp.ml (character-code wire format)"]

TIME_LIMIT = 40.0
SO = {"threads": 1, "time_limit": TIME_LIMIT}   # the limit is only a guard against a pathological MILP; such a case is skipped, never judged

# ----------------------------------------------------------------------------- wire format
def w_str(s):
    cs = [ord(c) for c in s]
    assert all(c < 256 for c in cs)
    return [len(cs)] + cs


def w_attrs(d):
    return [len(d)] + [w_str(k) + [int(v)] for k, v in d.items()]


def w_graph(G):
    out = [G.number_of_nodes()]
    for v in G.nodes:
        ps = list(G.predecessors(v)); ss = list(G.successors(v))
        out.append([w_str(v), w_attrs(G.nodes[v]),
                    len(ps), [[w_str(p), w_attrs(G.edges[p, v])] for p in ps],
                    len(ss), [[w_str(s), w_attrs(G.edges[v, s])] for s in ss]])
    return out


def w_ostr(s):
    return [0] if s is None else [1, w_str(s)]


def w_strs(l):
    return [len(l)] + [w_str(x) for x in l]


def w_elem(el):
    return [0, w_str(el)] if isinstance(el, str) else [1, w_str(el[0]), w_str(el[1])]


def w_edges(l):
    return [len(l)] + [[w_str(u), w_str(v)] for u, v in l]


class Rd:
    def __init__(self, line):
        parts = line.split()
        self.ok = parts[0] == "OK"
        self.err = None if self.ok else " ".join(parts[1:])
        self.t = parts[1:] if self.ok else []
        self.i = 0

    def int(self):
        self.i += 1
        return int(self.t[self.i - 1])

    def str(self):
        n = self.int()
        return "".join(chr(self.int()) for _ in range(n))

    def list(self, f):
        n = self.int()
        return [f() for _ in range(n)]

    def attrs(self):
        return self.list(lambda: (self.str(), self.int()))

    def edge(self):
        u = self.str(); v = self.str()
        return (u, v)


# ----------------------------------------------------------------------------- generators
GLUE = [("kFlowDecomp", "paths", "_remove_empty_paths"), ("kLeastAbsErrors", "paths", "_remove_empty_paths"), ("kMinPathError", "paths", "_remove_empty_paths"),
        ("kFlowDecompCycles", "walks", "_remove_empty_walks"), ("kLeastAbsErrorsCycles", "walks", "_remove_empty_walks"),
        ("kMinPathErrorCycles", "walks", "_remove_empty_walks")]
ADV = ["a", "a.0", "a.1", "a.0.0", "a.0.1", "a.1.0", ".", ".0", ".1", "..0", "0", "1", "", "x.y", "b.", "b..", "0.0", "1.1", "a.10", "source", "sink"]


def rename(G, names):
    H = nx.DiGraph()
    for v, d in G.nodes(data=True):
        H.add_node(names[v], **d)
    for u, v, d in G.edges(data=True):
        H.add_edge(names[u], names[v], **d)
    return H


def rand_graph(rng, adversarial=False, cyclic=None, nmax=6):
    """node-weighted digraph: DAG or cyclic, isolated / single nodes possible, insertion order shuffled;
    nodes may lack the flow attribute, carry a length attribute and unrelated attributes; edges carry
    arbitrary attributes (sometimes even the flow / length attribute)."""
    cyclic = rng.random() < 0.4 if cyclic is None else cyclic
    r = rng.random()
    if r < 0.08:
        B = nx.DiGraph(); B.add_node("v0")
        if cyclic and rng.random() < 0.5:
            B.add_edge("v0", "v0")
    elif cyclic:
        B = gen.rand_cyclic(rng, nmax=nmax)
    else:
        B = gen.rand_dag(rng, nmax=nmax)
    nodes = list(B.nodes)
    if rng.random() < 0.15:
        nodes.append("iso")                     # isolated node
    if adversarial:
        pool = ADV[:]; rng.shuffle(pool)
        names = {v: pool[i] for i, v in enumerate(nodes)}
    else:
        names = {v: v for v in nodes}
    order = nodes[:]; rng.shuffle(order)
    G = nx.DiGraph()
    pmiss = rng.choice([0.0, 0.0, 0.2, 0.5])
    for v in order:
        d = {}
        keys = ["flow", "len", "col"]; rng.shuffle(keys)
        for k in keys:
            if k == "flow" and rng.random() >= pmiss: d["flow"] = rng.randint(0, 9)
            if k == "len" and rng.random() < 0.5: d["len"] = rng.randint(1, 4)
            if k == "col" and rng.random() < 0.3: d["col"] = rng.randint(0, 3)
        G.add_node(names[v], **d)
    es = list(B.edges); rng.shuffle(es)
    for u, v in es:
        d = {}
        if rng.random() < 0.3: d["w"] = rng.randint(0, 5)
        if rng.random() < 0.2: d["flow"] = rng.randint(0, 9)
        if rng.random() < 0.3: d["len"] = rng.randint(0, 4)
        G.add_edge(names[u], names[v], **d)
    return G


def rand_route(rng, G, maxlen=8):
    v = rng.choice(list(G.nodes)); w = [v]
    while len(w) < maxlen and rng.random() < 0.75:
        ss = list(G.successors(v))
        if not ss:
            break
        v = rng.choice(ss); w.append(v)
    return w


def expand_names(p):
    out = []
    for v in p:
        out += [v + ".0", v + ".1"]
    return out


def impl_call(f):
    try:
        return ("OK", f())
    except ValueError:
        return ("ERR", "ValueError")
    except IndexError:
        return ("ERR", "IndexError")
    except KeyError:
        return ("ERR", "KeyError")
    except Exception as e:                      # anything else is reported as is
        return ("ERR", type(e).__name__)


def items(d):
    return [(k, v) for k, v in d.items()]


# ----------------------------------------------------------------------------- E3
def e3_cases(ctx, n, stream, adversarial):
    import flowpaths as fp
    NE = fp.NodeExpandedDiGraph
    reqs = []; meta = []; fill_jobs = []

    def add(kind, req, impl, info, prop=None):
        reqs.append(req); meta.append((kind, impl, info, prop))

    for i in range(n):
        rng = ctx.rng(stream, i)
        G = rand_graph(rng, adversarial=adversarial)
        flow = "flow"; ln = rng.choice([None, None, "len"])
        nodes = list(G.nodes)
        starts = []; ends = []; tf = False
        r = rng.random()
        if r < 0.3:
            starts = [rng.choice(nodes) for _ in range(rng.randint(0, 2))]
            ends = [rng.choice(nodes) for _ in range(rng.randint(0, 2))]
            tf = rng.random() < 0.8
            if rng.random() < 0.15:
                (starts if rng.random() < 0.5 else ends).append("nope")
        ginfo = {"nodes": [[v, items(d)] for v, d in G.nodes(data=True)], "edges": [[u, v, items(d)] for u, v, d in G.edges(data=True)],
                 "len": ln, "starts": starts, "ends": ends, "try_fill": tf}
        # --- constructor (min-cost-flow filling stubbed: external engine)
        orig_fill = NE._try_filling_in_missing_flow_values
        NE._try_filling_in_missing_flow_values = lambda self: None
        try:
            Gc = copy.deepcopy(G)
            st, ne = impl_call(lambda: NE(Gc, flow, try_filling_in_missing_flow_attr=tf, node_length_attr=ln,
                                          additional_starts=list(starts), additional_ends=list(ends)))
        finally:
            NE._try_filling_in_missing_flow_values = orig_fill
        if st == "OK":
            gsrc, gsnk = ne.global_source_id, ne.global_sink_id
            impl = ("OK", [[v, items(d)] for v, d in ne.nodes(data=True)], [[(u, v), items(d)] for u, v, d in ne.edges(data=True)],
                    [tuple(e) for e in ne.edges_to_ignore])
        else:
            gsrc, gsnk = "source0", "sink0"
            impl = ("ERR", ne)
        add("construct", "ne_construct " + common.toks(w_graph(G), w_str(flow), w_ostr(ln), w_strs(starts), w_strs(ends), tf, w_str(gsrc), w_str(gsnk)),
            impl, ginfo, prop=(G, flow))
        ctx.dist(f"{stream}:n={G.number_of_nodes()}")
        if tf and st == "OK" and not adversarial:
            fill_case(ctx, rng, G, flow, ln, starts, ends, ginfo, fill_jobs)
        if st != "OK":
            continue
        if starts or ends or rng.random() < 0.5:
            # the remaining methods do not depend on the options; exercise them on about half of the plain graphs too
            pass
        wg = w_graph(G)
        edges = list(G.edges)
        # --- get_expanded_edge, starts, ends
        els = [rng.choice(nodes) for _ in range(2)] + ([rng.choice(edges)] if edges else []) + [rng.choice(["zz", ("zz", nodes[0]), (nodes[0], nodes[-1])])]
        for el in els:
            add("elem", "ne_elem " + common.toks(wg, w_elem(el)), impl_call(lambda: tuple(ne.get_expanded_edge(el))), {**ginfo, "elem": el})
        ls = [rng.choice(nodes + ["zz"] if rng.random() < 0.1 else nodes) for _ in range(rng.randint(0, 3))]
        add("starts", "ne_starts " + common.toks(wg, w_strs(ls)), impl_call(lambda: ne.get_expanded_additional_starts(ls)), {**ginfo, "list": ls})
        add("ends", "ne_ends " + common.toks(wg, w_strs(ls)), impl_call(lambda: ne.get_expanded_additional_ends(ls)), {**ginfo, "list": ls})
        # --- constraints
        routes = [rand_route(rng, G) for _ in range(3)]
        kind = rng.choice(["nodes", "edges", "edges", "empty", "firstempty", "badnode", "badedge"])
        if kind == "nodes" or (kind in ("edges", "badedge") and not edges):
            cons = [[v for v in r if rng.random() < 0.7] or [r[0]] for r in routes[:rng.randint(1, 3)]]
        elif kind == "edges":
            cons = []
            for r in routes[:rng.randint(1, 3)]:
                es = list(zip(r, r[1:]))
                c = [e for e in es if rng.random() < 0.7]
                cons.append(c if c else [rng.choice(edges)])
            if rng.random() < 0.2:
                cons.append([])
        elif kind == "empty":
            cons = []
        elif kind == "firstempty":
            cons = [[], [nodes[0]]]
        elif kind == "badnode":
            cons = [[nodes[0], "zz"]]
        else:
            cons = [[edges[0], (edges[0][1], "zz")]]
        add("cons", "ne_cons " + common.toks(wg, len(cons), [[len(c)] + [w_elem(e) for e in c] for c in cons]),
            impl_call(lambda: [[tuple(e) for e in c] for c in ne.get_expanded_subpath_constraints(cons)]), {**ginfo, "constraints": cons},
            prop=("cons", cons))
        # --- get_condensed_paths: true expansions (incl. empty and single-node paths) and damaged ones
        paths = [expand_names(r) for r in routes] + [[], expand_names([nodes[0]])]
        if starts:
            paths.append([gsrc + ".0", gsrc + ".1"] + expand_names(routes[0]))
        if ends:
            paths.append(expand_names(routes[0]) + [gsnk + ".0", gsnk + ".1"])
        add("condense", "ne_condense " + common.toks(wg, w_str(gsrc), w_str(gsnk), len(paths), [w_strs(p) for p in paths]),
            impl_call(lambda: ne.get_condensed_paths(paths)), {**ginfo, "paths": paths}, prop=("roundtrip", routes + [[], [nodes[0]]], len(routes) + 2))
        bad = [list(p) for p in paths[:3]]
        dmg = rng.choice(["odd", "suffix", "unknown", "swap", "single", "short"])
        b = bad[0]
        if dmg == "odd": b.append("x.0")
        elif dmg == "suffix" and b: b[0] = b[0][:-2] + ".1"
        elif dmg == "unknown" and b: b[0] = "zz.0"
        elif dmg == "swap" and len(b) >= 2: b[0], b[1] = b[1], b[0]
        elif dmg == "single": bad[0] = [nodes[0]]
        else: bad[0] = ["0", "q"]
        add("condense", "ne_condense " + common.toks(wg, w_str(gsrc), w_str(gsnk), len(bad), [w_strs(p) for p in bad]),
            impl_call(lambda: ne.get_condensed_paths(bad)), {**ginfo, "paths": bad, "damage": dmg})
        # --- get_condensed_graph on a copy with changed values on the expansion edges
        cg = copy.deepcopy(ne)
        for (u, v) in list(cg.edges):
            if rng.random() < 0.5:
                if flow in cg[u][v] or rng.random() < 0.2: cg[u][v][flow] = rng.randint(10, 19)
                if ln and rng.random() < 0.4: cg[u][v][ln] = rng.randint(10, 19)
        xe = [(u, v, d) for u, v, d in cg.edges(data=True)]
        def do_cg():
            H = cg.get_condensed_graph()
            return ([[v, items(d)] for v, d in H.nodes(data=True)], [[u, v, items(d)] for u, v, d in H.edges(data=True)])
        add("cgraph", "ne_cgraph " + common.toks(wg, len(xe), [[w_str(u), w_str(v), w_attrs(d)] for u, v, d in xe], w_str(flow), w_ostr(ln)),
            impl_call(do_cg), {**ginfo, "xedges": [[u, v, items(d)] for u, v, d in xe]}, prop=("cgraph", G))
        # --- glue: ignore list of the model classes (here: the list the constructor produced + user elements)
        ign_elems = [rng.choice(nodes) for _ in range(rng.randint(0, 2))]
        if rng.random() < 0.1: ign_elems.append("zz")
        if rng.random() < 0.1 and edges: ign_elems.append(edges[0])
        base = [tuple(e) for e in ne.edges_to_ignore]
        def do_ign():
            l = list(base)
            if not all(isinstance(x, str) for x in ign_elems):
                raise ValueError("elements_to_ignore must be a list of nodes")
            l += [ne.get_expanded_edge(x) for x in ign_elems]
            return l
        add("ignore", "ne_ignore " + common.toks(wg, w_edges(base), len(ign_elems), [w_elem(e) for e in ign_elems]),
            impl_call(do_ign), {**ginfo, "ignore": ign_elems})
        # --- glue: get_solution(remove_empty) of the k-models in node mode (condense, then _remove_empty_* as the code has it)
        internal = [expand_names(r) for r in routes] + [[], expand_names([nodes[0]])]
        rng.shuffle(internal)
        ws = [rng.randint(0, 9) for _ in internal]
        cname, rk, fn = rng.choice(GLUE)
        rm = rng.random() < 0.8
        def do_glue():
            cond = ne.get_condensed_paths(internal)
            sol = {"_%s_internal" % rk: [list(p) for p in internal], rk: cond, "weights": list(ws), "slacks": list(ws)}
            if rm:
                sol = getattr(getattr(fp, cname), fn)(None, sol)
            return [[list(p), w] for p, w in zip(sol[rk], sol["weights"])]
        add("glue_solution", "ne_nodesol " + common.toks(wg, w_str(gsrc), w_str(gsnk), len(internal), [w_strs(p) for p in internal], len(ws), ws, rm),
            impl_call(do_glue), {**ginfo, "class": cname, "internal": internal, "weights": ws, "remove_empty": rm},
            prop=("glue", internal, ws, rm))
    run_fill_jobs(ctx, fill_jobs)
    outs = ctx.model.run(reqs)
    for req, out, (kind, impl, info, prop) in zip(reqs, outs, meta):
        rd = Rd(out)
        eng = "E3_" + kind
        ctx.count(eng, "cases"); ctx.dist(f"{kind}:{impl[0] if impl[0] == 'OK' else impl[1]}")
        if not rd.ok:
            model = ("ERR", rd.err)
        elif kind == "construct":
            model = ("OK", rd.list(lambda: [rd.str(), rd.attrs()]), rd.list(lambda: [rd.edge(), rd.attrs()]), rd.list(rd.edge))
        elif kind == "elem":
            model = ("OK", rd.edge())
        elif kind in ("starts", "ends"):
            model = ("OK", rd.list(rd.str))
        elif kind == "cons":
            model = ("OK", rd.list(lambda: rd.list(rd.edge)))
        elif kind == "condense":
            model = ("OK", rd.list(lambda: rd.list(rd.str)))
        elif kind == "cgraph":
            model = ("OK", rd.list(lambda: [rd.str(), rd.attrs()]))
        elif kind == "ignore":
            model = ("OK", rd.list(rd.edge))
        elif kind == "glue_solution":
            model = ("OK", rd.list(lambda: [rd.list(rd.str), rd.int()]))
        impl_cmp = impl
        if kind == "cgraph" and impl[0] == "OK":
            impl_cmp = ("OK", impl[1][0])
        canon = [kind, req]
        nontriv = (impl[0] == "OK")
        ctx.case(canon, nontrivial=nontriv, sample={"kind": kind, "stream": stream, **{k: info[k] for k in info if k not in ("xedges",)}, "impl": impl_cmp if kind != "construct" else "(graph)"}
                 if ctx.evaluations % 97 == 0 else None)
        replay = {"kind": kind, "stream": stream, "info": info, "impl": impl_cmp, "model": model, "request": req}
        # the property evaluated directly on the implementation's output
        pv = None
        if impl[0] == "OK" and prop is not None:
            pv = direct_property(kind, impl, prop, info)
        if pv is not None:
            ctx.count(eng, "property_failures")
            ctx.report(f"{kind}: {pv}", replay, concrete=True)
            continue
        if json.dumps(impl_cmp, default=list) != json.dumps(model, default=list):
            ctx.count(eng, "disagreements")
            ctx.report(f"E3 correspondence broken: NodeExpandedDiGraph {kind} differs from NodeExp model (stream {stream})", replay, concrete=False)
        else:
            ctx.count(eng, "agreements")


def direct_property(kind, impl, prop, info):
    """C11 clauses that can be evaluated on the implementation's output alone."""
    if kind == "construct":
        G, flow = prop
        _, xn, xe, ign = impl
        names = [v for v, _ in xn]
        syn = 2 * ((1 if info["starts"] else 0) + (1 if info["ends"] else 0))
        if len(names) != 2 * G.number_of_nodes() + syn:
            return f"expanded graph has {len(names)} nodes for {G.number_of_nodes()} original nodes"
        ed = {e: dict(d) for e, d in xe}
        for v, d in G.nodes(data=True):
            e = (v + ".0", v + ".1")
            if e not in ed:
                return f"no expansion edge for node {v!r}"
            if flow in d:
                if ed[e].get(flow) != d[flow]:
                    return f"expansion edge of {v!r} does not carry the node's value"
                if e in ign:
                    return f"expansion edge of {v!r} (which has the attribute) is ignored"
            elif e not in ign:
                return f"node {v!r} lacks the attribute but its expansion edge is not in edges_to_ignore"
        for u, v in G.edges:
            e = (u + ".1", v + ".0")
            if e not in ed:
                return f"original edge {(u, v)} has no image"
            if e not in ign:
                return f"image of original edge {(u, v)} is not in edges_to_ignore"
        return None
    if kind == "condense" and prop[0] == "roundtrip":
        _, routes, n = prop
        got = impl[1]
        # the first len(routes)-2 .. entries of `paths` are the expansions of `routes` in this order
        k = len(routes) - 2
        want = routes[:k] + [[], routes[-1]]
        if got[:k + 2] != want:
            return f"condensing the expansion of {want} gave {got[:k + 2]}"
        for p in got:
            for v in p:
                if v.endswith(".0") and v[:-2] in p:   # cheap leak test; the exact test is the equality above
                    pass
        return None
    if kind == "cons":
        cons = prop[1]
        if cons and cons[0] and isinstance(cons[0][0], tuple):
            for c, x in zip(cons, impl[1]):
                if c and x[-1] != (c[-1][1] + ".0", c[-1][1] + ".1"):
                    return f"edge constraint {c} expanded without the trailing node: {x}"
                back = [(a[:-2], b[:-2]) for a, b in x if a.endswith(".1")]
                if back != [tuple(e) for e in c]:
                    return f"edge constraint {c} does not condense back: {x}"
        elif cons and cons[0]:
            for c, x in zip(cons, impl[1]):
                if [a[:-2] for a, b in x] != list(c) or any(a[:-2] != b[:-2] or not a.endswith(".0") or not b.endswith(".1") for a, b in x):
                    return f"node constraint {c} does not condense back: {x}"
        return None
    if kind == "glue_solution":
        _, internal, ws, rm = prop
        want = [[[x[:-2] for x in p[0::2]], w] for p, w in zip(internal, ws) if (len(p) > 1 or not rm)]
        if impl[1] != want:
            return f"node-mode solution (remove_empty={rm}) of internal routes {internal} with weights {ws} is {impl[1]}, expected {want}"
        return None
    if kind == "cgraph":
        G = prop[1]
        nodes, edges = impl[1]
        if [v for v, _ in nodes] != list(G.nodes) or [(u, v) for u, v, _ in edges] != list(G.edges):
            return "condensed graph is not on the original nodes/edges"
        return None
    return None



# ----------------------------------------------------------------------------- E2
CLASSES = {
    # name: (graph kind, has k, constraint kwarg, supports additional starts/ends, family, routes key)
    "kFlowDecomp":           ("dag", True,  "subpath_constraints", False, "fd",    "paths"),
    "MinFlowDecomp":         ("dag", False, "subpath_constraints", "fill", "fd",   "paths"),
    "kFlowDecompCycles":     ("cyc", True,  "subset_constraints",  True,  "fd",    "walks"),
    "MinFlowDecompCycles":   ("cyc", False, "subset_constraints",  True,  "fd",    "walks"),
    "kLeastAbsErrors":       ("dag", True,  "subpath_constraints", True,  "err",   "paths"),
    "kLeastAbsErrorsCycles": ("cyc", True,  "subset_constraints",  True,  "err",   "walks"),
    "kMinPathError":         ("dag", True,  "subpath_constraints", True,  "err",   "paths"),
    "kMinPathErrorCycles":   ("cyc", True,  "subset_constraints",  True,  "err",   "walks"),
    "kPathCover":            ("dag", True,  "subpath_constraints", True,  "cover", "paths"),
    "kPathCoverCycles":      ("cyc", True,  "subset_constraints",  True,  "cover", "walks"),
    "MinPathCover":          ("dag", False, "subpath_constraints", True,  "cover", "paths"),
    "MinPathCoverCycles":    ("cyc", False, "subset_constraints",  True,  "cover", "walks"),
    "MinErrorFlow":          ("any", False, None,                  True,  "mef",   None),
}
LEN_CLASSES = ("kFlowDecomp", "MinFlowDecomp", "kLeastAbsErrors", "kMinPathError", "kPathCover", "MinPathCover")   # have a length_attr parameter
REMOVE_EMPTY = {"kFlowDecomp": "remove_empty_paths", "kLeastAbsErrors": "remove_empty_paths", "kMinPathError": "remove_empty_paths",
                "kFlowDecompCycles": "remove_empty_walks", "kLeastAbsErrorsCycles": "remove_empty_walks", "kMinPathErrorCycles": "remove_empty_walks"}
KEY_COVER_LEN = "PathCover:node:length_attr_not_forwarded"
KEY_MFDC_STARTS = "MinFlowDecompCycles:node:additional_starts_ends:ValueError"


def node_instance(rng, cls, focus=False):
    """tiny node-weighted instance for class `cls`: graph, generating routes, kwargs"""
    kind, has_k, cons_kw, se, fam, rkey = CLASSES[cls]
    cyc = (kind == "cyc") or (kind == "any" and rng.random() < 0.4)
    r = rng.random()
    if r < 0.12:
        B = nx.DiGraph(); B.add_node("v0")            # single-node graph
        if cyc and rng.random() < 0.5: B.add_edge("v0", "v0")
    elif cyc:
        B = gen.rand_cyclic(rng, nmax=rng.choice([2, 3]))
    else:
        B = gen.rand_dag(rng, nmax=rng.choice([3, 4, 5]))
    B = nx.DiGraph(B)
    if rng.random() < 0.3:
        B.add_node("iso")                              # a node that is source and sink at once
    srcs = [v for v in B if B.in_degree(v) == 0]; snks = [v for v in B if B.out_degree(v) == 0]
    routes = []
    if srcs and snks:
        for _ in range(rng.randint(1, 2 if cyc else 3)):
            w = gen.rand_walk(rng, B, maxlen=5) if cyc else None
            if not cyc:
                ps = gen.all_st_paths(B)
                w = rng.choice(ps) if ps else None
            if w: routes.append(w)
    if "iso" in B and (rng.random() < 0.7 or not routes):
        routes.append(["iso"])
    starts = []; ends = []
    if se and routes and rng.random() < 0.3:
        base = rng.choice(routes)
        if len(base) >= 2:
            i = rng.randrange(1, len(base))
            if rng.random() < 0.5:
                starts = [base[i]]; routes.append(base[i:])
            else:
                ends = [base[i - 1]]; routes.append(base[:i])
    if not routes:                                      # e.g. a lone self-loop: no source / sink
        starts = [next(iter(B))]; ends = [next(iter(B))]
        routes = [[next(iter(B))]]
        if not se:
            return None
    ws = [rng.choice([1, 1, 2, 3] if cyc else gen2.WEIGHTS_INT) for _ in routes]
    flow = {v: 0 for v in B}
    for rt, w in zip(routes, ws):
        for v in rt: flow[v] += w
    order = list(B.nodes); rng.shuffle(order)
    G = nx.DiGraph()
    pmiss = rng.choice([0.0, 0.0, 0.15, 0.3])
    for v in order:
        d = {}
        if fam != "cover" and rng.random() >= pmiss:
            f = flow[v]
            if fam in ("err", "mef") and rng.random() < 0.35:
                f = max(0, f + rng.choice([-2, -1, 1, 2, 3]))
            d["flow"] = f
        G.add_node(v, **d)
    es = list(B.edges); rng.shuffle(es)
    pdecoy = 0.6 if rng.random() < 0.2 else 0.15      # decoy-heavy instances: most original edges carry a value under the weight attribute's name
    for u, v in es:
        d = {}
        if rng.random() < pdecoy: d["flow"] = rng.randint(0, 9)   # decoy on an original edge: copied to (u.1, v.0), must be ignored
        G.add_edge(u, v, **d)
    kw = {}
    if has_k:
        kw["k"] = max(1, len(routes) + rng.choice([0, 0, 0, 1, -1]))
        if cyc: kw["k"] = min(kw["k"], 3)              # the cyclic MILPs grow quickly with k; structure, not size, is the point
    cons = []
    use_len = cls in LEN_CLASSES and (focus or rng.random() < 0.5)
    cov_len = None
    if use_len:
        # node lengths (missing on some nodes -> default 1), now and then a length on an original edge (copied to (u.1, v.0))
        for v in G:
            if rng.random() < 0.85: G.nodes[v]["len"] = rng.randint(1, 4)
        for u, v in G.edges:
            if rng.random() < 0.1: G.edges[u, v]["len"] = rng.randint(1, 3)
        kw["length_attr"] = "len"
        if rng.random() < (0.8 if focus else 0.6):
            cov_len = rng.choice([1.0, 1.0, 0.75, 0.5] if focus else [0.5, 0.75, 1.0]); kw["subpath_constraints_coverage_length"] = cov_len
    if cons_kw and (rng.random() < 0.4 or cov_len is not None):
        rt = rng.choice(routes)
        if use_len and rng.random() < (0.85 if focus else 0.6) and not cyc:
            # a path of the graph that need not be a route of the flow: only partly coverable, so the coverage threshold bites
            allp = [q for q in gen.all_st_paths(B) if len(q) >= 2]
            if allp: rt = rng.choice(allp)
        if (rng.random() < ((0.1 if focus else 0.25) if cov_len is not None else 0.5)) or len(rt) < 2:
            n = rng.randint(1, min(3, len(rt))); a = rng.randrange(0, len(rt) - n + 1)
            cons = [rt[a:a + n]]
        else:
            es_ = list(zip(rt, rt[1:])); n = rng.randint(1, min(2, len(es_))); a = rng.randrange(0, len(es_) - n + 1)
            cons = [es_[a:a + n]]
        kw[cons_kw] = cons
    ign = [v for v in G if rng.random() < (0.03 if focus else 0.12)]
    if fam != "cover" and not any("flow" in d and v not in ign for v, d in G.nodes(data=True)):
        # the property (and the classes) need at least one weighted element that is not ignored
        v = rng.choice(list(G.nodes)); G.nodes[v]["flow"] = max(1, flow[v]); ign = [x for x in ign if x != v]
    scaling = {}
    if fam in ("err", "mef") and (focus or rng.random() < 0.5):
        scaling = {v: rng.choice([0, 0.5, 1, 0]) for v in G if rng.random() < (0.5 if focus else 0.35)}
        live = [v for v, d in G.nodes(data=True) if "flow" in d and v not in ign and scaling.get(v, 1) != 0]
        if not live:                                    # keep one weighted element that is neither ignored nor scaled to 0
            cand = [v for v, d in G.nodes(data=True) if "flow" in d and v not in ign]
            if cand: scaling.pop(rng.choice(cand), None)
        if scaling: kw["error_scaling"] = scaling
    if cls in ("kMinPathError", "kMinPathErrorCycles", "kLeastAbsErrorsCycles") and rng.random() < (0.6 if focus else 0.3):
        kw["k"] = None                                  # k defaults to the width of the internal graph
    if ign: kw["elements_to_ignore"] = ign
    if starts: kw["additional_starts"] = starts
    if ends: kw["additional_ends"] = ends
    if fam in ("fd", "err"):
        kw["weight_type"] = rng.choice([int, float])
    return {"G": G, "cyc": cyc, "routes": routes, "weights": ws, "kw": kw, "cons": cons, "ign": ign, "starts": starts, "ends": ends, "scaling": scaling}


def jsonable_kw(v):
    if isinstance(v, type):
        return v.__name__
    if isinstance(v, dict):                              # error_scaling: keys are nodes or (expanded) edges
        return [[list(k) if isinstance(k, tuple) else k, x] for k, x in v.items()]
    return v


def solve_obs(cls, G, kw, node_mode, want_remove_empty=False):
    """construct + solve; returns a dict of observations (no exception escapes)"""
    import flowpaths as fp
    kind, has_k, cons_kw, se, fam, rkey = CLASSES[cls]
    C = getattr(fp, cls)
    args = dict(kw); args["solver_options"] = dict(SO)
    if fam == "cover":
        args["cover_type"] = "node" if node_mode else "edge"
    else:
        args["flow_attr"] = "flow"; args["flow_attr_origin"] = "node" if node_mode else "edge"
    obs = {"exc": None, "solved": None}
    t0 = time.time()
    try:
        m = C(copy.deepcopy(G), **args)
        m.solve()
        obs["solved"] = bool(m.is_solved())
        obs["timeout"] = (not obs["solved"]) and (time.time() - t0 >= 0.5 * TIME_LIMIT)
        if obs["solved"]:
            sol = m.get_solution()
            if fam == "mef":
                obs["objective"] = float(sol["objective_value"]); obs["error"] = float(sol["error"]); obs["graph"] = sol["graph"]
            else:
                obs["routes"] = [list(r) for r in sol[rkey]]
                obs["n"] = len(obs["routes"])
                for key in ("weights", "slacks"):
                    if key in sol: obs[key] = list(sol[key])
                try:
                    obs["objective"] = float(m.get_objective_value())
                except Exception as e:
                    obs["objective_exc"] = type(e).__name__
                if want_remove_empty:
                    s0 = m.get_solution(**{REMOVE_EMPTY[cls]: False})
                    obs["full_routes"] = [list(r) for r in s0[rkey]]; obs["full_weights"] = list(s0["weights"])
                    s2 = m.get_solution(**{REMOVE_EMPTY[cls]: True})
                    obs["re_routes"] = [list(r) for r in s2[rkey]]; obs["re_weights"] = list(s2["weights"])
                    if "slacks" in s2: obs["re_slacks"] = list(s2["slacks"])
        obs["model"] = m
    except Exception as e:
        obs["exc"] = type(e).__name__ + ": " + str(e)[:120]
    return obs


def lp_of(m):
    """canonical LP held by a k-model (columns identified through the add_variables registry; the synthetic
    source/sink of the internal s-t graph are renamed so that two objects can be compared)"""
    reg = lpdump.registry_for(m.solver)
    src, snk = m.G.source, m.G.sink
    norm = lambda x: "<SRC>" if x == src else ("<SNK>" if x == snk else x)
    def key(c):
        pfx, i = reg[c]
        return (pfx, tuple(norm(y) for y in i) if isinstance(i, tuple) else (norm(i),))
    return lpdump.dump_impl(m.solver, key)


def mfdc_explicit(H, ekw, xstarts, xends):
    """MinFlowDecompCycles rejects additional starts/ends in edge mode; the explicit instance is solved by the
    same minimum search (width lower bound, then increasing k) over kFlowDecompCycles on the model's expansion"""
    import flowpaths as fp
    kw = dict(ekw); kw["additional_starts"] = list(xstarts); kw["additional_ends"] = list(xends)
    last = None
    try:                                                # the class starts its search at the width of the graph
        st = fp.stDiGraph(H, additional_starts=list(xstarts), additional_ends=list(xends))
        lb = max(1, st.get_width(edges_to_ignore=[tuple(e) for e in ekw.get("elements_to_ignore", [])] + list(st.source_sink_edges)))
    except Exception as e:
        return {"exc": type(e).__name__ + ": " + str(e)[:120], "solved": None}
    for k in range(lb, H.number_of_edges() + 2):
        kw["k"] = k
        last = solve_obs("kFlowDecompCycles", H, kw, False)
        if last["exc"] or last["solved"]:
            break
    if last and last.get("solved"):
        last.pop("objective", None)
    return last


def build_explicit(xn, xe):
    H = nx.DiGraph()
    for v, a in xn:
        H.add_node(v, **dict(a))
    for (u, v), a in xe:
        H.add_edge(u, v, **dict(a))
    return H


def e2_cases(ctx, per_class, classes=None, stream="e2"):
    reqs = []; cases = []; pending = []
    for cls in (classes or CLASSES):
        kind, has_k, cons_kw, se, fam, rkey = CLASSES[cls]
        for i in range(per_class):
            rng = ctx.rng(stream + ":" + cls, i)
            inst = node_instance(rng, cls, focus=(stream != "e2"))
            if inst is None:
                continue
            G = inst["G"]
            Gm = G
            if fam == "cover":                         # the cover classes give every node a dummy value before expanding
                Gm = copy.deepcopy(G)
                for v in Gm: Gm.nodes[v]["cov"] = 0
            flow = "cov" if fam == "cover" else "flow"
            fill = (se == "fill") and bool(inst["starts"] or inst["ends"])
            wg = w_graph(Gm)
            base = len(reqs)
            reqs.append("ne_construct " + common.toks(wg, w_str(flow), w_ostr(inst["kw"].get("length_attr")), w_strs(inst["starts"] if fill else []),
                                                       w_strs(inst["ends"] if fill else []), fill, w_str("SRC"), w_str("SNK")))
            reqs.append("ne_cons " + common.toks(wg, len(inst["cons"]), [[len(c)] + [w_elem(e) for e in c] for c in inst["cons"]]))
            reqs.append("ne_starts " + common.toks(wg, w_strs(inst["starts"])))
            reqs.append("ne_ends " + common.toks(wg, w_strs(inst["ends"])))
            for v in inst["scaling"]:                   # error_scaling keys are translated by the model's get_expanded_edge
                reqs.append("ne_elem " + common.toks(wg, w_elem(v)))
            cases.append((cls, i, inst, base))
    outs = ctx.model.run(reqs)
    # the user-ignored nodes are appended to the constructor's list by the model as well (second batch)
    reqs2 = []
    parsed = []
    for cls, i, inst, base in cases:
        rd = Rd(outs[base])
        if not rd.ok:
            parsed.append(None); reqs2.append("ne_exppath 0"); continue
        xn = rd.list(lambda: [rd.str(), rd.attrs()]); xe = rd.list(lambda: [rd.edge(), rd.attrs()]); ign = rd.list(rd.edge)
        rc = Rd(outs[base + 1]); rs = Rd(outs[base + 2]); re_ = Rd(outs[base + 3])
        if not (rc.ok and rs.ok and re_.ok):
            parsed.append(None); reqs2.append("ne_exppath 0"); continue
        xscale = {}
        for j, v in enumerate(inst["scaling"]):
            rv = Rd(outs[base + 4 + j])
            xscale[rv.edge() if rv.ok else None] = inst["scaling"][v]
        if None in xscale:
            parsed.append(None); reqs2.append("ne_exppath 0"); continue
        parsed.append((xn, xe, ign, rc.list(lambda: rc.list(rc.edge)), rs.list(rs.str), re_.list(re_.str), xscale))
        Gm = inst["G"]
        reqs2.append("ne_ignore " + common.toks(w_graph(Gm), w_edges(ign), len(inst["ign"]), [w_elem(e) for e in inst["ign"]]))
    outs2 = ctx.model.run(reqs2)
    for (cls, i, inst, base), pr, o2 in zip(cases, parsed, outs2):
        kind, has_k, cons_kw, se, fam, rkey = CLASSES[cls]
        G = inst["G"]; kw = inst["kw"]
        eng = "E2_" + cls
        info = {"class": cls, "case": i, "nodes": [[v, items(d)] for v, d in G.nodes(data=True)], "edges": [[u, v, items(d)] for u, v, d in G.edges(data=True)],
                "kwargs": {k: jsonable_kw(v) for k, v in kw.items()}, "gen_routes": inst["routes"], "gen_weights": inst["weights"]}
        if pr is None:
            ctx.report(f"model could not expand a valid instance for {cls}", info, concrete=False); continue
        xn, xe, ign0, xcons, xstarts, xends, xscale = pr
        r2 = Rd(o2)
        if not r2.ok:
            ctx.report(f"model could not expand the ignore list for {cls}", info, concrete=False); continue
        ign = r2.list(r2.edge)
        fill = (se == "fill") and bool(inst["starts"] or inst["ends"])
        t_case = time.time()
        lpdump.install(); lpdump.reset()
        nobs = solve_obs(cls, G, kw, True, want_remove_empty=cls in REMOVE_EMPTY)
        # ---- explicit instance from the MODEL's expansion, edge mode
        H = build_explicit(xn, xe)
        ekw = {k: v for k, v in kw.items() if k not in (cons_kw, "elements_to_ignore", "additional_starts", "additional_ends", "error_scaling")}
        if xscale: ekw["error_scaling"] = dict(xscale)
        if cons_kw and inst["cons"]: ekw[cons_kw] = [list(c) for c in xcons]
        ekw["elements_to_ignore"] = sorted(set(ign))
        if fill:
            # MinFlowDecomp(Cycles): the synthetic source/sink live inside the expansion, the missing values are filled by
            # networkx' min-cost flow (external engine): take them from the implementation's internal graph
            m = nobs.get("model")
            if m is not None and hasattr(m, "G_internal"):
                ren = {m.G_internal.global_source_id + ".0": "SRC.0", m.G_internal.global_source_id + ".1": "SRC.1",
                       m.G_internal.global_sink_id + ".0": "SNK.0", m.G_internal.global_sink_id + ".1": "SNK.1"}
                for u, v, d in m.G_internal.edges(data=True):
                    uu, vv = ren.get(u, u), ren.get(v, v)
                    if H.has_edge(uu, vv) and "flow" in d and "flow" not in H[uu][vv]:
                        H[uu][vv]["flow"] = d["flow"]
        else:
            if inst["starts"]: ekw["additional_starts"] = list(xstarts)
            if inst["ends"]: ekw["additional_ends"] = list(xends)
        if cls == "MinFlowDecompCycles" and (inst["starts"] or inst["ends"]):
            eobs = mfdc_explicit(H, ekw, xstarts if inst["starts"] else [], xends if inst["ends"] else [])
            nobs.pop("objective", None)
        else:
            eobs = solve_obs(cls, H, ekw, False, want_remove_empty=cls in REMOVE_EMPTY)
        info["explicit"] = {"nodes": [[v, items(dict(a))] for v, a in xn], "edges": [[u, v, items(dict(a))] for (u, v), a in xe],
                            "kwargs": {k: jsonable_kw(v) for k, v in ekw.items()}}
        summ = lambda o: {k: o.get(k) for k in ("exc", "solved", "n", "objective", "error", "routes", "weights", "slacks", "full_routes", "full_weights", "re_routes", "re_weights", "re_slacks") if k in o}
        info["node_mode"] = summ(nobs); info["edge_mode_on_expansion"] = summ(eobs)
        if os.environ.get("C11_TRACE"):
            import sys; print("E2", cls, i, round(time.time() - t_case, 2), file=sys.stderr, flush=True)
        ctx.count(eng, "cases")
        nontriv = bool(nobs.get("solved")) and (G.number_of_nodes() > 1)
        canon = [cls, info["nodes"], info["edges"], json.dumps(info["kwargs"], sort_keys=True, default=str)]
        ctx.case(canon, nontrivial=nontriv, sample=info if i == 0 else None)
        ctx.dist(f"e2:{cls}:{'solved' if nobs.get('solved') else ('exc' if nobs['exc'] else 'unsolved')}")
        nd_ = sum(1 for _, _, d in G.edges(data=True) if "flow" in d or "len" in d)
        if nd_:
            ctx.dist("e2:decoy values on original edges: " + ("all edges" if nd_ == G.number_of_edges() else "some edges"))
        if nobs.get("timeout") or eobs.get("timeout"):
            ctx.count(eng, "skipped_solver_time_limit"); continue
        lp_diff = None
        # ---- E3: the expansion the class builds for itself (G_internal: nodes, edges, attribute dicts incl. the lengths) vs the model's
        mi = nobs.get("model")
        case_key = None                                  # set when this very case shows the signature of an open finding
        if mi is not None and hasattr(mi, "G_internal") and hasattr(mi.G_internal, "edges_to_ignore") and not fill:
            dummy = getattr(mi.G_internal, "node_flow_attr", None) if fam == "cover" else None
            ren = lambda d: [("cov" if k == dummy else k, x) for k, x in d.items()]
            got_n = [[v, ren(d)] for v, d in mi.G_internal.nodes(data=True)]
            got_e = [[(u, v), ren(d)] for u, v, d in mi.G_internal.edges(data=True)]
            ctx.count("E3_class_internal_graph", "cases")
            lk = kw.get("length_attr")
            why = None
            if lk is not None:                          # the property-level reading: node lengths on node edges, 0 on connecting edges
                for (u, v), d in got_e:
                    dd = dict(d)
                    if u[:-2] == v[:-2] and u.endswith(".0") and v.endswith(".1"):
                        if dd.get(lk) != G.nodes[u[:-2]].get(lk):
                            why = f"node edge {(u, v)} does not carry the node's {lk!r}"
                    elif lk not in dd:
                        why = f"connecting edge {(u, v)} has no {lk!r} (defaults to 1 later) instead of 0"
            if json.dumps([got_n, got_e], default=list) != json.dumps([xn, xe], default=list) or why:
                ctx.count("E3_class_internal_graph", "disagreements")
                key = KEY_COVER_LEN if (fam == "cover" and lk is not None and why and "connecting edge" in why) else None
                if key and kw.get("subpath_constraints_coverage_length") is not None and any(isinstance(e, tuple) for c in inst["cons"] for e in c):
                    case_key = key                       # lengths of connecting edges enter the coverage of an edge-type constraint
                pending.append((cls, "E3 correspondence broken: the node expansion built by " + cls + " differs from the NodeExp model"
                                + (": " + why if why else ""), {**info, "internal_edges": got_e[:40], "model_edges": xe[:40]}, key))
            else:
                ctx.count("E3_class_internal_graph", "agreements")
        # ---- E1 (LP against LP): node mode must hand HiGHS the same LP as edge mode on the model's expansion
        mn, me = nobs.get("model"), eobs.get("model")
        if has_k and mn is not None and me is not None and hasattr(mn, "solver") and hasattr(me, "solver") and type(mn) is type(me):
            try:
                d = lpdump.diff(lp_of(mn), lp_of(me))
            except Exception as e:
                d = ["could not read the LPs back: " + repr(e)]
            ctx.count("E1_lp_node_vs_expansion", "cases")
            if d:
                ctx.count("E1_lp_node_vs_expansion", "differences"); lp_diff = d[:8]
            else:
                ctx.count("E1_lp_node_vs_expansion", "equal")
        issues = e2_compare(cls, G, inst, nobs, eobs)
        if issues == ["both_raise"]:
            ctx.count(eng, "both_modes_raise_same_exception"); ctx.dist("e2:both_raise:" + nobs["exc"].split(":")[0])
        elif issues:
            issues = [(w, k or case_key) for w, k in issues]
            allknown = all(key and ctx.open_finding(key) for _, key in issues)
            ctx.count(eng, "agree_up_to_known_finding" if allknown else "failures")
            for what, key in issues:
                ctx.report(f"{cls} node mode vs explicit expansion: {what}", info, key=key, concrete=True)
        else:
            ctx.count(eng, "agreements")
        if lp_diff:
            pending.append((cls, f"E1 correspondence broken: {cls} in node mode hands HiGHS a different LP than edge mode on the model's expansion: "
                            + "; ".join(lp_diff[:3]), {**info, "lp_diff": lp_diff}, case_key))
    # a broken correspondence: search the same classes harder for an input on which the property itself fails
    fresh = [x for x in pending if not (x[3] and ctx.open_finding(x[3]))]
    if fresh and stream == "e2" and not any(v["concrete"] for v in ctx.violations):
        e2_cases(ctx, 8 * per_class, classes=sorted({x[0] for x in fresh}), stream="e2search")
    for cls, what, info, key in pending:
        if key or not any(v["concrete"] for v in ctx.violations):
            ctx.report(what, info, key=key, concrete=False)


def close(a, b, tol=1e-6):
    return abs(a - b) <= tol * max(1.0, abs(a), abs(b))


def e2_compare(cls, G, inst, nobs, eobs):
    issues = []
    _e2_compare(cls, G, inst, nobs, eobs, issues)
    return issues


def _e2_compare(cls, G, inst, nobs, eobs, issues):
    kind, has_k, cons_kw, se, fam, rkey = CLASSES[cls]
    if nobs["exc"] or eobs["exc"]:
        tn = (nobs["exc"] or "").split(":")[0]; te = (eobs["exc"] or "").split(":")[0]
        if tn != te:
            key = None
            if cls == "MinFlowDecompCycles" and (inst["starts"] or inst["ends"]) and tn == "ValueError" and "try_filling_in_missing_flow_attr" in nobs["exc"]:
                key = KEY_MFDC_STARTS
            issues.append((f"node mode raised {nobs['exc']!r}, explicit expansion raised {eobs['exc']!r}", key)); return
        issues.append("both_raise"); return
    if nobs["solved"] != eobs["solved"]:
        issues.append((f"solved status differs: node mode {nobs['solved']}, explicit expansion {eobs['solved']}", None)); return
    if not nobs["solved"]:
        return
    if fam == "mef":
        if not close(nobs["error"], eobs["error"]) or not close(nobs["objective"], eobs["objective"]):
            issues.append((f"objective differs: node mode error {nobs['error']}, explicit {eobs['error']}", None)); return
        Hn = nobs["graph"]
        if list(Hn.nodes) != list(G.nodes) or list(Hn.edges) != list(G.edges):
            issues.append(("corrected graph is not expressed on the caller's nodes/edges", None)); return
        return
    for key in ("weights", "slacks"):
        if key in nobs and len(nobs[key]) != nobs["n"]:
            issues.append((f"{key} has {len(nobs[key])} entries for {nobs['n']} routes", None)); return
    if nobs["n"] != eobs["n"]:
        issues.append((f"number of routes of get_solution() differs: node mode {nobs['n']}, explicit expansion {eobs['n']}", None)); return
    if ("objective" in nobs) != ("objective" in eobs) or ("objective" in nobs and not close(nobs["objective"], eobs["objective"])):
        issues.append((f"objective differs: node mode {nobs.get('objective')}, explicit expansion {eobs.get('objective')}", None)); return
    for rs in ("routes", "full_routes", "re_routes"):
        for r in nobs.get(rs, []):
            if rs == "full_routes" and not r:
                continue                                 # unused layer of the unfiltered solution
            why = props.valid_route(G, r, starts=inst["starts"], ends=inst["ends"], simple=(kind == "dag"))
            if why:
                issues.append((f"route {r} is not a route of the caller's graph in the caller's names: {why}", None)); return
    if fam == "fd":
        ign = set(inst["ign"])
        R, W = (nobs["full_routes"], nobs["full_weights"]) if "full_routes" in nobs else (nobs["routes"], nobs["weights"])
        for v, d in G.nodes(data=True):
            if "flow" in d and v not in ign:
                got = sum(w * r.count(v) for r, w in zip(R, W))
                if not close(float(got), float(d["flow"])):
                    issues.append((f"node {v!r}: routes explain {got}, value is {d['flow']}", None)); return
    if "re_routes" in nobs:
        if len(nobs["full_routes"]) != len(eobs["full_routes"]):
            issues.append((f"unfiltered solution has {len(nobs['full_routes'])} routes in node mode, {len(eobs['full_routes'])} on the explicit expansion", None)); return
        for key in ("re_weights", "re_slacks"):
            if key in nobs and len(nobs[key]) != len(nobs["re_routes"]):
                issues.append((f"{key} has {len(nobs[key])} entries for {len(nobs['re_routes'])} routes", None)); return
        if len(nobs["re_routes"]) != len(eobs["re_routes"]):
            issues.append((f"get_solution({REMOVE_EMPTY[cls]}=True) keeps {len(nobs['re_routes'])} routes in node mode but {len(eobs['re_routes'])} on the "
                           f"explicit expansion", None))
    return


def run(ctx):
    ctx.rule = ("E3 case = one call of the constructor / get_expanded_* / get_condensed_paths / get_condensed_graph / ignore glue on a random "
                "node-weighted DAG or cyclic digraph (1-8 nodes; nodes without the attribute, isolated and single nodes, length attribute, "
                "additional starts/ends; adversarial stream: names with dots, ending in .0/.1, empty name); non-trivial = the call succeeds; "
                "E2 case = one model class solved in node mode and on the model's explicit expansion; distinct by request text")
    e3_cases(ctx, ctx.budget(400, 6000), "plain", False)
    e3_cases(ctx, ctx.budget(250, 3000), "adversarial", True)
    e3_fill_stream(ctx, ctx.budget(300, 6000))
    e2_cases(ctx, ctx.budget(int(os.environ.get("C11_E2_PER_CLASS", "30")), 600))


# ----------------------------------------------------------------------------- E3: _try_filling_in_missing_flow_values
KEY_FILL_DECOY = "fill:edge_decoy_constrains_filling"


def _probe_extension(G, flow):
    """independent feasibility probe (lower-bound circulation -> max-flow, networkx.maximum_flow; NOT trusted: whatever it
    finds is handed to the verified checker).  Returns (x, y) or None."""
    big = sum(d[flow] for _, d in G.nodes(data=True) if flow in d) + 1
    arcs = []                                            # (a, b, lower, upper)
    for v, d in G.nodes(data=True):
        if flow in d: arcs.append((("n", v, 0), ("n", v, 1), d[flow], d[flow]))
        else: arcs.append((("n", v, 0), ("n", v, 1), 0, big))
        if G.in_degree(v) == 0: arcs.append(("S", ("n", v, 0), 0, big))
        if G.out_degree(v) == 0: arcs.append((("n", v, 1), "T", 0, big))
    for u, v in G.edges:
        arcs.append((("n", u, 1), ("n", v, 0), 0, big))
    arcs.append(("T", "S", 0, big * (G.number_of_nodes() + 1)))
    H = nx.DiGraph(); exc = {}
    for a, b, l, u in arcs:
        H.add_edge(a, b, capacity=u - l)
        exc[b] = exc.get(b, 0) + l; exc[a] = exc.get(a, 0) - l
    need = 0
    for n_, e in exc.items():
        if e > 0: H.add_edge("SS", n_, capacity=e); need += e
        elif e < 0: H.add_edge(n_, "TT", capacity=-e)
    if need == 0:
        fl = {a: {b: 0 for b in H[a]} for a in H}
    else:
        val, fl = nx.maximum_flow(H, "SS", "TT")
        if val != need:
            return None
    low = {(a, b): l for a, b, l, u in arcs}
    x = {v: low[(("n", v, 0), ("n", v, 1))] + fl[("n", v, 0)][("n", v, 1)] for v in G.nodes}
    y = {(u, v): fl[("n", u, 1)][("n", v, 0)] for u, v in G.edges}
    return x, y


def fill_request(G, ids, given, x, y):
    return "fill_check " + common.toks(len(ids), [ids[v] for v in G.nodes], G.number_of_edges(), [[ids[u], ids[v]] for u, v in G.edges],
                                       len(given), [[ids[v]] + common.qtok(q) for v, q in given.items()],
                                       len(x), [[ids[v]] + common.qtok(q) for v, q in x.items()],
                                       len(y), [[ids[u], ids[v]] + common.qtok(q) for (u, v), q in y.items()])


def fill_case(ctx, rng, G, flow, ln, starts, ends, info, jobs):
    """runs the REAL constructor with try_filling_in_missing_flow_attr=True (min_cost_flow tapped from outside) next to a stubbed one;
    queues the verified checker on what was filled.  jobs: list of (request, expectation, what, replay, key)."""
    import flowpaths as fp
    import flowpaths.nodeexpandeddigraph as nedmod
    NE = fp.NodeExpandedDiGraph
    orig_fill = NE._try_filling_in_missing_flow_values
    NE._try_filling_in_missing_flow_values = lambda self: None
    try:
        st0, ne0 = impl_call(lambda: NE(copy.deepcopy(G), flow, try_filling_in_missing_flow_attr=True, node_length_attr=ln,
                                        additional_starts=list(starts), additional_ends=list(ends)))
    finally:
        NE._try_filling_in_missing_flow_values = orig_fill
    tap = []
    orig_mcf = nedmod.gu.min_cost_flow
    def tapped(*a, **k):
        r = orig_mcf(*a, **k); tap.append(r); return r
    nedmod.gu.min_cost_flow = tapped
    try:
        st1, ne1 = impl_call(lambda: NE(copy.deepcopy(G), flow, try_filling_in_missing_flow_attr=True, node_length_attr=ln,
                                        additional_starts=list(starts), additional_ends=list(ends)))
    finally:
        nedmod.gu.min_cost_flow = orig_mcf
    ctx.count("E3_fill", "cases")
    rep = {**info, "kind": "fill"}
    if st0 != "OK" or st1 != "OK":
        if (st0, ne0) != (st1, ne1):
            ctx.report(f"fill: constructor outcome depends on the filling step: {ne0} vs {ne1}", rep, concrete=False)
        ctx.count("E3_fill", "constructor_raises"); return
    if len(tap) != 1:
        ctx.report(f"fill: min_cost_flow called {len(tap)} times", rep, concrete=False); return
    fdict = tap[0][1]
    ren = {ne1.global_source_id: ne0.global_source_id, ne1.global_sink_id: ne0.global_sink_id}
    rn = lambda a: next((ren[k] + a[len(k):] for k in ren if a.startswith(k + ".")), a)
    e0 = {(u, v): items(d) for u, v, d in ne0.edges(data=True)}
    e1 = {(rn(u), rn(v)): (items(d), (u, v)) for u, v, d in ne1.edges(data=True)}
    if list(e0) != list(e1) or [rn(v) for v in ne1.nodes] != list(ne0.nodes):
        ctx.report("fill: the filling step changed the nodes/edges of the expanded graph", rep, concrete=True); return
    filled_any = False
    for e, a0 in e0.items():
        a1, (u1, v1) = e1[e]
        if a1 == a0:
            if fdict is not None and flow not in dict(a0):
                ctx.report(f"fill: a flow was found but edge {e} was not filled", rep, concrete=True); return
            continue
        if fdict is None or flow in dict(a0) or a1[:-1] != a0 or a1[-1][0] != flow:
            ctx.report(f"fill: edge {e} changed from {a0} to {a1} (flow dict: {None if fdict is None else fdict[u1].get(v1)})", rep, concrete=True); return
        if a1[-1][1] != fdict[u1][v1]:                   # not the library's own flow value: reported, and the checker below judges the written values
            ctx.report(f"fill: edge {e} received {a1[-1][1]}, the flow found by min_cost_flow is {fdict[u1][v1]}", rep, concrete=True)
        filled_any = True
    ids = {v: j for j, v in enumerate(G.nodes)}
    given = {v: d[flow] for v, d in G.nodes(data=True) if flow in d}
    decoy = any(flow in d for _, _, d in G.edges(data=True))
    if fdict is not None:
        ctx.count("E3_fill", "library_filled")
        x = {v: ne1.edges[v + ".0", v + ".1"][flow] for v in G.nodes}
        y = {(u, v): fdict[u + ".1"][v + ".0"] for u, v in G.edges}        # the certificate: the library's own edge flow (tapped)
        rep2 = {**rep, "given": given, "filled": x, "connecting": {f"{u}->{v}": q for (u, v), q in y.items()}}
        jobs.append((fill_request(G, ids, given, x, y), "OK 1", "fill: the values written by _try_filling_in_missing_flow_values are rejected by the "
                     "verified checker (not a node flow extending the given values)", rep2, None, True))
        # mutation self-test of the checker: a filled value changed by 1 must be rejected (where the node is constrained at all)
        cand = [v for v in G.nodes if G.in_degree(v) + G.out_degree(v) > 0 or v in given]
        if cand:
            v = rng.choice(cand); xm = dict(x); xm[v] = xm[v] + 1
            jobs.append((fill_request(G, ids, given, xm, y), "OK 0", "fill: checker self-test failed: a filled value changed by 1 was accepted", rep2, None, False))
    else:
        ctx.count("E3_fill", "library_filled_nothing")
        pr = _probe_extension(G, flow)
        if pr is None:
            ctx.count("E3_fill", "no_extension_found_by_probe")
        else:
            x, y = pr
            rep2 = {**rep, "given": given, "extension": x, "connecting": {f"{u}->{v}": q for (u, v), q in y.items()}}
            jobs.append((fill_request(G, ids, given, x, y), "OK 0", "fill: the library filled nothing although a node flow extending the given values exists "
                         "(accepted by the verified checker)", rep2, KEY_FILL_DECOY if decoy else None, True))


def run_fill_jobs(ctx, jobs):
    outs = ctx.model.run([j[0] for j in jobs])
    for (req, want, what, rep, key, concrete), out in zip(jobs, outs):
        if want == "OK 1":
            ctx.count("E3_fill", "checker_accepts_filling" if out == want else "checker_REJECTS_filling")
        elif "self-test" in what:
            ctx.count("E3_fill", "mutant_rejected" if out == want else "mutant_ACCEPTED")
        else:
            ctx.count("E3_fill", "probe_extension_rejected_by_checker" if out == want else "library_failed_but_extension_exists")
        if out != want:
            ctx.report(what, {**rep, "request": req, "checker": out}, key=key, concrete=concrete)


def e3_fill_stream(ctx, n):
    """dedicated stream: node weights from a superposition of routes (so an extension exists), values removed from some nodes,
    now and then one value perturbed (usually no extension), additional starts/ends, decoys on edges"""
    jobs = []
    for i in range(n):
        rng = ctx.rng("fill", i)
        inst = node_instance(rng, rng.choice(["MinFlowDecomp", "MinFlowDecompCycles"]))
        if inst is None:
            continue
        G = inst["G"]
        for v in G.nodes:
            if "flow" in G.nodes[v] and rng.random() < 0.25: del G.nodes[v]["flow"]
        if rng.random() < 0.3:
            w = [v for v in G.nodes if "flow" in G.nodes[v]]
            if w: G.nodes[rng.choice(w)]["flow"] += rng.choice([1, 2, -1]) if G.nodes[w[0]]["flow"] > 0 else 1
        for v in G.nodes:
            if "flow" in G.nodes[v] and G.nodes[v]["flow"] < 0: G.nodes[v]["flow"] = 0
        info = {"nodes": [[v, items(d)] for v, d in G.nodes(data=True)], "edges": [[u, v, items(d)] for u, v, d in G.edges(data=True)],
                "len": None, "starts": inst["starts"], "ends": inst["ends"], "try_fill": True}
        ctx.case(["fill", info["nodes"], info["edges"], inst["starts"], inst["ends"]], nontrivial=G.number_of_edges() > 0, sample=info if i < 2 else None)
        fill_case(ctx, rng, G, "flow", None, inst["starts"], inst["ends"], info, jobs)
    run_fill_jobs(ctx, jobs)



# ----------------------------------------------------------------------------- replay
def _graph_from(nodes, edges):
    G = nx.DiGraph()
    for v, a in nodes:
        G.add_node(v, **{k: x for k, x in a})
    for u, v, a in edges:
        G.add_edge(u, v, **{k: x for k, x in a})
    return G


def replay(ctx, body):
    """Re-executes a recorded observation against the working tree; True = still failing."""
    import flowpaths as fp
    if "class" in body:                                  # an E2 case: node mode vs the recorded explicit instance
        cls = body["class"]; kind, has_k, cons_kw, se, fam, rkey = CLASSES[cls]
        G = _graph_from(body["nodes"], body["edges"])
        H = _graph_from(body["explicit"]["nodes"], body["explicit"]["edges"])
        fix = lambda kw: {k: ({"int": int, "float": float}[v] if k == "weight_type" else
                              ([[tuple(e) if isinstance(e, list) else e for e in c] for c in v] if k == cons_kw else
                               ([tuple(e) if isinstance(e, list) else e for e in v] if k == "elements_to_ignore" else
                                ({(tuple(a) if isinstance(a, list) else a): x for a, x in v} if k == "error_scaling" else v))))
                          for k, v in kw.items()}
        kw = fix(body["kwargs"]); ekw = fix(body["explicit"]["kwargs"])
        inst = {"starts": kw.get("additional_starts", []), "ends": kw.get("additional_ends", []), "ign": kw.get("elements_to_ignore", [])}
        nobs = solve_obs(cls, G, kw, True, want_remove_empty=cls in REMOVE_EMPTY)
        if cls == "MinFlowDecompCycles" and (inst["starts"] or inst["ends"]):
            eobs = mfdc_explicit(H, {k: v for k, v in ekw.items() if k not in ("additional_starts", "additional_ends")},
                                 ekw.get("additional_starts", []), ekw.get("additional_ends", []))
            nobs.pop("objective", None)
        else:
            eobs = solve_obs(cls, H, ekw, False, want_remove_empty=cls in REMOVE_EMPTY)
        issues = [x for x in e2_compare(cls, G, inst, nobs, eobs) if x != "both_raise"]
        for what, key in issues:
            print("now:", what, "(key %s)" % key if key else "")
        return bool(issues)
    if "kind" in body:                                   # an E3 case: call the method again, compare with the recorded model answer
        info = body["info"]; kind = body["kind"]
        G = _graph_from(info["nodes"], info["edges"])
        NE = fp.NodeExpandedDiGraph
        orig_fill = NE._try_filling_in_missing_flow_values
        NE._try_filling_in_missing_flow_values = lambda self: None
        try:
            st, ne = impl_call(lambda: NE(copy.deepcopy(G), "flow", try_filling_in_missing_flow_attr=info["try_fill"], node_length_attr=info["len"],
                                          additional_starts=list(info["starts"]), additional_ends=list(info["ends"])))
        finally:
            NE._try_filling_in_missing_flow_values = orig_fill
        if kind == "construct":
            now = ("OK", [[v, items(d)] for v, d in ne.nodes(data=True)], [[(u, v), items(d)] for u, v, d in ne.edges(data=True)],
                   [tuple(e) for e in ne.edges_to_ignore]) if st == "OK" else ("ERR", ne)
        elif st != "OK":
            print("constructor fails now:", ne); return True
        elif kind == "cons":
            cons = [[tuple(e) if isinstance(e, list) else e for e in c] for c in info["constraints"]]
            now = impl_call(lambda: [[tuple(e) for e in c] for c in ne.get_expanded_subpath_constraints(cons)])
        elif kind == "condense":
            now = impl_call(lambda: ne.get_condensed_paths(info["paths"]))
        elif kind == "elem":
            el = tuple(info["elem"]) if isinstance(info["elem"], list) else info["elem"]
            now = impl_call(lambda: tuple(ne.get_expanded_edge(el)))
        elif kind in ("starts", "ends"):
            f = ne.get_expanded_additional_starts if kind == "starts" else ne.get_expanded_additional_ends
            now = impl_call(lambda: f(info["list"]))
        else:
            print("replay of kind", kind, "not supported; recorded:", json.dumps(body["impl"], default=list)[:400]); return False
        same = json.dumps(now, default=list) == json.dumps(body["model"], default=list)
        print("implementation now:", json.dumps(now, default=list)[:600]); print("model:", json.dumps(body["model"], default=list)[:600])
        return not same
    print(json.dumps(body, default=str)[:1000])
    return False
