"""Verified checkers (coq/theories/Checkers.v, correctness in CheckersProofs.v / Props) run on the
implementation's answers.  The engine enqueues checks together with the verdict of the plain Python
evaluation (props.py); `flush` runs the extracted checkers in one batch: a negative verified verdict is a
concrete failing input, a disagreement between the two evaluations is reported as a harness defect."""
import common


class Batch:
    def __init__(self, ctx):
        self.ctx = ctx; self.items = []

    @staticmethod
    def ids_for(G, extra=()):
        ids = {v: i for i, v in enumerate(G.nodes())}
        for x in extra:
            ids.setdefault(x, len(ids))
        return ids

    def route(self, G, route, starts, ends, simple, py_ok, what, replay, key=None):
        ids = self.ids_for(G, route)
        t = [G.number_of_nodes(), [ids[v] for v in G.nodes()], G.number_of_edges(), [[ids[u], ids[v]] for u, v in G.edges()],
             len(starts), [ids[v] for v in starts], len(ends), [ids[v] for v in ends], bool(simple), len(route), [ids[v] for v in route]]
        self.items.append(("vroute " + common.toks(t), py_ok, what, replay, key, "E2v_valid_route"))

    def explains(self, G, attr, routes, weights, ignore, py_ok, what, replay, key=None):
        ids = self.ids_for(G, [v for r in routes for v in r])
        es = [(u, v, d[attr]) for u, v, d in G.edges(data=True) if attr in d]
        t = [len(es), [[ids[u], ids[v]] + common.qtok(f) for u, v, f in es], len(ignore), [[ids[u], ids[v]] for u, v in ignore],
             len(routes), [[len(r), [ids[v] for v in r]] + common.qtok(w) for r, w in zip(routes, weights)]]
        self.items.append(("vexplains " + common.toks(t), py_ok, what, replay, key, "E2v_explains_flow"))

    def covers(self, G, routes, ignore, py_ok, what, replay, key=None):
        ids = self.ids_for(G, [v for r in routes for v in r])
        t = [G.number_of_edges(), [[ids[u], ids[v]] for u, v in G.edges()], len(ignore), [[ids[u], ids[v]] for u, v in ignore],
             len(routes), [[len(r), [ids[v] for v in r]] for r in routes]]
        self.items.append(("vcovers " + common.toks(t), py_ok, what, replay, key, "E2v_covers"))

    def constraint(self, G, c, routes, py_ok, what, replay, key=None):
        ids = self.ids_for(G, [v for r in routes for v in r] + [x for e in c for x in e])
        t = [len(c), [[ids[u], ids[v]] for u, v in c], len(routes), [[len(r), [ids[v] for v in r]] for r in routes]]
        self.items.append(("vcons " + common.toks(t), py_ok, what, replay, key, "E2v_constraint"))

    def flush(self):
        if not self.items:
            return
        outs = self.ctx.model.run([it[0] for it in self.items])
        for (req, py_ok, what, replay, key, eng), out in zip(self.items, outs):
            ok = out.strip() == "1"
            self.ctx.count(eng, "verified_checks")
            if ok != py_ok:
                self.ctx.report(f"harness defect: verified checker says {ok}, Python evaluation says {py_ok}: {what}",
                                {"request": req[:600], "replay": replay}, concrete=False)
            if not ok and py_ok:
                continue
            if not ok:
                self.ctx.report(what, replay, key=key, concrete=True)
        self.items = []
