"""SEARCH / ORACLE SIDE (plain Python, not verified): exhaustive search for decompositions of a flow on a
tiny digraph with cycles into k weighted source-to-sink walks.

A walk is represented by its multiplicity vector x over the edges of the caller's graph plus a start (an
in-degree-0 node) and an end (an out-degree-0 node); such a vector is the edge multiset of some walk iff it
is balanced (in + [v = start] = out + [v = end] at every node) and its support together with the start is
weakly connected (Euler).  Every decomposition the search exhibits is returned explicitly (vectors,
weights) and is re-checked by the caller against the property statement, so a wrong "there is a smaller
decomposition" cannot come from a bug here; a missed decomposition can only make a check weaker.

Domains:
  * integer weights: weights 0..max f (0 only useful for covering subset constraints), x(e) <= f(e).  For
    weights >= 1 this bound is exact (w * x(e) <= f(e)), so the integer search is exhaustive.
  * real weights: x(e) <= xbound(e) given by the caller; for k linearly independent vectors the weights are
    the unique solution of the linear system (solved over Fraction).  A minimum-size decomposition always
    consists of linearly independent vectors (otherwise move along a null direction until a weight hits 0).
    `cap`, `wmax`, `nbits`: optional restrictions of the FAITHFUL model (x(e) <= cap(e), x(e) < 2^nbits,
    w <= wmax) used to decide whether an observed difference is an instance of a known finding."""
import itertools
from fractions import Fraction as F


def candidates(G, bound):
    """all balanced connected multiplicity vectors x (dict edge -> int, zeros omitted) with x(e) <= bound[e]"""
    es = list(G.edges())
    srcs = [v for v in G if G.in_degree(v) == 0]
    snks = [v for v in G if G.out_degree(v) == 0]
    out = []
    ranges = [range(0, int(bound[e]) + 1) for e in es]
    for xs in itertools.product(*ranges):
        if not any(xs):
            continue
        bal = {}
        for (u, v), m in zip(es, xs):
            if m:
                bal[u] = bal.get(u, 0) + m
                bal[v] = bal.get(v, 0) - m
        nz = {v: b for v, b in bal.items() if b}
        if len(nz) != 2:
            continue
        (a, ba), (b, bb) = nz.items()
        if ba == 1 and bb == -1:
            s, t = a, b
        elif ba == -1 and bb == 1:
            s, t = b, a
        else:
            continue
        if s not in srcs or t not in snks:
            continue
        # connectivity of the support (weak) containing s
        sup = [e for e, m in zip(es, xs) if m]
        comp = {s}; changed = True
        while changed:
            changed = False
            for (u, v) in sup:
                if (u in comp) != (v in comp):
                    comp |= {u, v}; changed = True
        if any(u not in comp for (u, v) in sup):
            continue
        out.append({e: m for e, m in zip(es, xs) if m})
    return out


def covers_constraints(xs, cons, cov):
    for c in cons or []:
        cs = set(c)
        need = len(cs) * cov - 1e-9
        if not any(sum(1 for e in cs if x.get(e, 0) > 0) >= need for x in xs):
            return False
    return True


def exists_int(G, flow, k, cons=(), cov=1.0, cands=None):
    """decomposition into exactly k walks with integer weights >= 0 (x(e) <= f(e)); returns (vectors, weights) or None"""
    es = list(G.edges())
    cands = candidates(G, flow) if cands is None else cands
    maxf = max(flow.values())
    need_zero = bool(cons)

    def rec(start, resid, chosen, ws):
        if len(chosen) == k:
            if all(v == 0 for v in resid.values()) and covers_constraints(chosen, cons, cov):
                return (list(chosen), list(ws))
            return None
        for idx in range(start, len(cands)):
            x = cands[idx]
            wcap = min(resid[e] // m for e, m in x.items())
            lo = 0 if need_zero else 1
            for w in range(min(wcap, maxf), lo - 1, -1):
                r2 = dict(resid)
                for e, m in x.items():
                    r2[e] -= w * m
                got = rec(idx, r2, chosen + [x], ws + [w])
                if got:
                    return got
        return None
    return rec(0, {e: int(flow[e]) for e in es}, [], [])


def _solve_unique(rows, k):
    """rows: list of ([a_1..a_k], b) over Fraction; returns the unique solution or None (singular / inconsistent)"""
    M = [list(map(F, a)) + [F(b)] for a, b in rows]
    piv = []
    r = 0
    for c in range(k):
        p = next((i for i in range(r, len(M)) if M[i][c] != 0), None)
        if p is None:
            return None
        M[r], M[p] = M[p], M[r]
        pv = M[r][c]
        M[r] = [z / pv for z in M[r]]
        for i in range(len(M)):
            if i != r and M[i][c] != 0:
                f = M[i][c]
                M[i] = [zi - f * zr for zi, zr in zip(M[i], M[r])]
        piv.append(c); r += 1
    for i in range(r, len(M)):
        if M[i][k] != 0:
            return None
    return [M[i][k] for i in range(k)]


def exists_real(G, flow, k, xbound, cons=(), cov=1.0, wmax=None, cands=None):
    """decomposition into exactly k walks with real weights > 0 (and <= wmax if given), x(e) <= xbound[e];
    returns (vectors, weights as Fractions) or None"""
    es = list(G.edges())
    cands = candidates(G, xbound) if cands is None else cands
    f = {e: F(flow[e]) for e in es}
    for combo in itertools.combinations(cands, k):
        # quick necessary condition: every edge is in some support
        if any(not any(e in x for x in combo) for e in es):
            continue
        sol = _solve_unique([([x.get(e, 0) for x in combo], f[e]) for e in es], k)
        if sol is None or any(w <= 0 for w in sol):
            continue
        if wmax is not None and any(w > wmax for w in sol):
            continue
        if not covers_constraints(combo, cons, cov):
            continue
        return (list(combo), sol)
    return None


def min_walks(G, flow, kind, kmax, xbound=None, cons=(), cov=1.0, wmax_of_k=None):
    """least k <= kmax with a decomposition; (k, witness) or (None, None).  kind 'int' | 'real'"""
    cands = candidates(G, flow if kind == "int" else xbound)
    for k in range(1, kmax + 1):
        if kind == "int":
            got = exists_int(G, flow, k, cons, cov, cands)
        else:
            got = exists_real(G, flow, k, xbound, cons, cov, wmax=(wmax_of_k(k) if wmax_of_k else None), cands=cands)
        if got:
            return k, got
    return None, None


def walk_of_vector(G, x):
    """an actual node sequence realising the multiplicity vector (Hierholzer), for replay files"""
    adj = {}
    for (u, v), m in x.items():
        adj.setdefault(u, []).extend([v] * m)
    bal = {}
    for (u, v), m in x.items():
        bal[u] = bal.get(u, 0) + m; bal[v] = bal.get(v, 0) - m
    s = next(v for v, b in bal.items() if b == 1)
    stack = [s]; out = []
    while stack:
        v = stack[-1]
        if adj.get(v):
            stack.append(adj[v].pop())
        else:
            out.append(stack.pop())
    return out[::-1]
