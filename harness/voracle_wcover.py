"""The verified exhaustive oracle for minimum walk covers (coq/theories/WalkCoverOracle.v, theorem min_wcover_is_walk_width): the least
number of source-to-sink walks covering the non-ignored edges, decided by the EXTRACTED search (all walks that pass an edge at most
|X| + 2 times are enumerated; by WalkWidthCaps.bounded_walk_cover that bound loses no minimum).  Used by the C09 engine next to the
cover + antichain certificate on small cyclic edge-cover instances without constraints."""
import common

MAX_ST_EDGES = 9; MAX_X = 4; MAX_K = 3


def in_reach(st, need, kmax):
    return st.number_of_edges() <= MAX_ST_EDGES and 0 < len(need) <= MAX_X and kmax <= MAX_K


def verified_min_cover(ctx, st, need, kmax):
    ids = {v: i for i, v in enumerate(st.nodes())}
    es = list(st.edges())
    req = "wcoveroracle " + common.toks(len(es), [[ids[u], ids[v]] for u, v in es], ids[st.source], ids[st.sink],
                                        len(need), [[ids[u], ids[v]] for u, v in need], kmax)
    out = ctx.model.run([req])[0].strip()
    return None if out == "NONE" else int(out)
