"""E3 for the zero-fixing rule of the cyclic classes (AbstractWalkModelDiGraph._apply_safety_optimizations_fix_zero_edges) against the
extracted WalkEncRows.zero_edges -- the function the theorem C06_forbidden_edges_are_unreachable_around_the_sequence is about.  On the
cyclic instances of the C06 engine a k-model is constructed with optimize_with_safe_sequences and
optimize_with_safe_sequences_fix_zero_edges; for every slot i < min(len(walks_to_fix), k) the set of arcs the model object recorded in
edges_set_to_zero for that slot is compared with zero_edges(graph, walks_to_fix[i]).  (The LP-level tie of the same rows is E1 of
C04/C09; this stream isolates the rule.)

Second stream, E3_slot_selection: stDiGraph.get_longest_incompatible_sequences (the selection of the sequences that go into the slots)
against the extracted SlotSelect.select_model -- the function C06_selected_sequences_are_pairwise_incompatible is about.  The call is
repeated on the model's own graph object with the model's safe_lists; the antichain the maximum-weight-antichain oracle
(compute_max_edge_antichain on the expanded condensation) returns and the minimum flow it was extracted from are tapped; compared are
  * the model's output for that antichain with the list the implementation returns (= walks_to_fix), order included;
  * the premise of the theorem: the tapped flow passes the extracted MinFlowCut.mincut_premises on the s-t wrapper of the expanded
    condensation and MinFlowCut's extraction on it returns the same antichain -- so the oracle's answer is a checked antichain."""
import common, e1


def run_fix_e3(ctx, n, engine="E3_zero_fixing_rule"):
    import flowpaths as fp
    from engines import c06
    reqs = []; cases = []; sreqs = []; scases = []; mreqs = []
    for i in range(n):
        rng = ctx.rng("zerofix", i)
        try:
            spec = c06.gen_cyc_spec(rng, i)
        except ValueError:
            continue
        G = c06.base_graph(spec)
        k = rng.choice([1, 2, 3])
        try:
            m = fp.kPathCoverCycles(G, k=k, optimization_options={"optimize_with_safe_sequences": True, "optimize_with_safe_sequences_fix_zero_edges": True},
                                    solver_options={"threads": 1})
        except Exception as e:
            ctx.count(engine, "constructor_raised"); continue
        st = m.G; ids = e1.ids_of(st)
        _selection_case(ctx, m, st, ids, sreqs, scases, mreqs)
        wtf = getattr(m, "walks_to_fix", None) or []
        zero = getattr(m, "edges_set_to_zero", {}) or {}
        gt = e1.graph_tokens(st, ids)
        for slot in range(min(len(wtf), k)):
            walk = [tuple(e) for e in wtf[slot]]
            if not walk:
                continue
            impl = sorted((ids[u], ids[v]) for (u, v, j) in zero if j == slot)
            rep = {"engine": engine, "edges": [[str(u), str(v)] for u, v in st.edges()], "k": k, "slot": slot,
                   "sequence": [[str(u), str(v)] for u, v in walk]}
            reqs.append("zerofix " + common.toks(gt, len(walk), [[ids[u], ids[v]] for u, v in walk]))
            cases.append((rep, impl))
    outs = ctx.model.run(reqs) if reqs else []
    for (rep, impl), out in zip(cases, outs):
        ctx.count(engine, "slots")
        tv = [int(x) for x in out.split()]
        model = sorted((tv[1 + 2 * j], tv[2 + 2 * j]) for j in range(tv[0]))
        if model == impl:
            ctx.count(engine, "agreements")
            if impl: ctx.count(engine, "with_forbidden_arcs")
        else:
            ctx.report("E3 correspondence broken: the arcs fixed to zero for a slot differ from WalkEncRows.zero_edges of the slot's sequence",
                       dict(rep, model=[list(x) for x in model], implementation=[list(x) for x in impl]), concrete=False)
        ctx.case(["zerofix", rep["edges"], rep["sequence"]], nontrivial=bool(impl))
    _selection_eval(ctx, sreqs, scases, mreqs)


def _hid(name):
    name = str(name)
    return 2 * int(name[:-len("_expanded")]) + 1 if name.endswith("_expanded") else 2 * int(name)


def _selection_case(ctx, m, st, ids, sreqs, scases, mreqs, engine="E3_slot_selection"):
    from flowpaths.utils import graphutils
    safe = [[tuple(e) for e in q] for q in (getattr(m, "safe_lists", None) or [])]
    if not safe:
        return
    H = st._condensation_expanded
    cap = {}
    orig_a = H.compute_max_edge_antichain; orig_f = graphutils.min_cost_flow
    def hook(get_antichain=False, weight_function=None):
        r = orig_a(get_antichain=get_antichain, weight_function=weight_function)
        cap["wf"] = dict(weight_function or {}); cap["anti"] = list(r[1]) if get_antichain else None; return r
    def tap(*a, **k):
        r = orig_f(*a, **k); cap["flow"] = r[1]; return r
    H.compute_max_edge_antichain = hook; graphutils.min_cost_flow = tap
    rep = {"engine": engine, "edges": [[str(u), str(v)] for u, v in st.edges()], "safe_lists": [[[str(u), str(v)] for u, v in q] for q in safe]}
    try:
        out = st.get_longest_incompatible_sequences([list(q) for q in safe])
    except Exception as e:
        ctx.report(f"get_longest_incompatible_sequences raised {e!r}", rep); return
    finally:
        H.compute_max_edge_antichain = orig_a; graphutils.min_cost_flow = orig_f
    out = [[tuple(e) for e in q] for q in out]
    wtf = [[tuple(e) for e in q] for q in (getattr(m, "walks_to_fix", None) or [])]
    if out != wtf:
        ctx.report("get_longest_incompatible_sequences repeated on the model's graph and safe_lists does not return the model's walks_to_fix",
                   dict(rep, again=[[list(map(str, e)) for e in q] for q in out])); return
    anti = cap.get("anti"); flow = cap.get("flow"); wf = cap.get("wf") or {}
    if anti is None or flow is None:
        ctx.report("get_longest_incompatible_sequences did not consult the maximum-weight-antichain oracle", rep); return
    mapping = st._condensation.graph["mapping"]
    es = list(st.edges())
    sreqs.append("slotselect " + common.toks(len(es), [[ids[u], ids[v]] for u, v in es], len(ids), [[ids[v], mapping[v]] for v in ids],
                                             len(safe), [[len(q), [[ids[u], ids[v]] for u, v in q]] for q in safe],
                                             len(anti), [[_hid(a), _hid(b)] for a, b in anti]))
    # the oracle's flow on the s-t wrapper of the expanded condensation
    hn = list(H.nodes()); top = 2 * (max(mapping.values()) + 2)
    hid = {v: (top if v == H.source else top + 1 if v == H.sink else _hid(v)) for v in hn}
    hes = list(H.edges())
    mreqs.append("mincut " + common.toks(len(hn), [hid[v] for v in hn], len(hes),
                                         [[hid[a], hid[b], int(wf.get((a, b), 0)), 1, int(flow[a][b]), 1] for a, b in hes], hid[H.source], hid[H.sink]))
    scases.append((rep, [[(ids[u], ids[v]) for u, v in q] for q in out], sorted((_hid(a), _hid(b)) for a, b in anti)))


def _selection_eval(ctx, sreqs, scases, mreqs, engine="E3_slot_selection"):
    souts = ctx.model.run(sreqs) if sreqs else []
    mouts = ctx.model.run(mreqs) if mreqs else []
    for (rep, impl, anti), so, mo in zip(scases, souts, mouts):
        ctx.count(engine, "cases")
        if so.strip() == "NONE":
            model = None
        else:
            tv = [int(x) for x in so.split()]; pos = 1; model = []
            for _ in range(tv[0]):
                ln = tv[pos]; pos += 1
                model.append([(tv[pos + 2 * j], tv[pos + 2 * j + 1]) for j in range(ln)]); pos += 2 * ln
        if model == impl:
            ctx.count(engine, "agreements")
            if len(impl) >= 2: ctx.count(engine, "with_two_or_more_slots")
        else:
            ctx.report("E3 correspondence broken: get_longest_incompatible_sequences differs from SlotSelect.select_model on the same antichain",
                       dict(rep, model=model, implementation=impl), concrete=False)
        tv = [int(x) for x in mo.split()]
        ok = tv[0]; nr = tv[1]; na = tv[2 + nr]; rest = tv[3 + nr:]
        manti = sorted((rest[2 * j], rest[2 * j + 1]) for j in range(na))
        if ok == 1 and manti == anti:
            ctx.count(engine, "oracle_answer_is_a_checked_antichain")
        else:
            ctx.report("the premise of C06_selected_sequences_are_pairwise_incompatible fails: the minimum flow of the oracle does not pass "
                       "MinFlowCut.mincut_premises on the expanded condensation, or MinFlowCut extracts a different antichain from it",
                       dict(rep, premises=ok, model_antichain=manti, antichain=anti), concrete=False)
        ctx.case(["slotselect", rep["edges"], rep["safe_lists"]], nontrivial=len(impl) >= 2)
