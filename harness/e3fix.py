"""E3 for the zero-fixing rule of the cyclic classes (AbstractWalkModelDiGraph._apply_safety_optimizations_fix_zero_edges) against the
extracted WalkEncRows.zero_edges -- the function the theorem C06_forbidden_edges_are_unreachable_around_the_sequence is about.  On the
cyclic instances of the C06 engine a k-model is constructed with optimize_with_safe_sequences and
optimize_with_safe_sequences_fix_zero_edges; for every slot i < min(len(walks_to_fix), k) the set of arcs the model object recorded in
edges_set_to_zero for that slot is compared with zero_edges(graph, walks_to_fix[i]).  (The LP-level tie of the same rows is E1 of
C04/C09; this stream isolates the rule.)"""
import common, e1


def run_fix_e3(ctx, n, engine="E3_zero_fixing_rule"):
    import flowpaths as fp
    from engines import c06
    reqs = []; cases = []
    for i in range(n):
        rng = ctx.rng("zerofix", i)
        try:
            spec = c06.gen_cyc_spec(rng, i)
        except ValueError:
            continue
        G = c06.base_graph(spec)
        k = rng.choice([1, 2, 3])
        try:
            m = fp.kPathCoverCycles(G, k=k, optimization_options={"optimize_with_safe_sequences": True, "optimize_with_safe_sequences_fix_zero_edges": True},
                                    solver_options={"threads": 1})
        except Exception as e:
            ctx.count(engine, "constructor_raised"); continue
        st = m.G; ids = e1.ids_of(st)
        wtf = getattr(m, "walks_to_fix", None) or []
        zero = getattr(m, "edges_set_to_zero", {}) or {}
        gt = e1.graph_tokens(st, ids)
        for slot in range(min(len(wtf), k)):
            walk = [tuple(e) for e in wtf[slot]]
            if not walk:
                continue
            impl = sorted((ids[u], ids[v]) for (u, v, j) in zero if j == slot)
            rep = {"engine": engine, "edges": [[str(u), str(v)] for u, v in st.edges()], "k": k, "slot": slot,
                   "sequence": [[str(u), str(v)] for u, v in walk]}
            reqs.append("zerofix " + common.toks(gt, len(walk), [[ids[u], ids[v]] for u, v in walk]))
            cases.append((rep, impl))
    outs = ctx.model.run(reqs) if reqs else []
    for (rep, impl), out in zip(cases, outs):
        ctx.count(engine, "slots")
        tv = [int(x) for x in out.split()]
        model = sorted((tv[1 + 2 * j], tv[2 + 2 * j]) for j in range(tv[0]))
        if model == impl:
            ctx.count(engine, "agreements")
            if impl: ctx.count(engine, "with_forbidden_arcs")
        else:
            ctx.report("E3 correspondence broken: the arcs fixed to zero for a slot differ from WalkEncRows.zero_edges of the slot's sequence",
                       dict(rep, model=[list(x) for x in model], implementation=[list(x) for x in impl]), concrete=False)
        ctx.case(["zerofix", rep["edges"], rep["sequence"]], nontrivial=bool(impl))
