"""Shared E2 machinery of C07 / C08: description of cases, structural checks on returned solutions,
and the exhaustive optimisers (search side, plain Python over exact Fractions) for tiny instances."""
import itertools, math, collections
from fractions import Fraction as F
import props

THREADS = 1
SOLVER = {"threads": THREADS, "time_limit": 20}


def describe(args):
    G = args["G"]
    d = {k: v for k, v in args.items() if k not in ("G", "weight_type", "optimization_options")}
    d["edges"] = [[u, v, dict(dd)] for u, v, dd in G.edges(data=True)]
    if args.get("flow_attr_origin") == "node":
        d["nodes"] = [[v, dict(dd)] for v, dd in G.nodes(data=True)]
    d["weight_type"] = args.get("weight_type", float).__name__
    if "error_scaling" in d:
        d["error_scaling"] = [[k, v] for k, v in d["error_scaling"].items()]
    oo = args.get("optimization_options")
    if oo:
        d["optimization_options"] = {k: (sorted(v) if isinstance(v, (set, frozenset)) else v) for k, v in oo.items()
                                     if k != "trusted_edges_for_safety"}
    return d


def clean_args(args):
    """constructors write into the caller's optimization_options dict (finding #16): hand in a copy"""
    a = dict(args)
    if a.get("optimization_options") is not None:
        a["optimization_options"] = dict(a["optimization_options"])
    for k in ("elements_to_ignore", "subpath_constraints", "additional_starts", "additional_ends", "solution_weights_superset"):
        if k in a and a[k] is not None:
            a[k] = list(a[k])
    if "error_scaling" in a:
        a["error_scaling"] = dict(a["error_scaling"])
    spec = a.pop("numpy_types", None)
    if spec:
        a = _numpify(a, spec)
    return a


# ------------------------------------------------------------------------------------------
# numpy-typed inputs (weights read through numpy / pandas are np.int64 / np.float32 ... scalars, which are NOT instances of
# int / float): the generators attach  args["numpy_types"] = {"flow": <dtype>, "k": <dtype>, "scaling": <dtype>, "factors": <dtype>};
# the oracles keep working on the python-typed args, clean_args() hands the numpy-typed copy to the constructor
NP_FLOW = ("int64", "int32", "float64", "float32")
K_NUMPY = "numpy_scalar_bound_falls_back_to_default"


def _np_exact(v, tname):
    """v as numpy scalar of dtype tname, or None if not exactly representable"""
    import numpy as np
    t = getattr(np, tname)
    if isinstance(v, bool):
        return None
    try:
        if tname.startswith("int"):
            if float(v) != int(v) or abs(int(v)) >= 2 ** 31:
                return None
            return t(int(v))
        x = t(v)
        return x if float(x) == float(v) and F(float(x)) == F(v) else None
    except Exception:
        return None


def pynum(x):
    """numpy scalar -> python number (exact); everything else unchanged"""
    return x.item() if hasattr(x, "item") and hasattr(x, "dtype") else x


def numpy_spec(rng, p=0.2):
    """None or a random assignment of numpy dtypes to the numeric inputs"""
    if rng.random() >= p:
        return None
    spec = {"flow": rng.choice(NP_FLOW)}
    if rng.random() < 0.5: spec["k"] = rng.choice(["int64", "int32"])
    if rng.random() < 0.5: spec["scaling"] = rng.choice(["float64", "float32"])
    if rng.random() < 0.5: spec["factors"] = rng.choice(["float64", "float32", "int64"])
    return spec


NP_ROT = (None, {"flow": "int64"}, None, {"flow": "int32", "k": "int64"}, {"flow": "float32", "scaling": "float32", "factors": "float32"},
          None, {"flow": "float64", "k": "int32", "factors": "int64"})


def attach_numpy(ctx, cls, args, spec):
    """attach the numpy dtype assignment to the instance (None: leave it python-typed) and run the numpy-k clause"""
    if not spec:
        return args
    args = dict(args, numpy_types=dict(spec))
    ctx.count("numpy_inputs", "instances_with_numpy_typed_values")
    for x, y in spec.items():
        ctx.dist(f"numpy {x}:{y}")
    return numpy_k_check(ctx, cls, args)


def _numpify(a, spec):
    fa = a.get("flow_attr", "flow"); G = a["G"]
    tn = spec.get("flow")
    if tn:
        vals = [d[fa] for _, _, d in G.edges(data=True) if fa in d] + [d[fa] for _, d in G.nodes(data=True) if fa in d]
        for cand in (tn, "float64"):
            if all(_np_exact(v, cand) is not None for v in vals):
                H = G.copy()
                for u, v, d in H.edges(data=True):
                    if fa in d: d[fa] = _np_exact(d[fa], cand)
                for v, d in H.nodes(data=True):
                    if fa in d: d[fa] = _np_exact(d[fa], cand)
                a["G"] = H
                break
    if spec.get("k") and a.get("k") is not None:
        a["k"] = _np_exact(a["k"], spec["k"])
    if spec.get("scaling") and a.get("error_scaling"):
        a["error_scaling"] = {e: (_np_exact(x, spec["scaling"]) if _np_exact(x, spec["scaling"]) is not None else x) for e, x in a["error_scaling"].items()}
    if spec.get("factors") and a.get("path_length_factors"):
        a["path_length_factors"] = [(_np_exact(x, spec["factors"]) if _np_exact(x, spec["factors"]) is not None else x) for x in a["path_length_factors"]]
    return a


K_NUMPY_RAISE = "numpy_scalar_in_linear_expression_raises"


def _lp_bounds(m):
    lp = m.solver.solver.getLp()
    return (list(lp.col_lower_), list(lp.col_upper_), list(lp.row_lower_), list(lp.row_upper_))


def numpy_k_check(ctx, cls, args):
    """The numpy-typed instance against its python-typed twins (constructors only, nothing is solved):
    (a) the constructor must not fail on numpy scalars where the python-typed instance is accepted (K_NUMPY_RAISE while open);
    (b) with k given as numpy integer and weight_type=int the LP must have the same column / row bounds as with the python
        int k (K_NUMPY while open).
    Returns the args for the ordinary clauses: the python-typed twin after (a), the instance without numpy k after (b),
    else the numpy-typed instance itself -- any other effect of numpy scalars is for the ordinary clauses (E1, E2) to find."""
    import flowpaths as fp
    spec = args.get("numpy_types")
    if not spec or not any(x in spec for x in ("k", "scaling", "factors")):
        return args          # numpy flow values only: nothing known, straight to the ordinary clauses
    try:
        m = getattr(fp, cls)(**clean_args(args))
    except (ValueError, OverflowError):
        return args
    except Exception as e:
        py = {x: y for x, y in args.items() if x != "numpy_types"}
        try:
            getattr(fp, cls)(**clean_args(py))
        except Exception:
            return args
        ctx.report(f"{cls}: the constructor raises {e!r} on numpy-typed inputs {spec} and accepts the same instance with python numbers",
                   {"class": cls, "args": describe(args), "exception": repr(e)}, key=K_NUMPY_RAISE)
        return py
    # known triggers on the tree as it is: k as numpy integer (w_max = k * int(...) stays numpy), path_length_factors as numpy
    # scalars (bounds of the factor variables); numpy FLOW values do not reach a bound (w_max is cast by weight_type)
    trig = [x for x in ("k", "factors") if x in spec and ((x == "k" and args.get("k") is not None) or (x == "factors" and args.get("path_length_factors")))]
    if trig:
        plain = dict(args, numpy_types={x: y for x, y in spec.items() if x not in trig})
        try:
            m2 = getattr(fp, cls)(**clean_args(plain))
            b1, b2 = _lp_bounds(m), _lp_bounds(m2)
        except Exception:
            return args
        if b1 != b2:
            nd = sum(1 for i in range(4) for x, y in zip(b1[i], b2[i]) if x != y)
            ctx.report(f"{cls}: with {' and '.join(trig)} given as numpy scalars ({ {x: spec[x] for x in trig} }) {nd} column / row bounds differ from the LP built "
                       f"with the same values as python numbers (w_max is {type(m.w_max).__name__} {m.w_max} vs {type(m2.w_max).__name__} {m2.w_max})",
                       {"class": cls, "args": describe(args)}, key=K_NUMPY)
            return plain
        ctx.count("numpy_inputs", "numpy_k_or_factors_build_the_same_LP_as_python_numbers")
    return args


def flow_tokens_py(st, ids, attr):
    """e1.flow_tokens with numpy scalars converted exactly to python numbers first"""
    import common
    es = [(u, v) for u, v in st.edges() if attr in st[u][v]]
    return [len(es), [[ids[u], ids[v]] + common.qtok(pynum(st[u][v][attr])) for u, v in es]]


def routes_key(cls):
    return "walks" if cls.endswith("Cycles") else "paths"


def check_shape(ctx, cls, args, m, sol, full, rep):
    """C01-shaped clauses every error-model answer must satisfy: routes of the caller's graph, one weight
    per route, weight type / sign, number of routes.  Returns True if fine."""
    G = args["G"]; wt = args.get("weight_type", float); rk = routes_key(cls)
    routes = sol[rk]; weights = sol["weights"]
    simple = not cls.endswith("Cycles")
    for r in routes:
        why = props.valid_route(G, r, args.get("additional_starts", ()), args.get("additional_ends", ()), simple=simple)
        if why:
            ctx.report(f"{cls}: returned route {r} is not a source-to-sink route of the caller's graph: {why}", rep); return False
    if len(routes) != len(weights):
        ctx.report(f"{cls}: {len(routes)} routes but {len(weights)} weights", rep); return False
    for key in ("slacks", "scaled_slacks"):
        if key in sol and len(sol[key]) != len(routes):
            ctx.report(f"{cls}: {len(routes)} routes but {len(sol[key])} {key}", rep); return False
    for w in list(weights) + list(sol.get("slacks", [])):
        if wt == int and not isinstance(w, int):
            ctx.report(f"{cls}: value {w!r} has type {type(w).__name__}, requested int", rep); return False
        if wt == float and not isinstance(w, (int, float)):
            ctx.report(f"{cls}: value {w!r} has type {type(w).__name__}, requested float", rep); return False
        if w < -1e-7:
            ctx.report(f"{cls}: negative weight/slack {w!r}", rep); return False
    # number of routes: exactly k, except (given weights) at most the caller's k non-empty ones
    nfull = len(full[rk])
    if nfull != m.k:
        ctx.report(f"{cls}: unfiltered solution has {nfull} routes, model has k={m.k}", rep); return False
    given = args.get("solution_weights_superset")
    if given is not None:
        if len(routes) > m.original_k:
            ctx.report(f"{cls}: {len(routes)} non-empty routes although k={m.original_k} was requested", rep); return False
        if list(full["weights"]) != [wt(x) for x in given]:
            ctx.report(f"{cls}: weights {full['weights']} are not the given weights {given}", rep); return False
    return True


def dropped_single_node_routes(cls, args, sol, full):
    """routes (with weight) that get_solution() dropped although they visit a node of the caller's graph
    (known finding: _remove_empty_paths tests len(path) > 1 on the condensed path)"""
    rk = routes_key(cls)
    if args.get("flow_attr_origin", "edge") != "node":
        return []
    if len(sol[rk]) == len([r for r in full[rk] if len(r) >= 1]):
        return []          # nothing was dropped
    return [(r, w) for r, w in zip(full[rk], full["weights"]) if len(r) == 1]


def n_degenerate(full, rk):
    return sum(1 for r in full[rk] if len(r) <= 1)


# ------------------------------------------------------------------------------------------
# exhaustive optimisers (edge origin, integer data)
def st_paths(G, starts=(), ends=(), limit=400):
    """all paths that start at an in-degree-0 node or an additional start and end at an out-degree-0 node
    or an additional end, with at least one edge"""
    S = [v for v in G.nodes() if G.in_degree(v) == 0 or v in starts]
    T = set(v for v in G.nodes() if G.out_degree(v) == 0 or v in ends)
    res = []

    def rec(p):
        if len(res) > limit:
            return
        v = p[-1]
        if v in T and len(p) > 1:
            res.append(tuple(p))
        for w in G.successors(v):
            if w not in p:
                rec(p + [w])
    for s in S:
        rec([s])
    return res


def elements_edge(args):
    """non-ignored weighted edges: {e: (f, scale)} as exact Fractions"""
    el = props.err_elements(args["G"], args["flow_attr"], "edge", args.get("elements_to_ignore", []) or [], args.get("error_scaling", {}) or {})
    return {e: (F(f), F(s)) for e, (f, s) in el.items()}


def min_cover(paths, el):
    """fewest paths covering all non-ignored weighted edges (None if impossible)"""
    need = set(el)
    if not need:
        return 0
    pe = [set(zip(p, p[1:])) & need for p in paths]
    pe = [x for x in set(map(frozenset, pe)) if x]
    for n in range(1, len(need) + 1):
        for c in itertools.combinations(pe, n):
            if set().union(*c) >= need:
                return n
        if n >= 5:
            break
    return None


def brute_lae(args, k, paths, el, given=None, k_orig=None, budget=400000):
    """min over k-multisets of paths and integer weights in [0, max f] of sum scale*|f - explained|;
    given weights: layer i is empty or a path with weight given[i], at most k_orig non-empty.
    Returns the optimum as a Fraction or None if the search space exceeds the budget."""
    if not el:
        return None
    maxf = int(max(f for f, s in el.values()))
    es = list(el)
    inc = [[1 if e in set(zip(p, p[1:])) else 0 for e in es] for p in paths]
    fv = [el[e][0] for e in es]; sv = [el[e][1] for e in es]
    best = None
    if given is None:
        if math.comb(len(paths) + k - 1, k) * (maxf + 1) ** k * len(es) > budget:
            return None
        for combo in itertools.combinations_with_replacement(range(len(paths)), k):
            for ws in itertools.product(range(maxf + 1), repeat=k):
                obj = F(0)
                for j in range(len(es)):
                    t = sum(w * inc[c][j] for c, w in zip(combo, ws))
                    obj += sv[j] * abs(fv[j] - t)
                    if best is not None and obj >= best:
                        break
                else:
                    best = obj
        return best
    n = len(given)
    if (len(paths) + 1) ** n * len(es) > budget:
        return None
    for combo in itertools.product(range(-1, len(paths)), repeat=n):
        if sum(1 for c in combo if c >= 0) > k_orig:
            continue
        obj = F(0)
        for j in range(len(es)):
            t = sum(F(w) * inc[c][j] for c, w in zip(combo, given) if c >= 0)
            obj += sv[j] * abs(fv[j] - t)
        if best is None or obj < best:
            best = obj
    return best


def _ceil(x):
    return -((-x.numerator) // x.denominator) if isinstance(x, F) else math.ceil(x)


def brute_mpe(args, k, paths, el, factor_of=None, faithful=None, budget=600000):
    """min sum of integer slacks over k-multisets of paths, integer weights in [0, max f] and integer slacks
    such that scale*|f - explained| <= sum of factor_i*slack_i of the paths through the edge.
    factor_of(path) = length factor of the path (1 without ranges; None = no range contains its length).
    faithful = None: the declarative problem.  faithful = dict(slack_ub=, sslack_ub=): additionally the
    bounds the LP of the code imposes (slack <= slack_ub, factor*slack <= sslack_ub).
    Returns (optimum or None if infeasible, searched) ; searched False if over budget."""
    if not el:
        return None, False
    maxf = int(max(f for f, s in el.values()))
    es = list(el)
    inc = [[1 if e in set(zip(p, p[1:])) else 0 for e in es] for p in paths]
    fv = [el[e][0] for e in es]; sv = [el[e][1] for e in es]
    fac = [F(1) if factor_of is None else factor_of(p) for p in paths]
    usable = [i for i in range(len(paths)) if fac[i] is not None and fac[i] > 0]
    minfac = min([fac[i] for i in usable] or [F(1)])
    smax = _ceil(F(maxf) * max(1, k) / min(F(1), minfac))     # no slack ever needs to exceed this
    if math.comb(len(usable) + k - 1, k) * (maxf + 1) ** k * (smax + 1) ** (k - 1) * len(es) > budget:
        return None, False
    best = None
    for combo in itertools.combinations_with_replacement(usable, k):
        phis = [fac[c] for c in combo]
        caps = []
        for ph in phis:
            cap = smax
            if faithful is not None:
                cap = min(cap, int(faithful["slack_ub"]), int(faithful["sslack_ub"] / ph))
            caps.append(cap)
        for ws in itertools.product(range(maxf + 1), repeat=k):
            need = []
            for j in range(len(es)):
                t = sum(w * inc[c][j] for c, w in zip(combo, ws))
                need.append(sv[j] * abs(fv[j] - t))
            for ss in itertools.product(*[range(c + 1) for c in caps[:-1]]):
                tot = sum(ss)
                if best is not None and tot >= best:
                    continue
                last = 0; ok = True
                for j in range(len(es)):
                    have = sum(ph * s * inc[c][j] for c, ph, s in zip(combo[:-1], phis[:-1], ss))
                    if need[j] > have:
                        if not inc[combo[-1]][j]:
                            ok = False; break
                        last = max(last, _ceil((need[j] - have) / phis[-1]))
                if not ok or last > caps[-1]:
                    continue
                if best is None or tot + last < best:
                    best = tot + last
    return best, True


def st_trails(G, starts=(), ends=(), limit=3000):
    """walks without a repeated EDGE from a start (in-degree 0 / additional start) to an end"""
    S = [v for v in G.nodes() if G.in_degree(v) == 0 or v in starts]
    T = set(v for v in G.nodes() if G.out_degree(v) == 0 or v in ends)
    res = []

    def rec(v, used, order):
        if len(res) > limit:
            return
        if v in T and order:
            res.append(frozenset(used))
        for w in G.successors(v):
            if (v, w) not in used:
                used.add((v, w)); order.append((v, w))
                rec(w, used, order)
                used.discard((v, w)); order.pop()
    for s in S:
        rec(s, set(), [])
    return list(set(res)), len(res) <= limit


def trail_cover_exists(trails, need, k):
    need = set(need)
    if not need:
        return True
    if k == 0:
        return False
    e = next(iter(need))
    for t in trails:
        if e in t and trail_cover_exists(trails, need - t, k - 1):
            return True
    return False


def rescale_feasible(cls, args, scales=(4, 16, 64)):
    """Re-solve a cyclic instance with all weights multiplied by c (C04: only the weight-derived repetition caps
    change).  Returns ("feasible", c) for the first c that is solved, ("infeasible", None) if every c is proven
    infeasible, ("inconclusive", None) if some run hit the time limit and none was solved."""
    import flowpaths as fp
    G = args["G"]; incon = False
    for c in scales:
        b = dict(args); H = G.copy()
        for e in H.edges():
            if "flow" in H.edges[e]:
                H.edges[e]["flow"] = H.edges[e]["flow"] * c
        b["G"] = H
        m2 = getattr(fp, cls)(**clean_args(b)); m2.solve()
        if m2.is_solved():
            return "feasible", c
        if m2.solver.get_model_status() != "kInfeasible":
            incon = True
    return ("inconclusive", None) if incon else ("infeasible", None)


# ------------------------------------------------------------------------------------------
# deterministic cyclic families with the optimum known in closed form (C07 / C08 cyclic E2)
def _chain(prefix, n):
    return [f"{prefix}{i}" for i in range(n)]


def _cyclic_families_base():
    """Yields dicts {name, G, k_list, weight_type, lae_opt, mpe_opt, width}.  All instances are feasible under the
    repetition caps of the code as it is (every needed multiplicity <= the largest weight, every product <= w_max),
    so none of them is an instance of the open cap findings.

    (1) chain with a zero-flow SCC: one heavy edge (weight H) and, `hops` zero-weight edges away, a zero-weight
        SCC (cycle of `size` nodes) that every covering walk has to enter twice.  Every source-to-sink walk uses the
        heavy edge and all chain edges, so for every k:  kLAE optimum = H (weights 0),
        kMPE optimum = H/2 (ceil for integers):  |H - w| <= rho on the heavy edge, w <= rho on a zero edge.
    (2) the same shape with a perfect fractional decomposition A*(a b x) + u*(a b .. (cycle)^(r+1) .. f): optimum 0 for
        both models with k = 2 = width; the cycle entry edge is needed r+1 times.
    (3) s -> a -> b -> t with back edge b -> a (or a 3-cycle), weights (u, L*u, (L-1)*u, u): one walk of weight u looping
        L times explains everything; optimum 0 for every k >= 1.  L*u runs over powers of two and their neighbours."""
    import networkx as nx
    # (1)
    idx = 0
    for hops in (1, 2, 3, 4):
        for size in (2, 3):
            for H in (4, 6, 2):
                for upstream in (True, False):
                    for wt in (int, float):
                        idx += 1
                        if H == 2 and (hops + size + upstream + (wt == int)) % 2:      # thin out
                            continue
                        mid = _chain("c", hops)                      # nodes between the heavy edge and the SCC
                        scc = _chain("d", size)
                        nodes = ["a", "b"] + mid + scc + ["f"]
                        es = [("a", "b")] + list(zip(["b"] + mid, mid + [scc[0]]))
                        cyc = list(zip(scc, scc[1:] + scc[:1]))
                        es += cyc + [(scc[-1] if size == 2 else scc[1], "f")]
                        G = nx.DiGraph()
                        for (u, v) in es:
                            f = H if (u, v) == ("a", "b") else 0
                            if upstream:
                                G.add_edge(u, v, flow=wt(f))
                            else:                                     # reverse everything: heavy edge downstream
                                G.add_edge(v, u, flow=wt(f))
                        yield {"name": f"zero-scc hops={hops} size={size} H={H} {'up' if upstream else 'down'} {wt.__name__}",
                               "G": G, "k_list": [1, 2] if idx % 2 else [None, 1], "weight_type": wt, "width": 1,
                               "lae_opt": F(H), "mpe_opt": F(-(-H // 2)) if wt == int else F(H, 2)}
    # (2)
    for hops in (1, 2, 3):
        for size in (2, 3):
            for (A, u, r) in ((F(11, 2), F(1, 2), 2), (F(3), F(1), 1), (F(7, 2), F(1, 2), 1)):
                mid = _chain("c", hops); scc = _chain("d", size)
                G = nx.DiGraph()
                G.add_edge("a", "b", flow=float(A + u)); G.add_edge("b", "x", flow=float(A))
                for (p, q) in zip(["b"] + mid, mid + [scc[0]]):
                    G.add_edge(p, q, flow=float(u))
                cyc = list(zip(scc, scc[1:] + scc[:1]))
                exit_node = scc[-1] if size == 2 else scc[1]
                # walk: enter at d0, go round r times, leave at exit_node: edges up to exit_node are used r+1 times
                j = scc.index(exit_node)
                for t, (p, q) in enumerate(cyc):
                    G.add_edge(p, q, flow=float(u * ((r + 1) if t < j else r)))
                G.add_edge(exit_node, "f", flow=float(u))
                yield {"name": f"fractional hops={hops} size={size} A={A} u={u} r={r}", "G": G, "k_list": [2], "weight_type": float,
                       "width": 2, "lae_opt": F(0), "mpe_opt": F(0)}
    # (3)
    for L in (2, 3, 4, 5, 8):
        for u in (1, 2):
            for size in (2, 3):
                for wt in (int, float):
                    if u == 2 and (L in (3, 5) or wt == float):
                        continue
                    scc = ["a", "b"] if size == 2 else ["a", "b", "c"]
                    G = nx.DiGraph()
                    G.add_edge("s", "a", flow=wt(u)); G.add_edge("b", "t", flow=wt(u))
                    cyc = list(zip(scc, scc[1:] + scc[:1]))
                    for t, (p, q) in enumerate(cyc):
                        G.add_edge(p, q, flow=wt(u * (L if t == 0 else L - 1)))
                    yield {"name": f"loop L={L} u={u} size={size} {wt.__name__}", "G": G, "k_list": [1] if L > 2 else [1, 2],
                           "weight_type": wt, "width": 1, "lae_opt": F(0), "mpe_opt": F(0)}


# ------------------------------------------------------------------------------------------
# HiGHS 1.15.1 returns different STATUSES / "optimal" objectives for the same MILP depending on the presolve option
# (presolve on: feasible models reported infeasible, DESIGN 10.4; presolve off: the same, and non-optimal solutions
# reported kOptimal).  That breaks the solver specification of DESIGN §4, not flowpaths.  Before an E2 discrepancy is
# reported, the instance is re-solved with the other presolve setting; if the solver contradicts itself the observation
# is an instance of the open finding K_HIGHS.
K_HIGHS = "highs_status_depends_on_presolve"


def solver_disagrees(cls, args, m):
    """None, or a description of how HiGHS answers differently with the other presolve setting"""
    import flowpaths as fp
    from flowpaths.utils import solverwrapper as sw
    cur = (args.get("solver_options") or {}).get("presolve", sw.SolverWrapper.presolve)
    alt = "choose" if cur == "off" else "off"
    a = clean_args(args); so = dict(a.get("solver_options") or {}); so["presolve"] = alt; a["solver_options"] = so
    try:
        m2 = getattr(fp, cls)(**a); m2.solve()
    except Exception:
        return None
    s1, s2 = m.solver.get_model_status(), m2.solver.get_model_status()
    if {s1, s2} == {"kOptimal", "kInfeasible"}:
        return f"presolve={cur}: {s1}, presolve={alt}: {s2}"
    if s1 == s2 == "kOptimal":
        o1, o2 = m.solver.get_objective_value(), m2.solver.get_objective_value()
        if abs(o1 - o2) > 1e-6 * (1 + abs(o1)):
            return f"both kOptimal but objective {o1} (presolve={cur}) vs {o2} (presolve={alt})"
    return None


def report(ctx, what, rep, cls, args, m, key=None):
    """ctx.report, after asking whether the solver contradicts itself on this instance"""
    if key is None and m is not None and getattr(m, "solver", None) is not None:
        why = solver_disagrees(cls, args, m)
        if why:
            # the solver contradicts itself on this very instance: a failure of the solver specification every statement here is
            # relative to (DESIGN 10.4), not of flowpaths -- counted in the evidence, not reported and not listed as a finding
            ctx.count("solver_specification", "highs_answers_depend_on_presolve"); return
    ctx.report(what, rep, key=key)


def hub_family():
    """Cyclic instances with ONE hub vertex v: s -> v -> t with weight u and c cycles through v (2 or 3 nodes long) whose edges
    carry L*u.  The walk  s v (cycle_1)^L ... (cycle_c)^L t  of weight u explains every weight exactly (a conserving flow, one walk:
    width 1), so the optimum of kLeastAbsErrorsCycles / kMinPathErrorCycles is 0 and kFlowDecompCycles / MinFlowDecompCycles need one
    walk.  That walk ENTERS THE HUB c*L + 1 times through c + 1 different in-edges, each of which is repeated at most L = (its cap)/u
    times: the connectivity rows 22a must bound the entries of v by the SUM of the caps of its in-edges.  All multiplicities, bit widths
    and products stay within the caps of the code as it is (u >= 1), so the open cap findings do not apply.
    Yields dicts {name, G, k_list, weight_type, width, lae_opt, mpe_opt}."""
    import networkx as nx
    for c in (2, 3):
        for L in (2, 3):
            for clen in (2, 3):
                for (u, wt) in ((1, int), (2, int), (1.0, float)):
                    if c == 3 and L == 3 and (clen == 3 or u == 2):
                        continue                                  # keep the family small
                    G = nx.DiGraph()
                    G.add_edge("s", "v", flow=wt(u)); G.add_edge("v", "t", flow=wt(u))
                    for j in range(c):
                        cyc = ["v"] + [f"x{j}_{q}" for q in range(clen - 1)] + ["v"]
                        for a, b in zip(cyc, cyc[1:]):
                            G.add_edge(a, b, flow=wt(L * u))
                    yield {"name": f"hub cycles={c} L={L} len={clen} u={u} {wt.__name__}", "G": G, "k_list": [1, None],
                           "weight_type": wt, "width": 1, "lae_opt": F(0), "mpe_opt": F(0)}


def cyclic_families():
    """all deterministic cyclic families with closed-form optimum: (1)-(3) of _cyclic_families_base and (4) the hub family"""
    for fam in _cyclic_families_base():
        yield fam
    for fam in hub_family():
        yield fam


def length_factor_family():
    """DAG instances for kMinPathError with path_length_factors whose ranges are tight and whose factors are far apart, built from a
    PERFECT decomposition (three source-to-sink paths with 1, 2 and 3 edges, i.e. encoded lengths 3, 4, 5), so the optimum is total
    slack 0 with all slacks 0: the open findings on the factor bounds (scaled slack / bit width) do not apply, and any failure is
    the piecewise-constant block's (the factor variable of each path must be able to take the constant of ITS range).
    Yields dicts {name, args (without solver options), width, mpe_opt}."""
    import networkx as nx
    for ws in ((2, 3, 1), (1, 1, 1), (4, 2, 3)):
        for ranges, factors in (([(3, 3), (4, 4), (5, 5)], [1, 3, 6]), ([(3, 3), (4, 4), (5, 5)], [6, 3, 1]),
                                ([(3, 3), (4, 5)], [1, 9]), ([(0, 3), (4, 4), (5, 40)], [1, 1, 8]), ([(3, 4), (5, 5)], [0.5, 4])):
            G = nx.DiGraph()
            G.add_edge("a", "z", flow=ws[0])
            G.add_edge("a", "b", flow=ws[1]); G.add_edge("b", "z", flow=ws[1])
            G.add_edge("a", "c", flow=ws[2]); G.add_edge("c", "d", flow=ws[2]); G.add_edge("d", "z", flow=ws[2])
            for k in (3, None):
                yield {"name": f"length-factors ws={ws} ranges={ranges} factors={factors} k={k}",
                       "args": dict(G=G, flow_attr="flow", k=k, weight_type=int, path_length_ranges=list(ranges), path_length_factors=list(factors)),
                       "width": 3, "mpe_opt": F(0)}


def guarded(ctx, cls, label, fn):
    """Evaluate one instance; an exception raised while doing so (an unexpected number of routes, a missing key, a None field, an
    exception of the implementation that is not a documented ValueError ...) becomes a CONCRETE report naming the instance and the
    exception, and the run continues with the next instance.  `fn(cur)` stores the arguments it works on in cur['args']."""
    import traceback
    cur = {}
    try:
        fn(cur)
    except Exception as e:
        tb = traceback.format_exc()
        a = cur.get("args")
        try:
            desc = describe(a) if a is not None else None
        except Exception:
            desc = str(a)[:800]
        ctx.report(f"{cls}: {type(e).__name__} {e!r} while evaluating instance {label}"
                   + ("" if a is None else f" (k={a.get('k')}, given weights={a.get('solution_weights_superset')})"),
                   {"class": cls, "instance": label, "args": desc, "exception": repr(e), "traceback": tb[-1800:]})
        ctx.count("guard", "exceptions_while_evaluating_an_instance")
