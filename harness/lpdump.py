"""E1 plumbing: read the LP an implementation object holds back from HiGHS, bring it and the
model's LP (printed by fpmodel) to one canonical form, and diff them as sets of columns/rows."""
import collections
from fractions import Fraction as F

REG = []          # (id(solver_wrapper), column index, name_prefix, index)
CALLS = []        # (id(solver_wrapper), helper name, kwargs with variables replaced by column indices)
_installed = False


def install():
    """Wrap SolverWrapper.add_variables and the product/piecewise helpers from outside, so that every
    created column can be identified by (prefix, index) instead of by parsing HiGHS' generated names."""
    global _installed
    if _installed:
        return
    from flowpaths.utils import solverwrapper as sw
    orig_add = sw.SolverWrapper.add_variables

    def add_variables(self, indexes, name_prefix, lb=0, ub=1, var_type="integer"):
        idx = list(indexes)
        res = orig_add(self, idx, name_prefix, lb=lb, ub=ub, var_type=var_type)
        for i in idx:
            REG.append((id(self), res[i].index, name_prefix, i))
        return res
    sw.SolverWrapper.add_variables = add_variables

    orig_ip = sw.SolverWrapper.add_integer_continuous_product_constraint

    def ip(self, integer_var, continuous_var, product_var, lb, ub, name):
        CALLS.append((id(self), "intprod", {"x": integer_var.index, "c": continuous_var.index, "p": product_var.index,
                                            "lb": lb, "ub": ub, "name": name}))
        return orig_ip(self, integer_var, continuous_var, product_var, lb, ub, name)
    sw.SolverWrapper.add_integer_continuous_product_constraint = ip

    orig_pw = sw.SolverWrapper.add_piecewise_constant_constraint

    def pw(self, x, y, ranges, constants, name_prefix):
        CALLS.append((id(self), "pwc", {"x": x.index, "y": y.index, "ranges": list(ranges), "constants": list(constants),
                                        "name": name_prefix}))
        return orig_pw(self, x, y, ranges, constants, name_prefix)
    sw.SolverWrapper.add_piecewise_constant_constraint = pw
    _installed = True


def reset():
    REG.clear(); CALLS.clear()


def registry_for(solver):
    return {c: (p, i) for (sid, c, p, i) in REG if sid == id(solver)}


def calls_for(solver):
    return [(h, kw) for (sid, h, kw) in CALLS if sid == id(solver)]


def norm_row(terms, lo, hi):
    """terms: {var: coef}; lo/hi: Fraction or None.  Sign fixed by the smallest variable key."""
    terms = {v: c for v, c in terms.items() if c != 0}
    if terms:
        first = min(terms)
        if terms[first] < 0:
            terms = {v: -c for v, c in terms.items()}
            lo, hi = (None if hi is None else -hi), (None if lo is None else -lo)
    else:
        # a row without variables says `lo <= 0 <= hi`: only its truth value matters (how the implementation happened to
        # orient an all-zero row -- e.g. a constraint whose edges all have length 0 -- is not part of the model)
        true_row = (lo is None or lo <= 0) and (hi is None or hi >= 0)
        return ((), None, None) if true_row else ((), F(1), F(0))
    return (tuple(sorted(terms.items())), lo, hi)


def dump_impl(solver, colkey):
    """solver: SolverWrapper (HiGHS).  colkey: column index -> canonical var tuple.
    Returns dict(cols={var:(lb,ub,isint)}, rows=sorted list, obj={var:coef}, sense='min'|'max', offset)."""
    import highspy
    lp = solver.solver.getLp()
    inf = highspy.kHighsInf
    cols = {}; obj = {}
    integ = list(lp.integrality_)
    for c in range(lp.num_col_):
        k = colkey(c)
        isint = bool(integ) and integ[c] == highspy.HighsVarType.kInteger
        lb = lp.col_lower_[c]; ub = lp.col_upper_[c]
        cols[k] = (None if lb <= -inf else F(lb), None if ub >= inf else F(ub), isint)
        if lp.col_cost_[c] != 0:
            obj[k] = F(lp.col_cost_[c])
    A = lp.a_matrix_
    rows = []
    if A.format_ == highspy.MatrixFormat.kRowwise:
        for r in range(lp.num_row_):
            t = collections.defaultdict(F)
            for kk in range(A.start_[r], A.start_[r + 1]):
                t[colkey(A.index_[kk])] += F(A.value_[kk])
            lo, hi = lp.row_lower_[r], lp.row_upper_[r]
            rows.append(norm_row(dict(t), None if lo <= -inf else F(lo), None if hi >= inf else F(hi)))
    else:
        per = [collections.defaultdict(F) for _ in range(lp.num_row_)]
        for c in range(lp.num_col_):
            for kk in range(A.start_[c], A.start_[c + 1]):
                per[A.index_[kk]][colkey(c)] += F(A.value_[kk])
        for r in range(lp.num_row_):
            lo, hi = lp.row_lower_[r], lp.row_upper_[r]
            rows.append(norm_row(dict(per[r]), None if lo <= -inf else F(lo), None if hi >= inf else F(hi)))
    sense = "max" if lp.sense_ == highspy.ObjSense.kMaximize else "min"
    return {"cols": cols, "rows": sorted(rows, key=repr), "obj": obj, "sense": sense, "offset": F(lp.offset_)}


def _pv(s):
    return tuple(int(x) for x in s.split(","))


def _pq(s):
    a, b = s.split("/"); return F(int(a), int(b))


def parse_model(lines):
    cols = {}; rows = []; obj = {}; sense = "min"; extra = {}
    for line in lines:
        if line.startswith("C "):
            _, v, lb, ub, i = line.split(); cols[_pv(v)] = (_pq(lb), _pq(ub), i == "1")
        elif line.startswith("R "):
            head, terms = line[2:].split("|"); s, r = head.split(); r = _pq(r)
            t = collections.defaultdict(F)
            for tok in terms.split():
                v, c = tok.split(":"); t[_pv(v)] += _pq(c)
            lo, hi = {"<=": (None, r), ">=": (r, None), "=": (r, r)}[s]
            rows.append(norm_row(dict(t), lo, hi))
        elif line.startswith("O"):
            for tok in line[1:].split():
                v, c = tok.split(":"); obj[_pv(v)] = obj.get(_pv(v), F(0)) + _pq(c)
            obj = {v: c for v, c in obj.items() if c != 0}
        elif line.startswith("S "):
            sense = line.split()[1]
        elif line.startswith("N "):
            extra["N"] = int(line.split()[1])
        elif line.startswith("ERROR"):
            extra["error"] = line
    return {"cols": cols, "rows": sorted(rows, key=repr), "obj": obj, "sense": sense, "extra": extra}


def diff(impl, model, what=("cols", "rows", "obj", "sense")):
    """Returns a list of human-readable differences (empty = equal as sets of columns and rows)."""
    out = []
    if "cols" in what:
        for k in sorted(set(impl["cols"]) | set(model["cols"])):
            a = impl["cols"].get(k); b = model["cols"].get(k)
            if a != b:
                out.append(f"col {k}: impl {fmt(a)} model {fmt(b)}")
    if "rows" in what:
        ca = collections.Counter(map(repr, impl["rows"])); cb = collections.Counter(map(repr, model["rows"]))
        for x in list((ca - cb).elements())[:6]:
            out.append("row only in impl: " + x)
        for x in list((cb - ca).elements())[:6]:
            out.append("row only in model: " + x)
    if "obj" in what and impl["obj"] != model["obj"]:
        out.append(f"objective: impl {impl['obj']} model {model['obj']}")
    if "sense" in what and impl["sense"] != model["sense"] and (impl["obj"] or model["obj"]):
        out.append(f"sense: impl {impl['sense']} model {model['sense']}")
    return out


def fmt(x):
    if x is None:
        return "absent"
    return "(" + ", ".join(str(y) for y in x) + ")"


def vtok(v):
    """canonical var tuple (fam, i1, ..) -> wire tokens 'fam k i1..ik'"""
    return [v[0], len(v) - 1] + list(v[1:])


def infeasible_without_presolve(wrapper):
    """Independent re-solve of the model a SolverWrapper holds (HiGHS), with presolve OFF.  Returns the status string.
    Used to tell a model that really is infeasible from a wrong 'kInfeasible' answer of the solver's presolve
    (observed with HiGHS 1.15.1: a feasible MILP reported infeasible by presolve) -- the latter is a failure of
    the solver specification the whole development assumes, not of flowpaths."""
    import highspy
    src = wrapper.solver
    h = highspy.Highs()
    h.setOptionValue("output_flag", False); h.setOptionValue("presolve", "off"); h.setOptionValue("threads", 1)
    h.passModel(src.getModel())
    h.run()
    return h.modelStatusToString(h.getModelStatus())
