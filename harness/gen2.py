"""Instance generators for the model classes (flows, constraints, ignore sets, option vectors)."""
from fractions import Fraction as F
import networkx as nx
import gen

WEIGHTS_INT = [1, 1, 2, 3, 4, 6]
SCALES = [F(1), F(1), F(1), F(1, 2), F(1, 4), F(2)]


def superpose(rng, G, routes, weights):
    f = {}
    for r, w in zip(routes, weights):
        for e in zip(r, r[1:]):
            f[e] = f.get(e, 0) + w
    return f


def rand_flow_dag(rng, nmax=6, npaths=(1, 4), intw=None):
    """DAG with a conserving flow = superposition of weighted source-to-sink paths; only edges with
    positive flow are kept.  Returns (G, paths, weights, is_int)."""
    while True:
        G0 = gen.rand_dag(rng, nmax=nmax)
        paths = gen.all_st_paths(G0)
        if not paths:
            continue
        k = rng.randint(*npaths)
        chosen = [rng.choice(paths) for _ in range(k)]
        is_int = rng.random() < 0.65 if intw is None else intw
        scale = F(1) if is_int else rng.choice(SCALES[3:] + [F(1), F(5, 4)])
        ws = [rng.choice(WEIGHTS_INT) * scale for _ in chosen]
        f = superpose(rng, G0, chosen, ws)
        G = nx.DiGraph()
        es = [e for e in G0.edges() if e in f]
        rng.shuffle(es)
        for (u, v) in es:
            G.add_edge(u, v, flow=(int(f[(u, v)]) if is_int else float(f[(u, v)])))
        if G.number_of_edges() >= 1:
            return G, chosen, ws, is_int


def rand_constraints(rng, routes, maxn=2, contiguous=None):
    """sub-sequences of edges of actual routes (so they are satisfiable)"""
    cons = []
    for _ in range(rng.randint(0, maxn)):
        r = rng.choice(routes)
        es = list(zip(r, r[1:]))
        if not es:
            continue
        n = rng.randint(1, min(3, len(es)))
        if contiguous if contiguous is not None else rng.random() < 0.5:
            a = rng.randrange(0, len(es) - n + 1); c = es[a:a + n]
        else:
            idx = sorted(rng.sample(range(len(es)), n)); c = [es[i] for i in idx]
        cons.append(c)
    if cons and rng.random() < 0.2:
        cons.append(list(cons[0]))         # duplicate constraint
    return cons


def rand_ignore(rng, G, p=0.15):
    ign = [e for e in G.edges() if rng.random() < p]
    if len(ign) == G.number_of_edges():
        ign = []
    return ign


def perturb_flow(rng, G, attr="flow", is_int=True, p=0.4):
    """non-conserving weights for the error models"""
    for e in G.edges():
        if rng.random() < p:
            d = rng.choice([-2, -1, 1, 2, 3]) * (1 if is_int else 0.5)
            G.edges[e][attr] = max(0, G.edges[e][attr] + d)
    return G


# ---------------------------------------------------------------- cyclic instances (appended for C04 / walk models)
def rand_flow_cyclic(rng, nmax=5, nwalks=(1, 3), intw=None, maxedges=9, maxlen=10, weights=None, p_cycle=0.8):
    """Digraph with cycles and a flow = superposition of weighted source-to-sink walks; only edges with
    positive flow are kept (so every edge lies on a source-to-sink walk).  Returns (G, walks, weights, is_int)."""
    want_cycle = rng.random() < p_cycle
    while True:
        G0 = gen.rand_cyclic(rng, nmax=nmax)
        k = rng.randint(*nwalks)
        chosen = []
        for _ in range(k):
            w = gen.rand_walk(rng, G0, maxlen=maxlen)
            if w is not None:
                chosen.append(w)
        if not chosen:
            continue
        if want_cycle and all(len(set(w)) == len(w) for w in chosen):
            continue
        is_int = rng.random() < 0.6 if intw is None else intw
        scale = F(1) if is_int else rng.choice([F(1, 2), F(1, 4), F(2), F(1), F(5, 4)])
        ws = [rng.choice(weights or WEIGHTS_INT) * scale for _ in chosen]
        f = superpose(rng, G0, chosen, ws)
        es = [e for e in G0.edges() if e in f]
        if not (1 <= len(es) <= maxedges):
            continue
        rng.shuffle(es)
        G = nx.DiGraph()
        for (u, v) in es:
            G.add_edge(u, v, flow=(int(f[(u, v)]) if is_int else float(f[(u, v)])))
        # the kept edges must still form the chosen walks' graph: sources/sinks unchanged by construction
        return G, chosen, ws, is_int


def rand_subset_constraints(rng, walks, maxn=2):
    """subsets of edges of actual walks (satisfiable), possibly with repeated edges / duplicates"""
    cons = []
    for _ in range(rng.randint(0, maxn)):
        w = rng.choice(walks)
        es = list(zip(w, w[1:]))
        if not es:
            continue
        n = rng.randint(1, min(3, len(es)))
        c = [rng.choice(es) for _ in range(n)]
        if rng.random() < 0.6:
            c = list(dict.fromkeys(c))
        cons.append(c)
    if cons and rng.random() < 0.15:
        cons.append(list(cons[0]))
    return cons


WALK_FLAGS = ["optimize_with_safe_sequences", "optimize_with_safe_sequences_allow_geq_constraints",
              "optimize_with_safe_sequences_fix_via_bounds", "optimize_with_safe_sequences_fix_zero_edges",
              "optimize_with_safety_as_subset_constraints", "optimize_with_max_safe_antichain_as_subset_constraints"]


def rand_walk_opts(rng, n=None):
    """option vector of the walk models; n (0..63) selects a fixed vector (exhaustive sweeps), else random with
    a bias towards the defaults"""
    if n is not None:
        return {f: bool((n >> j) & 1) for j, f in enumerate(WALK_FLAGS)}
    r = rng.random()
    if r < 0.2:
        return {}
    o = {}
    for f, pdef in zip(WALK_FLAGS, [0.75, 0.75, 0.4, 0.75, 0.15, 0.15]):
        if rng.random() < 0.8:
            o[f] = rng.random() < pdef
    return o
