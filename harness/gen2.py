"""Instance generators for the model classes (flows, constraints, ignore sets, option vectors)."""
from fractions import Fraction as F
import networkx as nx
import gen

WEIGHTS_INT = [1, 1, 2, 3, 4, 6]
SCALES = [F(1), F(1), F(1), F(1, 2), F(1, 4), F(2)]


def superpose(rng, G, routes, weights):
    f = {}
    for r, w in zip(routes, weights):
        for e in zip(r, r[1:]):
            f[e] = f.get(e, 0) + w
    return f


def rand_flow_dag(rng, nmax=6, npaths=(1, 4), intw=None, zero_edges=False):
    """DAG with a conserving flow = superposition of weighted source-to-sink paths; only edges with
    positive flow are kept.  Returns (G, paths, weights, is_int)."""
    while True:
        G0 = gen.rand_dag(rng, nmax=nmax)
        paths = gen.all_st_paths(G0)
        if not paths:
            continue
        k = rng.randint(*npaths)
        chosen = [rng.choice(paths) for _ in range(k)]
        is_int = rng.random() < 0.65 if intw is None else intw
        scale = F(1) if is_int else rng.choice(SCALES[3:] + [F(1), F(5, 4)])
        ws = [rng.choice(WEIGHTS_INT) * scale for _ in chosen]
        f = superpose(rng, G0, chosen, ws)
        G = nx.DiGraph()
        es = [e for e in G0.edges() if e in f or (zero_edges and rng.random() < 0.3)]
        rng.shuffle(es)
        for (u, v) in es:
            x = f.get((u, v), 0)
            G.add_edge(u, v, flow=(int(x) if is_int else float(x)))
        if any(e in f for e in G.edges()):
            return G, chosen, ws, is_int


def rand_constraints(rng, routes, maxn=2, contiguous=None):
    """sub-sequences of edges of actual routes (so they are satisfiable)"""
    cons = []
    for _ in range(rng.randint(0, maxn)):
        r = rng.choice(routes)
        es = list(zip(r, r[1:]))
        if not es:
            continue
        n = rng.randint(1, min(3, len(es)))
        if contiguous if contiguous is not None else rng.random() < 0.5:
            a = rng.randrange(0, len(es) - n + 1); c = es[a:a + n]
        else:
            idx = sorted(rng.sample(range(len(es)), n)); c = [es[i] for i in idx]
        cons.append(c)
    if cons and rng.random() < 0.2:
        cons.append(list(cons[0]))         # duplicate constraint
    return cons


def rand_ignore(rng, G, p=0.15):
    ign = [e for e in G.edges() if rng.random() < p]
    if len(ign) == G.number_of_edges():
        ign = []
    return ign


def perturb_flow(rng, G, attr="flow", is_int=True, p=0.4):
    """non-conserving weights for the error models"""
    for e in G.edges():
        if rng.random() < p:
            d = rng.choice([-2, -1, 1, 2, 3]) * (1 if is_int else 0.5)
            G.edges[e][attr] = max(0, G.edges[e][attr] + d)
    return G


# ---------------------------------------------------------------- cyclic instances (appended for C04 / walk models)
def rand_flow_cyclic(rng, nmax=5, nwalks=(1, 3), intw=None, maxedges=9, maxlen=10, weights=None, p_cycle=0.8):
    """Digraph with cycles and a flow = superposition of weighted source-to-sink walks; only edges with
    positive flow are kept (so every edge lies on a source-to-sink walk).  Returns (G, walks, weights, is_int)."""
    want_cycle = rng.random() < p_cycle
    while True:
        G0 = gen.rand_cyclic(rng, nmax=nmax)
        k = rng.randint(*nwalks)
        chosen = []
        for _ in range(k):
            w = gen.rand_walk(rng, G0, maxlen=maxlen)
            if w is not None:
                chosen.append(w)
        if not chosen:
            continue
        if want_cycle and all(len(set(w)) == len(w) for w in chosen):
            continue
        is_int = rng.random() < 0.6 if intw is None else intw
        scale = F(1) if is_int else rng.choice([F(1, 2), F(1, 4), F(2), F(1), F(5, 4)])
        ws = [rng.choice(weights or WEIGHTS_INT) * scale for _ in chosen]
        f = superpose(rng, G0, chosen, ws)
        es = [e for e in G0.edges() if e in f]
        if not (1 <= len(es) <= maxedges):
            continue
        rng.shuffle(es)
        G = nx.DiGraph()
        for (u, v) in es:
            G.add_edge(u, v, flow=(int(f[(u, v)]) if is_int else float(f[(u, v)])))
        # the kept edges must still form the chosen walks' graph: sources/sinks unchanged by construction
        return G, chosen, ws, is_int


def rand_subset_constraints(rng, walks, maxn=2):
    """subsets of edges of actual walks (satisfiable), possibly with repeated edges / duplicates"""
    cons = []
    for _ in range(rng.randint(0, maxn)):
        w = rng.choice(walks)
        es = list(zip(w, w[1:]))
        if not es:
            continue
        n = rng.randint(1, min(3, len(es)))
        c = [rng.choice(es) for _ in range(n)]
        if rng.random() < 0.6:
            c = list(dict.fromkeys(c))
        cons.append(c)
    if cons and rng.random() < 0.15:
        cons.append(list(cons[0]))
    return cons


WALK_FLAGS = ["optimize_with_safe_sequences", "optimize_with_safe_sequences_allow_geq_constraints",
              "optimize_with_safe_sequences_fix_via_bounds", "optimize_with_safe_sequences_fix_zero_edges",
              "optimize_with_safety_as_subset_constraints", "optimize_with_max_safe_antichain_as_subset_constraints"]


def rand_walk_opts(rng, n=None):
    """option vector of the walk models; n (0..63) selects a fixed vector (exhaustive sweeps), else random with
    a bias towards the defaults"""
    if n is not None:
        return {f: bool((n >> j) & 1) for j, f in enumerate(WALK_FLAGS)}
    r = rng.random()
    if r < 0.2:
        return {}
    o = {}
    for f, pdef in zip(WALK_FLAGS, [0.75, 0.75, 0.4, 0.75, 0.15, 0.15]):
        if rng.random() < 0.8:
            o[f] = rng.random() < pdef
    return o
# ======================================================================================
# C15 / C16 generators (added at the end; nothing above is changed)
# ======================================================================================
def rand_mgs(rng):
    """MinGenSet instance built from a hidden generating multiset (so one exists): returns kwargs
    (numbers, total, weight_type, max_multiplicity, lowerbound, partition_constraints,
    remove_complement_values) and the scale (values are integers * scale, scale dyadic)."""
    if rng.random() < 0.07:
        # several partition constraints of 2-3 parts over a hidden multiset of 4-5 small values and ONE number: the optimum lies in
        # the top part of the range len(numbers)+1+sum(len(c)-1)
        while True:
            g = [rng.choice([1, 1, 2, 2, 3, 4]) for _ in range(rng.choice([4, 5]))]
            if sum(g) <= 14:
                break
        total = sum(g); parts = []
        for _ in range(rng.choice([2, 2, 3])):
            t = rng.choice([2, 3, 3]); sums = [0] * t
            idx = list(range(len(g))); rng.shuffle(idx)
            for pos, i_ in enumerate(idx):
                sums[pos % t if pos < t else rng.randrange(t)] += g[i_]
            parts.append(sums)
        a = sum(v for v in g if rng.random() < 0.4) or g[0]
        return dict(numbers=[a], total=total, weight_type=int, max_multiplicity=1, lowerbound=rng.choice([1, 1, 2, 0]),
                    remove_complement_values=rng.random() < 0.8, partition_constraints=parts), 1
    while True:
        k = rng.choice([1, 2, 2, 3, 3, 4])
        g = [rng.choice([1, 1, 2, 2, 3, 4, 5]) for _ in range(k)]
        if sum(g) > 12:
            continue
        total = sum(g)
        mult = rng.choice([1, 1, 1, 2, 2, 3])
        nums = []
        style = rng.random()
        for _ in range(rng.randint(1, 5)):
            if style < 0.75:
                xs = [rng.randint(0, mult) if rng.random() < 0.6 else 0 for _ in g]
                a = sum(x * v for x, v in zip(xs, g))
            else:
                a = rng.randint(1, total)           # arbitrary number: the hidden set need not generate it
            # with multiplicities a generated number may exceed the total (a068bcc)
            if 0 < a <= (total if mult == 1 else 2 * total):
                nums.append(a)
        if not nums:
            continue
        if rng.random() < 0.2:
            nums.append(total)
        if rng.random() < 0.3:
            nums.append(rng.choice(nums))           # duplicate
        if rng.random() < 0.3:
            c = total - rng.choice(nums)
            if c > 0:
                nums.append(c)                      # complement pair
        rng.shuffle(nums)
        parts = None
        if mult == 1 and rng.random() < 0.3:
            parts = []
            for _ in range(rng.choice([1, 1, 2])):
                t = rng.randint(1, min(3, k))
                sums = [0] * t
                for v in g:
                    sums[rng.randrange(t)] += v
                sums = [s for s in sums if s > 0] if rng.random() < 0.7 else sums
                parts.append(sums)
            if rng.random() < 0.1:
                parts = []
            if parts and rng.random() < 0.35:
                # fine partitions: every element its own part, and the same with two elements merged -- constraints with
                # repeated values, and pairs of constraints over the same value set with different multiplicities
                fine = list(g); rng.shuffle(fine)
                coarse = list(fine)
                if len(coarse) >= 2:
                    a = coarse.pop(rng.randrange(len(coarse))); b = coarse.pop(rng.randrange(len(coarse))); coarse.insert(rng.randrange(len(coarse) + 1), a + b)
                parts = rng.choice([[coarse, fine], [fine, coarse], [fine], [coarse, fine, list(coarse)]])
        is_int = rng.random() < 0.6
        scale = 1 if is_int else rng.choice([1, 1, F(1, 2), F(1, 4), 2])
        conv = (lambda x: int(x)) if is_int else (lambda x: float(x * scale))
        kw = dict(numbers=[conv(a) for a in nums], total=conv(total), weight_type=int if is_int else float,
                  max_multiplicity=mult, lowerbound=rng.choice([1, 1, 1, 1, 2, 3, 1, 1, 1, 2, 0, -1]),
                  remove_complement_values=rng.random() < 0.8)
        if parts is not None:
            kw["partition_constraints"] = [[conv(s) for s in c] for c in parts]
        return kw, scale


def rand_msc(rng):
    n_el = rng.randint(1, 6)
    names = rng.choice([list(range(n_el)), [f"e{i}" for i in range(n_el)], [(i, i + 1) for i in range(n_el)]])
    n_sub = rng.randint(1, 8)
    subsets = []
    for _ in range(n_sub):
        s = [x for x in names if rng.random() < rng.choice([0.3, 0.5])]
        if rng.random() < 0.15 and s:
            s.append(s[0])                          # repeated element inside a subset
        if rng.random() < 0.1:
            s.append("extra")                       # element outside the universe
        subsets.append(s)
    universe = list(names)
    if rng.random() < 0.8:                          # make sure a cover exists
        for x in universe:
            if not any(x in s for s in subsets):
                rng.choice(subsets).append(x)
    if rng.random() < 0.15:
        universe.append(universe[0])                # repeated universe element
    rng.shuffle(universe)
    wt = rng.random()
    if wt < 0.5:
        weights = [rng.choice([1, 1, 2, 3, 5]) for _ in subsets]
    elif wt < 0.8:
        weights = [rng.choice([0.5, 1.0, 1.5, 2.25, 0.25, 4.0]) for _ in subsets]
    elif wt < 0.9:
        weights = [rng.choice([0, 1, 2]) for _ in subsets]
    else:
        weights = None
    return dict(universe=universe, subsets=subsets, subset_weights=weights)


def rand_mef(rng, node_mode=False, max_edges=6):
    """MinErrorFlow instance: (kwargs, info).  Tiny graphs (<= max_edges edges), values 0..6."""
    cyclic = rng.random() < 0.45
    while True:
        G0 = gen.rand_cyclic(rng, nmax=rng.choice([2, 3, 3, 4])) if cyclic else gen.rand_dag(rng, nmax=rng.choice([3, 4, 5]))
        if G0.number_of_edges() > max_edges or (node_mode and G0.number_of_nodes() > 5):
            continue
        if cyclic and nx.is_directed_acyclic_graph(G0):
            continue
        break
    is_int = rng.random() < 0.6
    scale = 1 if is_int else rng.choice([1, 1, 0.5, 0.25])
    val = (lambda: rng.choice([0, 1, 2, 3, 3, 4, 5, 6])) if is_int else (lambda: float(rng.choice([0, 1, 2, 3, 4, 6]) * scale))
    G = nx.DiGraph()
    if node_mode:
        G0 = nx.relabel_nodes(G0, {v: str(v) for v in G0.nodes()})
        for v in G0.nodes():
            if rng.random() < 0.85:
                G.add_node(v, flow=val())
            else:
                G.add_node(v)
        for u, v in G0.edges():
            G.add_edge(u, v)
        elems = [v for v in G.nodes()]
        missing = [v for v in G.nodes() if "flow" not in G.nodes[v]]
    else:
        es = list(G0.edges()); rng.shuffle(es)
        missing = []
        for u, v in es:
            if rng.random() < 0.93:
                G.add_edge(u, v, flow=val())
            else:
                G.add_edge(u, v); missing.append((u, v))
        elems = list(G.edges())
    ign = [x for x in elems if rng.random() < 0.15]
    if not node_mode:
        ign = list(dict.fromkeys(ign + missing))   # an edge without the attribute must be ignored
    scal = {}
    if rng.random() < 0.4:
        for x in elems:
            if rng.random() < 0.4:
                scal[x] = rng.choice([0, 0.5, 0.5, 1, 0.25])
    kw = dict(G=G, flow_attr="flow", flow_attr_origin="node" if node_mode else "edge",
              weight_type=int if is_int else float, elements_to_ignore=ign, error_scaling=scal)
    acyclic = nx.is_directed_acyclic_graph(G)
    if acyclic and rng.random() < 0.35:
        kw["sparsity_lambda"] = rng.choice([0.25, 0.5, 1, 2])
    if rng.random() < 0.35:
        nodes = list(G.nodes())
        kw["additional_starts"] = [v for v in nodes if rng.random() < 0.3]
        kw["additional_ends"] = [v for v in nodes if rng.random() < 0.3]
    if rng.random() < 0.3:
        kw["few_flow_values_epsilon"] = rng.choice([0.5, 0.25, 1.0, 0, 2.0])
    # decoy values: the weights live on the nodes (node mode) or on the edges (edge mode) only; the OTHER kind of element may carry an
    # attribute of the same name (NodeExpandedDiGraph copies edge data onto the connecting edges) - it must not influence anything
    decoy = False
    if rng.random() < 0.3:
        decoy = True
        dv = lambda: (rng.choice([0, 1, 5, 6]) if is_int else float(rng.choice([0, 1, 5, 6]) * scale))
        if node_mode:
            for e in G.edges():
                if rng.random() < 0.6: G.edges[e]["flow"] = dv()
        else:
            for v in G.nodes():
                if rng.random() < 0.6: G.nodes[v]["flow"] = dv()
    return kw, dict(acyclic=acyclic, is_int=is_int, scale=scale, missing=missing, decoy=decoy)
# ---------------------------------------------------------------------------------------------
# error models (C07 kLeastAbsErrors, C08 kMinPathError): arbitrary non-negative weights + options
def rand_err_args(rng, kind, nmax=None, tiny=False, force_int=None):
    """Constructor arguments (without k / solver options) for kLeastAbsErrors ('lae') or kMinPathError
    ('mpe') on a random DAG with non-negative, not all zero, NOT necessarily conserving weights.
    Returns (args, info); info = {'node_mode', 'is_int', 'paths'}."""
    nmax = nmax or rng.choice([3, 4, 5, 6])
    node_mode = (not tiny) and rng.random() < 0.22
    is_int = rng.random() < (0.75 if kind == "mpe" else 0.6)
    if force_int is not None:
        is_int = force_int
    unit = 1 if is_int else rng.choice([0.5, 0.25, 1.0, 1.5])
    while True:
        G0 = gen.rand_dag(rng, nmax=nmax)
        if tiny and G0.number_of_edges() > 6:
            continue
        paths = gen.all_st_paths(G0)
        if not paths:
            continue
        mode = rng.random()
        if mode < 0.5:            # superposition of paths, perturbed
            chosen = [rng.choice(paths) for _ in range(rng.randint(1, 3))]
            ws = [rng.choice(WEIGHTS_INT) for _ in chosen]
            f = {e: 0 for e in G0.edges()}
            for e, x in superpose(rng, G0, chosen, ws).items():
                f[e] = x
            for e in f:
                if rng.random() < 0.35:
                    f[e] = max(0, f[e] + rng.choice([-2, -1, 1, 2, 3]))
        else:                     # arbitrary values
            top = rng.choice([1, 2, 3, 4, 6]) if tiny else rng.choice([1, 3, 6, 9])
            f = {e: rng.randint(0, top) for e in G0.edges()}
        if tiny:
            f = {e: min(x, 4) for e, x in f.items()}
        if all(x == 0 for x in f.values()):
            continue
        break
    conv = (lambda x: int(x)) if is_int else (lambda x: float(x * unit))
    es = list(G0.edges()); rng.shuffle(es)
    args = {}
    if not node_mode:
        G = nx.DiGraph()
        for (u, v) in es:
            G.add_edge(u, v, flow=conv(f[(u, v)]))
        elems = list(G.edges())
    else:
        # node weights: value of some incident edge / arbitrary; some nodes lack the attribute
        G = nx.DiGraph()
        G.add_edges_from(es)
        for v in G.nodes():
            if rng.random() < 0.85:
                G.nodes[v]["flow"] = conv(rng.randint(0, 6))
        if not any(G.nodes[v].get("flow", 0) > 0 for v in G.nodes()):
            G.nodes[next(iter(G.nodes()))]["flow"] = conv(3)
        elems = [v for v in G.nodes()]
        args["flow_attr_origin"] = "node"
    args.update(G=G, flow_attr="flow", weight_type=int if is_int else float)
    if rng.random() < 0.35:
        ign = [x for x in elems if rng.random() < 0.2]
        weighted = [x for x in elems if (G.nodes[x] if node_mode else G.edges[x]).get("flow", 0) > 0]
        if any(x not in ign for x in weighted):
            args["elements_to_ignore"] = ign
    if rng.random() < 0.45:
        args["error_scaling"] = {x: rng.choice([0, 0.5, 1, 0.25, 0.5]) for x in elems if rng.random() < 0.3}
    inner = [v for v in G.nodes() if G.in_degree(v) > 0 and G.out_degree(v) > 0]
    if inner and rng.random() < 0.25:
        if rng.random() < 0.7:
            args["additional_starts"] = rng.sample(inner, min(len(inner), rng.randint(1, 2)))
        if rng.random() < 0.7:
            args["additional_ends"] = rng.sample(inner, min(len(inner), rng.randint(1, 2)))
    if (not tiny) and rng.random() < 0.2:
        cons = rand_constraints(rng, paths, maxn=2, contiguous=True)
        if cons:
            if node_mode:
                cons = [[c[0][0]] + [e[1] for e in c] for c in cons]
            args["subpath_constraints"] = cons
    if rng.random() < 0.15:
        n = rng.randint(1, 3)
        args["solution_weights_superset"] = [conv(rng.choice([1, 2, 3, 5])) for _ in range(n)]
    if kind == "mpe":
        if is_int and rng.random() < 0.3:
            cut = rng.choice([2, 3, 4])
            fs = rng.choice([[1, 2], [2, 1], [1, 0.5], [0.5, 1], [1, 1.5], [1, 1], [2, 4]])
            args["path_length_ranges"] = [(0, cut), (cut + 1, 40)]
            args["path_length_factors"] = fs
        if (not tiny) and rng.random() < 0.2:
            args["length_attr"] = "len"
            for x in (G.nodes() if node_mode else G.edges()):
                if rng.random() < 0.8:
                    (G.nodes[x] if node_mode else G.edges[x])["len"] = rng.choice([1, 2, 3])
    if rng.random() < 0.5:
        args["optimization_options"] = {"optimize_with_safe_paths": rng.random() < 0.5,
                                        "optimize_with_safe_sequences": False,
                                        "optimize_with_safe_zero_edges": rng.random() < 0.5}
    ensure_err_domain(args)
    return args, {"node_mode": node_mode, "is_int": is_int, "paths": paths}



def adversarial_fd_instance(rng):
    """flow on a DAG (3-4 generating paths) + subpath constraints taken from ARBITRARY source-to-sink routes of the
    graph (contiguous, mostly 3 edges) + a relaxed coverage fraction: the constraint edges typically lie on different
    paths of every small decomposition"""
    import gen
    G, paths, ws, is_int = rand_flow_dag(rng, nmax=rng.choice([5, 6, 7]), npaths=(3, 4))
    allp = gen.all_st_paths(G)
    cons = []
    for _ in range(rng.randint(1, 2)):
        p_ = rng.choice(allp); es = list(zip(p_, p_[1:]))
        if len(es) >= 2:
            n_ = min(len(es), rng.choice([3, 3, 3, 2]))
            a_ = rng.randrange(0, len(es) - n_ + 1); cons.append(es[a_:a_ + n_])
    cov = rng.choice([0.5, 0.5, 0.75, 1.0])
    return G, cons, cov, is_int


def ensure_err_domain(args):
    """C07/C08 quantify over inputs with at least one NON-IGNORED weighted element (DESIGN §6 #24: otherwise the k-models
    take a max over nothing).  Ignored = listed in elements_to_ignore, error_scaling 0, or (node origin) without the
    attribute.  Repairs generated arguments in place: drops scale-0 entries first, then ignore entries."""
    import props
    G = args["G"]; origin = args.get("flow_attr_origin", "edge"); attr = args["flow_attr"]

    def ok():
        return bool(props.err_elements(G, attr, origin, args.get("elements_to_ignore") or [], args.get("error_scaling") or {}))
    if ok():
        return args
    if args.get("error_scaling"):
        args["error_scaling"] = {x: s for x, s in args["error_scaling"].items() if s != 0}
    if not ok() and args.get("elements_to_ignore"):
        args["elements_to_ignore"] = []
    return args
