"""Instance generators for the model classes (flows, constraints, ignore sets, option vectors)."""
from fractions import Fraction as F
import networkx as nx
import gen

WEIGHTS_INT = [1, 1, 2, 3, 4, 6]
SCALES = [F(1), F(1), F(1), F(1, 2), F(1, 4), F(2)]


def superpose(rng, G, routes, weights):
    f = {}
    for r, w in zip(routes, weights):
        for e in zip(r, r[1:]):
            f[e] = f.get(e, 0) + w
    return f


def rand_flow_dag(rng, nmax=6, npaths=(1, 4), intw=None):
    """DAG with a conserving flow = superposition of weighted source-to-sink paths; only edges with
    positive flow are kept.  Returns (G, paths, weights, is_int)."""
    while True:
        G0 = gen.rand_dag(rng, nmax=nmax)
        paths = gen.all_st_paths(G0)
        if not paths:
            continue
        k = rng.randint(*npaths)
        chosen = [rng.choice(paths) for _ in range(k)]
        is_int = rng.random() < 0.65 if intw is None else intw
        scale = F(1) if is_int else rng.choice(SCALES[3:] + [F(1), F(5, 4)])
        ws = [rng.choice(WEIGHTS_INT) * scale for _ in chosen]
        f = superpose(rng, G0, chosen, ws)
        G = nx.DiGraph()
        es = [e for e in G0.edges() if e in f]
        rng.shuffle(es)
        for (u, v) in es:
            G.add_edge(u, v, flow=(int(f[(u, v)]) if is_int else float(f[(u, v)])))
        if G.number_of_edges() >= 1:
            return G, chosen, ws, is_int


def rand_constraints(rng, routes, maxn=2, contiguous=None):
    """sub-sequences of edges of actual routes (so they are satisfiable)"""
    cons = []
    for _ in range(rng.randint(0, maxn)):
        r = rng.choice(routes)
        es = list(zip(r, r[1:]))
        if not es:
            continue
        n = rng.randint(1, min(3, len(es)))
        if contiguous if contiguous is not None else rng.random() < 0.5:
            a = rng.randrange(0, len(es) - n + 1); c = es[a:a + n]
        else:
            idx = sorted(rng.sample(range(len(es)), n)); c = [es[i] for i in idx]
        cons.append(c)
    if cons and rng.random() < 0.2:
        cons.append(list(cons[0]))         # duplicate constraint
    return cons


def rand_ignore(rng, G, p=0.15):
    ign = [e for e in G.edges() if rng.random() < p]
    if len(ign) == G.number_of_edges():
        ign = []
    return ign


def perturb_flow(rng, G, attr="flow", is_int=True, p=0.4):
    """non-conserving weights for the error models"""
    for e in G.edges():
        if rng.random() < p:
            d = rng.choice([-2, -1, 1, 2, 3]) * (1 if is_int else 0.5)
            G.edges[e][attr] = max(0, G.edges[e][attr] + d)
    return G


# ---------------------------------------------------------------------------------------------
# error models (C07 kLeastAbsErrors, C08 kMinPathError): arbitrary non-negative weights + options
def rand_err_args(rng, kind, nmax=None, tiny=False, force_int=None):
    """Constructor arguments (without k / solver options) for kLeastAbsErrors ('lae') or kMinPathError
    ('mpe') on a random DAG with non-negative, not all zero, NOT necessarily conserving weights.
    Returns (args, info); info = {'node_mode', 'is_int', 'paths'}."""
    nmax = nmax or rng.choice([3, 4, 5, 6])
    node_mode = (not tiny) and rng.random() < 0.22
    is_int = rng.random() < (0.75 if kind == "mpe" else 0.6)
    if force_int is not None:
        is_int = force_int
    unit = 1 if is_int else rng.choice([0.5, 0.25, 1.0, 1.5])
    while True:
        G0 = gen.rand_dag(rng, nmax=nmax)
        if tiny and G0.number_of_edges() > 6:
            continue
        paths = gen.all_st_paths(G0)
        if not paths:
            continue
        mode = rng.random()
        if mode < 0.5:            # superposition of paths, perturbed
            chosen = [rng.choice(paths) for _ in range(rng.randint(1, 3))]
            ws = [rng.choice(WEIGHTS_INT) for _ in chosen]
            f = {e: 0 for e in G0.edges()}
            for e, x in superpose(rng, G0, chosen, ws).items():
                f[e] = x
            for e in f:
                if rng.random() < 0.35:
                    f[e] = max(0, f[e] + rng.choice([-2, -1, 1, 2, 3]))
        else:                     # arbitrary values
            top = rng.choice([1, 2, 3, 4, 6]) if tiny else rng.choice([1, 3, 6, 9])
            f = {e: rng.randint(0, top) for e in G0.edges()}
        if tiny:
            f = {e: min(x, 4) for e, x in f.items()}
        if all(x == 0 for x in f.values()):
            continue
        break
    conv = (lambda x: int(x)) if is_int else (lambda x: float(x * unit))
    es = list(G0.edges()); rng.shuffle(es)
    args = {}
    if not node_mode:
        G = nx.DiGraph()
        for (u, v) in es:
            G.add_edge(u, v, flow=conv(f[(u, v)]))
        elems = list(G.edges())
    else:
        # node weights: value of some incident edge / arbitrary; some nodes lack the attribute
        G = nx.DiGraph()
        G.add_edges_from(es)
        for v in G.nodes():
            if rng.random() < 0.85:
                G.nodes[v]["flow"] = conv(rng.randint(0, 6))
        if not any(G.nodes[v].get("flow", 0) > 0 for v in G.nodes()):
            G.nodes[next(iter(G.nodes()))]["flow"] = conv(3)
        elems = [v for v in G.nodes()]
        args["flow_attr_origin"] = "node"
    args.update(G=G, flow_attr="flow", weight_type=int if is_int else float)
    if rng.random() < 0.35:
        ign = [x for x in elems if rng.random() < 0.2]
        weighted = [x for x in elems if (G.nodes[x] if node_mode else G.edges[x]).get("flow", 0) > 0]
        if any(x not in ign for x in weighted):
            args["elements_to_ignore"] = ign
    if rng.random() < 0.45:
        args["error_scaling"] = {x: rng.choice([0, 0.5, 1, 0.25, 0.5]) for x in elems if rng.random() < 0.3}
    inner = [v for v in G.nodes() if G.in_degree(v) > 0 and G.out_degree(v) > 0]
    if inner and rng.random() < 0.25:
        if rng.random() < 0.7:
            args["additional_starts"] = rng.sample(inner, min(len(inner), rng.randint(1, 2)))
        if rng.random() < 0.7:
            args["additional_ends"] = rng.sample(inner, min(len(inner), rng.randint(1, 2)))
    if (not tiny) and rng.random() < 0.2:
        cons = rand_constraints(rng, paths, maxn=2, contiguous=True)
        if cons:
            if node_mode:
                cons = [[c[0][0]] + [e[1] for e in c] for c in cons]
            args["subpath_constraints"] = cons
    if rng.random() < 0.15:
        n = rng.randint(1, 3)
        args["solution_weights_superset"] = [conv(rng.choice([1, 2, 3, 5])) for _ in range(n)]
    if kind == "mpe":
        if is_int and rng.random() < 0.3:
            cut = rng.choice([2, 3, 4])
            fs = rng.choice([[1, 2], [2, 1], [1, 0.5], [0.5, 1], [1, 1.5], [1, 1], [2, 4]])
            args["path_length_ranges"] = [(0, cut), (cut + 1, 40)]
            args["path_length_factors"] = fs
        if (not tiny) and rng.random() < 0.2:
            args["length_attr"] = "len"
            for x in (G.nodes() if node_mode else G.edges()):
                if rng.random() < 0.8:
                    (G.nodes[x] if node_mode else G.edges[x])["len"] = rng.choice([1, 2, 3])
    if rng.random() < 0.5:
        args["optimization_options"] = {"optimize_with_safe_paths": rng.random() < 0.5,
                                        "optimize_with_safe_sequences": False,
                                        "optimize_with_safe_zero_edges": rng.random() < 0.5}
    return args, {"node_mode": node_mode, "is_int": is_int, "paths": paths}
