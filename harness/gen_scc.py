"""Cyclic-digraph generator by SCC gadgets (C06): a random DAG skeleton whose nodes are replaced by strongly
connected gadgets, with parallel inter-SCC edges (directly between different node pairs, or through distinct
intermediate nodes).  Kept in its own module so that harness/gen.py stays untouched by this sub-task.
Every random choice comes from the `rng` handed in."""
import networkx as nx

GADGETS = {
    "single": (1, []),
    "selfloop": (1, [(0, 0)]),
    "2cycle": (2, [(0, 1), (1, 0)]),
    "3cycle": (3, [(0, 1), (1, 2), (2, 0)]),
    "figure8": (3, [(0, 1), (1, 0), (1, 2), (2, 1)]),
    "nested": (3, [(0, 1), (1, 2), (2, 0), (1, 0)]),
    "2cycle+loop": (2, [(0, 1), (1, 0), (1, 1)]),
}
GNAMES = ["single", "single", "selfloop", "2cycle", "2cycle", "3cycle", "figure8", "nested", "2cycle+loop"]


def rand_scc_graph(rng, max_nodes=8, max_edges=14):
    """Returns (G, gadget names).  Every node lies on a walk from an in-degree-0 node to an out-degree-0 node."""
    while True:
        ns = rng.choice([1, 2, 2, 3, 3, 4])
        gad = [rng.choice(GNAMES) for _ in range(ns)]
        if all(g == "single" for g in gad) and rng.random() < 0.8:
            continue
        nodes = []
        edges = []
        for i, g in enumerate(gad):
            n, es = GADGETS[g]
            nodes.append([f"g{i}{chr(97 + j)}" for j in range(n)])
            edges += [(nodes[i][a], nodes[i][b]) for a, b in es]
        p = rng.choice([0.4, 0.7, 1.0])
        skel = [(a, b) for a in range(ns) for b in range(a + 1, ns) if rng.random() < p]
        nx_i = 0
        for a, b in skel:
            mult = rng.choice([1, 1, 2, 2, 3])
            for _ in range(mult):
                u = rng.choice(nodes[a]); v = rng.choice(nodes[b])
                if (u, v) in edges or rng.random() < 0.3:
                    x = f"x{nx_i}"; nx_i += 1           # parallel edge through a distinct intermediate node
                    edges += [(u, x), (x, v)]
                else:
                    edges.append((u, v))
        has_in = {b for _, b in skel}; has_out = {a for a, _ in skel}
        for i in range(ns):
            nontrivial = len(GADGETS[gad[i]][1]) > 0
            if i not in has_in and (nontrivial or rng.random() < 0.3):
                edges.append((f"s{i}", rng.choice(nodes[i])))
                if rng.random() < 0.2:
                    edges.append((f"s{i}", rng.choice(nodes[i])))
            if i not in has_out and (nontrivial or rng.random() < 0.3):
                edges.append((rng.choice(nodes[i]), f"t{i}"))
                if rng.random() < 0.2:
                    edges.append((rng.choice(nodes[i]), f"t{i}"))
        edges = list(dict.fromkeys(edges))
        if not edges or len(edges) > max_edges:
            continue
        rng.shuffle(edges)
        G = nx.DiGraph(); G.add_edges_from(edges)
        if G.number_of_nodes() > max_nodes:
            continue
        srcs = [v for v in G if G.in_degree(v) == 0]; snks = [v for v in G if G.out_degree(v) == 0]
        if not srcs or not snks:
            continue
        fwd = set(srcs); bwd = set(snks)
        for a in srcs: fwd |= nx.descendants(G, a)
        for b in snks: bwd |= nx.ancestors(G, b)
        if len(fwd & bwd) < G.number_of_nodes():
            continue
        return G, gad


def rand_dag_with_cycles(rng, rand_dag, nmax=8):
    """A random DAG (from `rand_dag`) into which 1-3 small cycles are planted (self-loop, 2-cycle through a new node,
    or a back edge); sources / sinks that become cyclic get a new source / sink node, so that every node stays on a
    source-to-sink walk.  Denser than the gadget graphs: many alternative routes between the SCCs, which is what the
    slot-assignment (maximum antichain) code needs to be exercised with sparse trusted sets.  Returns None if the
    result has a node that is not on a source-to-sink walk."""
    G = rand_dag(rng, nmax=nmax)
    nodes = list(G.nodes())
    for _ in range(rng.randint(1, 3)):
        v = rng.choice(nodes); r = rng.random()
        if G.out_degree(v) == 0: G.add_edge(v, v + "t")
        if G.in_degree(v) == 0: G.add_edge(v + "s", v)
        if r < 0.4:
            G.add_edge(v, v)
        elif r < 0.8:
            G.add_edge(v, v + "c"); G.add_edge(v + "c", v)
        else:
            u, w = rng.choice(list(G.edges()))
            if u != w: G.add_edge(w, u)
    srcs = [v for v in G if G.in_degree(v) == 0]; snks = [v for v in G if G.out_degree(v) == 0]
    if not srcs or not snks:
        return None
    fwd = set(srcs); bwd = set(snks)
    for a in srcs: fwd |= nx.descendants(G, a)
    for b in snks: bwd |= nx.ancestors(G, b)
    if len(fwd & bwd) < G.number_of_nodes():
        return None
    return G
