#!/venv/bin/python
"""./check <property-id> [--thorough] | ./check --replay <path>"""
import importlib, json, os, sys, time, traceback
sys.path.insert(0, os.path.dirname(os.path.abspath(__file__)))
import common
common.setup_env()


def main(argv):
    # HiGHS 1.15.1 has been observed to report FEASIBLE models infeasible -- with presolve on some instances, with presolve off
    # on others (DESIGN 10.4: witnesses from MinErrorFlow, kFlowDecompCycles, MinFlowDecompCycles).  Every property here is stated
    # relative to a solver that answers correctly, so the harness gives HiGHS a second opinion: a model that comes back infeasible
    # is solved once more with the other presolve setting, and counts as infeasible only if both runs say so.
    common.install_second_opinion()
    if len(argv) >= 2 and argv[0] == "--replay":
        body = json.load(open(argv[1]))
        pid = body["property"]
        eng = importlib.import_module("engines." + pid.lower())
        ctx = common.Ctx(pid, "quick", int(body.get("seed", 0)))
        ok, log = common.ensure_built()
        print(json.dumps({"what": body["what"], "concrete": body["concrete_failing_input"]}, indent=1))
        if isinstance(body["replay"], dict) and "generated_model" in body["replay"]:
            import gencheck, gencheck12, gencheck01, gencheck_enc, gencheck_misc, gencheck14, gencheck13
            gm = body["replay"]["generated_model"]
            r = (gencheck14 if gm in gencheck14.PROOFS else gencheck13 if gm in gencheck13.PROOFS else gencheck12 if gm in gencheck12.ORDER else gencheck01 if gm in gencheck01.ORDER else
                 gencheck_misc if gm in gencheck_misc.PROOFS else
                 gencheck_enc if gm in gencheck_enc.PROOFS or gm == "transfer" else gencheck).replay(ctx, body["replay"])
            print("REPLAY:", "still failing" if r else "passes now")
            return 1 if r else 0
        if hasattr(eng, "replay"):
            r = eng.replay(ctx, body["replay"])
            print("REPLAY:", "still failing" if r else "passes now")
            return 1 if r else 0
        print("REPLAY: engine has no replay function; body:", json.dumps(body["replay"], default=str)[:2000])
        return 0
    pid = argv[0].upper()
    tier = "thorough" if ("--thorough" in argv or os.environ.get("VERIF_TIER") == "thorough") else "quick"
    seed = int(os.environ.get("VERIF_SEED", "0"))
    ctx = common.Ctx(pid, tier, seed)
    import shutil
    shutil.rmtree(os.path.join(common.OUT, "replays", pid), ignore_errors=True)     # replays of earlier runs
    ok, log = common.ensure_built()
    obl = common.coq_obligations(pid)
    forb = common.forbidden_scan()
    eng = importlib.import_module("engines." + pid.lower())
    broken = []
    if not ok:
        broken.append({"kind": "build", "log": log[-1500:]})
    if not obl["ok"]:
        broken.append({"kind": "props-file", "file": obl["file"], "log": obl["log"][-1500:], "unprinted": obl.get("unprinted")})
    for t in obl["theorems"]:
        if not common.assumptions_acceptable(t):
            broken.append({"kind": "open-assumption", "theorem": t["theorem"], "assumptions": t["assumptions"][:800]})
    if forb:
        broken.append({"kind": "forbidden-vernacular", "hits": forb[:20]})
    if broken:
        os.environ["VERIF_SCALE"] = str(float(os.environ.get("VERIF_SCALE", "1")) * 3)   # search harder for a failing input
    try:
        if os.path.exists(common.FPMODEL):
            eng.run(ctx)
        else:
            broken.append({"kind": "no-model-driver"})
    except Exception:
        tb = traceback.format_exc()
        ctx.report("the check itself crashed: " + tb.splitlines()[-1], {"traceback": tb}, concrete=False)
        if "generated_model" not in ctx.engines and pid in ("C01", "C02", "C07", "C08", "C10", "C12", "C13", "C14", "C15", "C16", "C17", "C19"):
            # the engine died before its generated-model tie (last call of run()) was reached: run it now, it searches for a concrete input
            try:
                import gencheck, gencheck12, gencheck01
                import gencheck_enc, gencheck_misc, gencheck14, gencheck13
                {"C14": lambda: gencheck14.run_generated_c14(ctx), "C13": lambda: gencheck13.run_generated_c13(ctx), "C01": lambda: (gencheck01.run_generated_c01(ctx), gencheck_enc.run_generated_kpc(ctx)), "C17": lambda: gencheck01.run_generated_c17(ctx),
                 "C02": lambda: gencheck_enc.run_generated_kfd(ctx), "C07": lambda: gencheck_enc.run_generated_klae(ctx), "C08": lambda: gencheck_enc.run_generated_kmpe(ctx),
                 "C15": lambda: gencheck_misc.run_generated_c15(ctx), "C16": lambda: gencheck_misc.run_generated_c16(ctx),
                 "C10": lambda: gencheck.run_generated(ctx, ["max_occurrence"]),
                 "C19": lambda: gencheck.run_generated(ctx, ["nonneg_check", "check_flow_conservation"]),
                 "C12": lambda: gencheck12.run_generated_rows(ctx)}[pid]()
            except Exception:
                pass
    if broken and not any(v["concrete"] for v in ctx.violations):
        ctx.report("proof obligation of %s no longer checks: %s" % (pid, "; ".join(b["kind"] + ":" + str(b.get("theorem", b.get("file", ""))) for b in broken)),
                   {"broken": broken}, concrete=False)
    ctx.notes.append({"coqc_props_s": obl.get("coqc_s"), "forbidden_hits": len(forb), "build_ok": ok})
    return ctx.finish(obl, level=getattr(eng, "LEVEL", "proof"), assumptions=getattr(eng, "ASSUMPTIONS", []),
                      trusted=common.TRUSTED_COMMON + getattr(eng, "TRUSTED", []), explanation=getattr(eng, "EXPLANATION", ""))


if __name__ == "__main__":
    sys.exit(main(sys.argv[1:]))
