"""gencheck_enc.py — the GENERATED-MODEL tie for the MILP ENCODERS of the DAG models:
AbstractPathModelDAG._encode_paths, kFlowDecomp._encode_flow_decomposition, kPathCover._encode_path_cover
(Gen_encode_paths.v / Gen_encode_kfd.v / Gen_encode_kpc.v, proof scripts coq/gen_proofs/Enc*Spec.v).

Per run: translate the current source (harness/translate.py), compile the generated files and the hand-written proof scripts
against them (generated columns / rows admit exactly the assignments of PathEnc.base_cols / base_rows / kfd_rows / kpc_rows),
validate the translator: each encoder is called ALONE on a fresh SolverWrapper for model objects of the engines' E1 instance
streams and the columns / rows it added (read back from HiGHS, harness/lpdump.py) are compared with the generated model's
(vm_compute); the statement (rows added == rows of the documented formulation, computed independently here) is evaluated on
the real rows; on any failure a concrete instance is searched.

    run_generated_kfd(ctx)    (end of engines/c02.py::run)      run_generated_kpc(ctx)    (end of engines/c01.py::run)
"""
import collections, os, shutil, tempfile
from fractions import Fraction as F
import common, translate, lpdump, gencheck, e1

PROOFS = {"encode_paths": "EncPathsSpec.v", "encode_kfd": "EncKfdSpec.v", "encode_kpc": "EncKpcSpec.v", "encode_kfdw": "EncKfdwSpec.v",
          "encode_klae": "EncKlaeSpec.v", "encode_klae_given": "EncKlaeGivenSpec.v", "encode_klae_obj": "EncKlaeObjSpec.v",
          "encode_kmpe": "EncKmpeSpec.v", "encode_kmpe_given": "EncKmpeGivenSpec.v", "encode_kmpe_obj": "EncKmpeObjSpec.v"}
HELPER_PROOFS = {"binprod": "BinProdSpec.v", "pwc": "PwcSpec.v", "intprod": "IntProdSpec.v"}
# what is translated / proved together: the transfer theorems of a family speak about all of its encoders
FAMILIES = {
    "base": dict(targets=["encode_paths", "encode_kfd", "encode_kpc", "encode_kfdw"], transfer="EncTransfer.v",
                 transfer_what="the transfer theorems (gen_kfd_sound, gen_kfd_feasible_iff_cons, gen_kpc_feasible_iff)"),
    "klae": dict(targets=["encode_paths", "encode_klae", "encode_klae_given", "encode_klae_obj"], transfer="EncKlaeTransfer.v",
                 transfer_what="the transfer theorems (gen_klae_lp, gen_klae_optimal, gen_klae_enc_sound, gen_klae_given_optimal)"),
    "kmpe": dict(targets=["encode_paths", "encode_kmpe", "encode_kmpe_given", "encode_kmpe_obj"], transfer="EncKmpeTransfer.v", helpers=["binprod", "pwc", "intprod"],
                 transfer_what="the transfer theorems (gen_kmpe_lp, gen_kmpe_optimal, gen_kmpe_given_optimal)"),
}
HAS_OBJ = ("encode_kfdw", "encode_klae_obj", "encode_kmpe_obj")
ORDER = ["binprod", "encode_paths", "encode_kfd", "encode_kpc"]
FAMN = {"fEdge": 0, "fPi": 1, "fW": 2, "fSlack": 3, "fGamma": 4, "fErr": 5, "fR": 6, "fPos": 10, "fLen": 11, "fFactor": 20, "fSSlack": 21}
N_OUT = {"encode_paths": 7, "encode_kfd": 2, "encode_kpc": 0, "encode_kfdw": 0, "encode_klae": 4, "encode_klae_given": 2, "encode_klae_obj": 0,
         "encode_kmpe": 6, "encode_kmpe_given": 4, "encode_kmpe_obj": 0}            # number of assigned attributes after (outcome, cols, rows)
STATEMENT = {
    "encode_paths": "_encode_paths adds exactly the edge / constraint variables and the rows 10a (one per layer), 10c (per layer and inner node), 7a (per layer and constraint) and 7b (per constraint) of the documented formulation (with encode_edge_position also the position / path-length variables and their defining rows)",
    "encode_kfd": "_encode_flow_decomposition adds exactly the pi / w variables, for every non-ignored edge the four product rows per layer and the row sum_i pi(u,v,i) == flow(u,v)",
    "encode_kpc": "_encode_path_cover adds exactly one row sum_i x(u,v,i) >= 1 per non-ignored edge",
    "encode_kfdw": "_encode_flow_decomposition_with_given_weights adds exactly, per non-ignored edge, the row sum_i w_i x(u,v,i) == flow(u,v), the row 'at most original_k source edges used', and minimises the number of source edges used",
    "encode_klae": "_encode_leastabserrors_decomposition adds exactly the pi / weight / error variables (bounds 0..w_max) and, for every non-ignored edge, per layer the four product rows (pi == 0 / pi == w_i where the edge variable is fixed to 0 / 1) and the rows f - sum_i pi <= err, sum_i pi - f <= err",
    "encode_klae_given": "_encode_leastabserrors_decomposition_with_given_weights adds exactly the error variables and, per non-ignored edge, the rows f - sum_i w_i x(u,v,i) <= err, -f + sum_i w_i x(u,v,i) <= err, and the row 'at most original_k source edges used'",
    "encode_klae_obj": "_encode_objective minimises sum over the non-ignored edges of error_scaling.get(e, 1) * err(e)",
    "encode_kmpe": "_encode_minpatherror_decomposition (without path_length_factors) adds exactly the weight / pi / slack / gamma variables (bounds 0..w_max) and for every non-ignored edge per layer the pi and gamma product rows (pi == 0, gamma == 0 / pi == w_i, gamma == slack_i where the edge variable is fixed to 0 / 1) and the rows (f - sum_i pi) * scaling <= sum_i gamma, >= - sum_i gamma",
    "encode_kmpe_given": "_encode_minpatherror_decomposition_with_given_weights (without path_length_factors) adds exactly the slack / gamma variables and, per non-ignored edge, the gamma product rows and (f - sum_i w_i x(u,v,i)) * scaling <= sum_i gamma, >= - sum_i gamma, and the row 'at most original_k source edges used'",
    "encode_kmpe_obj": "_encode_objective minimises the sum of the path slacks",
}
cN = gencheck.cN; cL = gencheck.cL; cE = gencheck.cE; cQ = gencheck.cQ


# ------------------------------------------------------------------------------------------ model objects -> inputs of the generated fn
def coq_graph(st, ids):
    adj = lambda f: cL(["(%s, %s)" % (cN(ids[v]), cL([cN(ids[x]) for x in f(v)])) for v in st.nodes()])
    return ("{| PathEnc.g_nodes := %s; PathEnc.g_edges := %s; PathEnc.g_src := %s; PathEnc.g_snk := %s; PathEnc.g_succ := %s; PathEnc.g_pred := %s |}"
            % (cL([cN(ids[v]) for v in st.nodes()]), cL([cE((ids[u], ids[v])) for u, v in st.edges()]), cN(ids[st.source]), cN(ids[st.sink]),
               adj(st.successors), adj(st.predecessors)))


def cK3(ids, idx): return cL(["(%s, %s, (%d)%%Z)" % (cN(ids[u]), cN(ids[v]), i) for (u, v, i) in idx])
def cZ(i): return "(%d)%%Z" % i


def fn_call(name, m, ids):
    # set-valued attributes (edges_to_ignore) are written in sorted order: the translator types them Set -- membership only, iteration over a set is
    # rejected -- so the order is no input of the model, and the Cases file is the same text from run to run (hash randomisation of str)
    st = m.G
    G = coq_graph(st, ids)
    cons = cL([cL([cE((ids[u], ids[v])) for (u, v) in c]) for c in (m.subpath_constraints or [])])
    drop = "(fst " * N_OUT[name]; close = ")" * N_OUT[name]
    if name == "encode_paths":
        lens = cL(["(%s, %s)" % (cE((ids[u], ids[v])), cQ(st[u][v].get(m.length_attr, 1))) for u, v in st.edges()])
        rev = "[]"
        if m.encode_edge_position:
            rev = cL(["(%s, %s)" % (cN(ids[v]), cL([cE((ids[a], ids[b])) for a, b in st.reachable_edges_rev_from[v]])) for v in st.nodes()])
        cl = m.subpath_constraints_coverage_length
        args = [G, cZ(m.k), "true" if m.allow_empty_paths else "false", cons, cQ(m.subpath_constraints_coverage),
                "None" if cl is None else "(Some %s)" % cQ(cl), "None" if m.length_attr is None else "(Some tt)",
                "true" if m.encode_edge_position else "false", lens, rev]
    elif name == "encode_kfd":
        flows = cL(["(%s, %s)" % (cE((ids[u], ids[v])), cQ(d[m.flow_attr])) for u, v, d in st.edges(data=True) if m.flow_attr in d])
        args = [G, cZ(m.k), cK3(ids, m.edge_indexes), cL([cZ(i) for i in m.path_indexes]), cK3(ids, m.edge_indexes), cQ(m.w_max),
                cL([cE((ids[u], ids[v])) for (u, v) in sorted(m.edges_to_ignore, key=str)]), cK3(ids, list(m.edges_set_to_zero)), cK3(ids, list(m.edges_set_to_one)),
                flows, "true" if m.is_solved() else "false", "true" if m.weight_type == int else "false"]
    elif name == "encode_kfdw":
        flows = cL(["(%s, %s)" % (cE((ids[u], ids[v])), cQ(d[m.flow_attr])) for u, v, d in st.edges(data=True) if m.flow_attr in d])
        oo = m.optimization_options
        args = [G, cZ(m.k), cK3(ids, m.edge_indexes), cL([cE((ids[u], ids[v])) for (u, v) in sorted(m.edges_to_ignore, key=str)]),
                cL([cQ(w) for w in m.solution_weights_superset]), cZ(m.original_k), flows, "true" if m.is_solved() else "false"] + \
               ["true" if oo.get(o, False) else "false" for o in ("optimize_with_safe_paths", "optimize_with_safe_sequences", "optimize_with_safe_zero_edges", "optimize_with_flow_safe_paths")]
        return "(let r := fn %s in enc_emitted (fst (fst r), snd (fst r)) ++ [enc_obj (snd r)])" % " ".join(args)      # (outcome, cols, rows, objective)
    elif name in ("encode_klae", "encode_klae_given"):
        flows = cL(["(%s, %s)" % (cE((ids[u], ids[v])), cQ(d[m.flow_attr])) for u, v, d in st.edges(data=True) if m.flow_attr in d])
        ign = cL([cE((ids[u], ids[v])) for (u, v) in sorted(m.edges_to_ignore, key=str) if u in ids and v in ids])
        if name == "encode_klae":
            args = [G, cZ(m.k), cK3(ids, m.edge_indexes), cQ(m.w_max), ign, cK3(ids, m.edge_indexes), cL([cZ(i) for i in m.path_indexes]),
                    cK3(ids, list(m.edges_set_to_zero)), cK3(ids, list(m.edges_set_to_one)), flows, "true" if m.weight_type == int else "false"]
        else:
            args = [G, cZ(m.k), cK3(ids, m.edge_indexes), cQ(m.w_max), ign, cL([cQ(w) for w in m.solution_weights_superset]), cZ(m.original_k),
                    "true" if m.allow_empty_paths else "false", flows, "true" if m.weight_type == int else "false"]
    elif name in ("encode_kmpe", "encode_kmpe_given"):
        flows = cL(["(%s, %s)" % (cE((ids[u], ids[v])), cQ(d[m.flow_attr])) for u, v, d in st.edges(data=True) if m.flow_attr in d])
        ign = cL([cE((ids[u], ids[v])) for (u, v) in sorted(m.edges_to_ignore, key=str) if u in ids and v in ids])
        sc = cL(["(%s, %s)" % (cE((ids[u], ids[v])), cQ(c)) for (u, v), c in m.edge_error_scaling.items() if u in ids and v in ids])
        common_args = [G, cZ(m.k), cK3(ids, m.edge_indexes), cQ(m.w_max), ign, cK3(ids, m.edge_indexes), cL([cZ(i) for i in m.path_indexes]), sc,
                       cL([cQ(c) for c in m.path_length_factors]), cL(["(%s, %s)" % (cQ(r[0]), cQ(r[1])) for r in m.path_length_ranges]),
                       cL([cZ(i) for i in m.path_length_vars])]
        if name == "encode_kmpe":
            args = common_args + [cK3(ids, list(m.edges_set_to_zero)), cK3(ids, list(m.edges_set_to_one)), flows, "true" if m.weight_type == int else "false"]
        else:
            args = common_args + [cL([cQ(w) for w in m.solution_weights_superset]), cZ(m.original_k), "true" if m.allow_empty_paths else "false", flows,
                                  "true" if m.weight_type == int else "false"]
    elif name == "encode_kmpe_obj":
        return "(let r := fn %s %s in enc_emitted (fst (fst r), snd (fst r)) ++ [enc_obj (snd r)])" % (cZ(m.k), cL([cZ(i) for i in m.path_slacks_vars]))
    elif name == "encode_klae_obj":
        be = cL([cE((ids[u], ids[v])) for (u, v) in m.edge_indexes_basic])
        sc = cL(["(%s, %s)" % (cE((ids[u], ids[v])), cQ(c)) for (u, v), c in m.edge_error_scaling.items() if u in ids and v in ids])
        return "(let r := fn %s %s %s in enc_emitted (fst (fst r), snd (fst r)) ++ [enc_obj (snd r)])" % (cL([cE((ids[u], ids[v])) for (u, v) in m.edge_errors_vars]), be, sc)
    else:
        args = [G, cZ(m.k), cons, cQ(m.subpath_constraints_coverage), cL([cE((ids[u], ids[v])) for (u, v) in sorted(m.edges_to_ignore, key=str)]), cK3(ids, m.edge_indexes)]
    return "enc_emitted (%s(fn %s)%s)" % (drop, " ".join(args), close)


def fresh_solver(m):
    from flowpaths.utils.solverwrapper import SolverWrapper
    lpdump.install(); lpdump.reset()
    m.solver = SolverWrapper()
    fixed = getattr(m, "_gen_fixed", None)      # (zero, one): edge variables the instance stream fixes (the branch of the safety optimisations)
    if hasattr(m, "edges_set_to_zero"): m.edges_set_to_zero = dict(fixed[0]) if fixed else {}
    if hasattr(m, "edges_set_to_one"): m.edges_set_to_one = dict(fixed[1]) if fixed else {}


def dump(m, ids):
    if hasattr(m, "edge_error_scaling"):
        import e1err
        return lpdump.dump_impl(m.solver, e1err.colkey(m, ids))
    return lpdump.dump_impl(m.solver, e1.colkey_dag(m, ids, extra={"path_length": lambda i: (11, i)}))


def added(before, after):
    """columns / rows an encoder added to the LP"""
    cols = {k: v for k, v in after["cols"].items() if k not in before["cols"]}
    ca = collections.Counter(map(repr, after["rows"])); cb = collections.Counter(map(repr, before["rows"]))
    left = ca - cb
    rows = []
    for r in after["rows"]:
        if left[repr(r)] > 0: rows.append(r); left[repr(r)] -= 1
    return {"exc": None, "cols": cols, "rows": sorted(rows, key=repr)}


def real(name, m, ids):
    """call the encoder alone on a fresh solver (after the encoders it builds on) and return what it added"""
    empty = {"cols": {}, "rows": []}
    try:
        fresh_solver(m)
        if name == "encode_paths":
            m._encode_paths(); return added(empty, dump(m, ids))
        m._encode_paths(); before = dump(m, ids)
        if name == "encode_kfd": m._encode_flow_decomposition()
        elif name == "encode_klae": m._encode_leastabserrors_decomposition()
        elif name == "encode_klae_given": m._encode_leastabserrors_decomposition_with_given_weights()
        elif name == "encode_kmpe": m._encode_minpatherror_decomposition()
        elif name == "encode_kmpe_given": m._encode_minpatherror_decomposition_with_given_weights()
        elif name == "encode_kmpe_obj":
            if m.solution_weights_superset is not None: m._encode_minpatherror_decomposition_with_given_weights()
            else: m._encode_minpatherror_decomposition()
            before = dump(m, ids); m._encode_objective()
            after = dump(m, ids); r = added(before, after); r["obj"] = after["obj"]; r["sense"] = after["sense"]
            return r
        elif name == "encode_klae_obj":
            if m.solution_weights_superset is not None: m._encode_leastabserrors_decomposition_with_given_weights()
            else: m._encode_leastabserrors_decomposition()
            before = dump(m, ids); m._encode_objective()
            after = dump(m, ids); r = added(before, after); r["obj"] = after["obj"]; r["sense"] = after["sense"]
            return r
        elif name == "encode_kfdw":
            m._encode_flow_decomposition_with_given_weights()
            after = dump(m, ids); r = added(before, after); r["obj"] = after["obj"]; r["sense"] = after["sense"]
            return r
        else: m._encode_path_cover()
        return added(before, dump(m, ids))
    except Exception as e:
        return {"exc": type(e).__name__, "cols": {}, "rows": []}


# ------------------------------------------------------------------------------------------ the documented formulation, independently
def nrow(terms, sense, rhs):
    t = collections.defaultdict(F)
    for k, c in terms: t[k] += F(c)
    lo, hi = {"<=": (None, F(rhs)), ">=": (F(rhs), None), "==": (F(rhs), F(rhs))}[sense]
    return lpdump.norm_row(dict(t), lo, hi)


def spec(name, m, ids):
    st = m.G; k = m.k; s, t = st.source, st.sink
    E = lambda u, v, i: (0, ids[u], ids[v], i)
    cols = {}; rows = []
    if name == "encode_paths":
        for i in range(k):
            for u, v in st.edges(): cols[E(u, v, i)] = (F(0), F(1), True)
            rows.append(nrow([(E(s, v, i), 1) for v in st.successors(s)], "<=" if m.allow_empty_paths else "==", 1))
            for v in st.nodes():
                if v in (s, t): continue
                rows.append(nrow([(E(u, v, i), 1) for u in st.predecessors(v)] + [(E(v, w, i), -1) for w in st.successors(v)], "==", 0))
        cons = m.subpath_constraints or []
        for j, c in enumerate(cons):
            ln = (lambda e: 1) if m.subpath_constraints_coverage_length is None else (lambda e: st[e[0]][e[1]].get(m.length_attr, 1))
            cov = m.subpath_constraints_coverage if m.subpath_constraints_coverage_length is None else m.subpath_constraints_coverage_length
            total = sum(F(ln(e)) for e in c)
            for i in range(k):
                cols[(6, i, j)] = (F(0), F(1), True)
                rows.append(nrow([(E(e[0], e[1], i), ln(e)) for e in c] + [((6, i, j), -total * F(cov))], ">=", 0))
            rows.append(nrow([((6, i, j), 1) for i in range(k)], ">=", 1))
        if m.encode_edge_position:      # position(u,v,i) == sum of len(e) x(e,i) over the edges e whose head reaches u; path_length(i) == sum over all edges
            ln2 = lambda a, b: F(st[a][b].get(m.length_attr, 1))
            ml = F(st.number_of_nodes()) if m.length_attr is None else sum((ln2(a, b) for a, b in st.edges()), F(0))
            for i in range(k):
                for u, v in st.edges():
                    cols[(10, ids[u], ids[v], i)] = (F(0), ml, True)
                    rows.append(nrow([((10, ids[u], ids[v], i), 1)] + [(E(a, b, i), -ln2(a, b)) for (a, b) in st.reachable_edges_rev_from[u]], "==", 0))
                cols[(11, i)] = (F(0), ml, True)
                rows.append(nrow([((11, i), 1)] + [(E(a, b, i), -ln2(a, b)) for (a, b) in st.edges()], "==", 0))
    elif name == "encode_kfd":
        isint = m.weight_type == int; W = F(m.w_max)
        for i in range(k):
            cols[(2, i)] = (F(0), W, isint)
            for u, v in st.edges(): cols[(1, ids[u], ids[v], i)] = (F(0), W, isint)
        for u, v, d in st.edges(data=True):
            if (u, v) in m.edges_to_ignore: continue
            for i in range(k):
                x, w, p = E(u, v, i), (2, i), (1, ids[u], ids[v], i)
                rows += [nrow([(p, 1), (x, -W)], "<=", 0), nrow([(p, 1)], ">=", 0), nrow([(p, 1), (w, -1)], "<=", 0), nrow([(p, 1), (w, -1), (x, -W)], ">=", -W)]
            rows.append(nrow([((1, ids[u], ids[v], i), 1) for i in range(k)], "==", d[m.flow_attr]))
    elif name == "encode_kfdw":
        ws = m.solution_weights_superset
        for u, v, d in st.edges(data=True):
            if (u, v) in m.edges_to_ignore: continue
            rows.append(nrow([(E(u, v, i), ws[i]) for i in range(k)], "==", d[m.flow_attr]))
        src = [(E(s, v, i), 1) for v in st.successors(s) for i in range(k)]
        rows.append(nrow(src, "<=", m.original_k))
        return {"exc": None, "cols": {}, "rows": sorted(rows, key=repr), "obj": {kk: F(c) for kk, c in src}, "sense": "min"}
    elif name in ("encode_klae", "encode_klae_given"):
        isint = m.weight_type == int; W = F(m.w_max)
        Er = lambda u, v: (5, ids[u], ids[v])
        basic = [(u, v) for u, v in st.edges() if (u, v) not in m.edges_to_ignore]
        if any(m.flow_attr not in st[u][v] for u, v in basic) and not (name == "encode_klae_given" and (len(m.solution_weights_superset) != k or not m.allow_empty_paths)):
            return {"exc": "KeyError", "cols": {}, "rows": []}
        for u, v in basic: cols[Er(u, v)] = (F(0), W, isint)
        if name == "encode_klae":
            for i in range(k):
                cols[(2, i)] = (F(0), W, isint)
                for u, v in st.edges(): cols[(1, ids[u], ids[v], i)] = (F(0), W, isint)
            if basic and k == 0: return {"exc": "UnboundLocalError", "cols": {}, "rows": []}
            for u, v in basic:
                for i in range(k):
                    x, w, p = E(u, v, i), (2, i), (1, ids[u], ids[v], i)
                    if (u, v, i) in m.edges_set_to_zero: rows.append(nrow([(p, 1)], "==", 0))
                    elif (u, v, i) in m.edges_set_to_one: rows.append(nrow([(p, 1), (w, -1)], "==", 0))
                    else: rows += [nrow([(p, 1), (x, -W)], "<=", 0), nrow([(p, 1)], ">=", 0), nrow([(p, 1), (w, -1)], "<=", 0), nrow([(p, 1), (w, -1), (x, -W)], ">=", -W)]
                f = st[u][v][m.flow_attr]
                rows.append(nrow([((1, ids[u], ids[v], i), -1) for i in range(k)] + [(Er(u, v), -1)], "<=", -F(f)))
                rows.append(nrow([((1, ids[u], ids[v], i), 1) for i in range(k)] + [(Er(u, v), -1)], "<=", F(f)))
        else:
            ws = m.solution_weights_superset
            if len(ws) != k or not m.allow_empty_paths: return {"exc": "ValueError", "cols": {}, "rows": []}
            for u, v in basic:
                f = st[u][v][m.flow_attr]
                rows.append(nrow([(E(u, v, i), -F(ws[i])) for i in range(k)] + [(Er(u, v), -1)], "<=", -F(f)))
                rows.append(nrow([(E(u, v, i), F(ws[i])) for i in range(k)] + [(Er(u, v), -1)], "<=", F(f)))
            rows.append(nrow([(E(s, v, i), 1) for v in st.successors(s) for i in range(k)], "<=", m.original_k))
    elif name in ("encode_kmpe", "encode_kmpe_given"):
        if len(m.path_length_factors) > 0: return None            # helper blocks: covered by the correspondence (and by C12's statements), not restated here
        isint = m.weight_type == int; W = F(m.w_max)
        basic = [(u, v) for u, v in st.edges() if (u, v) not in m.edges_to_ignore]
        given = name == "encode_kmpe_given"
        if given and (len(m.solution_weights_superset) != k or not m.allow_empty_paths): return {"exc": "ValueError", "cols": {}, "rows": []}
        if any(m.flow_attr not in st[u][v] for u, v in basic): return {"exc": "KeyError", "cols": {}, "rows": []}
        if basic and k == 0: return {"exc": "UnboundLocalError", "cols": {}, "rows": []}
        Gm = lambda u, v, i: (4, ids[u], ids[v], i)
        for i in range(k):
            cols[(3, i)] = (F(0), W, isint)
            if not given: cols[(2, i)] = (F(0), W, isint)
            for u, v in st.edges():
                cols[Gm(u, v, i)] = (F(0), W, False)
                if not given: cols[(1, ids[u], ids[v], i)] = (F(0), W, isint)
        zero = getattr(m, "edges_set_to_zero", {}) if not given else {}; one = getattr(m, "edges_set_to_one", {}) if not given else {}
        for u, v in basic:
            f = F(st[u][v][m.flow_attr]); sc = F(m.edge_error_scaling.get((u, v), 1))
            for prod, cvar in ((lambda i: (1, ids[u], ids[v], i), lambda i: (2, i)), (lambda i: Gm(u, v, i), lambda i: (3, i))):
                if given and prod(0)[0] == 1: continue
                for i in range(k):
                    x, w, p = E(u, v, i), cvar(i), prod(i)
                    if (u, v, i) in zero: rows.append(nrow([(p, 1)], "==", 0))
                    elif (u, v, i) in one: rows.append(nrow([(p, 1), (w, -1)], "==", 0))
                    else: rows += [nrow([(p, 1), (x, -W)], "<=", 0), nrow([(p, 1)], ">=", 0), nrow([(p, 1), (w, -1)], "<=", 0), nrow([(p, 1), (w, -1), (x, -W)], ">=", -W)]
            if given: lin = [(E(u, v, i), -sc * F(m.solution_weights_superset[i])) for i in range(k)]
            else: lin = [((1, ids[u], ids[v], i), -sc) for i in range(k)]
            rows.append(nrow(lin + [(Gm(u, v, i), -1) for i in range(k)], "<=", -f * sc))
            rows.append(nrow(lin + [(Gm(u, v, i), 1) for i in range(k)], ">=", -f * sc))
        if given: rows.append(nrow([(E(s, v, i), 1) for v in st.successors(s) for i in range(k)], "<=", m.original_k))
    elif name == "encode_kmpe_obj":
        return {"exc": None, "cols": {}, "rows": [], "obj": {(3, i): F(1) for i in range(k)}, "sense": "min"}
    elif name == "encode_klae_obj":
        basic = [(u, v) for u, v in st.edges() if (u, v) not in m.edges_to_ignore]
        ob = {(5, ids[u], ids[v]): F(m.edge_error_scaling.get((u, v), 1)) for u, v in basic}
        return {"exc": None, "cols": {}, "rows": [], "obj": {kk: c for kk, c in ob.items() if c != 0}, "sense": "min"}
    else:
        for u, v in st.edges():
            if (u, v) in m.edges_to_ignore: continue
            rows.append(nrow([(E(u, v, i), 1) for i in range(k)], ">=", 1))
    return {"exc": None, "cols": cols, "rows": sorted(rows, key=repr)}


# ------------------------------------------------------------------------------------------ instance streams (those of the engines)
def kfd_models(ctx, n, stream):
    import flowpaths as fp
    from engines import c02
    out = []
    for i in range(n):
        rng = ctx.rng(stream, i)
        args, paths, ws = c02.make_kfd(rng)
        args = dict(args); args.pop("solution_weights_superset", None)
        args["optimization_options"] = {"optimize_with_greedy": False, "optimize_with_safe_paths": False, "optimize_with_safe_sequences": False,
                                        "optimize_with_flow_safe_paths": False, "optimize_with_safe_zero_edges": False}
        if rng.random() < 0.15: args["optimization_options"]["allow_empty_paths"] = True
        try:
            m = fp.kFlowDecomp(**args)
        except Exception:
            continue
        if rng.random() < 0.1: m.encode_edge_position = True
        out.append((m, c02.describe(args)))
    return out


def kfdw_models(ctx, n, stream):
    """kFlowDecomp with given weights (solution_weights_superset): the route the constructor takes then"""
    import flowpaths as fp
    from engines import c02
    out = []; i = 0
    while len(out) < n and i < 20 * n:
        rng = ctx.rng(stream, i); i += 1
        args, paths, ws = c02.make_kfd(rng)
        args = dict(args)
        given = sorted(set(ws)) + ([rng.choice([1, 2, 5])] if rng.random() < 0.5 else [])
        args["solution_weights_superset"] = [int(x) if args["weight_type"] == int else float(x) for x in given]
        args["optimization_options"] = {"optimize_with_greedy": False}
        try:
            m = fp.kFlowDecomp(**args)
        except Exception:
            continue
        out.append((m, c02.describe(args)))
    return out


def kpc_models(ctx, n, stream):
    import zoo
    out = []
    for i in range(n):
        rng = ctx.rng(stream, i)
        info = zoo.make(rng, "kPathCover", node=False)
        try:
            m = zoo.construct(info, {"optimize_with_safe_paths": False, "optimize_with_safe_sequences": False})
        except Exception:
            continue
        out.append((m, zoo.describe(info)))
    return out


def klae_models(ctx, n, stream, given=False):
    """kLeastAbsErrors objects of the C07 engine's instance stream (edge and node origin, ignore sets, error_scaling incl. 0, additional starts /
    ends, constraints); one in five additionally has some edge variables FIXED to 0 / 1 (edges_set_to_zero / edges_set_to_one: the branch of
    _encode_leastabserrors_decomposition that the constructor never reaches on its own)"""
    import flowpaths as fp, gen2, errlib
    out = []; i = 0
    while len(out) < n and i < 20 * n:
        rng = ctx.rng(stream, i); i += 1
        args, info = gen2.rand_err_args(rng, "lae")
        args = dict(args, k=rng.choice([1, 2, 2, 3]), solver_options=dict(errlib.SOLVER))
        if given:
            if not args.get("solution_weights_superset"):
                conv = int if args["weight_type"] == int else float
                args["solution_weights_superset"] = [conv(rng.choice([1, 2, 3, 5])) for _ in range(rng.randint(1, 3))]
        else: args.pop("solution_weights_superset", None)
        try:
            m = fp.kLeastAbsErrors(**errlib.clean_args(args))
        except Exception:
            continue
        m.edges_set_to_zero, m.edges_set_to_one = {}, {}          # as during the encoder calls below (fresh_solver)
        if not given and rng.random() < 0.2:
            keys = [(u, v, j) for (u, v) in m.G.edges() if (u, v) not in m.edges_to_ignore for j in range(m.k)]
            rng.shuffle(keys); a = rng.randint(0, min(2, len(keys))); b = rng.randint(0, min(2, len(keys) - a))
            m._gen_fixed = ({x: True for x in keys[:a]}, {x: True for x in keys[a:a + b]})
            m.edges_set_to_zero, m.edges_set_to_one = dict(m._gen_fixed[0]), dict(m._gen_fixed[1])
        out.append((m, errlib.describe(args)))
    return out


def klae_given_models(ctx, n, stream): return klae_models(ctx, n, stream, given=True)


def kmpe_models(ctx, n, stream, given=False):
    """kMinPathError objects of the C08 engine's instance stream (path_length_ranges / factors, length_attr, scaling, ignore sets, node origin ...);
    one in five without given weights additionally has edge variables FIXED to 0 / 1"""
    import flowpaths as fp, gen2, errlib
    out = []; i = 0
    while len(out) < n and i < 20 * n:
        rng = ctx.rng(stream, i); i += 1
        args, info = gen2.rand_err_args(rng, "mpe", nmax=rng.choice([3, 4, 5]))
        args = dict(args, k=rng.choice([None, 1, 2, 3]), solver_options=dict(errlib.SOLVER))
        if given:
            if not args.get("solution_weights_superset"):
                conv = int if args["weight_type"] == int else float
                args["solution_weights_superset"] = [conv(rng.choice([1, 2, 3, 5])) for _ in range(rng.randint(1, 3))]
        else: args.pop("solution_weights_superset", None)
        try:
            m = fp.kMinPathError(**errlib.clean_args(args))
        except Exception:
            continue
        if m.k is None or m.k > 4: continue
        m.edges_set_to_zero, m.edges_set_to_one = {}, {}
        if not given and rng.random() < 0.2:
            keys = [(u, v, j) for (u, v) in m.G.edges() if (u, v) not in m.edges_to_ignore for j in range(m.k)]
            rng.shuffle(keys); a = rng.randint(0, min(2, len(keys))); b = rng.randint(0, min(2, len(keys) - a))
            m._gen_fixed = ({x: True for x in keys[:a]}, {x: True for x in keys[a:a + b]})
            m.edges_set_to_zero, m.edges_set_to_one = dict(m._gen_fixed[0]), dict(m._gen_fixed[1])
        out.append((m, errlib.describe(args)))
    return out


def kmpe_given_models(ctx, n, stream): return kmpe_models(ctx, n, stream, given=True)


# ------------------------------------------------------------------------------------------ driver
def run_generated_kfd(ctx):
    run(ctx, [(["encode_paths", "encode_kfd"], kfd_models, "genenc-kfd", 36), (["encode_kfdw"], kfdw_models, "genenc-kfdw", 16)])


def run_generated_kpc(ctx):
    run(ctx, [(["encode_kpc"], kpc_models, "genenc-kpc", 36)])


def run_generated_klae(ctx):
    """end of engines/c07.py::run"""
    run(ctx, [(["encode_klae", "encode_klae_obj"], klae_models, "genenc-klae", 30), (["encode_klae_given"], klae_given_models, "genenc-klae-given", 14)], family="klae")


def run_generated_kmpe(ctx):
    """end of engines/c08.py::run"""
    run(ctx, [(["encode_paths", "encode_kmpe", "encode_kmpe_obj"], kmpe_models, "genenc-kmpe", 30), (["encode_kmpe_given"], kmpe_given_models, "genenc-kmpe-given", 14)], family="kmpe")


def run(ctx, groups, family="base"):
    gencheck.CTX = ctx
    fam = FAMILIES[family]
    names = [n for g in groups for n in g[0]]
    base = os.path.join(common.OUT, "work", "gen"); os.makedirs(base, exist_ok=True)
    build = tempfile.mkdtemp(prefix="enc_", dir=base)
    try:
        ok, n, bad = translate.selftest()
        ok2, n2, bad2 = translate.selftest_emit(common.REPO)
        ctx.count("generated_model", "translator_fail_closed_selftest_rejected", ok + ok2)
        if bad + bad2:
            ctx.report("translator is not fail-closed: it accepted unsupported bodies %s" % (bad + bad2), {"generated_model": "selftest"}, concrete=False)
        ctx.notes.append({"generated_model_trusted": [
            "harness/translate.py (Python subset -> Gallina, fail-closed; typed embedding of the model object: self.G = PathEnc.stgraph as harness/e1.py sends it, "
            "variables of self.solver.add_variables(.., name_prefix=<literal>) = V <family> <index>, self.G[u][v].get(self.length_attr, 1) / edge data = tables computed by the harness; "
            "pins the HiGHS path of add_constraint / quicksum / add_variables)",
            "coq/theories/PyLin.v (mk_row, py_new_vars, py_quicksum, py_sum, py_edge_len) and PyRt.v; coqc 8.16.1; vm_compute as evaluator; harness/lpdump.py LP read-back"]})
        compiled = set(); results = {}
        extra_ok = prove_extra(ctx, build, "EncCommon.v", [])            # lemmas shared by the scripts (mention no generated definition)
        # every encoder (and the generated binary-product helper the flow encoder calls) is translated and its script checked in both runs:
        # the transfer theorems (EncTransfer.v) speak about all of them
        okb, pb = True, []
        for h in fam.get("helpers", ["binprod"]):       # the generated wrapper helpers the encoders call
            okh, ph = gencheck.translate_and_prove(ctx, h, build, HELPER_PROOFS[h], compiled) if extra_ok else (False, ["EncCommon.v does not compile"])
            okb = okb and okh; pb += ph
            if ph: ctx.report("generated-model tie of %s (called by the encoders) no longer checks: %s" % (h, ph[0][:300]), {"generated_model": h, "broken": ph}, concrete=False)
        for name in fam["targets"]:
            if not os.path.exists(os.path.join(common.COQ, "gen_proofs", PROOFS[name])): continue
            results[name] = gencheck.translate_and_prove(ctx, name, build, PROOFS[name], compiled) if extra_ok else (False, ["EncCommon.v does not compile"])
        tproblems = []
        if all(results[n][0] and not results[n][1] for n in results) and okb and not pb:
            if os.path.exists(os.path.join(common.COQ, "gen_proofs", fam["transfer"])) and not prove_extra(ctx, build, fam["transfer"], tproblems):
                ctx.report(fam["transfer_what"] + " no longer check: " + "; ".join(tproblems)[:400],
                           {"generated_model": "transfer", "broken": tproblems}, concrete=False)
        cache = {}
        for name in results:
            try:
                if name in names:
                    names_, models, stream, nq = next(g for g in groups if name in g[0])
                    if stream not in cache: cache[stream] = models(ctx, ctx.budget(nq, 10 * nq), stream)
                    one(ctx, name, build, results[name], cache[stream], models, stream)
                elif results[name][1]:
                    ctx.report("generated-model tie of %s no longer checks (%s)" % (name, results[name][1][0][:300]), {"generated_model": name, "broken": results[name][1]}, concrete=False)
            except Exception as e:
                import traceback
                ctx.report("generated-model check of %s crashed: %r" % (name, e), {"generated_model": name, "traceback": traceback.format_exc()}, concrete=False)
    finally:
        shutil.rmtree(build, ignore_errors=True)


def decode(name, enc):
    import gencheck12
    if name not in HAS_OBJ: return gencheck12.decode(enc)
    r = gencheck12.decode(enc[:-1]); o = enc[-1]
    r["obj"] = {}; r["sense"] = "min"
    if o[0] != 0:
        r["sense"] = "max" if o[0] == 2 else "min"
        n = o[3]; i = 4
        for _ in range(n):
            fam, ln = o[i], o[i + 1]; key = (fam,) + tuple(o[i + 2:i + 2 + ln]); i += 2 + ln
            r["obj"][key] = r["obj"].get(key, F(0)) + F(o[i], o[i + 1]); i += 2
        r["obj"] = {kk: c for kk, c in r["obj"].items() if c != 0}
    return r


def prove_extra(ctx, build, fname, problems):
    """compile a proof file that is not tied to one target (copied from coq/gen_proofs); Print Assumptions must all be closed"""
    import re
    src = open(os.path.join(common.COQ, "gen_proofs", fname)).read()
    open(os.path.join(build, fname), "w").write(src)
    forb = sorted({m.group(0) for m in common.FORBIDDEN.finditer(common.strip_coq_comments(src))})
    thms = re.findall(r"Print Assumptions\s+([A-Za-z0-9_']+)\s*\.", common.strip_coq_comments(src))
    rc, out, log, secs = gencheck.coqc(build, fname)
    ctx.count("generated_model", "coqc_s", secs)
    if forb: problems.append("forbidden vernacular in %s: %s" % (fname, forb))
    if rc != 0: problems.append("%s does not compile: %s" % (fname, " ".join(log.split())[:300]))
    elif out.count("Closed under the global context") != len(thms): problems.append("Print Assumptions of %s: not all closed" % fname)
    else:
        if thms:
            ctx.count("generated_model", "proofs_checked", len(thms))
            ctx.notes.append({"generated_model": "transfer", "proof_file": "coq/gen_proofs/" + fname, "theorems": thms, "assumptions": "Closed under the global context"})
        return True
    return False


def differs(got, want):
    d = [] if got["exc"] == want["exc"] else ["outcome: %s, required %s" % (got["exc"], want["exc"])]
    if "obj" in want or "obj" in got:
        return d + lpdump.diff(dict({"obj": {}, "sense": "min"}, **got), dict({"obj": {}, "sense": "min"}, **want), what=("cols", "rows", "obj", "sense"))
    return d + lpdump.diff(got, want, what=("cols", "rows"))


def one(ctx, name, build, proved, ms, models, stream):
    T = translate.TARGETS[name]
    rep = {"generated_model": name, "source": T["file"] + " :: " + T["func"]}
    model_ok, problems = proved[0], list(proved[1])
    concrete = None; reals = []
    for m, desc in ms:
        ids = e1.ids_of(m.G)
        r = real(name, m, ids); reals.append(r)
        ctx.count("generated_model", "property_evaluations")
        ctx.case(["generated-enc", name, desc], nontrivial=len(r["rows"]) >= 4 or len(r.get("obj", {})) >= 1)
        ctx.dist("generated:%s:%s" % (name, r["exc"] or "%d+ rows" % (10 * (len(r["rows"]) // 10))))
        want = spec(name, m, ids)
        if want is not None and concrete is None:
            d = differs(r, want)
            if d: concrete = (desc, d)
    if model_ok:
        header = ["From FP Require Import Lin PathEnc PyRt PyLin.", "From FPGen Require Import Gen_%s." % name]
        res, secs = gencheck.vm_eval(build, name, header, [fn_call(name, m, e1.ids_of(m.G)) for m, _ in ms], depth=3)
        ctx.count("generated_model", "coqc_s", secs)
        if isinstance(res, str):
            problems.append("correspondence: " + res)
        else:
            import gencheck12
            bad = []
            for (m, desc), enc, r in zip(ms, res, reals):
                d = differs(r, decode(name, enc))
                ctx.count("generated_model", "rows_compared", len(r["rows"])); ctx.count("generated_model", "cols_compared", len(r["cols"]))
                if d: bad.append((desc, d))
            ctx.count("generated_model", "correspondence_cases", len(ms))
            ctx.count("generated_model", "correspondence_agreements", len(ms) - len(bad))
            if bad:
                problems.append("correspondence: generated columns/rows differ from what the real encoder added (LP read back from HiGHS) on %d of %d instances, first: %s"
                                % (len(bad), len(ms), "; ".join(bad[0][1][:3])))
                rep["first_disagreeing_instance"] = bad[0][0]
    if concrete is None and problems:
        for m, desc in models(ctx, ctx.budget(150, 1500), stream + "-search"):
            ctx.count("generated_model", "search_evaluations")
            ids = e1.ids_of(m.G); want = spec(name, m, ids)
            if want is None: continue
            d = differs(real(name, m, ids), want)
            if d: concrete = (desc, d); break
    if concrete is not None:
        desc, d = concrete
        rep.update({"instance": desc, "differences_(impl = the real encoder, model = the documented formulation)": d, "broken": problems})
        ctx.report("%s — violated by the implementation: %s%s" % (STATEMENT[name], "; ".join(d[:2])[:400], (" [" + problems[0][:160] + "]") if problems else ""), rep, concrete=True)
    elif problems:
        rep.update({"broken": problems})
        ctx.report("generated-model tie of %s no longer checks (%s); the statement held on every instance tried" % (name, problems[0][:300]), rep, concrete=False)


def replay(ctx, body):
    """re-evaluates the statement on the instance stream the report came from (the instance of the report is described in the file)"""
    common.setup_env()
    name = body["generated_model"]
    if name not in STATEMENT:
        print("nothing to replay for", name, "; broken:", body.get("broken")); return False
    models, stream = {"encode_kpc": (kpc_models, "genenc-kpc"), "encode_kfdw": (kfdw_models, "genenc-kfdw"), "encode_klae": (klae_models, "genenc-klae"),
                      "encode_klae_obj": (klae_models, "genenc-klae"), "encode_klae_given": (klae_given_models, "genenc-klae-given"),
                      "encode_kmpe": (kmpe_models, "genenc-kmpe"), "encode_kmpe_obj": (kmpe_models, "genenc-kmpe"), "encode_kmpe_given": (kmpe_given_models, "genenc-kmpe-given")}.get(name, (kfd_models, "genenc-kfd"))
    for sfx in ("", "-search"):
        for m, desc in models(ctx, 36 if not sfx else 150, stream + sfx):
            ids = e1.ids_of(m.G); want = spec(name, m, ids)
            if want is None: continue
            d = differs(real(name, m, ids), want)
            if d:
                print("statement violated now on", desc, ":", d[:2]); return True
    print("the statement holds on the instance stream now")
    return False
