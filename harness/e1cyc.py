"""E1 for the cyclic (walk) model classes: wire encoding of a constructed model object for
coq/driver/h_walkenc.ml, column-key mapping, LP read-back after the queued bound updates, compare().

What is taken from where (so that a wrong value inside the implementation shows up as a difference):
  * graph (node order, edge order, successor / predecessor orders, source, sink): the model object's
    stDiGraph `m.G` (the s-t augmentation itself belongs to C01's model of `_augment_with_source_sink`);
  * flow values, ignore list, subset constraints, coverage, k, weight type, given weights: the CALLER's
    arguments (`args`), never the attributes the implementation derived from them;
  * option flags: the attributes of the model object (they are plain `.get(...)` results);
  * `safe_lists` and `walks_to_fix`: the model object (chosen by un-modelled algorithms; everything derived
    from them - protected edges, zero rows, >= m / = 1 rows or bounds, Pi shortcuts, appended constraints -
    is recomputed by the Coq model, including all reachability and SCC membership)."""
from fractions import Fraction as F
import common, lpdump, e1

import os
# False = the code as it is (open finding C04 rep_cap_from_own_flow).  Set to True (and the finding to "fixed") once
# proposed_fixes/kfdc_scale_free_cap.diff is applied to /repo: the Coq model then uses the scale-free cap.
SCALE_FREE_CAP = os.environ.get("VERIF_KFDC_SCALE_FREE_CAP", "0") == "1"

PREFIX_FAM = {"edge": 0, "pi": 1, "weights": 2, "gamma": 4, "used_edge": 7, "selected_edge": 8}


def opts_of(m):
    return [bool(m.allow_empty_walks), bool(m.optimize_with_safe_sequences),
            bool(m.optimize_with_safe_sequences_allow_geq_constraints), bool(m.optimize_with_safe_sequences_fix_via_bounds),
            bool(m.optimize_with_safe_sequences_fix_zero_edges), bool(m.optimize_with_safety_as_subset_constraints),
            bool(m.optimize_with_max_safe_antichain_as_subset_constraints)]


def seqs_tokens(seqs, ids):
    seqs = [list(s) for s in (seqs or [])]
    return [len(seqs), [[len(s), [[ids[u], ids[v]] for (u, v) in s]] for s in seqs]]


def safety_tokens(m, ids):
    sl = getattr(m, "safe_lists", None) or []
    wf = getattr(m, "walks_to_fix", None) or []
    return seqs_tokens(sl, ids) + seqs_tokens(wf, ids)


def kfdc_request(m, args, ids=None):
    """m: constructed kFlowDecompCycles (edge origin); args: the constructor arguments used."""
    ids = ids or e1.ids_of(m.G)
    G = args["G"]; attr = args["flow_attr"]
    t = e1.graph_tokens(m.G, ids) + [args["k"]]
    es = [(u, v) for u, v in G.edges() if attr in G[u][v]]
    t += [len(es), [[ids[u], ids[v]] + common.qtok(G[u][v][attr]) for u, v in es]]
    t += e1.edge_list_tokens(args.get("elements_to_ignore", []), ids)
    t += [args.get("weight_type", float) == int]
    t += seqs_tokens(args.get("subset_constraints", []), ids) + common.qtok(args.get("subset_constraints_coverage", 1.0))
    t += opts_of(m) + safety_tokens(m, ids)
    gw = (args.get("optimization_options") or {}).get("given_weights")
    t += [0] if gw is None else [1, len(gw), [common.qtok(w) for w in gw]]
    t += [SCALE_FREE_CAP]
    return "kfdc " + common.toks(t)


def kpcc_request(m, args, ids=None):
    ids = ids or e1.ids_of(m.G)
    t = e1.graph_tokens(m.G, ids) + [args["k"]]
    t += e1.edge_list_tokens(args.get("elements_to_ignore", []), ids)
    t += seqs_tokens(args.get("subset_constraints", []), ids) + common.qtok(args.get("subset_constraints_coverage", 1.0))
    t += opts_of(m) + safety_tokens(m, ids)
    return "kpcc " + common.toks(t)


def colkey_cyc(m, ids):
    """column index -> canonical var tuple of Lin.v, from the add_variables registry of m.solver and the
    recorded integer-product helper calls (Bit/Comp columns are keyed by their product variable)."""
    reg = lpdump.registry_for(m.solver)
    prod = {}
    for h, kw in lpdump.calls_for(m.solver):
        if h == "intprod":
            prod[kw["name"]] = kw["p"]
    def key(c):
        p, i = reg[c]
        if p in PREFIX_FAM:
            if p == "weights":
                return (2, i)
            return (PREFIX_FAM[p], ids[i[0]], ids[i[1]], i[2])
        if p == "slack":
            return (3, i)
        if p == "ee":
            return (5, ids[i[0]], ids[i[1]])
        if p == "distance":
            return (9, ids[i[0]], i[1])
        if p == "r":
            return (6, i[0], i[1])
        for pre, fam in (("binary_", 12), ("comp_", 13)):
            if p.startswith(pre) and p[len(pre):] in prod:
                return (fam,) + tuple(key(prod[p[len(pre):]])) + (i,)
        raise KeyError((p, i))
    return key


def dump(m, ids=None):
    """LP exactly as optimize() will hand it to HiGHS: queued bound updates applied first."""
    ids = ids or e1.ids_of(m.G)
    m.solver._apply_pending_bound_updates()
    return lpdump.dump_impl(m.solver, colkey_cyc(m, ids))


def premises(ctx, engine, m, req):
    """The instance on which model and code are compared is machine-checked to lie inside the domain of the walk-encoder
    theorems: the extracted VERIFIED checkers WalkChecked.wf_stg_b (well-formed s-t digraph, adjacency tables consistent
    with the edge list, duplicate-free node list containing source and sink) and WalkChecked.winputs_ok_b (subset
    constraints incl. appended safe sequences and walks_to_fix consist of edges of the graph) are evaluated on the very
    tokens the encoder receives (theorems *_checked in WalkChecked.v).  The walk models take no other graph data."""
    cmd, rest = req.split(" ", 1)
    out = ctx.model.run([cmd + "premises " + rest])[0].split()
    ctx.count(engine, "premises_checked")
    if out != ["1", "1"]:
        ctx.count(engine, "premises_failed")
        ctx.report(f"{engine}: the instance handed to the walk encoder is outside the premises of the encoder theorems "
                   f"(well-formed s-t graph: {out[0] if out else '?'}, sequences consist of edges: {out[1] if len(out) > 1 else '?'})",
                   {"engine": engine, "nodes": [str(v) for v in m.G.nodes()], "edges": [[str(u), str(v)] for u, v in m.G.edges()]}, concrete=False)


CYC_EQ_CMDS = {"kfdc", "kpcc", "walks"}     # commands of h_walkenc.ml that also offer <cmd>_eq (klaec / kmpec: handled in e1werr.py)


def verified_equal(ctx, engine, impl, req):
    """E1 decided by the EXTRACTED VERIFIED checker LinEquiv.milp_equiv_b (theorem milp_equiv_sound: the two LPs have the same
    satisfying assignments and the same objective): the model's LP is rebuilt from the same request by <cmd>_eq, the
    implementation's LP (as read back from HiGHS) is sent along on the wire of lp.ml.in's next_milp."""
    cmd, _, rest = req.partition(" ")
    if cmd not in CYC_EQ_CMDS:
        return None
    t = e1.impl_lp_tokens(impl)
    if t is None:
        ctx.count(engine, "verified_equivalence_not_representable"); return None
    out = ctx.model.run([cmd + "_eq " + rest + " " + common.toks(t)])[0].strip()
    ctx.count(engine, "verified_equivalence_checked")
    if out == "1":
        ctx.count(engine, "verified_equivalent"); return True
    ctx.count(engine, "verified_not_equivalent"); return False


def compare(ctx, engine, m, req, what=("cols", "rows", "obj", "sense")):
    """Diff the LP held by model object `m` against the Coq encoder's answer to `req`.
    Returns (diff list, impl dump)."""
    try:
        premises(ctx, engine, m, req)
    except Exception as e:
        ctx.report(f"{engine}: premises check crashed: {e!r}", {"engine": engine}, concrete=False)
    impl = dump(m)
    out = ctx.model.run([req], multiline=True)[0]
    model = lpdump.parse_model(out)
    if model["extra"].get("error"):
        d = ["model driver error: " + model["extra"]["error"]]
    else:
        d = lpdump.diff(impl, model, what=what)
        if set(what) >= {"cols", "rows", "obj", "sense"}:
            try:
                ve = verified_equal(ctx, engine, impl, req)
            except Exception as e:
                ve = None; ctx.report(f"{engine}: verified LP comparison crashed: {e!r}", {"engine": engine}, concrete=False)
            if ve is not None and ve != (not d):
                # the Python diff and the verified checker disagree: trust the verified one, and say so
                ctx.count(engine, "python_diff_and_verified_checker_disagree")
                if ve is False and not d:
                    d = ["the verified checker LinEquiv.milp_equiv_b rejects the equivalence of the two LPs (the Python diff saw none)"]
                elif ve is True and d:
                    ctx.notes.append({"verified_checker_accepts_although_python_diff_reports": d[:3]}); d = []
    ctx.count(engine, "cases"); ctx.count(engine, "rows_compared", len(impl["rows"])); ctx.count(engine, "cols_compared", len(impl["cols"]))
    ctx.count(engine, "disagreements" if d else "agreements")
    return d, impl
