"""The verified exhaustive oracle for integer walk decompositions (coq/theories/WalkOracle.v, theorem min_wfd_model_correct): least number
of source-to-sink walks with positive integer weights explaining an integer flow, decided by the EXTRACTED search.  Used by the C04 engine
next to the Python oracle on the instances within its reach (no subset constraints, no ignore list, <= 6 base edges, flow values <= 3,
k <= 3)."""
import common

MAX_EDGES = 6; MAX_FLOW = 3; MAX_K = 3


def in_reach(G, flow, kmax, cons, ignore=()):
    return (not cons and not ignore and G.number_of_edges() <= MAX_EDGES and kmax <= MAX_K
            and all(float(v) == int(v) and 0 <= int(v) <= MAX_FLOW for v in flow.values()))


def verified_min(ctx, G, flow, kmax):
    """least k <= kmax (int) or None, by the extracted WalkOracle.min_wfd_model on the s-t graph the library builds"""
    import flowpaths as fp
    st = fp.stDiGraph(G)
    ids = {v: i for i, v in enumerate(st.nodes())}
    es = list(st.edges())
    fl = [[ids[u], ids[v], int(flow[(u, v)])] for (u, v) in G.edges()]
    req = "walkoracle " + common.toks(len(es), [[ids[u], ids[v]] for u, v in es], ids[st.source], ids[st.sink], len(fl), fl, kmax)
    out = ctx.model.run([req])[0].strip()
    return None if out == "NONE" else int(out)
