"""E1 plumbing for the error models (C07 kLeastAbsErrors, C08 kMinPathError): wire encoding of an
ErrEnc.err_inst / kmpe_inst and the column-key mapping.  What the CALLER passed (ignore list, error
scaling, given weights, length ranges / factors, weight type, k) is taken from the constructor
arguments, not from the attributes the constructor derived from them (edges_to_ignore, w_max,
edge_indexes_basic ...): those are recomputed by the Coq encoder and thereby compared."""
import re
from fractions import Fraction as F
import common, lpdump, e1, errlib


def internal_ignore_and_scale(args):
    """elements_to_ignore / error_scaling in edge form of the internal graph (node mode: expanded)"""
    G = args["G"]; ign = list(args.get("elements_to_ignore", []) or []); sc = dict(args.get("error_scaling", {}) or {})
    if args.get("flow_attr_origin", "edge") == "edge":
        return ign, sc
    fa = args["flow_attr"]
    e_ign = [(u + ".1", v + ".0") for u, v in G.edges()]
    e_ign += [(v + ".0", v + ".1") for v in G.nodes() if fa not in G.nodes[v]]
    e_ign += [(v + ".0", v + ".1") for v in ign]
    return e_ign, {(v + ".0", v + ".1"): s for v, s in sc.items()}


def err_inst_tokens(m, ids, args):
    st = m.G
    t = e1.path_inst_tokens(m, ids)
    t += errlib.flow_tokens_py(st, ids, args["flow_attr"])
    ign, sc = internal_ignore_and_scale(args)
    ign = [e for e in ign if e[0] in ids and e[1] in ids]
    t += e1.edge_list_tokens(ign, ids)
    sc = [(e, s) for e, s in sc.items() if e[0] in ids and e[1] in ids]
    t += [len(sc), [[ids[u], ids[v]] + common.qtok(s) for (u, v), s in sc]]
    t += [args.get("weight_type", float) == int]
    given = args.get("solution_weights_superset")
    if given is None:
        t += [0]
    else:
        t += [1, len(given), [common.qtok(w) for w in given]]
    k = args.get("k")
    t += [m.original_k if k is None else k]
    return t


def kmpe_inst_tokens(m, ids, args):
    st = m.G
    t = err_inst_tokens(m, ids, args)
    la = args.get("length_attr")
    if la is None:
        t += [0]
    else:
        es = list(st.edges())
        t += [1, len(es), [[ids[u], ids[v]] + common.qtok(st[u][v].get(la, 1)) for u, v in es]]
    rs = list(args.get("path_length_ranges", []) or []); fs = list(args.get("path_length_factors", []) or [])
    t += [len(rs), [common.qtok(r[0]) + common.qtok(r[1]) + common.qtok(c) for r, c in zip(rs, fs)]]
    return t


_BIN = re.compile(r"^binary_scaled_slack_i(\d+)$")
_CMP = re.compile(r"^comp_scaled_slack_i(\d+)$")
_ZZ = re.compile(r"^z_error_scale_(\d+)$")


def colkey(m, ids):
    reg = lpdump.registry_for(m.solver)

    def key(c):
        p, i = reg[c]
        if p in ("edge", "pi", "gamma", "position"):
            return ({"edge": 0, "pi": 1, "gamma": 4, "position": 10}[p], ids[i[0]], ids[i[1]], i[2])
        if p == "weights":
            return (2, i)
        if p == "slack":
            return (3, i)
        if p == "ee":
            return (5, ids[i[0]], ids[i[1]])
        if p == "r":
            return (6, i[0], i[1])
        if p == "path_length":
            return (11, i)
        if p == "path_slack_scaled":
            return (20, i)
        if p == "scaled_slack":
            return (21, i)
        mm = _BIN.match(p)
        if mm:
            return (12, 21, int(mm.group(1)), i)
        mm = _CMP.match(p)
        if mm:
            return (13, 21, int(mm.group(1)), i)
        mm = _ZZ.match(p)
        if mm:
            return (14, 20, int(mm.group(1)), i)
        raise KeyError((p, i))
    return key


def request(cmd, m, ids, args):
    t = err_inst_tokens(m, ids, args) if cmd in ("klae", "errwmax") else kmpe_inst_tokens(m, ids, args)
    return cmd + " " + common.toks(t)


def theorem_premises(ctx, engine, cmd, m, ids, args):
    """Is this E1 instance inside the premises of the optimality theorems (Props/C07.v C07_klae_optimal_checked,
    Props/C08.v C08_kmpe_optimal_checked)?  The theorems cover the LP without given weights / path-length factors and with
    allow_empty_paths = False; for those instances the extracted verified checker klae_premises_b / kmpe_premises_b
    (well-formed acyclic s-t graph, constraints on edges, weight domain, integer lengths) must answer 1."""
    import networkx as nx
    if args.get("solution_weights_superset") is not None or m.allow_empty_paths or (cmd == "kmpepremises" and args.get("path_length_factors")):
        ctx.count(engine, "outside_optimality_theorems(given weights / length factors)")
        return
    st = m.G
    try:
        order = list(nx.topological_sort(st))
    except Exception:
        order = list(st.nodes())
    t = err_inst_tokens(m, ids, args) if cmd == "klaepremises" else kmpe_inst_tokens(m, ids, args)
    t = t + [len(order), [ids[v] for v in order]]
    out = ctx.model.run([cmd + " " + common.toks(t)])[0].strip()
    ctx.count(engine, "optimality_premises_checked")
    if out != "1":
        ctx.count(engine, "optimality_premises_failed")
        ctx.report(f"{engine}: the instance handed to the encoder is outside the premises of the optimality theorem ({cmd} = {out})",
                   {"engine": engine, "edges": [[str(u), str(v), dict(d)] for u, v, d in st.edges(data=True)],
                    "args": {k: str(v) for k, v in args.items() if k != "G"}}, concrete=False)
