"""gencheck_misc.py — the GENERATED-MODEL tie for the encoders of the "miscellaneous" models (C15, C16):
MinSetCover._encode_set_cover (Gen_encode_msc.v), MinErrorFlow._encode_flow / _encode_min_sum_errors_objective
(Gen_encode_mef.v / Gen_encode_mef_obj.v); proof scripts coq/gen_proofs/EncMscSpec.v, EncMefSpec.v, EncMefObjSpec.v and the
transfer files EncMscTransfer.v / EncMefTransfer.v.

Per run: translate the current source (harness/translate.py), compile the generated files and the hand-written scripts against
them (generated columns / rows / objective = MiscEnc.encode_msc / encode_mef), validate the translator on model objects of the
engines' own instance streams (what the encoder added to a fresh SolverWrapper, read back from HiGHS, vs vm_compute of the
generated model), evaluate the statement (= the documented formulation, computed independently here) on the real LP, and on any
failure search a concrete instance.

    run_generated_c15(ctx)   (end of engines/c15.py::run)        run_generated_c16(ctx)   (end of engines/c16.py::run)
"""
import os, shutil, tempfile
from fractions import Fraction as F
import common, translate, lpdump, gencheck, gencheck_enc, e1misc

PROOFS = {"encode_msc": "EncMscSpec.v", "encode_mef": "EncMefSpec.v", "encode_mef_obj": "EncMefObjSpec.v",
          "encode_mgs": "EncMgsSpec.v"}
HELPERS = {"binprod": "BinProdSpec.v", "intprod": "IntProdSpec.v"}
FAMILIES = {
    "c15": dict(targets=["encode_msc", "encode_mgs"], helpers=["binprod", "intprod"], transfer=["EncMscTransfer.v", "EncMgsTransfer.v"],
                what="the transfer theorems (gen_msc_exact, gen_msc_no_model, gen_mgs_lp, gen_mgs_gives_generating_multiset, gen_mgs_feasible_iff)"),
    "c16": dict(targets=["encode_mef", "encode_mef_obj"], transfer=["EncMefTransfer.v"], what="the transfer theorems (gen_mef_lp, gen_mef_exact)"),
}
STATEMENT = {
    "encode_msc": "_encode_set_cover adds exactly one binary variable per subset, one row 'sum of the subsets containing the element >= 1' per universe element, and minimises sum_i weight_i * subset_i (IndexError when a weight is missing)",
    "encode_mgs": "_create_solver(k) (max_multiplicity == 1) adds exactly the gen_set / x / pi variables, the row sum_i gen_i == total, per number j the four product rows of every i and sum_i pi(i,j) == numbers[j], the symmetry rows gen_i <= gen_(i+1) for i < k-2, and with partition_constraints the y / product_y variables, their product rows, 'every generator in exactly one part' and the part sums",
    "encode_mef": "_encode_flow adds exactly the corrected-flow and error variables (bounds 0..ub), flow conservation at every node with in- and out-edges, err == 0 on ignored edges and f - x <= err, x - f <= err on the others (ValueError for a non-ignored edge without the attribute)",
    "encode_mef_obj": "_encode_min_sum_errors_objective minimises the sum of error_scaling.get(e, 1) * err(e) over the non-ignored edges plus, for sparsity_lambda > 0, lambda times the corrected flow out of the source",
}
HAS_OBJ = ("encode_msc", "encode_mef_obj")
cN = gencheck.cN; cL = gencheck.cL; cE = gencheck.cE; cQ = gencheck.cQ
SO = {"threads": 1, "time_limit": 20}
nrow = gencheck_enc.nrow


# ------------------------------------------------------------------------------------------ instances
class Case:
    """one instance: constructor arguments and, once built, the model object"""
    def __init__(self, kind, kw, desc): self.kind = kind; self.kw = kw; self.desc = desc; self.m = None; self.ids = None


def msc_cases(ctx, n, stream):
    import gen2
    out = []
    for i in range(n):
        rng = ctx.rng(stream, i)
        kw = gen2.rand_msc(rng)
        if kw["subset_weights"] is not None and rng.random() < 0.1 and kw["subset_weights"]:
            kw = dict(kw, subset_weights=list(kw["subset_weights"])[:-1])        # a weight is missing: IndexError / no model
        out.append(Case("msc", kw, {k: (v if k != "subsets" else [list(s) for s in v]) for k, v in kw.items()}))
    return out


def mgs_cases(ctx, n, stream):
    import gen2
    from engines import c15
    out = []
    for i in range(n):
        rng = ctx.rng(stream, i)
        kw, scale = gen2.rand_mgs(rng)
        c = Case("mgs", kw, c15.describe(kw)); c.k = rng.choice([1, 2, 2, 3, 3, 4])
        c.desc = dict(c.desc, k=c.k)
        out.append(c)
    return out


def mef_cases(ctx, n, stream):
    import gen2
    from engines import c16
    out = []
    for i in range(n):
        rng = ctx.rng(stream, i)
        kw, info = gen2.rand_mef(rng, node_mode=(i % 4 == 3))
        kw = dict(kw); kw.pop("few_flow_values_epsilon", None)
        c = Case("mef", kw, c16.describe(kw))
        # one object in seven loses the flow attribute of a non-ignored edge AFTER construction: the ValueError branch of _encode_flow, which the
        # constructor (it would fail) and therefore the E1 stream never reach
        c.drop = rng.random() < 0.15
        if c.drop: c.desc = dict(c.desc, flow_attribute_removed_from_first_charged_edge_after_construction=True)
        out.append(c)
    return out


def build(case):
    """construct the model object (the constructors run the encoders once; the encoder under test is then called alone)"""
    import flowpaths as fp
    lpdump.install(); lpdump.reset()
    if case.kind == "msc":
        case.m = fp.MinSetCover(solver_options=dict(SO), **case.kw)
    elif case.kind == "mgs":
        case.m = fp.MinGenSet(solver_options=dict(SO), **case.kw)
    else:
        case.m = m = fp.MinErrorFlow(solver_options=dict(SO), **case.kw)
        case.ids = e1misc.mef_ids(case.m)
        if getattr(case, "drop", False):
            for u, v, d in m.G.edges(data=True):
                if (u, v) not in m.edges_to_ignore and m.flow_attr in d:
                    del d[m.flow_attr]; break
    return case.m


# ------------------------------------------------------------------------------------------ the real encoder, alone
def real(name, case):
    try:
        if name == "encode_msc":
            lpdump.install(); lpdump.reset()
            import flowpaths as fp
            m = fp.MinSetCover(solver_options=dict(SO), **case.kw); case.m = m       # __init__ only stores the arguments and calls _encode_set_cover
            d = lpdump.dump_impl(m.solver, e1misc.colkey_msc(m.solver))
            return {"exc": None, "cols": d["cols"], "rows": sorted(d["rows"], key=repr), "obj": d["obj"], "sense": d["sense"]}
        m = case.m if case.m is not None else build(case)
        if name == "encode_mgs":
            lpdump.reset(); m._create_solver(case.k)
            d = lpdump.dump_impl(m.solver, e1misc.colkey_mgs(m.solver))
            return {"exc": None, "cols": d["cols"], "rows": sorted(d["rows"], key=repr)}
        ids = case.ids
        lpdump.reset(); m._create_solver()
        empty = {"cols": {}, "rows": []}
        m._encode_flow()
        after = lpdump.dump_impl(m.solver, e1misc.colkey_mef(m.solver, ids))
        if name == "encode_mef": return gencheck_enc.added(empty, after)
        m._encode_min_sum_errors_objective()
        d = lpdump.dump_impl(m.solver, e1misc.colkey_mef(m.solver, ids))
        r = gencheck_enc.added(after, d); r["obj"] = d["obj"]; r["sense"] = d["sense"]
        return r
    except Exception as e:
        return {"exc": type(e).__name__, "cols": {}, "rows": []}


# ------------------------------------------------------------------------------------------ inputs of the generated fn
def pygraph(G, ids, attr):
    def row(it): return cL(["(%s, %s, %s)" % (cN(ids[u]), cN(ids[v]), "None" if attr not in d else "(Some %s)" % cQ(d[attr])) for (u, v, d) in it])
    return "(mk_pygraph %s %s %s %s)" % (
        cL([cN(ids[v]) for v in G.nodes()]), row(G.edges(data=True)),
        cL(["(%s, %s)" % (cN(ids[v]), row(G.out_edges(v, data=True))) for v in G.nodes()]),
        cL(["(%s, %s)" % (cN(ids[v]), row(G.in_edges(v, data=True))) for v in G.nodes()]))


def msc_weights(kw):
    return kw["subset_weights"] if kw["subset_weights"] is not None else [1] * len(kw["subsets"])


def fn_call(name, case):
    if name == "encode_msc":
        u, ss = e1misc.msc_intern(case.kw["universe"], case.kw["subsets"])
        args = [cL([cN(x) for x in u]), cL([cL([cN(x) for x in s]) for s in ss]), cL([cQ(w) for w in msc_weights(case.kw)])]
        return "(let r := fn %s in enc_emitted (fst (fst (fst r))) ++ [enc_obj (snd (fst (fst r)))])" % " ".join(args)
    if name == "encode_mgs":
        m = case.m
        pc = "None" if m.partition_constraints is None else "(Some %s)" % cL([cL([cQ(x) for x in c]) for c in m.partition_constraints])
        args = ["(%d)%%Z" % case.k, cQ(m.total), cL([cQ(x) for x in m.numbers]), "(%d)%%Z" % m.max_multiplicity, pc, "true" if m.weight_type == int else "false"]
        return "enc_emitted (fst (fst (fst (fst (fst (fn %s))))))" % " ".join(args)
    m = case.m; ids = case.ids
    G = pygraph(m.G, ids, m.flow_attr)
    ign = cL([cE((ids[u], ids[v])) for (u, v) in sorted(m.edges_to_ignore, key=str) if u in ids and v in ids])
    if name == "encode_mef":
        return "enc_emitted (fst (fst (fst (fn %s %s %s %s))))" % (G, cQ(m.ub), ign, "true" if m.weight_type == int else "false")
    es = cL([cE((ids[u], ids[v])) for (u, v) in m.G.edges()])
    sc = cL(["(%s, %s)" % (cE((ids[u], ids[v])), cQ(c)) for (u, v), c in m.edge_error_scaling.items() if u in ids and v in ids])
    src = cN(ids[m.G.source]) if getattr(m, "is_acyclic", False) else cN(0)
    return "(let r := fn %s %s %s %s %s %s %s in enc_emitted (fst r) ++ [enc_obj (snd r)])" % (G, es, es, ign, sc, cQ(m.sparsity_lambda), src)


# ------------------------------------------------------------------------------------------ the documented formulation, independently
def spec(name, case):
    if name == "encode_msc":
        kw = case.kw; ws = msc_weights(kw); subsets = kw["subsets"]
        if len(ws) < len(subsets): return {"exc": "IndexError", "cols": {}, "rows": []}
        cols = {(19, i): (F(0), F(1), True) for i in range(len(subsets))}
        rows = [nrow([((19, i), 1) for i in range(len(subsets)) if el in subsets[i]], ">=", 1) for el in kw["universe"]]
        ob = {(19, i): F(ws[i]) for i in range(len(subsets))}
        return {"exc": None, "cols": cols, "rows": sorted(rows, key=repr), "obj": {k: c for k, c in ob.items() if c != 0}, "sense": "min"}
    if name == "encode_mgs":
        m = case.m; k = case.k
        if m.max_multiplicity != 1: return None          # the integer-product helper block: correspondence (and C12's statements), not restated here
        isint = m.weight_type == int; T = F(m.total); nums = [F(x) for x in m.numbers]
        cols = {}; rows = []
        for i in range(k): cols[(15, i)] = (F(0), T, isint)
        for i in range(k):
            for j in range(len(nums)): cols[(16, i, j)] = (F(0), F(1), True); cols[(1, i, j)] = (F(0), T, isint)
        rows.append(nrow([((15, i), 1) for i in range(k)], "==", T))
        prod = lambda x, w, p_: [nrow([(p_, 1), (x, -T)], "<=", 0), nrow([(p_, 1)], ">=", 0), nrow([(p_, 1), (w, -1)], "<=", 0), nrow([(p_, 1), (w, -1), (x, -T)], ">=", -T)]
        for j, a in enumerate(nums):
            for i in range(k): rows += prod((16, i, j), (15, i), (1, i, j))
            rows.append(nrow([((1, i, j), 1) for i in range(k)], "==", a))
        for i in range(k - 2): rows.append(nrow([((15, i), 1), ((15, i + 1), -1)], "<=", 0))
        pc = m.partition_constraints
        if pc:
            t = max(len(c) for c in pc)
            if k > 0 and t == 0 and len(pc) > 0: return {"exc": "UnboundLocalError", "cols": {}, "rows": []}
            for i in range(k):
                for j in range(t):
                    for c in range(len(pc)):
                        cols[(30, i, j, c)] = (F(0), F(1), True); cols[(31, i, j, c)] = (F(0), T, isint)
                        rows += prod((30, i, j, c), (15, i), (31, i, j, c))
            for i in range(k):
                for c in range(len(pc)): rows.append(nrow([((30, i, j, c), 1) for j in range(t)], "==", 1))
            for c, con in enumerate(pc):
                for j in range(len(con)): rows.append(nrow([((31, i, j, c), 1) for i in range(k)], "==", con[j]))
        return {"exc": None, "cols": cols, "rows": sorted(rows, key=repr)}
    m = case.m; ids = case.ids; G = m.G
    X = lambda u, v: (16, ids[u], ids[v]); Er = lambda u, v: (5, ids[u], ids[v])
    if name == "encode_mef":
        isint = m.weight_type == int; ub = F(m.ub)
        cols = {}; rows = []
        for u, v in G.edges(): cols[X(u, v)] = (F(0), ub, isint); cols[Er(u, v)] = (F(0), ub, isint)
        for v in G.nodes():
            if G.in_degree(v) == 0 or G.out_degree(v) == 0: continue
            rows.append(nrow([(X(a, b), 1) for a, b in G.in_edges(v)] + [(X(a, b), -1) for a, b in G.out_edges(v)], "==", 0))
        for u, v, d in G.edges(data=True):
            if (u, v) in m.edges_to_ignore: rows.append(nrow([(Er(u, v), 1)], "==", 0)); continue
            if m.flow_attr not in d: return {"exc": "ValueError", "cols": {}, "rows": []}
            f = F(d[m.flow_attr])
            rows.append(nrow([(X(u, v), -1), (Er(u, v), -1)], "<=", -f)); rows.append(nrow([(X(u, v), 1), (Er(u, v), -1)], "<=", f))
        return {"exc": None, "cols": cols, "rows": sorted(rows, key=repr)}
    ob = {}
    for u, v in G.edges():
        if (u, v) not in m.edges_to_ignore: ob[Er(u, v)] = ob.get(Er(u, v), F(0)) + F(m.edge_error_scaling.get((u, v), 1))
    if m.sparsity_lambda > 0:
        for u, v in G.out_edges(G.source): ob[X(u, v)] = ob.get(X(u, v), F(0)) + F(m.sparsity_lambda)
    return {"exc": None, "cols": {}, "rows": [], "obj": {k: c for k, c in ob.items() if c != 0}, "sense": "min"}


# ------------------------------------------------------------------------------------------ driver
def run_generated_c15(ctx): run(ctx, "c15", [(["encode_msc"], msc_cases, "genmisc-msc", 60), (["encode_mgs"], mgs_cases, "genmisc-mgs", 40)])
def run_generated_c16(ctx): run(ctx, "c16", [(["encode_mef", "encode_mef_obj"], mef_cases, "genmisc-mef", 40)])


def run(ctx, family, groups):
    gencheck.CTX = ctx
    fam = FAMILIES[family]
    base = os.path.join(common.OUT, "work", "gen"); os.makedirs(base, exist_ok=True)
    build_dir = tempfile.mkdtemp(prefix="misc_", dir=base)
    try:
        ok, n, bad = translate.selftest()
        ok2, n2, bad2 = translate.selftest_emit(common.REPO)
        ctx.count("generated_model", "translator_fail_closed_selftest_rejected", ok + ok2)
        if bad + bad2:
            ctx.report("translator is not fail-closed: it accepted unsupported bodies %s" % (bad + bad2), {"generated_model": "selftest"}, concrete=False)
        ctx.notes.append({"generated_model_trusted": [
            "harness/translate.py (Python subset -> Gallina, fail-closed; typed embedding of the model object: self.G of MinErrorFlow = PyRt.pygraph (nodes, edges with "
            "the flow attribute, in-/out-edge tables in networkx' iteration order), universe / subsets elements interned as numbers, variables of "
            "self.solver.add_variables(.., name_prefix=<literal>) = V <family> <index>; pins the HiGHS path of add_constraint / quicksum / add_variables / set_objective)",
            "coq/theories/PyLin.v, PyRt.v; coqc 8.16.1; vm_compute as evaluator; harness/lpdump.py LP read-back"]})
        compiled = set(); results = {}
        extra_ok = gencheck_enc.prove_extra(ctx, build_dir, "EncCommon.v", [])
        for h in fam.get("helpers", []):          # the generated wrapper helpers the encoders call (their ties belong to C12)
            okh, ph = gencheck.translate_and_prove(ctx, h, build_dir, HELPERS[h], compiled) if extra_ok else (False, ["EncCommon.v does not compile"])
            if ph: ctx.report("generated-model tie of %s (called by the encoders) no longer checks: %s" % (h, ph[0][:300]), {"generated_model": h, "broken": ph}, concrete=False)
        for name in fam["targets"]:
            if not os.path.exists(os.path.join(common.COQ, "gen_proofs", PROOFS[name])):       # translated and compiled, no script yet
                results[name] = translate_only(ctx, name, build_dir, compiled); continue
            results[name] = gencheck.translate_and_prove(ctx, name, build_dir, PROOFS[name], compiled) if extra_ok else (False, ["EncCommon.v does not compile"])
        tproblems = []
        if all(results[n_][0] and not results[n_][1] for n_ in results):
            if not all([gencheck_enc.prove_extra(ctx, build_dir, tf, tproblems) for tf in fam["transfer"]]):
                ctx.report(fam["what"] + " no longer check: " + "; ".join(tproblems)[:400], {"generated_model": "transfer", "broken": tproblems}, concrete=False)
        for names, cases_of, stream, nq in groups:
            cases = cases_of(ctx, ctx.budget(nq, 10 * nq), stream)
            for name in names:
                try:
                    one(ctx, name, build_dir, results[name], cases, cases_of, stream)
                except Exception as e:
                    import traceback
                    ctx.report("generated-model check of %s crashed: %r" % (name, e), {"generated_model": name, "traceback": traceback.format_exc()}, concrete=False)
    finally:
        shutil.rmtree(build_dir, ignore_errors=True)


def differs(got, want):
    """when the encoder raises, what it had emitted before is not observable on the real object (the constructor fails): compare the outcome only"""
    if got["exc"] or want["exc"]:
        return [] if got["exc"] == want["exc"] else ["outcome: %s, required %s" % (got["exc"], want["exc"])]
    return gencheck_enc.differs(got, want)


def translate_only(ctx, name, build_dir, compiled):
    """a target without a proof script: translate + compile the generated file (it is used by the correspondence and by callers)"""
    import subprocess, sys, re
    gen = os.path.join(build_dir, "Gen_%s.v" % name)
    p = subprocess.run([sys.executable, os.path.join(common.ROOT, "harness", "translate.py"), name, "--repo", common.REPO, "-o", gen], capture_output=True, text=True)
    if p.returncode != 0 or not os.path.exists(gen):
        return False, ["translation step: " + (p.stderr.strip().splitlines() or ["translate.py exit %d" % p.returncode])[-1]]
    ctx.count("generated_model", "translated")
    missing = [c for c in re.findall(r"From FPGen Require Gen_(\w+)\.", open(gen).read()) if c not in compiled]
    if missing: return False, ["the generated model calls %s, whose generated model is not available" % missing]
    rc, out, log, secs = gencheck.coqc(build_dir, "Gen_%s.v" % name)
    ctx.count("generated_model", "coqc_s", secs)
    if rc != 0: return False, ["the generated file Gen_%s.v does not compile: %s" % (name, log[-600:])]
    compiled.add(name)
    return True, []


def decode(name, enc):
    return gencheck_enc.decode("encode_kfdw" if name in HAS_OBJ else "encode_kfd", enc)


def usable(name, case):
    """the MinErrorFlow encoders are called on an object the constructor could build (its own failures are the engine's business)"""
    if case.kind == "msc": return True
    if case.kind == "mgs":
        if case.m is None:
            try: build(case)
            except Exception: case.m = False
        return case.m is not False
    if name == "encode_mef_obj" and getattr(case, "drop", False): return False       # _encode_flow raises there: no variables for the objective
    if case.m is None:
        try: build(case)
        except Exception: case.m = False
    return case.m is not False and case.m is not None


def one(ctx, name, build_dir, proved, cases, cases_of, stream):
    T = translate.TARGETS[name]
    rep = {"generated_model": name, "source": T["file"] + " :: " + T["func"]}
    model_ok, problems = proved[0], list(proved[1])
    concrete = None; reals = []; used = []
    for c in cases:
        if not usable(name, c): continue
        r = real(name, c); reals.append(r); used.append(c)
        ctx.count("generated_model", "property_evaluations")
        ctx.case(["generated-enc", name, c.desc], nontrivial=len(r["rows"]) >= 2 or len(r.get("obj", {})) >= 1)
        ctx.dist("generated:%s:%s" % (name, r["exc"] or "%d+ rows" % (5 * (len(r["rows"]) // 5))))
        want = spec(name, c)
        if concrete is None and want is not None:
            d = differs(r, want)
            if d: concrete = (c.desc, d)
    if model_ok and used:
        header = ["From FP Require Import Lin PathEnc PyRt PyLin.", "From FPGen Require Import Gen_%s." % name]
        res, secs = gencheck.vm_eval(build_dir, name, header, [fn_call(name, c) for c in used], depth=3)
        ctx.count("generated_model", "coqc_s", secs)
        if isinstance(res, str):
            problems.append("correspondence: " + res)
        else:
            bad = []
            for c, enc, r in zip(used, res, reals):
                d = differs(r, decode(name, enc))
                ctx.count("generated_model", "rows_compared", len(r["rows"])); ctx.count("generated_model", "cols_compared", len(r["cols"]))
                if d: bad.append((c.desc, d))
            ctx.count("generated_model", "correspondence_cases", len(used))
            ctx.count("generated_model", "correspondence_agreements", len(used) - len(bad))
            if bad:
                problems.append("correspondence: generated columns/rows/objective differ from what the real encoder added (LP read back from HiGHS) on %d of %d instances, first: %s"
                                % (len(bad), len(used), "; ".join(bad[0][1][:3])))
                rep["first_disagreeing_instance"] = bad[0][0]
    if concrete is None and problems:
        for c in cases_of(ctx, ctx.budget(200, 2000), stream + "-search"):
            if not usable(name, c): continue
            ctx.count("generated_model", "search_evaluations")
            want = spec(name, c)
            if want is None: continue
            d = differs(real(name, c), want)
            if d: concrete = (c.desc, d); break
    if concrete is not None:
        desc, d = concrete
        rep.update({"instance": desc, "differences_(impl = the real encoder, model = the documented formulation)": d, "broken": problems})
        ctx.report("%s — violated by the implementation: %s%s" % (STATEMENT[name], "; ".join(d[:2])[:400], (" [" + problems[0][:160] + "]") if problems else ""), rep, concrete=True)
    elif problems:
        rep.update({"broken": problems})
        ctx.report("generated-model tie of %s no longer checks (%s); the statement held on every instance tried" % (name, problems[0][:300]), rep, concrete=False)


def replay(ctx, body):
    common.setup_env()
    name = body["generated_model"]
    if name not in STATEMENT:
        print("nothing to replay for", name, "; broken:", body.get("broken")); return False
    cases_of, stream = (msc_cases, "genmisc-msc") if name == "encode_msc" else (mgs_cases, "genmisc-mgs") if name == "encode_mgs" else (mef_cases, "genmisc-mef")
    for sfx, n in (("", 60), ("-search", 200)):
        for c in cases_of(ctx, n, stream + sfx):
            if not usable(name, c): continue
            want = spec(name, c)
            if want is None: continue
            d = differs(real(name, c), want)
            if d:
                print("statement violated now on", c.desc, ":", d[:2]); return True
    print("the statement holds on the instance stream now")
    return False
