"""Exhaustive optimisers for tiny instances (the search / oracle side of E2).  Plain Python over exact
rationals; every function states its finite domain.  They are used to look for failing inputs and to
cross-check optima; the proved statements live in the Coq development."""
import itertools, collections
from fractions import Fraction as F
import gen, props


def st_paths(G, starts=(), ends=()):
    """all routes of a DAG from an in-degree-0 node or start to an out-degree-0 node or end"""
    S = [v for v in G if G.in_degree(v) == 0 or v in starts]
    T = set(v for v in G if G.out_degree(v) == 0 or v in ends)
    res = []
    def rec(p):
        v = p[-1]
        if v in T:
            res.append(list(p))
        for w in G.successors(v):
            rec(p + [w])
    for s in S:
        rec([s])
    return res


def solve_exact(cols, rhs):
    """unique solution of sum_j x_j cols[j] = rhs over Fractions, or None if the columns are dependent
    or the system is inconsistent.  cols: list of dict row->coef; rhs: dict row->value."""
    rows = sorted(set(rhs) | set(r for c in cols for r in c), key=repr)
    k = len(cols)
    M = [[F(c.get(r, 0)) for c in cols] + [F(rhs.get(r, 0))] for r in rows]
    piv = []; r0 = 0
    for j in range(k):
        p = next((i for i in range(r0, len(M)) if M[i][j] != 0), None)
        if p is None:
            return None                      # dependent columns
        M[r0], M[p] = M[p], M[r0]
        M[r0] = [x / M[r0][j] for x in M[r0]]
        for i in range(len(M)):
            if i != r0 and M[i][j] != 0:
                M[i] = [a - M[i][j] * b for a, b in zip(M[i], M[r0])]
        piv.append(r0); r0 += 1
    if any(M[i][k] != 0 for i in range(r0, len(M))):
        return None                          # inconsistent
    return [M[piv[j]][k] for j in range(k)]


def min_fd(G, attr, is_int, ignore=(), cons=(), coverage=1.0, kmax=4, starts=(), ends=(), lengths=None):
    """Minimum number of weighted source-to-sink paths explaining f on the non-ignored edges of a DAG
    (weights > 0; integers if is_int), subject to subpath constraints.  Returns (k, witness) or (None, None)
    if none with <= kmax paths exists.  Domain: DAGs with <= ~40 paths, kmax <= 4, integer flows <= ~12."""
    ign = set(ignore)
    f = {(u, v): F(d[attr]) for u, v, d in G.edges(data=True) if (u, v) not in ign and attr in d}
    if all(v == 0 for v in f.values()) and not cons:
        return 0, ([], [])
    paths = st_paths(G, starts, ends)
    cols = []
    for p in paths:
        c = collections.Counter(e for e in zip(p, p[1:]) if e in f)
        cols.append(dict(c))
    memo = {}
    def weights_for(support):
        """positive weights on exactly these paths explaining f, or None"""
        if support not in memo:
            if not support:
                memo[support] = [] if all(v == 0 for v in f.values()) else None
            elif is_int:
                memo[support] = _int_weights([cols[j] for j in support], f)
            else:
                sol = solve_exact([cols[j] for j in support], f)
                memo[support] = sol if (sol is not None and all(w > 0 for w in sol)) else None
        return memo[support]
    for k in range(1, kmax + 1):
        for combo in itertools.combinations(range(len(paths)), k):
            routes = [paths[j] for j in combo]
            if cons and props.constraint_covered(cons, routes, coverage, lengths) is not None:
                continue
            # without constraints every path carries positive weight; with constraints further paths of weight 0
            # may be needed only to realise a constraint
            supports = [combo] if not cons else [sub for r in range(k, -1, -1) for sub in itertools.combinations(combo, r)]
            for sup in supports:
                sol = weights_for(tuple(sup))
                if sol is not None:
                    w = dict(zip(sup, sol))
                    return k, (routes, [w.get(j, 0) for j in combo])
    return None, None


def _int_weights(cols, f):
    """positive integer weights with sum_j w_j cols[j] = f (exhaustive DFS bounded by the residual)"""
    k = len(cols)
    order = list(range(k))
    def rec(i, rem):
        if i == k:
            return [] if all(v == 0 for v in rem.values()) else None
        c = cols[order[i]]
        if not c:
            ub = max([1] + [int(v) for v in rem.values()])      # a path over ignored edges only: weight is free, take 1
            ws = [1]
        else:
            ub = min(int(rem[e] // c[e]) for e in c)
            ws = range(1, ub + 1)
        for w in ws:
            r2 = dict(rem)
            for e, m in c.items():
                r2[e] -= w * m
            rest = rec(i + 1, r2)
            if rest is not None:
                return [w] + rest
        return None
    if any(v != int(v) for v in f.values()):
        return None
    return rec(0, dict(f))


def max_antichain_bf(G, ignore=()):
    """maximum number of pairwise unreachable non-ignored edges of a DAG (exhaustive; <= 14 edges)"""
    import networkx as nx
    es = [e for e in G.edges() if e not in set(ignore)]
    desc = {v: nx.descendants(G, v) | {v} for v in G}
    def comp(e, g):      # on a common path
        return e[1] in desc and (g[0] in desc[e[1]] or e[0] in desc[g[1]])
    best = 0
    n = len(es)
    for mask in range(1 << n):
        S = [es[i] for i in range(n) if mask >> i & 1]
        if len(S) <= best:
            continue
        if all(not comp(a, b) for a, b in itertools.combinations(S, 2)):
            best = len(S)
    return best


def min_path_cover_bf(G, ignore=(), starts=(), ends=(), cons=(), coverage=1.0, kmax=5, lengths=None):
    """minimum number of routes covering every non-ignored edge (DAG; exhaustive over path subsets)"""
    need = set(e for e in G.edges() if e not in set(ignore))
    paths = st_paths(G, starts, ends)
    if not need and not cons:
        return 0
    for k in range(1, kmax + 1):
        for combo in itertools.combinations(range(len(paths)), k):
            routes = [paths[j] for j in combo]
            cov = set(e for r in routes for e in zip(r, r[1:]))
            if need <= cov and (not cons or props.constraint_covered(cons, routes, coverage, lengths) is None):
                return k
    return None
