"""gencheck14.py — the GENERATED-MODEL tie for C14: the walk reconstruction
AbstractWalkModelDiGraph.get_solution_walks -> _build_residual_graph_for_layer -> _reconstruct_eulerian_walk ->
_build_closed_walk_from_vertex, regenerated from source as ONE Gallina function (Gen_solution_walks.v: the three helpers are expanded
in place, `graph` and `stack` are shared by name exactly as Python shares the objects), proof script coq/gen_proofs/WalksSpec.v.

Per run: translate the current source (harness/translate.py), compile the generated file and the hand-written script against it,
validate the translator on the engine's own instance streams (vm_compute of the generated function vs. the real method on the same
edge_vars_sol: walks node for node, exception class, edge_vars_sol afterwards), evaluate the statement of C14 directly on what the
real method returns; on any failure search for a concrete failing input.

    run_generated_c14(ctx)          (one call at the end of engines/c14.py::run)
"""
import os, re, shutil, tempfile, collections, types
from fractions import Fraction
import networkx as nx
import common, translate, gencheck

NAME = "solution_walks"
PROOFS = {NAME: "WalksSpec.v"}
STATEMENT = ("get_solution_walks raises nothing, answers the same when asked again, leaves edge_vars_sol as it was (or as the solver "
             "reported it when it was empty), and for every layer whose rounded values are balanced, leave the source once and are "
             "connected to it returns one walk that, between source and sink, uses every edge exactly round(value) times ([] when all round to 0)")
cN = gencheck.cN; cL = gencheck.cL; cE = gencheck.cE; cQ = gencheck.cQ
EXC = {"ValueError": 0, "KeyError": 1, "TypeError": 2, "RuntimeError": 3, "IndexError": 4, "UnboundLocalError": 8}


def c14():
    import importlib
    return importlib.import_module("engines.c14")


# ------------------------------------------------------------------------------------------ instances
class Inst:
    """nodes / edges in the iteration order of the graph, source, sink, layers = list of [(u, v, value)] in the insertion order of
    edge_vars_sol; via_solver: edge_vars_sol is {} and the values come from solver.get_values(edge_vars)"""
    def __init__(self, nodes, edges, source, sink, layers, via_solver=False):
        self.nodes = list(nodes); self.edges = [tuple(e) for e in edges]; self.source = source; self.sink = sink
        self.layers = [[(u, v, x) for u, v, x in L] for L in layers]; self.via_solver = bool(via_solver)

    def args_repr(self):
        return repr((self.nodes, self.edges, self.source, self.sink, self.layers, self.via_solver))

    def graph(self):
        H = nx.DiGraph(); H.add_nodes_from(self.nodes); H.add_edges_from(self.edges)
        H.source = self.source; H.sink = self.sink
        if list(H.nodes()) != self.nodes or list(H.edges()) != self.edges:
            raise ValueError("iteration order of the stand-in graph differs from the recorded one")
        return H

    def layer_dicts(self):
        return [{(u, v): x for u, v, x in L} for L in self.layers]

    def show(self):
        return {"nodes": self.nodes, "edges": [list(e) for e in self.edges], "source": self.source, "sink": self.sink,
                "edge_vars_sol": [[u, v, i, x] for i, L in enumerate(self.layers) for u, v, x in L], "k": len(self.layers),
                "edge_vars_sol_empty_values_from_solver": self.via_solver}


def from_engine(st, layers, via_solver=False):
    return Inst(list(st.nodes()), list(st.edges()), st.source, st.sink, [[(u, v, x) for (u, v), x in L.items()] for L in layers], via_solver)


def stream_case(ctx, stream, i):
    try:
        G, st, layers = c14().make_case(ctx.rng(stream, i), stream == "malformed")
    except ValueError:
        return None
    if not layers:
        return None
    return from_engine(st, layers, via_solver=(i % 7 == 3 and any(layers)))


def search_case(rng, i):
    """as the engine's generator; in addition layers that repeat the edge set of an earlier layer with other multiplicities
    (one more turn around a cycle of its support), and graphs rich in self-loops"""
    E = c14()
    try:
        G, st, layers = E.make_case(rng, rng.random() < 0.15)
    except ValueError:
        return None
    if not layers:
        return None
    if rng.random() < 0.5:
        base = rng.choice(layers)
        m = {e: round(x) for e, x in base.items() if round(x) > 0}
        H = nx.DiGraph(); H.add_edges_from(m)
        try:
            cyc = nx.find_cycle(H, rng.choice(sorted(H.nodes(), key=str))) if m else []
        except nx.NetworkXNoCycle:
            cyc = []
        if cyc:
            extra = dict(base)
            for _ in range(rng.randint(1, 2)):
                for (u, v) in cyc:
                    extra[(u, v)] = extra[(u, v)] + 1.0
            layers = layers + [extra] if rng.random() < 0.5 else [extra] + layers
    return from_engine(st, layers, via_solver=(rng.random() < 0.1 and any(layers)))


# ------------------------------------------------------------------------------------------ the real method
def real(a):
    """what the real get_solution_walks does on a fresh object: outcome of the first call, edge_vars_sol afterwards, and whether two
    further calls on the same object answer the same"""
    Stub = c14()._stub_class()
    m = object.__new__(Stub)
    m.G = a.graph(); m.k = len(a.layers)
    vals = {(str(u), str(v), i): x for i, L in enumerate(a.layers) for u, v, x in L}
    if a.via_solver:
        m.edge_vars_sol = {}; m.edge_vars = {}
        m.solver = types.SimpleNamespace(get_values=lambda ev: dict(vals))
    else:
        m.edge_vars_sol = dict(vals)
    try:
        first = [list(w) for w in m.get_solution_walks()]
    except Exception as e:
        return {"exc": type(e).__name__, "walks": None, "again": None, "sol_after": None}
    sol_after = [(k, x) for k, x in m.edge_vars_sol.items()] if isinstance(m.edge_vars_sol, dict) else repr(m.edge_vars_sol)
    again = None
    try:
        for _ in range(2):
            nxt = [list(w) for w in m.get_solution_walks()]
            if nxt != first: again = nxt; break
    except Exception as e:
        again = "raises " + type(e).__name__
    return {"exc": None, "walks": first, "again": again, "sol_after": sol_after}


def violated(a, got):
    """clauses of the statement that `got` breaks (empty list = the statement holds on this input)"""
    E = c14(); H = a.graph(); bad = []
    if got["exc"] is not None:
        return ["raises " + got["exc"]]
    if got["again"] is not None:
        bad.append("asked again on the same object it answers %s" % (got["again"],))
    vals = [((str(u), str(v), i), x) for i, L in enumerate(a.layers) for u, v, x in L]
    if got["sol_after"] != vals:
        bad.append("edge_vars_sol afterwards is %s" % (got["sol_after"],))
    if len(got["walks"]) != len(a.layers):
        bad.append("%d walks for %d layers" % (len(got["walks"]), len(a.layers)))
        return bad
    for i, (L, w) in enumerate(zip(a.layer_dicts(), got["walks"])):
        if E.wellformed(H, L) and not E.property_holds(H, L, w):
            need = {(u, v): round(x) for (u, v), x in L.items() if round(x) > 0}
            bad.append("layer %d: walk %s does not use every edge exactly round(value) times (required %s)" % (i, w, sorted(need.items(), key=str)))
    return bad


# ------------------------------------------------------------------------------------------ the generated model
HEADER = ["From FP Require Import PyRt.", "From FPGen Require Import Gen_solution_walks."]


def coq_call(a):
    ids = {v: j for j, v in enumerate(a.nodes)}
    sol = cL(["((%s, %s, (%d)%%Z), %s)" % (cN(ids[u]), cN(ids[v]), i, cQ(Fraction(x))) for i, L in enumerate(a.layers) for u, v, x in L])
    fuel = sum(max(0, round(x)) for L in a.layers for _, _, x in L) + 6
    return ("(let r := fn %d %s (%d)%%Z %s %s %s %s %s in enc_walks (fst r) ++ [[(-1)%%Z]] ++ "
            "map (fun '((u, v, i), q) => [Z.of_N u; Z.of_N v; i; Qnum q; Zpos (Qden q)]) (snd r))"
            % (fuel, "[]" if a.via_solver else sol, len(a.layers), sol if a.via_solver else "[]",
               cL([cN(ids[v]) for v in a.nodes]), cL([cE((ids[u], ids[v])) for u, v in a.edges]), cN(ids[a.source]), cN(ids[a.sink])))


def decode(rows, a):
    """the model's answer in the vocabulary of real()"""
    cut = rows.index([-1])
    head, dct = rows[:cut], rows[cut + 1:]
    sol = [((str(a.nodes[u]), str(a.nodes[v]), i), Fraction(n, d)) for u, v, i, n, d in dct]
    if head[0] == [1]:
        return {"exc": None, "walks": [[a.nodes[j] for j in w] for w in head[1:]], "sol_after": sol}
    if head[0][0] == 0:
        code = head[0][1]
        return {"exc": {v: k for k, v in EXC.items()}.get(code, "fuel exhausted (non-termination)" if code == 7 else "exception code %d" % code), "walks": None, "sol_after": sol}
    return {"exc": "returns None", "walks": None, "sol_after": sol}


def differs(mod, got):
    if mod["exc"] is not None or got["exc"] is not None:
        return mod["exc"] != got["exc"]
    return mod["walks"] != got["walks"] or [(k, Fraction(x)) for k, x in got["sol_after"]] != mod["sol_after"]



# ------------------------------------------------------------------------------------------ field renumbering
def parse_locals(text):
    """[(field, python name, type)] from the `locals:` line of a generated file (or of the script's copy of it)"""
    m = re.search(r"locals:\s*(.*)", text)
    if not m: return []
    out = []
    for part in re.split(r",\s*(?=x\d+ = )", m.group(1).strip()):
        mm = re.match(r"(x\d+) = (\w+) : (.*)$", part.strip())
        if mm: out.append((mm.group(1), mm.group(2), mm.group(3).strip().rstrip("*)").strip()))
    return out


def remap_fields(src, gen_text):
    """the script with its state fields renumbered for a regenerated model whose fields are numbered differently: fields are matched by
    qualified Python name, then by bare name within the type, then in order within the type.  Statements of the theorems whose
    assumptions are printed must not change (they do not mention state fields)."""
    old = parse_locals(src[src.index("written against"):] if "written against" in src else ""); new = parse_locals(gen_text)
    if not old or not new or old == new: return None
    bare = lambda n: n.split("__")[-1]
    sigma = {}; free = list(new)
    def take(pred, first=False, pool=None):
        for o in old:
            if o[0] in sigma: continue
            c = [n for n in (free if pool is None else pool) if n[2] == o[2] and pred(o, n)]
            if len(c) == 1 or (c and first):
                sigma[o[0]] = c[0][0]
                if c[0] in free: free.remove(c[0])
    take(lambda o, n: o[1] == n[1])                              # the same qualified name
    take(lambda o, n: bare(o[1]) == bare(n[1]))                  # the same local name in another function (helper inlined)
    head, sep, rest = src.partition("*)")
    used = set(re.findall(r"\bx\d+\b", rest))
    for ty in sorted({o[2] for o in old}):                      # what is left, in order within the type: all of them when as many are left
        lo = [o for o in old if o[2] == ty and o[0] not in sigma]; ln = [n for n in free if n[2] == ty]      # on both sides, else those the script uses
        if len(lo) != len(ln): lo = [o for o in lo if o[0] in used]
        for o, n in zip(lo, ln):
            sigma[o[0]] = n[0]; free.remove(n)
    take(lambda o, n: bare(o[1]) == bare(n[1]), pool=new)        # a copy that the new source no longer makes
    def sub(m):
        f = "x" + m.group(2)
        return m.group(1) + sigma.get(f, "x_gone_" + m.group(2))
    # the header comment (with the copy of the locals line) stays as it is
    out = head + sep + re.sub(r"\b(set_|)x(\d+)\b", sub, rest)
    stmts = lambda t: re.findall(r"\bTheorem\s+\w+\s*:(.*?)\bProof\.", t, re.S)
    return out if stmts(out) == stmts(src) else None

# ------------------------------------------------------------------------------------------ driver
def run_generated_c14(ctx):
    if not os.path.exists(os.path.join(common.COQ, "gen_proofs", PROOFS[NAME])):
        return
    base = os.path.join(common.OUT, "work", "gen"); os.makedirs(base, exist_ok=True)
    build = tempfile.mkdtemp(prefix="c14_", dir=base)
    try:
        ok, n, bad = translate.selftest()
        ctx.count("generated_model", "translator_fail_closed_selftest_rejected", ok)
        if bad:
            ctx.report("translator is not fail-closed: it accepted unsupported bodies %s" % bad, {"generated_model": "selftest", "accepted": bad}, concrete=False)
        ctx.notes.append({"generated_model_trusted": [
            "harness/translate.py (Python subset -> Gallina, fail-closed; same-class helper calls are expanded in place, a list / dict handed to a helper that "
            "never rebinds it is the caller's own variable; dict = association list in insertion order, list.pop() takes the LAST element, list.index the first "
            "occurrence, l[i:i] = c inserts, `while` runs on explicit fuel whose exhaustion is reported as non-termination)",
            "coq/theories/PyRt.v (combinators; py_round = Python's round() on exact rationals: half to even)",
            "coqc 8.16.1; vm_compute as evaluator of the generated model in the correspondence run",
            "node names are interned as numbers by the harness (str(u) of a node is the node); solver values are passed as the exact rationals of the floats; "
            "logging calls are no-ops"]})
        try:
            one(ctx, build)
        except Exception as e:
            import traceback
            ctx.report("generated-model check of %s crashed: %r" % (NAME, e), {"generated_model": NAME, "traceback": traceback.format_exc()}, concrete=False)
    finally:
        shutil.rmtree(build, ignore_errors=True)


def one(ctx, build):
    spec = translate.TARGETS[NAME]
    rep = {"generated_model": NAME, "source": spec["file"] + " :: " + spec["func"]}
    model_ok, problems = gencheck.translate_and_prove(ctx, NAME, build, PROOFS[NAME], set(), remap=remap_fields)
    cases = []
    for stream, n in (("good", ctx.budget(160, 1600)), ("malformed", ctx.budget(90, 900))):
        cases += [a for a in (stream_case(ctx, stream, i) for i in range(n)) if a is not None]
    reals = [real(a) for a in cases]
    concrete = None
    for a, got in zip(cases, reals):
        ctx.count("generated_model", "property_evaluations")
        ctx.case(["generated", NAME, a.args_repr()], nontrivial=any(round(x) > 1 for L in a.layers for _, _, x in L))
        bad = violated(a, got)
        if bad and concrete is None: concrete = (a, got, bad)
    if model_ok:
        res, secs = gencheck.vm_eval(build, NAME, HEADER, [coq_call(a) for a in cases], depth=3)
        ctx.count("generated_model", "coqc_s", secs)
        if isinstance(res, str):
            problems.append("correspondence: " + res)
        else:
            dis = [(a, decode(m, a), r) for a, m, r in zip(cases, res, reals) if differs(decode(m, a), r)]
            ctx.count("generated_model", "correspondence_cases", len(cases))
            ctx.count("generated_model", "correspondence_agreements", len(cases) - len(dis))
            if dis:
                a, m, r = dis[0]
                problems.append("correspondence: the generated model and the real method disagree on %d of %d inputs, first %s: model %s, implementation %s"
                                % (len(dis), len(cases), a.show(), {k: m[k] for k in ("exc", "walks")}, {k: r[k] for k in ("exc", "walks")}))
    if concrete is None and problems:
        for i in range(ctx.budget(4000, 40000)):
            a = search_case(ctx.rng("gen14-search", i), i)
            if a is None: continue
            ctx.count("generated_model", "search_evaluations")
            got = real(a); bad = violated(a, got)
            if bad: concrete = (a, got, bad); break
    if concrete is not None:
        a, got, bad = concrete
        rep.update({"input": a.show(), "args_repr": a.args_repr(), "observed": {k: got[k] for k in ("exc", "walks", "again")}, "violated_clauses": bad, "broken": problems})
        ctx.report("%s — violated by the implementation on %s: %s%s" % (STATEMENT, str(a.show())[:300], bad[0][:300], (" [" + problems[0][:160] + "]") if problems else ""),
                   rep, concrete=True)
    elif problems:
        rep.update({"broken": problems})
        ctx.report("generated-model tie of %s no longer checks (%s); the statement held on every input tried" % (NAME, problems[0][:300]), rep, concrete=False)


def replay(ctx, body):
    common.setup_env()
    if "args_repr" not in body:
        print("no concrete input recorded; broken:", body.get("broken")); return False
    a = Inst(*eval(body["args_repr"], {"__builtins__": {}}, {}))
    got = real(a); bad = violated(a, got)
    print("observed now:", {k: got[k] for k in ("exc", "walks", "again")}, "| violated clauses:", bad)
    return bool(bad)
