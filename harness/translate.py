#!/venv/bin/python
"""translate.py — FAIL-CLOSED translator from a restricted Python subset to Gallina.

    translate.py <target> [--repo DIR] [-o FILE]        exit 0: Gallina text written; exit 3: unsupported construct

The function named by <target> (table TARGETS: file, class, function, typed embedding of the parameters) is
parsed with `ast` from the CURRENT source under --repo / $VERIF_REPO / /repo and turned into a module
Gen_<target>.v over the runtime coq/theories/PyRt.v:

    Record st       one field x<i> per assigned local (numbered by Gallina type, then by first assignment, so renaming
                    a local does not change the output); parameters are a<i>, loop variables i<k>
    body            the statement list as PyRt combinators (py_seq / py_assign / py_if / py_for / py_continue /
                    py_return / py_raise / py_guard) over  st -> ctl R * st
    fn              py_run body init_st : result R

Supported: docstrings and logging calls (dropped, but d[k] / data[attr] inside them keep their KeyError guards), `x = e`, `x += e`, `x -= e`, `for <name or tuple of names> in <list>`,
nested loops, if/elif/else, continue, pass, `return e`, `raise ValueError(...)` (also KeyError/TypeError/RuntimeError),
int / bool constants, float("-inf"), tuples, + and -, one comparison (< <= > >= == != in, not in, is None, is not None),
and/or/not, max(a,b), min(a,b), len(l), set(l), list(l), set(), d.get(k[, default]), d[k], k in d, t[0] / t[1] on a pair,
[(p[i], p[i+1]) for i in range(len(p)-1)] (also as set comprehension / inside set()), and on a graph argument
.nodes(), .edges(data=True), .out_edges(v, data=True), .in_edges(v, data=True), .out_degree(v), .in_degree(v);
on an edge-data dict: attr in data, data.get(attr), data[attr].
ANYTHING ELSE raises Unsupported naming the node: the translator never guesses.

Partial operations (d[k], data[attr], `x in s` with s possibly None) become a py_guard in front of the statement
that evaluates them, raising KeyError / TypeError as Python would; they are rejected where evaluation is
conditional (right operand of and/or).  A local may only be read where it is definitely assigned."""
import ast, re, os, sys, warnings, copy
warnings.filterwarnings("ignore", category=SyntaxWarning)       # invalid escape sequences in docstrings of the parsed source

# ------------------------------------------------------------------------------------------ types
INT, NUM, EXT, BOOL, NODE, EDATA, ATTR, GRAPH, BOT, NONE, STR = (("Int",), ("Num",), ("Ext",), ("Bool",), ("Node",),
                                                               ("EData",), ("Attr",), ("Graph",), ("Bot",), ("NoneT",), ("Str",))
def Tuple(*ts): return ("Tuple",) + tuple(ts)
def List(t): return ("List", t)
def Set(t): return ("Set", t)
def Dict(k, v): return ("Dict", k, v)
def Opt(t): return ("Opt", t)
VAR, LEXP, CON, WRAP, HNAME, BITS = ("Var",), ("LinExpr",), ("Constr",), ("Wrapper",), ("HelperName",), ("BitCount",)
def VarDict(fam, key): return ("VarDict", fam, key)
BGRAPH, SELFOBJ, NODEDATA, EDGEDATA, SGRAPH = ("BGraph",), ("SelfObject",), ("NodeDataView",), ("EdgeDataView",), ("STGraph",)
STG = ("PathEncGraph",)
def VarDictK(fam, K): return ("VarDictK", fam, K)
K3, K2, K1 = ("Tuple", ("Node",), ("Node",), ("Int",)), ("Tuple", ("Int",), ("Int",)), ("Int",)
K3Z = ("Tuple", ("Int",), ("Int",), ("Int",))
KEYENC = {K3: ("vkey3", "eqb3"), K2: ("vkey2", "eqb2"), K1: ("vkey1", "Z.eqb"), ("Tuple", ("Node",), ("Node",)): ("vkeyE", "edge_eqb"), K3Z: ("vkey3z", "eqb3z")}
# name_prefix="<literal>" of self.solver.add_variables in the model classes -> variable family of Lin.v (the table of harness/e1.py)
PREFIX_LITERAL = {"edge": "fEdge", "pi": "fPi", "w": "fW", "r": "fR", "position": "fPos", "path_length": "fLen",
                  "weights": "fW", "ee": "fErr", "slack": "fSlack", "gamma": "fGamma", "path_slack_scaled": "fFactor", "scaled_slack": "fSSlack",
                  "subset": "fSub", "edge_vars": "fX", "edge_error_vars": "fErr",
                  "gen_set": "fGen", "x": "fX", "y": "(30)%N", "product_y": "(31)%N"}          # 30 / 31: MiscEnc.fY / fPiY
# name / name_prefix f-strings handed to the wrapper helpers by the model classes: f"<literal>{i}" names the helper variables of layer i after
# the variable V <family> [i] (harness/e1err.py reads the same names back: binary_scaled_slack_i<i> -> Bit (SSlack i) .., z_error_scale_<i> -> Zsel (Factor i) ..)
HNAME_FSTRING = {"scaled_slack_i": "fSSlack", "error_scale_": "fFactor"}
# f"pi_i={i}_j={j}" (MinGenSet): the helper variables of the product pi[(i, j)] (harness/e1misc.py: binary_pi_i=<i>_j=<j> -> Bit (Pij i j) ..)
HNAME_FSTRING2 = {("pi_i=", "_j="): "fPi"}          # kLeastAbsErrors / kMinPathError name their weight columns "weights", the error columns "ee"
ERASED = (("Attr",), ("Wrapper",), ("Str",), ("SelfObject",))        # parameters of these types do not appear in the Gallina signature
EDGE = Tuple(NODE, NODE)
DEDGE = Tuple(NODE, NODE, EDATA)
NUMERIC = {INT: 0, NUM: 1, EXT: 2}


class Restart(Exception):
    """the translation pass has learnt that a local cannot be inlined: start over"""


class Unsupported(Exception):
    def __init__(self, msg, node=None):
        where = ""
        if node is not None and hasattr(node, "lineno"):
            where = " at line %d col %d" % (node.lineno, node.col_offset)
            try:
                where += ": `" + ast.unparse(node).splitlines()[0][:100] + "`"
            except Exception:
                pass
        super().__init__("unsupported %s%s" % (msg, where))


TARGETS = {
    "max_occurrence": dict(file="flowpaths/utils/graphutils.py", cls=None, func="max_occurrence",
                           params=[List(EDGE), List(List(NODE)), Dict(EDGE, NUM)], defaults=["{}"], ret=NUM),
    "nonneg_check": dict(file="flowpaths/abstractsourcesinkgraph.py", cls="AbstractSourceSinkGraph",
                         func="get_max_flow_value_and_check_non_negative_flow",
                         params=[GRAPH, ATTR, Opt(Set(EDGE))], defaults=[], ret=EXT),
    "check_flow_conservation": dict(file="flowpaths/utils/graphutils.py", cls=None, func="check_flow_conservation",
                                    params=[GRAPH, ATTR], defaults=[], ret=BOOL),
    # functions that EMIT rows / columns (SolverWrapper helpers, C12): fn returns (outcome, columns, rows)
    "binprod": dict(file="flowpaths/utils/solverwrapper.py", cls="SolverWrapper", func="add_binary_continuous_product_constraint",
                    params=[WRAP, VAR, VAR, VAR, NUM, NUM, STR], defaults=[], ret=NONE, emits=True),
    "intprod": dict(file="flowpaths/utils/solverwrapper.py", cls="SolverWrapper", func="add_integer_continuous_product_constraint",
                    params=[WRAP, VAR, VAR, VAR, NUM, NUM, HNAME], defaults=[], ret=NONE, emits=True),
    "pwc": dict(file="flowpaths/utils/solverwrapper.py", cls="SolverWrapper", func="add_piecewise_constant_constraint",
                params=[WRAP, VAR, VAR, List(Tuple(NUM, NUM)), List(NUM), HNAME], defaults=[], ret=NONE, emits=True),
}
# a method whose `self` is an object with typed attributes: inputs become parameters of the generated function, outputs
# (attributes the method assigns) and, with graph=True, the nx.DiGraph `self` that the method fills become part of the result
TARGETS["augment"] = dict(file="flowpaths/abstractsourcesinkgraph.py", cls="AbstractSourceSinkGraph", func="_augment_with_source_sink",
                          params=[SELFOBJ], defaults=[], ret=NONE,
                          selfobj=dict(inputs=[("base_graph", BGRAPH), ("additional_starts", Set(NODE)), ("additional_ends", Set(NODE)),
                                               ("source", NODE), ("sink", NODE)],
                                       outputs=[("source_edges", List(EDGE)), ("sink_edges", List(EDGE)), ("source_sink_edges", Set(EDGE))],
                                       graph=True))

_EV = Dict(Tuple(NODE, NODE, INT), INT)
TARGETS["solpaths"] = dict(file="flowpaths/abstractpathmodeldag.py", cls="AbstractPathModelDAG", func="get_solution_paths",
                           params=[SELFOBJ], defaults=[], ret=List(List(NODE)),
                           selfobj=dict(inputs=[("external_solution_paths", Opt(List(List(NODE)))), ("edge_vars_sol", _EV), ("G", SGRAPH), ("k", INT)],
                                        outputs=[("edge_vars_sol", _EV)],          # read and (re)assigned: initialised from the input
                                        # a call whose result is an input of the model: the rounded 0/1 values the solver wrapper returns
                                        calls={"self.solver.get_values(self.edge_vars, binary_values=True)": ("solver_edge_values", _EV)}))

# ---- the MILP encoders of the DAG models.  self.G is the PathEnc.stgraph record (nodes, edges, source, sink, successor and predecessor
# lists in networkx' iteration order) that harness/e1.py sends to the hand-written model as well.
_PM_IN = [("G", STG), ("k", INT), ("solver", WRAP)]
TARGETS["encode_paths"] = dict(
    file="flowpaths/abstractpathmodeldag.py", cls="AbstractPathModelDAG", func="_encode_paths", params=[SELFOBJ], defaults=[], ret=NONE, emits=True,
    selfobj=dict(inputs=_PM_IN + [("allow_empty_paths", BOOL), ("subpath_constraints", List(List(EDGE))), ("subpath_constraints_coverage", NUM),
                                  ("subpath_constraints_coverage_length", Opt(NUM)), ("length_attr", Opt(ATTR)), ("encode_edge_position", BOOL)],
                 outputs=[("edge_indexes", List(K3)), ("path_indexes", List(K1)), ("subpath_indexes", List(K2)),
                          ("edge_vars", VarDictK("fEdge", K3)), ("subpaths_vars", VarDictK("fR", K2)),
                          ("edge_position_vars", VarDictK("fPos", K3)), ("path_length_vars", VarDictK("fLen", K1))],
                 calls={"self.G.reachable_edges_rev_from": ("reachable_edges_rev_from", Dict(NODE, List(EDGE)))},
                 lengths=True))
TARGETS["encode_kpc"] = dict(
    file="flowpaths/kpathcover.py", cls="kPathCover", func="_encode_path_cover", params=[SELFOBJ], defaults=[], ret=NONE, emits=True,
    selfobj=dict(inputs=_PM_IN + [("subpath_constraints", List(List(EDGE))), ("subpath_constraints_coverage", NUM), ("edges_to_ignore", Set(EDGE)),
                                  ("edge_vars", VarDictK("fEdge", K3))], outputs=[], calls={}))
TARGETS["encode_kfd"] = dict(
    file="flowpaths/kflowdecomp.py", cls="kFlowDecomp", func="_encode_flow_decomposition", params=[SELFOBJ], defaults=[], ret=NONE, emits=True,
    selfobj=dict(inputs=_PM_IN + [("edge_indexes", List(K3)), ("path_indexes", List(K1)), ("edge_vars", VarDictK("fEdge", K3)), ("w_max", NUM),
                                  ("edges_to_ignore", Set(EDGE)), ("edges_set_to_zero", Set(K3)), ("edges_set_to_one", Set(K3)), ("flow_attr", ATTR)],
                 outputs=[("pi_vars", VarDictK("fPi", K3)), ("path_weights_vars", VarDictK("fW", K1))],
                 calls={"self.is_solved()": ("is_solved", BOOL), "self.weight_type == int": ("weight_is_int", BOOL)},
                 flows=True))

TARGETS["encode_kfdw"] = dict(
    file="flowpaths/kflowdecomp.py", cls="kFlowDecomp", func="_encode_flow_decomposition_with_given_weights", params=[SELFOBJ], defaults=[], ret=NONE, emits=True,
    selfobj=dict(inputs=_PM_IN + [("edge_vars", VarDictK("fEdge", K3)), ("edges_to_ignore", Set(EDGE)), ("flow_attr", ATTR),
                                  ("solution_weights_superset", List(NUM)), ("original_k", INT)],
                 outputs=[],
                 calls={"self.is_solved()": ("is_solved", BOOL),
                        "self.optimization_options.get('optimize_with_safe_paths', False)": ("opt_safe_paths", BOOL),
                        "self.optimization_options.get('optimize_with_safe_sequences', False)": ("opt_safe_sequences", BOOL),
                        "self.optimization_options.get('optimize_with_safe_zero_edges', False)": ("opt_safe_zero_edges", BOOL),
                        "self.optimization_options.get('optimize_with_flow_safe_paths', False)": ("opt_flow_safe_paths", BOOL)},
                 flows=True))

# ---- kLeastAbsErrors: the pi / weight / error columns, the product rows, the two |f - sum pi| <= err rows per edge; the objective
_ERR_IN = _PM_IN + [("edge_vars", VarDictK("fEdge", K3)), ("w_max", NUM), ("edges_to_ignore", Set(EDGE)), ("flow_attr", ATTR)]
_ERR_OUT = [("edge_indexes_basic", List(EDGE)), ("edge_errors_vars", VarDictK("fErr", EDGE))]
TARGETS["encode_klae"] = dict(
    file="flowpaths/kleastabserrors.py", cls="kLeastAbsErrors", func="_encode_leastabserrors_decomposition", params=[SELFOBJ], defaults=[], ret=NONE, emits=True,
    selfobj=dict(inputs=_ERR_IN + [("edge_indexes", List(K3)), ("path_indexes", List(K1)), ("edges_set_to_zero", Set(K3)), ("edges_set_to_one", Set(K3))],
                 outputs=[("pi_vars", VarDictK("fPi", K3)), ("path_weights_vars", VarDictK("fW", K1))] + _ERR_OUT,
                 calls={"self.weight_type == int": ("weight_is_int", BOOL)}, flows=True))
TARGETS["encode_klae_given"] = dict(
    file="flowpaths/kleastabserrors.py", cls="kLeastAbsErrors", func="_encode_leastabserrors_decomposition_with_given_weights", params=[SELFOBJ], defaults=[],
    ret=NONE, emits=True,
    selfobj=dict(inputs=_ERR_IN + [("solution_weights_superset", List(NUM)), ("original_k", INT), ("allow_empty_paths", BOOL)],
                 outputs=list(_ERR_OUT), calls={"self.weight_type == int": ("weight_is_int", BOOL)}, flows=True))
TARGETS["encode_klae_obj"] = dict(
    file="flowpaths/kleastabserrors.py", cls="kLeastAbsErrors", func="_encode_objective", params=[SELFOBJ], defaults=[], ret=NONE, emits=True,
    selfobj=dict(inputs=[("solver", WRAP), ("edge_errors_vars", VarDictK("fErr", EDGE)), ("edge_indexes_basic", List(EDGE)),
                         ("edge_error_scaling", Dict(EDGE, NUM))], outputs=[], calls={}))

# ---- kMinPathError: weight / pi / slack / gamma columns, (with path_length_factors) the factor columns with the piecewise-constant and
# integer-product helpers, per non-ignored edge the pi and gamma product rows and the two rows |f - sum pi| * scaling <= sum gamma
_MPE_IN = _ERR_IN + [("edge_indexes", List(K3)), ("path_indexes", List(K1)), ("edge_error_scaling", Dict(EDGE, NUM)), ("path_length_factors", List(NUM)),
                     ("path_length_ranges", List(Tuple(NUM, NUM))), ("path_length_vars", VarDictK("fLen", K1))]
_MPE_OUT = [("path_slacks_vars", VarDictK("fSlack", K1)), ("gamma_vars", VarDictK("fGamma", K3)),
            ("slack_factors_vars", VarDictK("fFactor", K1)), ("scaled_slack_vars", VarDictK("fSSlack", K1))]
TARGETS["encode_kmpe"] = dict(
    file="flowpaths/kminpatherror.py", cls="kMinPathError", func="_encode_minpatherror_decomposition", params=[SELFOBJ], defaults=[], ret=NONE, emits=True,
    selfobj=dict(inputs=_MPE_IN + [("edges_set_to_zero", Set(K3)), ("edges_set_to_one", Set(K3))],
                 outputs=[("path_weights_vars", VarDictK("fW", K1)), ("pi_vars", VarDictK("fPi", K3))] + _MPE_OUT,
                 calls={"self.weight_type == int": ("weight_is_int", BOOL)}, flows=True))
TARGETS["encode_kmpe_given"] = dict(
    file="flowpaths/kminpatherror.py", cls="kMinPathError", func="_encode_minpatherror_decomposition_with_given_weights", params=[SELFOBJ], defaults=[],
    ret=NONE, emits=True,
    selfobj=dict(inputs=_MPE_IN + [("solution_weights_superset", List(NUM)), ("original_k", INT), ("allow_empty_paths", BOOL)],
                 outputs=list(_MPE_OUT), calls={"self.weight_type == int": ("weight_is_int", BOOL)}, flows=True))
TARGETS["encode_kmpe_obj"] = dict(
    file="flowpaths/kminpatherror.py", cls="kMinPathError", func="_encode_objective", params=[SELFOBJ], defaults=[], ret=NONE, emits=True,
    selfobj=dict(inputs=[("solver", WRAP), ("k", INT), ("path_slacks_vars", VarDictK("fSlack", K1))], outputs=[], calls={}))

# ---- MinSetCover._encode_set_cover: subset variables, one cover row per universe element, the weighted objective
TARGETS["encode_msc"] = dict(
    file="flowpaths/minsetcover.py", cls="MinSetCover", func="_encode_set_cover", params=[SELFOBJ], defaults=[], ret=NONE, emits=True,
    selfobj=dict(inputs=[("solver", WRAP), ("universe", List(NODE)), ("subsets", List(List(NODE))), ("subset_weights", List(NUM))],
                 outputs=[("subset_indexes", List(K1)), ("subset_vars", VarDictK("fSub", K1))], calls={}))

# ---- MinErrorFlow: corrected-flow and error variables, conservation rows, |f - x| <= err rows; the objective (scaled errors + sparsity term)
TARGETS["encode_mef"] = dict(
    file="flowpaths/minerrorflow.py", cls="MinErrorFlow", func="_encode_flow", params=[SELFOBJ], defaults=[], ret=NONE, emits=True,
    selfobj=dict(inputs=[("solver", WRAP), ("G", GRAPH), ("ub", NUM), ("edges_to_ignore", Set(EDGE)), ("flow_attr", ATTR)],
                 outputs=[("edge_indexes", List(EDGE)), ("edge_vars", VarDictK("fX", EDGE)), ("edge_error_vars", VarDictK("fErr", EDGE))],
                 calls={"self.weight_type == int": ("weight_is_int", BOOL)}))
TARGETS["encode_mef_obj"] = dict(
    file="flowpaths/minerrorflow.py", cls="MinErrorFlow", func="_encode_min_sum_errors_objective", params=[SELFOBJ], defaults=[], ret=NONE, emits=True,
    selfobj=dict(inputs=[("solver", WRAP), ("G", GRAPH), ("edge_vars", VarDictK("fX", EDGE)), ("edge_error_vars", VarDictK("fErr", EDGE)),
                         ("edges_to_ignore", Set(EDGE)), ("edge_error_scaling", Dict(EDGE, NUM)), ("sparsity_lambda", NUM)],
                 outputs=[], calls={"self.G.source": ("source", NODE)}))

# ---- MinGenSet._create_solver(k); the methods it calls (_encode_symmetry_breaking, _encode_partition_constraints) are expanded in place
TARGETS["encode_mgs"] = dict(
    file="flowpaths/mingenset.py", cls="MinGenSet", func="_create_solver", params=[SELFOBJ, INT], defaults=[], ret=NONE, emits=True,
    selfobj=dict(inputs=[("solver", WRAP), ("total", NUM), ("numbers", List(NUM)), ("max_multiplicity", INT), ("partition_constraints", Opt(List(List(NUM))))],
                 outputs=[("genset_indexes", List(K1)), ("x_indexes", List(K2)), ("genset_vars", VarDictK("fGen", K1)), ("x_vars", VarDictK("fX", K2)),
                          ("pi_vars", VarDictK("fPi", K2))],
                 calls={"self.weight_type == int": ("weight_is_int", BOOL)}))

# ---- C14: AbstractWalkModelDiGraph.get_solution_walks with the three methods it calls (expanded in place): residual multigraph of a layer as a dict
# of adjacency lists (one entry per traversal), greedy trail from the source, closed walks spliced in at the first occurrence of a stack vertex
_WS = Dict(Tuple(NODE, NODE, INT), NUM)
TARGETS["solution_walks"] = dict(
    file="flowpaths/abstractwalkmodeldigraph.py", cls="AbstractWalkModelDiGraph", func="get_solution_walks", params=[SELFOBJ], defaults=[], ret=List(List(NODE)),
    selfobj=dict(inputs=[("edge_vars_sol", _WS), ("k", INT)], outputs=[("edge_vars_sol", _WS)],
                 calls={"self.solver.get_values(self.edge_vars)": ("solver_edge_values", _WS), "self.G.nodes()": ("nodes", List(NODE)),
                        "self.G.edges()": ("edges", List(EDGE)), "self.G.source": ("source", NODE), "self.G.sink": ("sink", NODE)}))

# ---- C13: the search loops over k.  The body is first LOWERED (lower_search): building a k-model / a solver and running it become reads of an oracle --
# `self.o_runs` (what the i-th call of SolverWrapper.optimize reports: 0 kOptimal, 1 kInfeasible, 2 kTimeLimit, 3 anything else), `self.o_n` (calls made so
# far), `self.o_last` (what the last call reported) --, the bookkeeping of times / statistics / solutions is erased after a purity check, set_solved() and the
# chosen model become the outputs `solved` and `chosen`; everything else goes through the ordinary translation.  This is the abstraction of Search.v.
_S_IN = [("o_runs", List(INT)), ("o_n", INT), ("o_last", INT)]
_S_OUT = [("o_n", INT), ("o_last", INT), ("solved", BOOL), ("chosen", INT)]
def _search_target(file, cls, inputs, **cfg):
    cfg.setdefault("model_ctors", []); cfg.setdefault("run_calls", []); cfg.setdefault("build_calls", []); cfg.setdefault("erase_attrs", [])
    cfg.setdefault("erase_locals", []); cfg.setdefault("texts", {}); cfg.setdefault("solved_calls", []); cfg.setdefault("solved_attrs", [])
    cfg.setdefault("chosen_attr", None); cfg.setdefault("chosen_range_len", None); cfg.setdefault("own_solver", False)
    cfg.setdefault("star_kwargs", False); cfg.setdefault("presolved", None); cfg.setdefault("objective", None); cfg.setdefault("enum", None)
    cfg.setdefault("optional_locals", []); cfg.setdefault("truthy_attrs", {})
    cfg.setdefault("aux_calls", {}); cfg.setdefault("pre_for", {}); cfg.setdefault("presolved_models", []); cfg.setdefault("pure_calls", [])
    return dict(file=file, cls=cls, func="solve", params=[SELFOBJ], defaults=[], ret=BOOL, search=cfg,
                selfobj=dict(inputs=_S_IN + [(n, INT) if isinstance(n, str) else n for n in inputs], outputs=_S_OUT, calls={}))
TARGETS["search_mpc"] = _search_target("flowpaths/minpathcover.py", "MinPathCover", ["lb", "nedges"],
    model_ctors=["kpathcover.kPathCover"], erase_attrs=["solve_time_start", "_solution", "solve_statistics"],
    texts={"self.get_lowerbound_k()": "lb", "self.G.number_of_edges()": "nedges"}, solved_calls=["self.set_solved()"], chosen_attr="model")
TARGETS["search_mpcc"] = _search_target("flowpaths/minpathcovercycles.py", "MinPathCoverCycles", ["lb", "nedges"],
    model_ctors=["kpathcovercycles.kPathCoverCycles"], erase_attrs=["solve_time_start", "_solution", "solve_statistics"],
    texts={"self.get_lowerbound_k()": "lb", "self.G.number_of_edges()": "nedges"}, solved_calls=["self.set_solved()"], chosen_attr="model")
TARGETS["search_mgs"] = _search_target("flowpaths/mingenset.py", "MinGenSet", ["lowerbound", "nnumbers", "extra_cuts"],
    own_solver=True, build_calls=["self._create_solver"], run_calls=["self.solver.optimize"], erase_attrs=["solve_statistics"],
    texts={"len(self.initial_numbers)": "nnumbers", "sum((len(c) - 1 for c in self.partition_constraints or []))": "extra_cuts"},
    solved_attrs=["_is_solved"], chosen_range_len="_solution")

TARGETS["search_npo"] = _search_target("flowpaths/numpathsoptimization.py", "NumPathsOptimization",
    [("o_ext", List(BOOL)), ("o_obj", List(NUM)), ("o_over", List(BOOL)), "min_num_paths", "max_num_paths", "lb", ("stop_on_first_feasible", BOOL),
     ("o_abs_on", BOOL), ("stop_on_delta_abs", NUM), ("o_rel_on", BOOL), ("stop_on_delta_rel", NUM)],
    model_ctors=["self.model_type"], star_kwargs=True, presolved="o_ext", objective="o_obj",
    erase_attrs=["solve_time_start", "_solution", "solve_statistics"],
    texts={"self.get_lowerbound_k()": "lb", "self.solve_time_elapsed > self.time_limit": "=self.o_over[self.o_n]"},
    enum=dict(local=None, cls="NumPathsOptimization", names=["solved_status_name", "timeout_status_name", "unbounded_status_name", "infeasible_status_name"]),
    optional_locals=["*"], truthy_attrs={"stop_on_delta_abs": "o_abs_on", "stop_on_delta_rel": "o_rel_on"},
    solved_calls=["self.set_solved()"], chosen_attr="model")

# MinFlowDecompCycles.solve: the MAIN LOOP only.  The auxiliary phases (the guessed-weights model, the lower bound with its nested MinGenSet search) are
# calls whose effect is an input: how many solver invocations they made (aux_gw, aux_lb), the lower bound they left (lb), whether a solved guessed-weights
# model is kept (gw_set) and how many walks its solution has (gw_paths).  The given-weights model taken for k stands for k.
TARGETS["search_mfdc_main"] = _search_target("flowpaths/minflowdecompcycles.py", "MinFlowDecompCycles",
    [("o_over", List(BOOL)), ("guessed", BOOL), "aux_gw", "aux_lb", "lb", "nedges", ("gw_set", BOOL), "gw_paths"],
    model_ctors=["kflowdecompcycles.kFlowDecompCycles"], erase_attrs=["solve_time_start", "_solution", "solve_statistics", "solve_time_ilp_total"],
    pure_calls=["self.G_internal.get_condensed_paths", "self.solve_statistics.get", "self._mingenset_model.solve_statistics.get"],
    aux_calls={"self._solve_with_given_weights()": "aux_gw"}, pre_for={"self.get_lowerbound_k()": "aux_lb"},
    presolved_models=["self._given_weights_model"],
    texts={"self.get_lowerbound_k()": "lb", "self.G.number_of_edges()": "nedges",
           "self.optimization_options.get('optimize_with_guessed_weights', MinFlowDecompCycles.optimize_with_given_weights)": "guessed",
           "self._given_weights_model is not None and self._given_weights_model.is_solved()": "gw_set",
           "len(self._given_weights_model.get_solution(remove_empty_walks=True)['walks'])": "gw_paths",
           "self.solve_time_elapsed > self.time_limit": "=self.o_over[self.o_n]"},
    solved_calls=["self.set_solved()"], chosen_attr="fd_model")

# MinFlowDecomp.solve: the MAIN LOOP only, as for the cyclic class; in addition a kFlowDecomp that its constructor solved (greedy) makes no solver call: o_ext[k]
TARGETS["search_mfd_main"] = _search_target("flowpaths/minflowdecomp.py", "MinFlowDecomp",
    [("o_ext", List(BOOL)), ("guessed", BOOL), "aux_gw", "aux_lb", "lb", "nedges", ("gw_set", BOOL), "gw_paths"],
    model_ctors=["kflowdecomp.kFlowDecomp"], presolved="o_ext", erase_attrs=["solve_time_start", "_solution", "solve_statistics"],
    pure_calls=["self.G_internal.get_condensed_paths"],
    aux_calls={"self._solve_with_given_weights()": "aux_gw"}, pre_for={"self.get_lowerbound_k()": "aux_lb"},
    presolved_models=["self._given_weights_model"],
    texts={"self.get_lowerbound_k()": "lb", "self.G.number_of_edges()": "nedges",
           "self.optimization_options.get('optimize_with_guessed_weights', MinFlowDecomp.optimize_with_given_weights)": "guessed",
           "self._given_weights_model is not None and self._given_weights_model.is_solved()": "gw_set",
           "len(self._given_weights_model.get_solution(remove_empty_paths=True)['paths'])": "gw_paths"},
    solved_calls=["self.set_solved()"], chosen_attr="fd_model")

# a query of stDiGraph on data networkx computed (condensation): the expressions below are inputs of the model
TARGETS["is_scc_edge"] = dict(file="flowpaths/stdigraph.py", cls="stDiGraph", func="is_scc_edge", params=[SELFOBJ, NODE, NODE], defaults=[], ret=BOOL,
                              selfobj=dict(inputs=[], outputs=[],
                                           calls={"self.edges()": ("edges", Set(EDGE)),
                                                  "self._condensation.graph['mapping']": ("scc_of", Dict(NODE, NODE))}))

# name_prefix=f"<prefix>{name}" of self.add_variables -> variable family of Lin.v (the table the E1 harness uses as well)
PREFIX_FAMILY = {"binary_": "fBit", "comp_": "fComp", "z_": "fZ"}

# The three SolverWrapper primitives the helpers are written in.  Their HiGHS path must have exactly this shape; what the
# calls mean is fixed in coq/theories/PyLin.v (mk_row, py_quicksum, py_add_variables).  Anything else: fail closed.
PRIMITIVES = {
    "add_constraint": dict(args="self, expr, name=''", path=[
        ("if-test", 0, "self.external_solver == 'highs'"),
        ("if-body", 0, "self.solver.addConstr(expr, name=name)")]),
    "quicksum": dict(args="self, expr", path=[
        ("if-test", 0, "self.external_solver == 'highs'"),
        ("if-body", 0, "return self.solver.qsum(expr)")]),
    "add_variables": dict(args="self, indexes, name_prefix: str, lb=0, ub=1, var_type='integer'", path=[
        ("def-first", 0, "if isinstance(param, numbers.Real):\n    return [float(param)] * len(indexes)"),
        ("stmt", 1, "lbs = _materialize_bounds(lb, 0.0, 'lb')"),
        ("stmt", 2, "ubs = _materialize_bounds(ub, 1.0, 'ub')"),
        ("if-test", 3, "self.external_solver == 'highs'"),
        ("if-body", 3, "var_type_map = {'integer': highspy.HighsVarType.kInteger, 'continuous': highspy.HighsVarType.kContinuous}\n"
                       "return self.solver.addVariables(indexes, lb=lbs, ub=ubs, type=var_type_map[var_type], name_prefix=name_prefix)")]),
}


OBJECTIVE_PRIMITIVE = dict(args="self, expr, sense='minimize'", path=[
    ("stmt", 0, "if sense not in ['minimize', 'min', 'maximize', 'max']:\n    utils.logger.error(f'{__name__}: The objective sense must be either `minimize` or `maximize`.')\n"
                "    raise ValueError(f'Objective sense {sense} is not supported. Only [\"minimize\", \"min\", \"maximize\", \"max\"] are supported.')"),
    ("stmt", 1, "self.optimization_sense = sense"),
    ("if-test", 2, "self.external_solver == 'highs'"),
    ("if-body", 2, "self.solver.set_objective_without_solving(expr, sense=sense)")])


STATUS_CODE = {"kOptimal": 0, "kInfeasible": 1, "kTimeLimit": 2}

def lower_search(fdef, cfg, me, repo, classdef=None):
    """the oracle reading of a search loop (see TARGETS["search_*"]); anything it does not recognise is left for the translator to reject"""
    wp = os.path.join(repo, "flowpaths/utils/solverwrapper.py")
    consts = {}
    for c in ast.parse(open(wp).read()).body:
        if isinstance(c, ast.ClassDef) and c.name == "SolverWrapper":
            for n in c.body:
                if isinstance(n, ast.Assign) and len(n.targets) == 1 and isinstance(n.targets[0], ast.Name) and isinstance(n.value, ast.Constant) and isinstance(n.value.value, str):
                    consts["sw.SolverWrapper." + n.targets[0].id] = n.value.value
    models = set(); txt = ast.unparse
    ctor_names = set(cfg["model_ctors"]) | {c.split(".")[-1] for c in cfg["model_ctors"] if "." in c and not c.startswith(me + ".")}     # `mod.K(..)` or, imported by name, `K(..)`
    status_locals = set()      # locals bound to a status read: they hold what that read returned
    pure = {"time.perf_counter", "copy.deepcopy", "sorted", "round", "float", "int", "len", "range", "sum", "dict", "list", "id", "utils.fpid", me + ".solver.get_values"}
    if cfg["own_solver"]: pure.add(me + ".solver.get_model_status")
    pure |= set(cfg["pure_calls"])
    enum = {}; enum_local = None
    if cfg["enum"]:         # a local that holds None or one of the class's status names: numbered (None = 0); the names must be distinct strings
        enum_local = cfg["enum"]["local"]; vals = {}
        for n in (classdef.body if classdef is not None else []):
            if isinstance(n, ast.Assign) and len(n.targets) == 1 and isinstance(n.targets[0], ast.Name) and isinstance(n.value, ast.Constant) and isinstance(n.value.value, str):
                vals[n.targets[0].id] = n.value.value
        names = cfg["enum"]["names"]
        if any(x not in vals for x in names) or len({vals[x] for x in names}) != len(names):
            raise Unsupported("the status names %s of %s are not distinct string constants" % (names, cfg["enum"]["cls"]), fdef)
        enum = {"%s.%s" % (cfg["enum"]["cls"], x): i + 1 for i, x in enumerate(names)}
    optional = set(cfg["optional_locals"])
    # roles of locals are found by their use, not by their names: a local that is only ever None or one of the status names is the enum local; a
    # local that is None at some point and a value at another is optional (its reads are checked below)
    assigns = {}
    for n in ast.walk(fdef):
        if isinstance(n, ast.Assign) and len(n.targets) == 1 and isinstance(n.targets[0], ast.Name): assigns.setdefault(n.targets[0].id, []).append(n.value)
    is_none_ = lambda e: isinstance(e, ast.Constant) and e.value is None
    if cfg["enum"]:
        cands = [v for v, rhs in assigns.items() if any(not is_none_(r) for r in rhs) and all(is_none_(r) or ast.unparse(r) in enum for r in rhs)]
        if len(cands) == 1: enum_local = cands[0]
    if cfg["optional_locals"]:
        optional = {v for v, rhs in assigns.items() if v != enum_local and any(is_none_(r) for r in rhs) and any(not is_none_(r) for r in rhs)
                    and not any(isinstance(r, ast.Call) and ast.unparse(r.func) in ctor_names for r in rhs)}

    def opaque_ok(e):
        for n in ast.walk(e):
            if isinstance(n, ast.Call):
                if txt(n.func) in pure: continue
                if isinstance(n.func, ast.Attribute) and isinstance(n.func.value, ast.Name) and n.func.value.id in models and n.func.attr in ("get_solution",): continue
                return False
            if isinstance(n, (ast.Lambda, ast.Yield, ast.YieldFrom, ast.Await, ast.NamedExpr)): return False
        return True

    def sattr(name, ctx=None):
        return ast.Attribute(value=ast.Name(id=me, ctx=ast.Load()), attr=name, ctx=ctx or ast.Load())

    def parse_expr(code, at):
        e = ast.parse(code.replace("SELF", me), mode="eval").body
        for sub in ast.walk(e): ast.copy_location(sub, at)
        return e

    def is_status(e):
        if not (isinstance(e, ast.Call) and not e.args and not e.keywords and isinstance(e.func, ast.Attribute) and e.func.attr == "get_model_status"): return False
        r = e.func.value
        if cfg["own_solver"] and txt(r) == me + ".solver": return True
        return isinstance(r, ast.Attribute) and r.attr == "solver" and isinstance(r.value, ast.Name) and r.value.id in models

    def by_text(n):
        t = cfg["texts"].get(txt(n))
        if t is None: return None
        return parse_expr(t[1:], n) if t.startswith("=") else ast.copy_location(sattr(t), n)

    def is_none(e): return isinstance(e, ast.Constant) and e.value is None

    class X(ast.NodeTransformer):
        def visit_Compare(self, n):
            r = by_text(n)
            if r is not None: return r
            if len(n.ops) == 1 and isinstance(n.ops[0], (ast.Eq, ast.NotEq)):
                a, b = n.left, n.comparators[0]
                for x, y in ((a, b), (b, a)):
                    if isinstance(x, ast.Name) and x.id in status_locals:
                        name = y.value if isinstance(y, ast.Constant) and isinstance(y.value, str) else consts.get(txt(y))
                        if name not in STATUS_CODE: raise Unsupported("a solver status compared with %s (only the optimal / infeasible / time-limit constants)" % txt(y), n)
                        return ast.copy_location(ast.Compare(left=x, ops=n.ops, comparators=[ast.Constant(value=STATUS_CODE[name])]), n)
                    if is_status(x):
                        name = y.value if isinstance(y, ast.Constant) and isinstance(y.value, str) else consts.get(txt(y))
                        if name not in STATUS_CODE: raise Unsupported("a solver status compared with %s (only the optimal / infeasible / time-limit constants)" % txt(y), n)
                        return ast.copy_location(ast.Compare(left=sattr("o_last"), ops=n.ops, comparators=[ast.Constant(value=STATUS_CODE[name])]), n)
            if len(n.ops) == 1 and isinstance(n.ops[0], (ast.Is, ast.IsNot)) and isinstance(n.left, ast.Name) and is_none(n.comparators[0]):
                neg = isinstance(n.ops[0], ast.IsNot)
                if n.left.id == enum_local:
                    return ast.copy_location(ast.Compare(left=n.left, ops=[ast.NotEq() if neg else ast.Eq()], comparators=[ast.Constant(value=0)]), n)
                if n.left.id in optmodels:
                    flag = ast.Name(id=n.left.id + "__set", ctx=ast.Load())
                    return ast.copy_location(flag if neg else ast.UnaryOp(op=ast.Not(), operand=flag), n)
                if n.left.id in optional:
                    flag = ast.Name(id=n.left.id + "__set", ctx=ast.Load())
                    return ast.copy_location(flag if neg else ast.UnaryOp(op=ast.Not(), operand=flag), n)
            return self.generic_visit(n)
        def visit_BoolOp(self, n):
            r = by_text(n)
            return r if r is not None else self.generic_visit(n)
        def visit_Attribute(self, n):
            if txt(n) in enum: return ast.copy_location(ast.Constant(value=enum[txt(n)]), n)
            return self.generic_visit(n)
        def visit_Call(self, n):
            r = by_text(n)
            if r is not None: return r
            if isinstance(n.func, ast.Attribute) and not n.args and not n.keywords and isinstance(n.func.value, ast.Name) and n.func.value.id in models:
                m = n.func.value.id
                if n.func.attr == "is_solved" and m in optmodels:
                    return parse_expr(("(%s__pre or SELF.%s[%s] or SELF.o_last == 0)" % (m, cfg["presolved"], m)) if cfg["presolved"] else ("(%s__pre or SELF.o_last == 0)" % m), n)
                if n.func.attr == "is_solved":
                    return parse_expr("(SELF.%s[%s] or SELF.o_last == 0)" % (cfg["presolved"], m) if cfg["presolved"] else "SELF.o_last == 0", n)
                if n.func.attr == "get_objective_value" and cfg["objective"]:
                    return parse_expr("SELF.%s[%s]" % (cfg["objective"], m), n)
            if is_status(n): raise Unsupported("a solver status used other than in == / != with a status constant", n)
            return self.generic_visit(n)
        def visit_GeneratorExp(self, n):
            r = by_text(n)
            return r if r is not None else self.generic_visit(n)

    def stmts_of(code, at):
        out = ast.parse(code.replace("SELF", me)).body
        for o in out:
            for sub in ast.walk(o): ast.copy_location(sub, at)
        return out
    RUN = "SELF.o_last = SELF.o_runs[SELF.o_n]\nSELF.o_n = SELF.o_n + 1\n"

    def target_attr(t):
        if isinstance(t, ast.Subscript): t = t.value
        if isinstance(t, ast.Attribute) and isinstance(t.value, ast.Name) and t.value.id == me: return t.attr
        return None
    def target_local(t):
        if isinstance(t, ast.Subscript): t = t.value
        return t.id if isinstance(t, ast.Name) else None

    def erasable(st):
        if isinstance(st, ast.Assign) and len(st.targets) == 1:
            t = st.targets[0]
            if (target_attr(t) in cfg["erase_attrs"] or target_local(t) in erase_locals) and opaque_ok(st.value) \
                    and (not isinstance(t, ast.Subscript) or opaque_ok(t.slice)): return True
        if isinstance(st, ast.AugAssign) and target_attr(st.target) in cfg["erase_attrs"] and opaque_ok(st.value): return True
        if isinstance(st, ast.If) and not st.orelse and st.body and opaque_ok(st.test) and not any(isinstance(n, ast.Name) and n.id in models for n in ast.walk(st.test)) \
                and not any(txt(n) in cfg["texts"] for n in ast.walk(st.test) if isinstance(n, ast.expr)) and all(erasable(b) for b in st.body): return True
        if isinstance(st, ast.Expr) and isinstance(st.value, ast.Call) and txt(st.value.func).startswith("utils.logger.") and opaque_ok(st.value): return True
        if isinstance(st, ast.Expr) and isinstance(st.value, ast.Call) and txt(st.value.func) in cfg["build_calls"] \
                and all(opaque_ok(a) for a in st.value.args) and all(opaque_ok(k.value) for k in st.value.keywords): return True
        if isinstance(st, ast.Expr) and isinstance(st.value, ast.Call) and isinstance(st.value.func, ast.Attribute) and st.value.func.attr == "update" \
                and target_attr(st.value.func.value) in cfg["erase_attrs"] and not isinstance(st.value.func.value, ast.Subscript) \
                and all(opaque_ok(a) for a in st.value.args) and not st.value.keywords: return True
        if isinstance(st, ast.If) and not st.orelse and isinstance(st.test, ast.Compare) and len(st.test.ops) == 1 and isinstance(st.test.ops[0], (ast.In, ast.NotIn)) \
                and isinstance(st.test.left, ast.Constant) and isinstance(st.test.comparators[0], ast.Name) and st.test.comparators[0].id in erase_locals \
                and all(erasable(b) for b in st.body): return True
        return False

    # locals that only feed erased bookkeeping (solver options handed to the k-model, start times): every assignment has a pure right-hand side and
    # every read sits in an erased statement, in a keyword argument (other than k) of the k-model's constructor, or in a log message
    def erasable_locals():
        cand = {v for v, rhs in assigns.items() if all(opaque_ok(r) for r in rhs) and not any(isinstance(r, ast.Call) and txt(r.func) in ctor_names for r in rhs)
                and v != enum_local and v not in optional}
        for n in ast.walk(fdef):          # subscript stores `L[..] = e` count as assignments of L
            if isinstance(n, ast.Assign) and len(n.targets) == 1 and isinstance(n.targets[0], ast.Subscript) and isinstance(n.targets[0].value, ast.Name) \
                    and not (opaque_ok(n.value) and opaque_ok(n.targets[0].slice)): cand.discard(n.targets[0].value.id)
        changed = True
        while changed:
            changed = False
            ok_nodes = set()         # ids of Name loads that sit in an erasable position w.r.t. the current candidates
            def mark(e):
                for x in ast.walk(e):
                    if isinstance(x, ast.Name) and isinstance(x.ctx, ast.Load): ok_nodes.add(id(x))
            for n in ast.walk(fdef):
                if isinstance(n, ast.Assign) and len(n.targets) == 1:
                    t = n.targets[0]
                    if target_attr(t) in cfg["erase_attrs"] or target_local(t) in cand or (cfg["chosen_range_len"] and target_attr(t) == cfg["chosen_range_len"]):
                        mark(n.value)
                        if isinstance(t, ast.Subscript): mark(t.slice); mark(t.value)
                    if isinstance(n.value, ast.Call) and txt(n.value.func) in ctor_names:
                        for k in n.value.keywords:
                            if k.arg != "k": mark(k.value)
                if isinstance(n, ast.Expr) and isinstance(n.value, ast.Call) and txt(n.value.func).startswith("utils.logger."): mark(n.value)
                if isinstance(n, ast.If) and not n.orelse and isinstance(n.test, ast.Compare) and len(n.test.ops) == 1 and isinstance(n.test.ops[0], (ast.In, ast.NotIn)) \
                        and isinstance(n.test.left, ast.Constant) and isinstance(n.test.comparators[0], ast.Name) and n.test.comparators[0].id in cand: mark(n.test)
            for x in ast.walk(fdef):
                if isinstance(x, ast.Name) and isinstance(x.ctx, ast.Load) and x.id in cand and id(x) not in ok_nodes:
                    cand.discard(x.id); changed = True
        return cand
    erase_locals = set(cfg["erase_locals"])
    erase_locals |= erasable_locals()

    def reads(e, name):
        return any(isinstance(n, ast.Name) and n.id == name and isinstance(n.ctx, ast.Load) for n in ast.walk(e))

    for v, rhs in assigns.items():
        if any(isinstance(r, ast.Call) and txt(r.func) in ctor_names for r in rhs): models.add(v)
    optmodels = {v for v in models if any(is_none_(r) for r in assigns[v])}      # a k-model local that is None until a model is built or taken
    late = set()        # k-model locals bound inside a loop: a read after the loop is an UnboundLocalError if the loop never bound them
    for loop in [n for n in ast.walk(fdef) if isinstance(n, (ast.For, ast.While))]:
        for n in ast.walk(loop):
            if isinstance(n, ast.Assign) and len(n.targets) == 1 and isinstance(n.targets[0], ast.Name) and isinstance(n.value, ast.Call) and txt(n.value.func) in ctor_names:
                late.add(n.targets[0].id)
    def n_loads(root, m): return sum(1 for n in ast.walk(root) if isinstance(n, ast.Name) and n.id == m and isinstance(n.ctx, ast.Load))
    top_loops = [st for st in fdef.body if isinstance(st, (ast.For, ast.While))]
    late = {m for m in late if m not in optmodels and n_loads(fdef, m) > sum(n_loads(l, m) for l in top_loops)}      # only those that are read after / outside the loop

    loopvars = []
    def walk(stmts, known, in_loop=False):
        """known: optional locals known to hold a value here (inside the else of `if X is None`)"""
        out = []; checked = set()
        for st in stmts:
            if not in_loop:
                for m in sorted(late - checked):
                    heads = [getattr(st, f) for f in ("test", "iter") if hasattr(st, f)] if isinstance(st, (ast.If, ast.For, ast.While)) else [st]
                    if any(reads(h, m) for h in heads):
                        out += stmts_of("if not %s__def:\n    raise UnboundLocalError()\n" % m, st); checked.add(m)
            if isinstance(st, ast.Assign) and len(st.targets) == 1:
                t = st.targets[0]; v = st.value
                if isinstance(t, ast.Name) and is_status(v):          # `status = X.solver.get_model_status()`: the local is what the last run reported
                    status_locals.add(t.id)
                    out += stmts_of("%s = SELF.o_last\n" % t.id, st); continue
                if cfg["chosen_attr"] and target_attr(t) == cfg["chosen_attr"] and not isinstance(t, ast.Subscript) and isinstance(v, ast.Name) and v.id in models:
                    out += stmts_of("SELF.chosen = %s\n" % v.id, st); continue
                if cfg["chosen_range_len"] and target_attr(t) == cfg["chosen_range_len"] and not isinstance(t, ast.Subscript):
                    g = v.args[0] if isinstance(v, ast.Call) and txt(v.func) == "sorted" and len(v.args) == 1 and not v.keywords else None
                    if isinstance(g, ast.GeneratorExp) and len(g.generators) == 1 and not g.generators[0].ifs and isinstance(g.generators[0].iter, ast.Call) \
                            and txt(g.generators[0].iter.func) == "range" and len(g.generators[0].iter.args) == 1 and opaque_ok(g.elt):
                        out += stmts_of("SELF.chosen = %s\n" % txt(X().visit(g.generators[0].iter.args[0])), st); continue
                    raise Unsupported("the solution is not `sorted(<expression> for i in range(k))`", st)
                if target_attr(t) in cfg["solved_attrs"] and not isinstance(t, ast.Subscript):
                    if not (isinstance(v, ast.Constant) and v.value is True): raise Unsupported("the solved flag set to something other than True", st)
                    out += stmts_of("SELF.solved = True\n", st); continue
                if isinstance(t, ast.Name) and isinstance(v, ast.Call) and txt(v.func) in ctor_names:
                    kws = {k.arg: k.value for k in v.keywords}
                    if None in kws and not cfg["star_kwargs"]: raise Unsupported("** in the construction of the k-model", st)
                    if v.args or "k" not in kws or not all(opaque_ok(x) and not ({n.id for n in ast.walk(x) if isinstance(n, ast.Name)} & models) for a, x in kws.items() if a != "k"):
                        raise Unsupported("construction of the k-model (keyword arguments only, k=<expression>)", st)
                    models.add(t.id)
                    out.append(ast.copy_location(ast.Assign(targets=[t], value=X().visit(kws["k"])), st))
                    if t.id in late: out += stmts_of("%s__def = True\n" % t.id, st)
                    if t.id in optmodels: out += stmts_of("%s__set = True\n%s__pre = False\n" % (t.id, t.id), st)
                    continue
                if isinstance(t, ast.Name) and t.id in optmodels and is_none(v):
                    out += stmts_of("%s__set = False\n%s__pre = False\n%s = 0\n" % (t.id, t.id, t.id), st); continue
                if isinstance(t, ast.Name) and t.id in optmodels and txt(v) in cfg["presolved_models"]:
                    if not loopvars: raise Unsupported("a kept model taken outside the loop over k", st)
                    out += stmts_of("%s = %s\n%s__set = True\n%s__pre = True\n" % (t.id, loopvars[-1], t.id, t.id), st); continue
                if isinstance(t, ast.Name) and t.id == enum_local and is_none(v):
                    out += stmts_of("%s = 0\n" % t.id, st); continue
                if isinstance(t, ast.Name) and t.id in optional:
                    if is_none(v):
                        out += stmts_of("%s__set = False\n%s = 0\n" % (t.id, t.id), st); known = known - {t.id}; continue
                    for o in optional:
                        if reads(v, o) and o not in known: raise Unsupported("read of %r where it may be None" % o, st)
                    out.append(X().visit(st)); out += stmts_of("%s__set = True\n" % t.id, st); known = known | {t.id}; continue
            if erasable(st): continue
            if isinstance(st, ast.Expr) and isinstance(st.value, ast.Call) and not st.value.args and not st.value.keywords:
                c = st.value
                if isinstance(c.func, ast.Attribute) and c.func.attr == "solve" and isinstance(c.func.value, ast.Name) and c.func.value.id in models:
                    if cfg["presolved"]:        # a model that its constructor already solved makes no solver call
                        w = stmts_of("if not SELF.%s[%s]:\n    pass\n" % (cfg["presolved"], c.func.value.id), st)[0]; w.body = stmts_of(RUN, st); out.append(w)
                    else:
                        out += stmts_of(RUN, st)
                    continue
                if txt(c.func) in cfg["run_calls"]:
                    out += stmts_of(RUN, st); continue
                if txt(c) in cfg["solved_calls"]:
                    out += stmts_of("SELF.solved = True\n", st); continue
                if txt(c) in cfg["aux_calls"]:      # an auxiliary phase: its solver invocations are an input
                    out += stmts_of("SELF.o_n = SELF.o_n + SELF.%s\n" % cfg["aux_calls"][txt(c)], st); continue
            if isinstance(st, ast.If):
                k_body, k_else = known, known
                tst = st.test
                if isinstance(tst, ast.Compare) and len(tst.ops) == 1 and isinstance(tst.left, ast.Name) and tst.left.id in optional and is_none(tst.comparators[0]):
                    if isinstance(tst.ops[0], ast.Is): k_else = known | {tst.left.id}
                    if isinstance(tst.ops[0], ast.IsNot): k_body = known | {tst.left.id}
                elif target_attr(tst) in cfg["truthy_attrs"] and not isinstance(tst, ast.Subscript):      # `if self.x:` for an optional number x
                    st.test = ast.copy_location(sattr(cfg["truthy_attrs"][target_attr(tst)]), tst); tst = None
                else:
                    for o in optional:
                        if reads(tst, o) and o not in known: raise Unsupported("read of %r where it may be None" % o, st)
                if tst is not None: st.test = X().visit(st.test)
                st.body = walk(st.body, k_body, in_loop) or [ast.copy_location(ast.Pass(), st)]; st.orelse = walk(st.orelse, k_else, in_loop)
                out.append(st); continue
            if isinstance(st, (ast.For, ast.While)):
                for key, inp in cfg["pre_for"].items():
                    if hasattr(st, "iter") and key in txt(st.iter): out += stmts_of("SELF.o_n = SELF.o_n + SELF.%s\n" % inp, st)
                if isinstance(st, ast.For) and isinstance(st.target, ast.Name): loopvars.append(st.target.id)
                for fld in ("iter", "test"):
                    if hasattr(st, fld): setattr(st, fld, X().visit(getattr(st, fld)))
                st.body = walk(st.body, set(), True); st.orelse = walk(st.orelse, set(), in_loop)
                if isinstance(st, ast.For) and isinstance(st.target, ast.Name): loopvars.pop()
                out.append(st); continue
            for o in optional:
                if reads(st, o) and o not in known: raise Unsupported("read of %r where it may be None" % o, st)
            out.append(X().visit(st))
        return out
    body = walk(fdef.body, set())
    doc = [body[0]] if body and isinstance(body[0], ast.Expr) and isinstance(body[0].value, ast.Constant) and isinstance(body[0].value.value, str) else []
    init = []
    for m in sorted(late): init += stmts_of("%s = 0\n%s__def = False\n" % (m, m), fdef.body[0])
    fdef.body = doc + init + body[len(doc):]
    ast.fix_missing_locations(fdef)
    return fdef

def check_primitives(classdef, extra=None):
    def norm(src): return ast.dump(ast.parse(src))
    def body_of(f):
        b = list(f.body)
        if b and isinstance(b[0], ast.Expr) and isinstance(b[0].value, ast.Constant) and isinstance(b[0].value.value, str): b = b[1:]
        return b
    for name, spec in list(PRIMITIVES.items()) + list((extra or {}).items()):
        fs = [n for n in classdef.body if isinstance(n, ast.FunctionDef) and n.name == name]
        if len(fs) != 1: raise Unsupported("source layout: SolverWrapper.%s not found exactly once" % name)
        f = fs[0]
        if f.decorator_list: raise Unsupported("decorator on SolverWrapper.%s" % name, f)
        if ast.unparse(f.args) != spec["args"]:
            raise Unsupported("signature of the primitive SolverWrapper.%s: (%s), expected (%s)" % (name, ast.unparse(f.args), spec["args"]), f)
        b = body_of(f)
        for kind, k, want in spec["path"]:
            if k >= len(b): raise Unsupported("structure of the primitive SolverWrapper.%s changed (statement %d missing)" % (name, k), f)
            st = b[k]
            if kind == "stmt": got = [st]
            elif kind == "def-first":
                if not isinstance(st, ast.FunctionDef): raise Unsupported("structure of the primitive SolverWrapper.%s changed" % name, st)
                got = body_of(st)[:1]
            else:
                if not isinstance(st, ast.If): raise Unsupported("structure of the primitive SolverWrapper.%s changed (no backend branch)" % name, st)
                got = [ast.Expr(st.test)] if kind == "if-test" else st.body
            if ast.dump(ast.Module(body=got, type_ignores=[])) != norm(want):
                raise Unsupported("the HiGHS path of the primitive SolverWrapper.%s changed: `%s`, expected `%s`"
                                  % (name, "; ".join(ast.unparse(x) for x in got)[:160], want.replace("\n", "; ")[:160]), st)
        if len(b) != max(k for _, k, _ in spec["path"]) + 1:
            raise Unsupported("structure of the primitive SolverWrapper.%s changed (%d top-level statements)" % (name, len(b)), f)


def has_bot(t):
    return t == BOT or any(has_bot(x) for x in t[1:] if isinstance(x, tuple))


def join(a, b, node=None):
    if a == b: return a
    if a == BOT: return b
    if b == BOT: return a
    if a in NUMERIC and b in NUMERIC:
        return a if NUMERIC[a] >= NUMERIC[b] else b
    if a in (VAR, LEXP) and b in (VAR, LEXP): return LEXP        # a variable or a linear expression: a linear expression
    if (a == LEXP and b in (INT, NUM)) or (b == LEXP and a in (INT, NUM)): return LEXP      # `expr if c else 0` as a summand: the number is a constant expression
    if a == NONE: return b if b[0] == "Opt" else Opt(b)
    if b == NONE: return a if a[0] == "Opt" else Opt(a)
    if a[0] == "Opt" and b[0] == "Opt": return Opt(join(a[1], b[1], node))
    if a[0] == "Opt": return Opt(join(a[1], b, node))
    if b[0] == "Opt": return Opt(join(a, b[1], node))
    if a[0] == b[0] and a[0] in ("List", "Set", "Dict", "Tuple") and len(a) == len(b):
        parts = []
        for x, y in zip(a[1:], b[1:]):
            if x != y and not (has_bot(x) or has_bot(y)):
                raise Unsupported("mix of container types %s / %s" % (show(a), show(b)), node)
            parts.append(join(x, y, node))
        return (a[0],) + tuple(parts)
    raise Unsupported("mix of types %s / %s" % (show(a), show(b)), node)


def show(t):
    return t[0] if len(t) == 1 else "%s(%s)" % (t[0], ", ".join(show(x) for x in t[1:]))


def gty(t):
    if t == INT: return "Z"
    if t == NUM: return "Q"
    if t == EXT: return "xq"
    if t == BOOL: return "bool"
    if t == NODE: return "N"
    if t == EDATA: return "(option Q)"
    if t == GRAPH: return "pygraph"
    if t == BGRAPH: return "bgraph"
    if t == STG: return "PathEnc.stgraph"
    if t == ATTR: return "unit"
    if t[0] == "VarDictK": return "(list %s)" % gty(t[2])
    if t == SGRAPH: return "sgraph"
    if t in (VAR, HNAME): return "var"
    if t == LEXP: return "lexp"
    if t == CON: return "lcon"
    if t == BITS: return "Z"
    if t[0] == "VarDict": return "(N * var)%type"
    if t[0] == "Tuple": return "(" + " * ".join(gty(x) for x in t[1:]) + ")%type"
    if t[0] in ("List", "Set"): return "(list %s)" % gty(t[1])
    if t[0] == "Dict": return "(list (%s * %s))" % (gty(t[1]), gty(t[2]))
    if t[0] == "Opt": return "(option %s)" % gty(t[1])
    raise Unsupported("value of type %s has no Gallina representation" % show(t))


def dflt(t):
    if t == INT: return "0%Z"
    if t == NUM: return "(0#1)%Q"
    if t == EXT: return "NegInf"
    if t == BOOL: return "false"
    if t == NODE: return "0%N"
    if t == EDATA: return "None"
    if t == GRAPH: return "py_empty_graph"
    if t == BGRAPH: return "(mk_bgraph [] [])"
    if t[0] == "VarDictK": return "[]"
    if t == SGRAPH: return "(mk_sgraph 0%N 0%N [])"
    if t in (VAR, HNAME): return "(V 0%N [])"
    if t == LEXP: return "(LConst (0#1)%Q)"
    if t == BITS: return "0%Z"
    if t[0] == "VarDict": return "(0%N, V 0%N [])"
    if t[0] == "Tuple": return "(" + ", ".join(dflt(x) for x in t[1:]) + ")"
    if t[0] in ("List", "Set", "Dict"): return "[]"
    if t[0] == "Opt": return "None"
    raise Unsupported("no default value for type %s" % show(t))


def eqb(t, node=None):
    if t == NODE: return "N.eqb"
    if t == INT: return "Z.eqb"
    if t == NUM: return "Qeq_bool"
    if t == EXT: return "xq_eqb"
    if t == BOOL: return "Bool.eqb"
    if t[0] == "Tuple" and len(t) == 3:
        if t == EDGE: return "edge_eqb"
        return "(py_pair_eqb %s %s)" % (eqb(t[1], node), eqb(t[2], node))
    if t[0] == "Tuple" and len(t) == 4:        # (a, b, c) is ((a, b), c)
        return "(py_pair_eqb (py_pair_eqb %s %s) %s)" % (eqb(t[1], node), eqb(t[2], node), eqb(t[3], node))
    if t[0] == "List": return "(py_list_eqb %s)" % eqb(t[1], node)
    raise Unsupported("equality / membership on values of type %s" % show(t), node)


def coerce(term, a, b, node=None):
    if a == b or a == BOT: return term
    if a == INT and b == NUM: return "(inject_Z %s)" % term
    if a == INT and b == EXT: return "(Fin (inject_Z %s))" % term
    if a == NUM and b == EXT: return "(Fin %s)" % term
    if b == LEXP:
        if a == VAR: return "(LVar %s)" % term
        if a in (INT, NUM): return "(LConst %s)" % coerce(term, a, NUM, node)
    if b[0] == "Opt":
        if a == NONE: return "None"
        if a[0] == "Opt":
            if has_bot(a[1]) or a[1] == b[1]: return term
            raise Unsupported("coercion %s -> %s" % (show(a), show(b)), node)
        return "(Some %s)" % coerce(term, a, b[1], node)
    if a[0] == b[0] and a[0] in ("List", "Set", "Dict", "Tuple") and has_bot(a):
        return term
    raise Unsupported("coercion %s -> %s" % (show(a), show(b)), node)


NUMOPS = {  # per numeric type: add sub ltb leb eqb max min
    INT: dict(mul="Z.mul", add="Z.add", sub="Z.sub", ltb="Z.ltb", leb="Z.leb", eqb="Z.eqb", max="Zmax_py", min="Zmin_py"),
    NUM: dict(mul="Qmult", add="Qplus", sub="Qminus", ltb="Qltb", leb="Qle_bool", eqb="Qeq_bool", max="Qmax_py", min="Qmin_py"),
    EXT: dict(ltb="xq_ltb", leb="xq_leb", eqb="xq_eqb", max="xq_max", min="xq_min"),
}
EXNS = {"ValueError": "ValueError", "KeyError": "KeyError", "TypeError": "TypeError", "RuntimeError": "RuntimeError",
        "IndexError": "IndexError", "Exception": "PyException", "UnboundLocalError": "UnboundLocalError", "ZeroDivisionError": "ZeroDivisionError"}
# (UnboundLocalError is never raised explicitly; it guards the read of a loop variable after a loop that may not have run)
LOG_METHODS = ("debug", "info", "warning", "error", "critical", "exception", "log")


def is_logging_call(e):
    if not (isinstance(e, ast.Call) and isinstance(e.func, ast.Attribute) and e.func.attr in LOG_METHODS):
        return False
    base = e.func.value; names = []
    while isinstance(base, ast.Attribute):
        names.append(base.attr); base = base.value
    if isinstance(base, ast.Name):
        names.append(base.id)
    return any(n in ("logger", "logging") for n in names)


class Fn:
    def __init__(self, target, repo):
        self.spec = TARGETS[target]; self.target = target
        path = os.path.join(repo, self.spec["file"])
        self.src_path = path
        tree = ast.parse(open(path).read(), filename=path)
        scope = tree.body
        self.module_imports = {}       # local name -> dotted origin, module level only
        for n in tree.body:
            if isinstance(n, ast.ImportFrom) and n.level == 0:
                for a in n.names: self.module_imports[a.asname or a.name] = "%s.%s" % (n.module, a.name)
            elif isinstance(n, ast.Import):
                for a in n.names: self.module_imports[a.asname or a.name] = a.name
        self.classdef = None
        if self.spec["cls"]:
            cs = [n for n in scope if isinstance(n, ast.ClassDef) and n.name == self.spec["cls"]]
            if len(cs) != 1:
                raise Unsupported("source layout: class %s not found exactly once in %s" % (self.spec["cls"], self.spec["file"]))
            scope = cs[0].body; self.classdef = cs[0]
        fs = [n for n in scope if isinstance(n, ast.FunctionDef) and n.name == self.spec["func"]]
        if len(fs) != 1:
            raise Unsupported("source layout: function %s not found exactly once in %s" % (self.spec["func"], self.spec["file"]))
        self.fdef = f = fs[0]
        if f.decorator_list:
            raise Unsupported("decorator", f.decorator_list[0])
        a = f.args
        if a.vararg or a.kwarg or a.kwonlyargs or a.posonlyargs:
            raise Unsupported("parameter kinds (*args / **kw / keyword-only / positional-only)", f)
        if len(a.args) != len(self.spec["params"]):
            raise Unsupported("signature: %d parameters, the typed embedding declares %d" % (len(a.args), len(self.spec["params"])), f)
        if [ast.unparse(d) for d in a.defaults] != self.spec["defaults"]:
            raise Unsupported("signature: default values %s, the embedding declares %s" % ([ast.unparse(d) for d in a.defaults], self.spec["defaults"]), f)
        self.params = [x.arg for x in a.args]
        self.ptype = dict(zip(self.params, self.spec["params"]))
        self.selfobj = self.spec.get("selfobj")
        self.sparam = self.params[0] if self.selfobj else None
        if self.spec.get("search"):
            self.fdef = f = lower_search(copy.deepcopy(f), self.spec["search"], self.sparam, repo, self.classdef)
        if self.selfobj and self.classdef is not None:
            # calls of other methods of the same class are expanded in place (a private helper and its hand-inlined body are the same program)
            self.fdef = f = self.expand_method_calls(copy.deepcopy(f), 0)
        self.s_in = dict(self.selfobj["inputs"]) if self.selfobj else {}
        self.s_out = dict(self.selfobj["outputs"]) if self.selfobj else {}
        self.builds = bool(self.selfobj and self.selfobj.get("graph"))
        self.s_calls = dict(self.selfobj.get("calls", {})) if self.selfobj else {}
        self.s_extra = []          # further inputs: the edge-length table / the flow table behind self.G[u][v] and edge data dicts
        if self.selfobj and self.selfobj.get("lengths"): self.s_extra.append(("lengths", Dict(EDGE, NUM)))
        if self.selfobj and self.selfobj.get("flows"): self.s_extra.append(("flows", Dict(EDGE, NUM)))
        self.uses_fuel = any(isinstance(n, ast.While) for n in ast.walk(self.fdef))
        self.uses_objective = False
        self.emits = bool(self.spec.get("emits"))
        self.callees = []              # other translated targets this function calls (their Gen modules are required)
        self.wrapper_classdef = None
        if self.emits:
            if self.selfobj:        # a model class: the primitives are those of flowpaths/utils/solverwrapper.py
                wpath = os.path.join(repo, "flowpaths/utils/solverwrapper.py")
                wt = ast.parse(open(wpath).read(), filename=wpath)
                ws = [n for n in wt.body if isinstance(n, ast.ClassDef) and n.name == "SolverWrapper"]
                if len(ws) != 1: raise Unsupported("source layout: class SolverWrapper not found exactly once")
                self.wrapper_classdef = ws[0]
            else:
                self.wrapper_classdef = self.classdef
            uses_obj = any(isinstance(n, ast.Attribute) and n.attr == "set_objective" for n in ast.walk(self.fdef))
            check_primitives(self.wrapper_classdef, {"set_objective": OBJECTIVE_PRIMITIVE} if uses_obj else None)
            self.uses_objective = uses_obj
        self.collect_names()

    # -------------------------------------------------------------------------------- methods of the same class: macro expansion
    def expand_method_calls(self, fdef, depth):
        methods = {n.name: n for n in self.classdef.body if isinstance(n, ast.FunctionDef)}
        me = self.sparam
        fn_self = self

        def is_self_call(e):
            return (isinstance(e, ast.Call) and isinstance(e.func, ast.Attribute) and isinstance(e.func.value, ast.Name) and e.func.value.id == me
                    and e.func.attr in methods and e.func.attr != fdef.name)

        def bound_names(f2):
            out = {a.arg for a in f2.args.args[1:]}
            for n in ast.walk(f2):
                if isinstance(n, ast.Name) and isinstance(n.ctx, ast.Store): out.add(n.id)
            return out

        def instantiate(call, want_value, assign_to=None):
            """the callee's body with its own names made unique and its parameters bound to the arguments; (statements, value expression or None)"""
            m = call.func.attr; f2 = methods[m]
            if depth >= 3: raise Unsupported("method calls nested deeper than 3 (recursion?)", call)
            a2 = f2.args
            if f2.decorator_list or a2.vararg or a2.kwarg or a2.kwonlyargs or a2.posonlyargs or not a2.args:
                raise Unsupported("call of self.%s: decorators / parameter kinds of the callee" % m, call)
            names = [x.arg for x in a2.args][1:]
            if any(isinstance(x, ast.Starred) for x in call.args) or any(k.arg is None for k in call.keywords) or len(call.args) > len(names):
                raise Unsupported("* / ** / too many arguments in the call of self.%s" % m, call)
            site = names[:len(call.args)] + [k.arg for k in call.keywords]
            if site != [n for n in names if n in site]: raise Unsupported("keyword arguments of self.%s not in the order of its signature (evaluation order)" % m, call)
            bind = dict(zip(names, call.args)); bind.update({k.arg: k.value for k in call.keywords})
            defaults = dict(zip(names[len(names) - len(a2.defaults):], a2.defaults)) if a2.defaults else {}
            for n in names:
                if n not in bind:
                    if n not in defaults: raise Unsupported("missing argument %r in the call of self.%s" % (n, m), call)
                    bind[n] = copy.deepcopy(defaults[n])
            body = [copy.deepcopy(x) for x in f2.body]
            if body and isinstance(body[0], ast.Expr) and isinstance(body[0].value, ast.Constant) and isinstance(body[0].value.value, str): body = body[1:]
            ren = {n: "%s__%s" % (m.lstrip("_"), n) for n in bound_names(f2)}
            selfname = a2.args[0].arg
            stored = {n.id for x in body for n in ast.walk(x) if isinstance(n, ast.Name) and isinstance(n.ctx, ast.Store)}
            byname = set()
            for n in names:         # a parameter the callee never rebinds, given a plain name: the callee works on the caller's object itself
                if isinstance(bind[n], ast.Name) and n not in stored and bind[n].id != me:
                    ren[n] = bind[n].id; byname.add(n)

            class R(ast.NodeTransformer):
                def visit_Name(self_, n):
                    if n.id == selfname: n.id = me
                    elif n.id in ren: n.id = ren[n.id]
                    return n
                def visit_FunctionDef(self_, n): raise Unsupported("nested function in the callee self.%s" % m, n)
                def visit_Lambda(self_, n): raise Unsupported("lambda in the callee self.%s" % m, n)
            body = [R().visit(x) for x in body]
            pre = []
            for n in names:
                if n in byname: continue
                asg = ast.Assign(targets=[ast.Name(id=ren[n], ctx=ast.Store())], value=bind[n]); ast.copy_location(asg, call); ast.fix_missing_locations(asg)
                pre.append(asg)
            if assign_to is not None:          # x = self.m(..): every `return E` of the callee is in tail position and becomes `x = E`
                def tail(stmts):
                    if not stmts: raise Unsupported("call of self.%s: a path through the callee ends without `return`" % m, call)
                    last = stmts[-1]
                    if isinstance(last, ast.Return):
                        if last.value is None: raise Unsupported("call of self.%s: bare return where a value is needed" % m, call)
                        asg = ast.Assign(targets=[ast.Name(id=assign_to, ctx=ast.Store())], value=last.value); ast.copy_location(asg, last); ast.fix_missing_locations(asg)
                        stmts[-1] = asg
                    elif isinstance(last, ast.If) and last.orelse:
                        tail(last.body); tail(last.orelse)
                    else: raise Unsupported("call of self.%s: the callee does not end in `return <value>` on every path" % m, call)
                tail(body)
                if any(isinstance(n, ast.Return) for x in body for n in ast.walk(x)):
                    raise Unsupported("call of self.%s: a `return` of the callee is not in tail position" % m, call)
                return pre + body, None
            rets = [n for x in body for n in ast.walk(x) if isinstance(n, ast.Return)]
            if want_value:
                if len(body) != 1 or not isinstance(body[0], ast.Return) or body[0].value is None or names:
                    raise Unsupported("call of self.%s inside an expression (only a parameterless method whose body is `return <expression>`)" % m, call)
                return [], body[0].value
            if any(r.value is not None and not (isinstance(r.value, ast.Constant) and r.value.value is None) for r in rets):
                raise Unsupported("call of self.%s as a statement, but the callee returns a value" % m, call)
            stmts = pre + body
            if rets:            # `return` leaves the callee, not the caller
                w = ast.If(test=ast.Constant(value=True), body=stmts, orelse=[]); ast.copy_location(w, call); ast.fix_missing_locations(w)
                w._catch_return = True
                stmts = [w]
            return stmts, None

        class V(ast.NodeTransformer):           # value form inside expressions
            def visit_Call(self_, n):
                self_.generic_visit(n)
                if is_self_call(n): return instantiate(n, True)[1]
                return n

        def walk(stmts):
            out = []
            for st in stmts:
                if isinstance(st, ast.Assign) and len(st.targets) == 1 and isinstance(st.targets[0], ast.Name) and is_self_call(st.value):
                    new, _ = instantiate(st.value, False, assign_to=st.targets[0].id)
                    sub = ast.FunctionDef(name=fdef.name, args=fdef.args, body=new, decorator_list=[], returns=None)
                    out += fn_self.expand_method_calls(sub, depth + 1).body
                    continue
                if isinstance(st, ast.Expr) and is_self_call(st.value):
                    new, _ = instantiate(st.value, False)
                    sub = ast.FunctionDef(name=fdef.name, args=fdef.args, body=new, decorator_list=[], returns=None)
                    out += fn_self.expand_method_calls(sub, depth + 1).body
                    continue
                for fld in ("body", "orelse"):
                    if isinstance(getattr(st, fld, None), list) and isinstance(st, (ast.For, ast.While, ast.If)): setattr(st, fld, walk(getattr(st, fld)))
                if isinstance(st, (ast.For, ast.While, ast.If)):
                    for fld in ("iter", "test"):
                        if hasattr(st, fld): setattr(st, fld, V().visit(getattr(st, fld)))
                    out.append(st)
                else:
                    out.append(V().visit(st))
            return out
        fdef.body = walk(fdef.body)
        return fdef

    @staticmethod
    def append_call(e):
        """(list name, argument node) if e is `<name>.append(<arg>)`, else None"""
        if (isinstance(e, ast.Call) and isinstance(e.func, ast.Attribute) and e.func.attr in ("append", "add") and isinstance(e.func.value, ast.Name)
                and len(e.args) == 1 and not e.keywords):
            return e.func.value.id, e.args[0]
        return None

    @staticmethod
    def sub_store(t):
        """('item', name, key node) for `name[key] = ..`, ('insert', name, index node) for `name[i:i] = ..`, else None"""
        if isinstance(t, ast.Subscript) and isinstance(t.value, ast.Name):
            if isinstance(t.slice, ast.Slice):
                sl = t.slice
                if sl.step is None and sl.lower is not None and sl.upper is not None and ast.dump(sl.lower) == ast.dump(sl.upper):
                    return ("insert", t.value.id, sl.lower)
                return None
            return ("item", t.value.id, t.slice)
        return None

    @staticmethod
    def item_append(e):
        """(dict name, key node, argument) for `name[key].append(arg)`"""
        if (isinstance(e, ast.Call) and isinstance(e.func, ast.Attribute) and e.func.attr == "append" and len(e.args) == 1 and not e.keywords
                and isinstance(e.func.value, ast.Subscript) and isinstance(e.func.value.value, ast.Name) and not isinstance(e.func.value.slice, ast.Slice)):
            return e.func.value.value.id, e.func.value.slice, e.args[0]
        return None

    @staticmethod
    def pop_call(e):
        """('list', name, None) for `name.pop()`, ('item', name, key node) for `name[key].pop()`"""
        if isinstance(e, ast.Call) and isinstance(e.func, ast.Attribute) and e.func.attr == "pop" and not e.args and not e.keywords:
            v = e.func.value
            if isinstance(v, ast.Name): return ("list", v.id, None)
            if isinstance(v, ast.Subscript) and isinstance(v.value, ast.Name) and not isinstance(v.slice, ast.Slice): return ("item", v.value.id, v.slice)
        return None

    def self_attr(self, e):
        """attribute name if e is `self.<attr>` on a self-object parameter, else None"""
        if self.sparam and isinstance(e, ast.Attribute) and isinstance(e.value, ast.Name) and e.value.id == self.sparam:
            return e.attr
        return None

    # -------------------------------------------------------------------------------- names
    def collect_names(self):
        self.locals = []         # assigned names in order of first assignment
        self.loopvars = []       # loop targets in order (one entry per binding occurrence)
        self.for_names = {}      # id(For node) -> generated names of its targets
        self.for_iters = {}      # loop-target name -> the iterated expressions (ast.dump) of all loops that bind it
        self.for_nodes = {}      # loop-target name -> the For nodes that bind it
        self.top_index = {}      # id(ast node) -> index of the top-level statement of the function that contains it
        for ti, st_ in enumerate(self.fdef.body):
            for nd in ast.walk(st_): self.top_index[id(nd)] = ti
        self.node_path = {}      # id(ast node) -> [(id of the statement list, index in it, the list is a loop body?)] from the function body down
        def paths(stmts, prefix, in_loop):
            for ix, st_ in enumerate(stmts):
                here = prefix + [(id(stmts), ix, in_loop)]
                for nd in ast.walk(st_): self.node_path.setdefault(id(nd), here)
                if isinstance(st_, (ast.For, ast.While)): paths(st_.body, here, True)
                elif isinstance(st_, ast.If): paths(st_.body, here, False); paths(st_.orelse, here, False)
        # inner statements overwrite the path given by their ancestors: walk innermost last
        def assign_paths(stmts, prefix, in_loop):
            for ix, st_ in enumerate(stmts):
                here = prefix + [(id(stmts), ix, in_loop)]
                for nd in ast.walk(st_): self.node_path[id(nd)] = here
                if isinstance(st_, (ast.For, ast.While)): assign_paths(st_.body, here, True)
                elif isinstance(st_, ast.If): assign_paths(st_.body, here, False); assign_paths(st_.orelse, here, False)
        assign_paths(self.fdef.body, [], False)
        def targets_of_for(t):
            if isinstance(t, ast.Name): return [t.id]
            if isinstance(t, ast.Tuple) and all(isinstance(x, ast.Name) for x in t.elts): return [x.id for x in t.elts]
            raise Unsupported("loop target", t)
        self.plain_assigns = {}  # name -> number of `name = expr` statements (anywhere); names that are also augmented / appended to are in self.mutated
        self.mutated = set()
        self.assign_count = {}   # name -> number of assignment statements
        self.assign_value = {}   # name -> value node of its (last seen) plain top-level assignment
        self.loop_assigned = set()      # names assigned somewhere inside a loop body
        def walk(stmts, depth=0, inloop=False):
            for s in stmts:
                if isinstance(s, ast.Assign) and len(s.targets) == 1 and self.self_attr(s.targets[0]) in self.s_out:
                    continue          # assignment to an output attribute of self
                if isinstance(s, ast.Assign) and len(s.targets) == 1 and self.self_attr(s.targets[0]) is not None \
                        and self.s_in.get(self.self_attr(s.targets[0])) == WRAP:
                    continue          # self.solver = <fresh wrapper> (checked in stmt)
                if isinstance(s, ast.Assign) and len(s.targets) == 1 and self.sub_store(s.targets[0]) is not None:
                    n = self.sub_store(s.targets[0])[1]           # d[k] = v / l[i:i] = c : the container is changed in place
                    if n in self.params: raise Unsupported("assignment into a parameter (the caller's object would be mutated)", s)
                    self.mutated.add(n); self.assign_count[n] = self.assign_count.get(n, 0) + 2
                    continue
                if isinstance(s, ast.Assign):
                    if len(s.targets) != 1 or not isinstance(s.targets[0], ast.Name):
                        raise Unsupported("assignment target (only `name = expr`)", s)
                    pc = self.pop_call(s.value)
                    if pc is not None:          # x = l.pop() / x = d[k].pop(): the value has a side effect on the container
                        if pc[1] in self.params: raise Unsupported("pop from a parameter (the caller's list would be mutated)", s)
                        self.mutated.add(pc[1]); self.assign_count[pc[1]] = self.assign_count.get(pc[1], 0) + 2
                        self.mutated.add(s.targets[0].id)          # never a let-binding
                    n = s.targets[0].id
                    if n not in self.locals: self.locals.append(n)
                    if inloop: self.loop_assigned.add(n)
                    self.plain_assigns[n] = self.plain_assigns.get(n, 0) + 1
                    self.assign_count[n] = self.assign_count.get(n, 0) + (1 if depth == 0 else 2)   # inside a loop / branch: not stable
                    self.assign_value[n] = s.value
                elif isinstance(s, ast.AugAssign):
                    if not isinstance(s.target, ast.Name):
                        raise Unsupported("augmented-assignment target", s)
                    if s.target.id not in self.locals: self.locals.append(s.target.id)
                    self.mutated.add(s.target.id)
                    self.assign_count[s.target.id] = self.assign_count.get(s.target.id, 0) + 2
                elif isinstance(s, ast.Expr) and self.item_append(s.value) is not None:
                    n = self.item_append(s.value)[0]
                    if n in self.params: raise Unsupported("append into a parameter (the caller's object would be mutated)", s)
                    self.mutated.add(n); self.assign_count[n] = self.assign_count.get(n, 0) + 2
                elif isinstance(s, ast.Expr) and self.append_call(s.value) is not None:
                    n = self.append_call(s.value)[0]
                    if n in self.params: raise Unsupported("append to a parameter (the caller's list would be mutated)", s)
                    self.mutated.add(n)
                    if n not in self.locals: self.locals.append(n)
                    self.assign_count[n] = self.assign_count.get(n, 0) + 2
                elif isinstance(s, ast.While):
                    if s.orelse: raise Unsupported("while/else", s)
                    walk(s.body, depth + 1, True)
                elif isinstance(s, ast.For):
                    ns = targets_of_for(s.target)
                    if len(set(ns)) != len(ns): raise Unsupported("loop target repeats a name", s)
                    for n in ns: self.for_iters.setdefault(n, []).append(ast.dump(s.iter)); self.for_nodes.setdefault(n, []).append(s)
                    self.for_names[id(s)] = []
                    for n in ns:       # every loop gets fresh i<k> names; the same Python name may be reused by a LATER loop
                        self.for_names[id(s)].append("i%d" % len(self.loopvars))
                        self.loopvars.append(n)
                    if s.orelse: raise Unsupported("for/else", s)
                    walk(s.body, depth + 1, True)
                elif isinstance(s, ast.If) and getattr(s, "_catch_return", False):
                    walk(s.body, depth, inloop)          # the expanded body of a method call runs unconditionally
                elif isinstance(s, ast.If):
                    walk(s.body, depth + 1, inloop); walk(s.orelse, depth + 1, inloop)
        walk(self.fdef.body)
        for n in self.loopvars:
            if n in self.locals or n in self.params:
                raise Unsupported("loop variable %r is also assigned / a parameter" % n, self.fdef)
        self.appended = {self.append_call(n.value)[0] for n in ast.walk(self.fdef) if isinstance(n, ast.Expr) and self.append_call(n.value) is not None}
        self.state_params = [p for p in self.params if p in self.locals]
        for p in self.state_params:
            if self.ptype[p] in ERASED: raise Unsupported("assignment to the erased parameter %r" % p, self.fdef)
        self.xname = {n: "x%d" % i for i, n in enumerate(self.locals)}
        self.aname = {n: "a%d" % i for i, n in enumerate(self.params)}

    # -------------------------------------------------------------------------------- expressions
    # expr returns (term, type, guards); guards = [(bool term that is true when the operation fails, exception)]
    def expr(self, e, env):
        if self.s_calls and isinstance(e, (ast.Call, ast.Subscript, ast.Attribute, ast.Compare)) and self.sparam not in env["bound"] \
                and ast.unparse(e) in self.s_calls:
            nm, ty = self.s_calls[ast.unparse(e)]          # a declared input expression of the object
            return "in_" + nm, ty, []
        m = getattr(self, "e_" + type(e).__name__, None)
        if m is None:
            raise Unsupported("expression node %s" % type(e).__name__, e)
        return m(e, env)

    def e_Name(self, e, env):
        n = e.id
        if n in env.get("inline", {}):          # a local bound once to a state-free expression: its value
            return env["inline"][n][0], env["inline"][n][1], []
        if n in self.locals:
            if n not in env["defined"]:
                raise Unsupported("read of local %r where it may be unassigned" % n, e)
            return "(%s s)" % self.xname[n], env["vt"][n], []
        if n in env["bound"]:
            return env["bound"][n][0], env["bound"][n][1], []
        if n in self.loopvars:
            # f"...{i}..." after `for i in <list>`: the value only ends up in a name, but Python raises UnboundLocalError when no
            # iteration ever bound i.  Exact when EVERY loop that binds the name runs over the same (stable) list expression — it is bound iff
            # that list is non-empty — and one of them precedes the read in this block.
            if env.get("in_fstring") and n in env.get("postloop", {}) and len(set(self.for_iters.get(n, []))) == 1:
                return "tt", STR, [("(py_list_is_empty %s)" % env["postloop"][n][-1][1][-1], "UnboundLocalError")]
            # Otherwise: every loop that binds the name either is accounted for — it precedes the read in this block (or is the first statement of
            # such a loop, nested), so it ran iff all the (stable) lists on the way to it are non-empty — or lies in a LATER top-level statement of the
            # function (it cannot have run yet).  The name is unbound iff none of the accounted loops ran.
            if env.get("in_fstring") and n in env.get("postloop", {}):
                alts = env["postloop"][n]; covered = set().union(*[a[0] for a in alts])
                if all(id(f) in covered or self.runs_later(f, e) for f in self.for_nodes.get(n, [])):
                    term = None
                    for _, conds in alts:
                        one = None
                        for c in conds: one = "(py_list_is_empty %s)" % c if one is None else "(orb %s (py_list_is_empty %s))" % (one, c)
                        term = one if term is None else "(andb %s %s)" % (term, one)
                    return "tt", STR, [(term, "UnboundLocalError")]
            raise Unsupported("read of loop variable %r outside its loop" % n, e)
        if n in self.params:
            return self.aname[n], self.ptype[n], []
        raise Unsupported("name %r (not a parameter, local or loop variable)" % n, e)

    def runs_later(self, loop, read):
        """the loop lies after the read in straight-line code: in some statement list that is not (inside) a loop body the statement containing the
        loop comes later than the one containing the read — so it has not run when the read is evaluated"""
        pf, pr = self.node_path.get(id(loop)), self.node_path.get(id(read))
        if pf is None or pr is None: return False
        for d in range(min(len(pf), len(pr))):
            if pf[d][0] != pr[d][0]: return False
            if pf[d][2]: return False                # this list is a loop body: it may run again
            if pf[d][1] != pr[d][1]: return pf[d][1] > pr[d][1]
        return False

    def e_Constant(self, e, env):
        v = e.value
        if isinstance(v, bool): return ("true" if v else "false"), BOOL, []
        if isinstance(v, int): return "(%d)%%Z" % v, INT, []
        if v is None: return "None", NONE, []
        if isinstance(v, str): return "tt", STR, []          # only as an (erased) name argument / message
        raise Unsupported("constant %r" % (v,), e)

    def e_JoinedStr(self, e, env):
        g = []
        for v in e.values:
            if isinstance(v, ast.FormattedValue):
                if v.format_spec is not None or v.conversion != -1: raise Unsupported("format specification in an f-string", e)
                f0 = env.get("in_fstring"); env["in_fstring"] = isinstance(v.value, ast.Name)
                try: t, ty, gg = self.expr(v.value, env)       # Python evaluates it; its value only ends up in a name
                finally: env["in_fstring"] = f0
                g += gg
        return "tt", STR, g

    def e_Tuple(self, e, env):
        parts = [self.expr(x, env) for x in e.elts]
        if len(parts) < 2: raise Unsupported("tuple of length < 2", e)
        return "(" + ", ".join(p[0] for p in parts) + ")", Tuple(*[p[1] for p in parts]), sum((p[2] for p in parts), [])

    def num2(self, a, b, node):
        (ta, tya, ga), (tb, tyb, gb) = a, b
        if tya not in NUMERIC or tyb not in NUMERIC:
            raise Unsupported("arithmetic / comparison on %s and %s" % (show(tya), show(tyb)), node)
        t = join(tya, tyb)
        return coerce(ta, tya, t), coerce(tb, tyb, t), t, ga + gb

    def e_BinOp(self, e, env):
        op = {ast.Add: "add", ast.Sub: "sub", ast.Mult: "mul"}.get(type(e.op))
        if isinstance(e.op, ast.Pow):
            if not (isinstance(e.left, ast.Constant) and isinstance(e.left.value, int) and not isinstance(e.left.value, bool) and e.left.value >= 1):
                raise Unsupported("power with a base other than a positive integer literal", e)
            x, ty, g = self.expr(e.right, env)
            if ty != INT: raise Unsupported("power with an exponent of type %s" % show(ty), e)
            return "(py_pow (%d)%%Z %s)" % (e.left.value, x), NUM, g
        if isinstance(e.op, ast.Div):           # true division of numbers (exact rationals in the model); ZeroDivisionError guarded
            L = self.expr(e.left, env); R = self.expr(e.right, env)
            if L[1] not in (INT, NUM) or R[1] not in (INT, NUM): raise Unsupported("division of %s by %s" % (show(L[1]), show(R[1])), e)
            b = coerce(R[0], R[1], NUM, e)
            return "(Qdiv %s %s)" % (coerce(L[0], L[1], NUM, e), b), NUM, L[2] + R[2] + [("(Qeq_bool %s (0#1)%%Q)" % b, "ZeroDivisionError")]
        if op is None: raise Unsupported("binary operator %s" % type(e.op).__name__, e)
        L = self.expr(e.left, env); R = self.expr(e.right, env)
        if L[1] == STR and R[1] == STR and op == "add":
            return "tt", STR, L[2] + R[2]
        if L[1][0] == "List" and R[1][0] == "List" and op == "add":
            ty = join(L[1], R[1], e)
            return "(app %s %s)" % (L[0], R[0]), ty, L[2] + R[2]
        lin = (VAR, LEXP)
        if L[1] in lin or R[1] in lin:      # arithmetic of solver expressions: mirrored, given meaning by PyLin.v
            if op == "mul":
                if L[1] in NUMERIC and L[1] != EXT and R[1] in lin: q, x = L, R
                elif R[1] in NUMERIC and R[1] != EXT and L[1] in lin: q, x = R, L
                else: raise Unsupported("product of %s and %s" % (show(L[1]), show(R[1])), e)
                return "(LScale %s %s)" % (coerce(q[0], q[1], NUM, e), coerce(x[0], x[1], LEXP, e)), LEXP, L[2] + R[2]
            for z in (L, R):
                if z[1] not in lin and z[1] not in (INT, NUM): raise Unsupported("%s of %s and %s" % (op, show(L[1]), show(R[1])), e)
            return "(%s %s %s)" % ({"add": "LAdd", "sub": "LSub"}[op], coerce(L[0], L[1], LEXP, e), coerce(R[0], R[1], LEXP, e)), LEXP, L[2] + R[2]
        x, y, t, g = self.num2(L, R, e)
        if op not in NUMOPS[t]: raise Unsupported("%s on %s" % (op, show(t)), e)
        return "(%s %s %s)" % (NUMOPS[t][op], x, y), t, g

    def truth(self, e, env):
        """a condition: a boolean, or a list / dict (true iff non-empty)"""
        t, ty, g = self.expr(e, env)
        if ty == BOOL: return t, g
        if ty[0] in ("List", "Dict") and ty[0] != "Opt": return "(negb (py_list_is_empty %s))" % t, g
        raise Unsupported("condition of type %s (only booleans and the emptiness of lists / dicts)" % show(ty), e)

    def e_UnaryOp(self, e, env):
        if isinstance(e.op, ast.Not):
            t, g = self.truth(e.operand, env)
            return "(negb %s)" % t, BOOL, g
        if isinstance(e.op, ast.USub) and isinstance(e.operand, ast.Constant) and isinstance(e.operand.value, int) \
                and not isinstance(e.operand.value, bool):
            return "(%d)%%Z" % (-e.operand.value), INT, []
        if isinstance(e.op, ast.USub):
            t, ty, g = self.expr(e.operand, env)
            if ty == INT: return "(Z.opp %s)" % t, INT, g
            if ty == NUM: return "(Qopp %s)" % t, NUM, g
            if ty in (VAR, LEXP) and self.emits: return "(LScale (-1#1)%%Q %s)" % coerce(t, ty, LEXP, e), LEXP, g
            raise Unsupported("unary minus on a value of type %s" % show(ty), e)
        raise Unsupported("unary operator %s" % type(e.op).__name__, e)

    def e_BoolOp(self, e, env):
        parts = [self.expr(x, env) for x in e.values]
        for i, (t, ty, g) in enumerate(parts):
            if ty != BOOL: raise Unsupported("and/or on a non-boolean (%s)" % show(ty), e.values[i])
        f = "andb" if isinstance(e.op, ast.And) else "orb"
        term = parts[-1][0]
        for p in reversed(parts[:-1]):
            term = "(%s %s %s)" % (f, p[0], term)
        # an operand is evaluated only if all the earlier ones were true (and) / false (or): its partial operations are conditioned on that
        guards = list(parts[0][2]); pre = None
        for i in range(1, len(parts)):
            c = parts[i - 1][0] if isinstance(e.op, ast.And) else "(negb %s)" % parts[i - 1][0]
            pre = c if pre is None else "(andb %s %s)" % (pre, c)
            guards += [("(andb %s %s)" % (pre, x), ex) for x, ex in parts[i][2]]
        return term, BOOL, guards

    def e_Compare(self, e, env):
        if len(e.ops) != 1: raise Unsupported("chained comparison", e)
        op = e.ops[0]; L = self.expr(e.left, env); R = self.expr(e.comparators[0], env)
        if isinstance(op, (ast.Is, ast.IsNot)):
            if R[1] != NONE: raise Unsupported("`is` with anything but None", e)
            if L[1] == NONE: t = "true"
            elif L[1][0] == "Opt": t = "(py_is_none %s)" % L[0]
            else: t = "false"          # a value of a non-optional embedded type is never None
            return (t if isinstance(op, ast.Is) else "(negb %s)" % t), BOOL, L[2]
        if L[1] in (VAR, LEXP) or R[1] in (VAR, LEXP):      # a solver constraint object, not a boolean
            sn = {ast.LtE: "SLe", ast.GtE: "SGe", ast.Eq: "SEq"}.get(type(op))
            if sn is None: raise Unsupported("comparison %s between solver expressions" % type(op).__name__, e)
            for z in (L, R):
                if z[1] not in (VAR, LEXP, INT, NUM): raise Unsupported("constraint between %s and %s" % (show(L[1]), show(R[1])), e)
            return "(mk_lcon %s %s %s)" % (coerce(L[0], L[1], LEXP, e), sn, coerce(R[0], R[1], LEXP, e)), CON, L[2] + R[2]
        if isinstance(op, (ast.In, ast.NotIn)):
            t, g = self.member(L, R, e)
            return (t if isinstance(op, ast.In) else "(negb %s)" % t), BOOL, g
        if isinstance(op, (ast.Eq, ast.NotEq)) and L[1][0] == "Dict" and isinstance(e.comparators[0], ast.Dict) and not e.comparators[0].keys:
            t = "(py_is_empty %s)" % L[0]
            return (t if isinstance(op, ast.Eq) else "(negb %s)" % t), BOOL, L[2]
        if isinstance(op, (ast.Eq, ast.NotEq)) and not (L[1] in NUMERIC and R[1] in NUMERIC):
            ty = join(L[1], R[1], e)
            t = "(%s %s %s)" % (eqb(ty, e), coerce(L[0], L[1], ty, e), coerce(R[0], R[1], ty, e))
            return (t if isinstance(op, ast.Eq) else "(negb %s)" % t), BOOL, L[2] + R[2]
        x, y, t, g = self.num2(L, R, e)
        o = NUMOPS[t]
        term = {ast.Lt: "(%s %s %s)" % (o["ltb"], x, y), ast.LtE: "(%s %s %s)" % (o["leb"], x, y),
                ast.Gt: "(%s %s %s)" % (o["ltb"], y, x), ast.GtE: "(%s %s %s)" % (o["leb"], y, x),
                ast.Eq: "(%s %s %s)" % (o["eqb"], x, y), ast.NotEq: "(negb (%s %s %s))" % (o["eqb"], x, y)}.get(type(op))
        if term is None: raise Unsupported("comparison operator %s" % type(op).__name__, e)
        return term, BOOL, g

    def member(self, L, R, node):
        (lt, lty, lg), (rt, rty, rg) = L, R
        g = lg + rg
        if rty == SELFOBJ and self.builds:
            if lty != NODE: raise Unsupported("membership of a value of type %s in the graph" % show(lty), node)
            return "(py_m_has_node (o_graph s) %s)" % lt, g
        if rty == EDATA:
            if lty != ATTR: raise Unsupported("membership of a non-attribute key in an edge-data dict", node)
            return "(py_is_some %s)" % rt, g
        opt = False
        if rty[0] == "Opt":
            opt = True; inner = rty[1]
        else:
            inner = rty
        if inner[0] in ("List", "Set") and not opt and self.never_equal(lty, inner[1]):
            return "false", g          # e.g. a pair of node names is never equal to a pair of pairs: Python's `in` answers False
        if inner[0] in ("List", "Set"):
            ety = join(lty, inner[1], node)
            if ety != inner[1] and not has_bot(inner[1]):
                raise Unsupported("membership of %s in a container of %s" % (show(lty), show(inner[1])), node)
            c = rt
            if opt:
                g = g + [("(py_is_none %s)" % rt, "TypeError")]; c = "(py_opt_get [] %s)" % rt
            return "(py_mem %s %s %s)" % (eqb(ety, node), coerce(lt, lty, ety, node), c), g
        if inner[0] == "Dict" and not opt:
            if lty != inner[1]: raise Unsupported("dict key of type %s, expected %s" % (show(lty), show(inner[1])), node)
            return "(py_dict_mem %s %s %s)" % (eqb(inner[1], node), rt, lt), g
        raise Unsupported("membership test on a value of type %s" % show(rty), node)

    @staticmethod
    def never_equal(a, b):
        """values of these two embedded types can never be equal in Python (a node name / number vs a tuple, tuples of different length)"""
        atoms = (NODE, INT, NUM)
        if (a in atoms and b[0] == "Tuple") or (b in atoms and a[0] == "Tuple"): return True
        if a[0] == "Tuple" and b[0] == "Tuple":
            if len(a) != len(b): return True
            return any(Fn.never_equal(x, y) for x, y in zip(a[1:], b[1:]))
        return False

    def comp_lookup(self, e, env):
        """L[i] where the local L was bound once to [ELT for v in X], X a list(range(n)), and i is a loop / comprehension variable that runs over
        that same X: the element is ELT with v := i, and the lookup cannot fail.  Returns (term, type, guards) or None."""
        if not (isinstance(e.value, ast.Name) and e.value.id in env.get("inline", {}) and isinstance(e.slice, ast.Name) and e.slice.id in env["bound"]): return None
        val = env["inline"][e.value.id][2]
        if not (isinstance(val, ast.ListComp) and len(val.generators) == 1 and not val.generators[0].ifs and isinstance(val.generators[0].target, ast.Name)): return None
        key = self.src_key(val.generators[0].iter)
        if key is None or not key.startswith("Call(func=Name(id='range'") or env["bound"][e.slice.id][2] != key: return None
        v = val.generators[0].target.id
        if v == e.slice.id: return self.expr(val.elt, env)
        if v in env["bound"] or v in self.locals or v in self.params: return None
        env["bound"][v] = env["bound"][e.slice.id]
        try: return self.expr(val.elt, env)
        finally: del env["bound"][v]

    def e_Subscript(self, e, env):
        r = self.comp_lookup(e, env)
        if r is not None: return r
        b, bty, bg = self.expr(e.value, env)
        if isinstance(e.slice, ast.Slice):
            if bty[0] != "List" or e.slice.step is not None: raise Unsupported("slice of a value of type %s / with a step" % show(bty), e)
            bs = []; g = list(bg)
            for x in (e.slice.lower, e.slice.upper):
                if x is None: bs.append("None"); continue
                t, ty, gg = self.expr(x, env); g += gg
                if ty != INT: raise Unsupported("slice bound of type %s" % show(ty), e)
                bs.append("(Some %s)" % t)
            return "(py_slice %s %s %s)" % (b, bs[0], bs[1]), bty, g
        if bty[0] == "Tuple" and isinstance(e.slice, ast.Constant) and isinstance(e.slice.value, int) and not isinstance(e.slice.value, bool):
            k = e.slice.value; n = len(bty) - 1
            if not (0 <= k < n) or n not in (2, 3): raise Unsupported("tuple index", e)
            if n == 2: t = "(%s %s)" % (("fst", "snd")[k], b)
            else: t = ("(fst (fst %s))", "(snd (fst %s))", "(snd %s)")[k] % b
            return t, bty[1 + k], bg
        if bty[0] == "VarDictK":
            k, kty, kg = self.expr(e.slice, env)
            if kty != bty[2]: raise Unsupported("variable index of type %s, the variables are indexed by %s" % (show(kty), show(bty[2])), e)
            enc, eq = KEYENC[bty[2]]
            return "(V %s (%s %s))" % (bty[1], enc, k), VAR, bg + kg + [("(negb (py_mem %s %s %s))" % (eq, k, b), "KeyError")]
        if bty[0] == "VarDict":
            # the dict returned by add_variables has exactly the keys it was created with: the index must be a loop /
            # comprehension variable that runs over the same index list, so the lookup cannot fail
            if not (isinstance(e.slice, ast.Name) and e.slice.id in env["bound"] and env["bound"][e.slice.id][2] is not None
                    and env["bound"][e.slice.id][2] == bty[2]):
                raise Unsupported("variable-dict lookup with an index that does not run over the dict's own index list", e)
            return "(py_vardict_get %s %s)" % (b, env["bound"][e.slice.id][0]), VAR, bg
        k, kty, kg = self.expr(e.slice, env)
        if bty[0] == "List":
            if kty != INT: raise Unsupported("list index of type %s" % show(kty), e)
            return ("(py_list_get %s %s %s)" % (dflt(bty[1]), b, k), bty[1], bg + kg + [("(negb (py_index_ok %s %s))" % (b, k), "IndexError")])
        if bty == EDATA:
            if kty != ATTR: raise Unsupported("edge-data dict indexed by something else than the attribute name", e)
            return "(py_opt_get (0#1)%%Q %s)" % b, NUM, bg + kg + [("(py_is_none %s)" % b, "KeyError")]
        if bty[0] == "Dict":
            if kty != bty[1]: raise Unsupported("dict key of type %s, expected %s" % (show(kty), show(bty[1])), e)
            q = eqb(kty, e)
            return ("(py_dict_get %s %s %s %s)" % (q, b, k, dflt(bty[2])), bty[2],
                    bg + kg + [("(negb (py_dict_mem %s %s %s))" % (q, b, k), "KeyError")])
        raise Unsupported("subscript on a value of type %s" % show(bty), e)

    def e_Attribute(self, e, env):
        a = self.self_attr(e)
        if a is not None and self.sparam not in env["bound"]:
            if a in self.s_out:
                if "self." + a not in env["defined"]: raise Unsupported("read of self.%s where it may be unassigned" % a, e)
                return "(at_%s s)" % a, self.s_out[a], []
            if a in self.s_in:
                if "self." + a in env.get("narrow", {}):      # inside the branch where `self.<a> is not None` is known
                    ty = self.s_in[a][1]
                    return "(py_opt_get %s in_%s)" % (dflt(ty), a), ty, []
                return "in_" + a, self.s_in[a], []
            raise Unsupported("attribute self.%s (not in the typed embedding of the object)" % a, e)
        if self.selfobj:
            t, ty, g = self.expr(e.value, env)
            if ty == SGRAPH and e.attr in ("source", "sink"): return "(sg_%s %s)" % (e.attr, t), NODE, g
            if ty == STG and e.attr in ("source", "sink"): return "(PathEnc.g_%s %s)" % ({"source": "src", "sink": "snk"}[e.attr], t), NODE, g
            if ty == STG and e.attr == "nodes": return "(PathEnc.g_nodes %s)" % t, List(NODE), g
            if ty == BGRAPH and e.attr == "nodes": return "(b_nodes %s)" % t, List(NODE), g       # iterating G.nodes
            if ty == BGRAPH and e.attr == "edges": return "(b_edges %s)" % t, List(EDGE), g
        raise Unsupported("attribute access outside a supported method call", e)

    def e_List(self, e, env):
        if any(isinstance(x, ast.Starred) for x in e.elts): raise Unsupported("starred element in a list literal", e)
        parts = [self.expr(x, env) for x in e.elts]
        ty = BOT
        for p in parts: ty = join(ty, p[1], e)
        if parts and ty not in (NODE, INT, NUM, EDGE): raise Unsupported("list literal of elements of type %s" % show(ty), e)   # no lists of (aliasable) lists
        return "[" + "; ".join(coerce(p[0], p[1], ty, e) for p in parts) + "]", List(ty), sum((p[2] for p in parts), [])

    def e_Dict(self, e, env):
        if e.keys: raise Unsupported("dict literal with entries", e)
        return "[]", Dict(BOT, BOT), []

    def cond_key(self, test):
        """(key, polarity) of a stable condition: len(X) > 0 / len(X) == 0 / not C are recognised as one condition and its negation"""
        if not self.stable_condition(test): return None
        pol = True
        while isinstance(test, ast.UnaryOp) and isinstance(test.op, ast.Not):
            test = test.operand; pol = not pol
        if isinstance(test, ast.Compare) and len(test.ops) == 1 and isinstance(test.comparators[0], ast.Constant) and test.comparators[0].value == 0 \
                and not isinstance(test.comparators[0].value, bool) and isinstance(test.left, ast.Call) and isinstance(test.left.func, ast.Name) and test.left.func.id == "len":
            if isinstance(test.ops[0], ast.Gt): return ("len0", ast.dump(test.left)), pol
            if isinstance(test.ops[0], ast.Eq): return ("len0", ast.dump(test.left)), not pol
        return ("test", ast.dump(test)), pol

    def e_DictComp(self, e, env):
        """{k: VALUE for k, x in D.items()}: the same keys in the same order, new values"""
        if len(e.generators) != 1 or e.generators[0].ifs or e.generators[0].is_async: raise Unsupported("dict comprehension form", e)
        g = e.generators[0]
        if not (isinstance(g.iter, ast.Call) and isinstance(g.iter.func, ast.Attribute) and g.iter.func.attr == "items" and not g.iter.args and not g.iter.keywords
                and isinstance(g.target, ast.Tuple) and len(g.target.elts) == 2 and all(isinstance(x, ast.Name) for x in g.target.elts)
                and isinstance(e.key, ast.Name) and e.key.id == g.target.elts[0].id):
            raise Unsupported("dict comprehension (only {k: f(k, x) for k, x in d.items()})", e)
        d, dty, dg = self.expr(g.iter.func.value, env)
        if dty[0] != "Dict": raise Unsupported("items() of a value of type %s" % show(dty), e)
        kn, xn = g.target.elts[0].id, g.target.elts[1].id
        for v in (kn, xn):
            if v in self.locals or v in self.params or v in env["bound"]: raise Unsupported("comprehension variable %r shadows another name" % v, e)
        ck = "c%d" % env["ncomp"][0]; cx = "c%d" % (env["ncomp"][0] + 1); env["ncomp"][0] += 2
        env["bound"][kn] = (ck, dty[1], None); env["bound"][xn] = (cx, dty[2], None)
        try: t, ty, tg = self.expr(e.value, env)
        finally: del env["bound"][kn]; del env["bound"][xn]
        if tg: raise Unsupported("partial operation in a dict comprehension", e)
        if ty[0] == "List" and not (isinstance(e.value, ast.Subscript) and isinstance(e.value.slice, ast.Slice)) and not isinstance(e.value, (ast.List, ast.ListComp)):
            raise Unsupported("dict comprehension whose values are lists that are not fresh copies (aliasing is not modelled)", e)
        return "(map (fun '(%s, %s) => (%s, %s)) %s)" % (ck, cx, ck, t, d), Dict(dty[1], ty), dg

    def e_IfExp(self, e, env):
        t, ty, g = self.expr(e.test, env)
        if ty != BOOL: raise Unsupported("condition of type %s" % show(ty), e.test)
        d0 = env["defined"]; ck = self.cond_key(e.test)
        if ck is not None: env["defined"] = d0 | env["cond_defs"].get((ck[0], ck[1]), set())
        try: a, aty, ag = self.expr(e.body, env)
        finally: env["defined"] = d0
        if ck is not None: env["defined"] = d0 | env["cond_defs"].get((ck[0], not ck[1]), set())
        try: b, bty, bg = self.expr(e.orelse, env)
        finally: env["defined"] = d0
        rty = join(aty, bty, e)
        term = "(if %s then %s else %s)" % (t, coerce(a, aty, rty, e), coerce(b, bty, rty, e))
        # both branches perform the same partial operations (in the same order): whichever is taken fails exactly when they do
        if ag == bg: return term, rty, g + ag
        # otherwise a partial operation of a branch fails only when that branch is the one evaluated
        return term, rty, g + [("(andb %s %s)" % (t, x), ex) for x, ex in ag] + [("(andb (negb %s) %s)" % (t, x), ex) for x, ex in bg]

    def is_pairs_idiom(self, e, env):
        """[(p[i], p[i+1]) for i in range(len(p) - 1)] with p a name of list type; returns (term, elem type, guards) or None"""
        if not isinstance(e, (ast.ListComp, ast.SetComp, ast.GeneratorExp)) or len(e.generators) != 1: return None
        g = e.generators[0]
        if g.ifs or g.is_async or not isinstance(g.target, ast.Name): return None
        i = g.target.id
        if i in self.locals or i in self.params or i in self.loopvars: return None
        it = g.iter
        if not (isinstance(it, ast.Call) and isinstance(it.func, ast.Name) and it.func.id == "range" and len(it.args) == 1 and not it.keywords): return None
        a = it.args[0]
        if not (isinstance(a, ast.BinOp) and isinstance(a.op, ast.Sub) and isinstance(a.right, ast.Constant) and a.right.value == 1
                and isinstance(a.left, ast.Call) and isinstance(a.left.func, ast.Name) and a.left.func.id == "len"
                and len(a.left.args) == 1 and not a.left.keywords and isinstance(a.left.args[0], ast.Name)): return None
        p = a.left.args[0].id
        el = e.elt
        if not (isinstance(el, ast.Tuple) and len(el.elts) == 2): return None
        x, y = el.elts
        def sub(z): return isinstance(z, ast.Subscript) and isinstance(z.value, ast.Name) and z.value.id == p
        if not (sub(x) and sub(y)): return None
        if not (isinstance(x.slice, ast.Name) and x.slice.id == i): return None
        ys = y.slice
        if not (isinstance(ys, ast.BinOp) and isinstance(ys.op, ast.Add) and isinstance(ys.left, ast.Name) and ys.left.id == i
                and isinstance(ys.right, ast.Constant) and ys.right.value == 1 and not isinstance(ys.right.value, bool)): return None
        pt, pty, pg = self.expr(a.left.args[0], env)
        if pty[0] != "List": raise Unsupported("consecutive-pairs comprehension over a non-list (%s)" % show(pty), e)
        return "(py_consecutive_pairs %s %s)" % (dflt(pty[1]), pt), Tuple(pty[1], pty[1]), pg

    def comp(self, e, env, kind):
        r = self.is_pairs_idiom(e, env)
        if r is None:
            if kind == "List": return self.gen_map(e, env)
            raise Unsupported("set comprehension (only `{(p[i], p[i+1]) for i in range(len(p) - 1)}` is translated)", e)
        return r[0], (kind, r[1]), r[2]

    def src_key(self, node):
        """canonical description of an index list (for variable dicts): list(X) and [i for i in X] are X; a local that is
        assigned exactly once at top level stands for its value; every name involved must be stable"""
        while True:
            if isinstance(node, ast.Call) and isinstance(node.func, ast.Name) and node.func.id == "list" and len(node.args) == 1 and not node.keywords:
                node = node.args[0]; continue
            if isinstance(node, (ast.ListComp, ast.GeneratorExp)) and len(node.generators) == 1:
                g = node.generators[0]
                if not g.ifs and isinstance(g.target, ast.Name) and isinstance(node.elt, ast.Name) and node.elt.id == g.target.id:
                    node = g.iter; continue
            if isinstance(node, ast.Name) and node.id in self.locals and self.assign_count.get(node.id) == 1 and node.id not in self.params:
                node = self.assign_value[node.id]; continue
            break
        for n in ast.walk(node):
            if isinstance(n, ast.Name) and isinstance(n.ctx, ast.Load):
                if n.id in self.locals and (self.assign_count.get(n.id) != 1 or n.id in self.params):
                    return None          # assigned more than once / in a loop or branch / a re-assigned parameter
                if n.id in self.locals: continue
                if n.id not in self.params and n.id not in ("range", "len"): return None
        return ast.dump(node)

    def gen_map(self, e, env):
        """[ELT for v in LIST] / (ELT for v in LIST), also with a tuple target and with a second `for`: map / flat_map.
        Partial operations in ELT (a KeyError of d[k], ...) are hoisted in front of the statement: Python would raise at the
        first element where one fails, with the kind of the first one that fails there."""
        if not (1 <= len(e.generators) <= 3): raise Unsupported("comprehension with more than three generators", e)
        pats = []; its = []; ig = []; bound_now = []
        try:
            for gi, g in enumerate(e.generators):
                if g.is_async or (g.ifs and len(e.generators) != 1): raise Unsupported("comprehension with a filter and a second generator / async", e)
                it, ity, gg = self.expr(g.iter, env)
                if ity[0] != "List": raise Unsupported("comprehension over a value of type %s" % show(ity), e)
                if gi >= 1 and gg: raise Unsupported("partial operation in a later generator of a comprehension", g.iter)
                ig += gg
                if isinstance(g.target, ast.Name): names = [g.target.id]; tys = [ity[1]]
                elif isinstance(g.target, ast.Tuple) and all(isinstance(x, ast.Name) for x in g.target.elts):
                    names = [x.id for x in g.target.elts]
                    if ity[1][0] != "Tuple" or len(ity[1]) - 1 != len(names): raise Unsupported("unpacking %d names from %s" % (len(names), show(ity[1])), e)
                    tys = list(ity[1][1:])
                else: raise Unsupported("comprehension target", e)
                cn = []
                for v, ty in zip(names, tys):
                    if v in self.locals or v in self.params or v in env["bound"]:
                        raise Unsupported("comprehension variable %r shadows another name" % v, e)
                    c = "c%d" % env["ncomp"][0]; env["ncomp"][0] += 1
                    env["bound"][v] = (c, ty, self.src_key(g.iter) if len(names) == 1 else None); bound_now.append(v); cn.append(c)
                pat = cn[0] if len(cn) == 1 else "'(" + ", ".join(cn) + ")"
                fguards = []; fcond = None; it0 = it
                for cond in g.ifs:          # [.. for v in L if C]: the elements of L that satisfy C, in order
                    ct, cty, cg = self.expr(cond, env)
                    if cty != BOOL: raise Unsupported("comprehension filter of type %s" % show(cty), cond)
                    if cg and (len(g.ifs) != 1 or len(e.generators) != 1): raise Unsupported("partial operation in one of several comprehension filters", cond)
                    fguards = cg; fcond = ct
                    it = "(filter (fun %s => %s) %s)" % (pat, ct, it)
                pats.append(pat); its.append(it)
            t, ty, tg = self.expr(e.elt, env)
            if len(e.generators) == 1 and e.generators[0].ifs and fguards:
                # Python evaluates, element by element of the UNFILTERED list, first the filter (its partial operations), then — if it holds — the element
                tg = list(fguards) + [("(andb %s %s)" % (fcond, x), ex) for x, ex in tg]
                hoist_list = it0
            else: hoist_list = None
        finally:
            for v in bound_now: del env["bound"][v]
        if len(pats) == 1 and not tg and t == pats[0] and not pats[0].startswith("'"):
            term = its[0]                       # [(v) for v in L]: a new list equal to L
        elif len(pats) == 1:
            term = "(map (fun %s => %s) %s)" % (pats[0], t, its[0])
            allpat, alllist = pats[0], (hoist_list if hoist_list is not None else its[0])
        elif len(pats) == 2:
            term = "(flat_map (fun %s => map (fun %s => %s) %s) %s)" % (pats[0], pats[1], t, its[1], its[0])
            allpat = "'(%s, %s)" % (pats[0].lstrip("'"), pats[1].lstrip("'"))
            alllist = "(flat_map (fun %s => map (fun %s => (%s, %s)) %s) %s)" % (pats[0], pats[1], pats[0].lstrip("'"), pats[1].lstrip("'"), its[1], its[0])
        else:
            term = "(flat_map (fun %s => flat_map (fun %s => map (fun %s => %s) %s) %s) %s)" % (pats[0], pats[1], pats[2], t, its[2], its[1], its[0])
            p0, p1, p2 = (x.lstrip("'") for x in pats)
            allpat = "'(%s, %s, %s)" % (p0, p1, p2)
            alllist = "(flat_map (fun %s => flat_map (fun %s => map (fun %s => (%s, %s, %s)) %s) %s) %s)" % (pats[0], pats[1], pats[2], p0, p1, p2, its[2], its[1], its[0])
        hoisted = []
        if tg:
            anyfail = tg[-1][0]
            for g_, _ in reversed(tg[:-1]): anyfail = "(orb %s %s)" % (g_, anyfail)
            for j, (g_, ex) in enumerate(tg):
                here = g_
                for g2, _ in reversed(tg[:j]): here = "(andb (negb %s) %s)" % (g2, here)
                hoisted.append(("(match find (fun %s => %s) %s with Some %s => %s | None => false end)" % (allpat, anyfail, alllist, allpat.lstrip("'"), here), ex))
        return term, List(ty), ig + hoisted

    def e_GeneratorExp(self, e, env): return self.gen_map(e, env)

    def e_ListComp(self, e, env): return self.comp(e, env, "List")
    def e_SetComp(self, e, env): return self.comp(e, env, "Set")

    def edge_length_pattern(self, e, env):
        """self.G[a][b].get(self.length_attr, 1) -> the length table the harness computes with that very expression"""
        if not (isinstance(e, ast.Call) and isinstance(e.func, ast.Attribute) and e.func.attr == "get" and len(e.args) == 2 and not e.keywords
                and self.self_attr(e.args[0]) == "length_attr" and isinstance(e.args[1], ast.Constant) and e.args[1].value == 1
                and isinstance(e.func.value, ast.Subscript) and isinstance(e.func.value.value, ast.Subscript)
                and self.self_attr(e.func.value.value.value) == "G" and self.s_in.get("G") == STG and ("lengths", Dict(EDGE, NUM)) in self.s_extra):
            return None
        a, aty, ag = self.expr(e.func.value.value.slice, env); b, bty, bg = self.expr(e.func.value.slice, env)
        if aty != NODE or bty != NODE: raise Unsupported("self.G[..][..] with non-node keys", e)
        # self.G[a][b] raises KeyError when (a, b) is not an edge of the graph
        return ("(py_edge_len in_lengths %s %s)" % (a, b), NUM,
                ag + bg + [("(negb (py_mem edge_eqb (%s, %s) (PathEnc.g_edges in_G)))" % (a, b), "KeyError")])

    def e_Call(self, e, env):
        f = e.func
        if self.selfobj and self.sparam not in env["bound"]:
            r = self.edge_length_pattern(e, env)
            if r is not None: return r
        if isinstance(f, ast.Name):
            n = f.id
            if n in self.locals or n in self.params or n in self.loopvars:
                raise Unsupported("call of a local name", e)
            if n == "float":
                if len(e.args) == 1 and not e.keywords and isinstance(e.args[0], ast.Constant) and e.args[0].value == "-inf":
                    return "NegInf", EXT, []
                raise Unsupported("float(...) other than float(\"-inf\")", e)
            if e.keywords: raise Unsupported("keyword arguments of %s" % n, e)
            if n == "sum" and len(e.args) == 1 and not e.keywords:
                t, ty, g = self.expr(e.args[0], env)
                if ty == List(NUM): return "(py_sum %s)" % t, NUM, g
                if ty == List(INT): return "(py_sum (map inject_Z %s))" % t, NUM, g        # an int in Python; only used as a number here
                if self.emits and ty == List(VAR): return "(py_sum_lexp (map LVar %s))" % t, LEXP, g      # 0 + v0 + v1 + ...
                if self.emits and ty == List(LEXP): return "(py_sum_lexp %s)" % t, LEXP, g
                raise Unsupported("sum of a value of type %s" % show(ty), e)
            if n == "zip" and len(e.args) == 2 and not e.keywords:
                a, aty, ag = self.expr(e.args[0], env); b, bty, bg = self.expr(e.args[1], env)
                if aty[0] != "List" or bty[0] != "List": raise Unsupported("zip of %s and %s" % (show(aty), show(bty)), e)
                return "(combine %s %s)" % (a, b), List(Tuple(aty[1], bty[1])), ag + bg
            if n == "str":
                if len(e.args) != 1: raise Unsupported("str arity", e)
                t, ty, g = self.expr(e.args[0], env)
                if ty != NODE: raise Unsupported("str() of a value of type %s (node names are strings already)" % show(ty), e)
                return t, NODE, g
            if n == "range":
                if len(e.args) == 2 and not e.keywords:         # range(a, b) = a, a+1, .., b-1
                    a_, ta, ga = self.expr(e.args[0], env); b_, tb, gb = self.expr(e.args[1], env)
                    if ta != INT or tb != INT: raise Unsupported("range of %s, %s" % (show(ta), show(tb)), e)
                    return "(map (Z.add %s) (py_range (Z.sub %s %s)))" % (a_, b_, a_), List(INT), ga + gb
                if len(e.args) != 1: raise Unsupported("range with %d arguments (only range(n))" % len(e.args), e)
                t, ty, g = self.expr(e.args[0], env)
                if ty not in (INT, BITS): raise Unsupported("range of %s" % show(ty), e)
                return "(py_range %s)" % t, List(INT), g
            if n == "ceil":
                a = e.args[0] if len(e.args) == 1 else None
                if not (self.module_imports.get("ceil") == "math.ceil" and self.module_imports.get("log2") == "math.log2"
                        and isinstance(a, ast.Call) and isinstance(a.func, ast.Name) and a.func.id == "log2" and len(a.args) == 1 and not a.keywords):
                    raise Unsupported("ceil(...) other than math's ceil(log2(x))", e)
                t, ty, g = self.expr(a.args[0], env)
                if ty not in (INT, NUM): raise Unsupported("log2 of %s" % show(ty), e)
                q = coerce(t, ty, NUM, e)
                return "(py_ceil_log2 %s)" % q, BITS, g + [("(Qle_bool %s (0#1)%%Q)" % q, "ValueError")]      # log2(x <= 0): math domain error
            if n == "abs" and len(e.args) == 1 and not e.keywords:
                t, ty, g = self.expr(e.args[0], env)
                if ty == INT: return "(Z.abs %s)" % t, INT, g
                if ty != NUM: raise Unsupported("abs of a value of type %s" % show(ty), e)
                return "(py_abs %s)" % t, NUM, g
            if n == "round" and len(e.args) == 1 and not e.keywords:
                t, ty, g = self.expr(e.args[0], env)
                if ty == INT: return t, INT, g
                if ty != NUM: raise Unsupported("round of a value of type %s" % show(ty), e)
                return "(py_round %s)" % t, INT, g           # a float: nearest integer, ties to even
            if n == "enumerate" and len(e.args) == 1 and not e.keywords:
                t, ty, g = self.expr(e.args[0], env)
                if ty[0] != "List": raise Unsupported("enumerate of a value of type %s" % show(ty), e)
                return "(combine (py_range (py_len %s)) %s)" % (t, t), List(Tuple(INT, ty[1])), g
            if n == "max" and len(e.args) == 1 and not e.keywords:
                t, ty, g = self.expr(e.args[0], env)
                if ty == List(INT): return "(py_list_max_Z %s)" % t, INT, g + [("(py_list_is_empty %s)" % t, "ValueError")]
            if n in ("max", "min") and len(e.args) == 1:
                t, ty, g = self.expr(e.args[0], env)
                if ty != List(NUM): raise Unsupported("%s of a value of type %s" % (n, show(ty)), e)
                return "(py_list_%s %s)" % (n, t), NUM, g + [("(py_list_is_empty %s)" % t, "ValueError")]
            if n in ("max", "min"):
                if len(e.args) != 2: raise Unsupported("%s with %d arguments (only two)" % (n, len(e.args)), e)
                x, y, t, g = self.num2(self.expr(e.args[0], env), self.expr(e.args[1], env), e)
                return "(%s %s %s)" % (NUMOPS[t][n], x, y), t, g
            if n == "len":
                if len(e.args) != 1: raise Unsupported("len arity", e)
                t, ty, g = self.expr(e.args[0], env)
                if ty[0] != "List": raise Unsupported("len of %s" % show(ty), e)   # a set built from a list may have fewer elements
                return "(py_len %s)" % t, INT, g
            if n in ("set", "list"):
                kind = "Set" if n == "set" else "List"
                if not e.args: return "[]", (kind, BOT), []
                if len(e.args) != 1: raise Unsupported("%s arity" % n, e)
                a = e.args[0]
                if isinstance(a, (ast.ListComp, ast.SetComp, ast.GeneratorExp)) and self.is_pairs_idiom(a, env) is not None:
                    return self.comp(a, env, kind)
                t, ty, g = self.expr(a, env)
                if isinstance(a, ast.GeneratorExp) and kind == "List":
                    return t, ty, g
                if ty[0] == "List" or (ty[0] == "Set" and kind == "Set"):
                    return t, (kind, ty[1]), g
                raise Unsupported("%s(...) of a value of type %s" % (n, show(ty)), e)
            raise Unsupported("call of %s" % n, e)
        if isinstance(f, ast.Attribute):
            recv, rty, rg = self.expr(f.value, env)
            m = f.attr
            kw = {k.arg: k.value for k in e.keywords}
            if None in kw: raise Unsupported("**kwargs in a call", e)
            def data_true():
                return set(kw) == {"data"} and isinstance(kw["data"], ast.Constant) and kw["data"].value is True
            if rty == STG:
                if m in ("successors", "predecessors") and len(e.args) == 1 and not kw:
                    v, vty, vg = self.expr(e.args[0], env)
                    if vty != NODE: raise Unsupported("%s of a non-node" % m, e)
                    return "(PathEnc.%s %s %s)" % ({"successors": "succs", "predecessors": "preds"}[m], recv, v), List(NODE), rg + vg
                if m in ("nodes", "edges") and not e.args and not kw:
                    return "(PathEnc.g_%s %s)" % (m, recv), List(NODE if m == "nodes" else EDGE), rg
                if m == "edges" and not e.args and data_true() and ("flows", Dict(EDGE, NUM)) in self.s_extra:
                    return "(py_edges_data (PathEnc.g_edges %s) in_flows)" % recv, List(DEDGE), rg
                if m == "number_of_nodes" and not e.args and not kw: return "(py_len (PathEnc.g_nodes %s))" % recv, INT, rg
                raise Unsupported("graph method call .%s with these arguments" % m, e)
            if rty == SGRAPH:
                if m == "successors" and len(e.args) == 1 and not kw:
                    v, vty, vg = self.expr(e.args[0], env)
                    if vty != NODE: raise Unsupported("successors of a non-node", e)
                    return "(py_successors %s %s)" % (recv, v), List(NODE), rg + vg
                raise Unsupported("graph method call .%s with these arguments" % m, e)
            if rty == BGRAPH:
                if m in ("nodes", "edges") and not e.args and (not kw or data_true()):
                    if kw: return "(b_%s %s)" % (m, recv), (NODEDATA if m == "nodes" else EDGEDATA), rg     # only as argument of add_*_from
                    return "(b_%s %s)" % (m, recv), List(NODE if m == "nodes" else EDGE), rg
                if m in ("in_degree", "out_degree") and len(e.args) == 1 and not kw:
                    v, vty, vg = self.expr(e.args[0], env)
                    if vty != NODE: raise Unsupported("%s of a non-node" % m, e)
                    return "(py_b_%s %s %s)" % (m, recv, v), INT, rg + vg
                raise Unsupported("graph method call .%s with these arguments" % m, e)
            if rty == SELFOBJ and self.builds:
                if m in ("out_edges", "in_edges") and len(e.args) == 1 and not kw:
                    v, vty, vg = self.expr(e.args[0], env)
                    if vty != NODE: raise Unsupported("%s of a non-node" % m, e)
                    return "(py_m_%s (o_graph s) %s)" % (m, v), List(EDGE), rg + vg
                raise Unsupported("call of self.%s in an expression" % m, e)
            if rty == WRAP:
                if m == "quicksum" and self.emits and len(e.args) == 1 and not kw:
                    t, ty, g = self.expr(e.args[0], env)
                    if ty[0] != "List" or ty[1] not in (VAR, LEXP): raise Unsupported("quicksum of a value of type %s" % show(ty), e)
                    if ty[1] == VAR: t = "(map LVar %s)" % t
                    return "(py_quicksum %s)" % t, LEXP, rg + g
                raise Unsupported("call of self.%s in an expression" % m, e)
            if rty == GRAPH:
                if m == "edges" and not e.args and not kw: return "(map fst (PyRt.g_edges %s))" % recv, List(EDGE), rg
                if m in ("out_edges", "in_edges") and len(e.args) == 1 and not kw:
                    v, vty, vg = self.expr(e.args[0], env)
                    if vty != NODE: raise Unsupported("%s of a non-node" % m, e)
                    return "(map fst (py_%s %s %s))" % (m, recv, v), List(EDGE), rg + vg
                if m == "nodes" and not e.args and not kw: return "(g_nodes %s)" % recv, List(NODE), rg
                if m == "edges" and not e.args and data_true(): return "(g_edges %s)" % recv, List(DEDGE), rg
                if m in ("out_edges", "in_edges") and len(e.args) == 1 and data_true():
                    v, vty, vg = self.expr(e.args[0], env)
                    if vty != NODE: raise Unsupported("%s of a non-node" % m, e)
                    return "(py_%s %s %s)" % (m, recv, v), List(DEDGE), rg + vg
                if m in ("out_degree", "in_degree") and len(e.args) == 1 and not kw:
                    v, vty, vg = self.expr(e.args[0], env)
                    if vty != NODE: raise Unsupported("%s of a non-node" % m, e)
                    return "(py_%s %s %s)" % (m, recv, v), INT, rg + vg
                raise Unsupported("graph method call .%s with these arguments" % m, e)
            if rty[0] == "List" and m == "index" and len(e.args) == 1 and not kw:
                x, xty, xg = self.expr(e.args[0], env)
                ety = join(xty, rty[1], e)
                if ety != rty[1]: raise Unsupported("index of a %s in a list of %s" % (show(xty), show(rty[1])), e)
                q = eqb(ety, e)
                return "(py_index_of %s %s %s)" % (q, x, recv), INT, rg + xg + [("(negb (py_mem %s %s %s))" % (q, x, recv), "ValueError")]
            if rty[0] == "Dict" and m == "items" and not e.args and not kw: return recv, List(Tuple(rty[1], rty[2])), rg
            if rty[0] == "Dict" and m == "values" and not e.args and not kw: return "(py_dict_values %s)" % recv, List(rty[2]), rg
            if m == "get" and not kw:
                if rty == EDATA:
                    if not (1 <= len(e.args) <= 2): raise Unsupported("get arity", e)
                    k, kty, kg = self.expr(e.args[0], env)
                    if kty != ATTR: raise Unsupported("edge-data .get of something else than the attribute name", e)
                    if len(e.args) == 1: return recv, Opt(NUM), rg + kg
                    d, dty, dg = self.expr(e.args[1], env)
                    t = join(NUM, dty, e)
                    if t not in NUMERIC: raise Unsupported("edge-data .get default of type %s" % show(dty), e)
                    return ("(match %s with Some v_ => %s | None => %s end)" % (recv, coerce("v_", NUM, t), coerce(d, dty, t)), t, rg + kg + dg)
                if rty[0] == "Dict":
                    if not (1 <= len(e.args) <= 2): raise Unsupported("get arity", e)
                    k, kty, kg = self.expr(e.args[0], env)
                    if kty != rty[1]: raise Unsupported("dict key of type %s, expected %s" % (show(kty), show(rty[1])), e)
                    q = eqb(kty, e)
                    if len(e.args) == 1:
                        return "(py_dict_find %s %s %s)" % (q, recv, k), Opt(rty[2]), rg + kg
                    d, dty, dg = self.expr(e.args[1], env)
                    t = join(rty[2], dty, e)
                    if t != rty[2]: raise Unsupported("dict .get default of type %s for values of type %s" % (show(dty), show(rty[2])), e)
                    return "(py_dict_get %s %s %s %s)" % (q, recv, k, coerce(d, dty, t, e)), t, rg + kg + dg
            raise Unsupported("method call .%s on a value of type %s" % (m, show(rty)), e)
        raise Unsupported("call", e)

    # -------------------------------------------------------------------------------- statements
    def guarded(self, guards, term):
        for (g, ex) in reversed(guards):
            term = "py_guard (fun s => %s) %s (%s)" % (g, ex, term)
        return term

    def assign_to(self, name, term, ty, env, node):
        env["vt"][name] = join(env["vt"].get(name, BOT), ty, node)
        env["defined"] = env["defined"] | {name}
        return "py_assign (fun s => set_%s %s s)" % (self.xname[name], coerce(term, ty, env["final"].get(name, env["vt"][name]), node))

    def dropped_guards(self, node, env):
        """A dropped logging call / exception message is still EVALUATED by Python: the partial operations in it that the
        subset can express (d[k], data[attr]) keep their guards, so a KeyError raised while formatting a message is modelled."""
        guards = []
        def walk(n):
            if isinstance(n, ast.Subscript):
                try:
                    guards.extend(self.expr(n, env)[2]); return
                except Unsupported:
                    pass
            for c in ast.iter_child_nodes(n):
                walk(c)
        walk(node)
        return guards

    # -------------------------------------------------------------------------------- calls that emit
    def self_call(self, e, env):
        """name of the method if e is `self.<method>(...)` on the wrapper parameter, else None"""
        if isinstance(e, ast.Call) and isinstance(e.func, ast.Attribute) and isinstance(e.func.value, ast.Name):
            n = e.func.value.id
            if n in self.params and self.ptype[n] == WRAP and n not in env["bound"]:
                return e.func.attr
        if isinstance(e, ast.Call) and isinstance(e.func, ast.Attribute) and self.self_attr(e.func.value) is not None \
                and self.s_in.get(self.self_attr(e.func.value)) == WRAP and self.sparam not in env["bound"]:
            return e.func.attr          # self.solver.<method>(...)
        return None

    def self_method_call(self, e, env):
        """`self.<method>(args)` on the object itself, where <method> is another translated emitter of the same class that assigns no attribute:
        its columns / rows are appended, its exception propagates (py_emit_call).  Returns the statement term or None."""
        if not (self.emits and self.selfobj and isinstance(e, ast.Call) and isinstance(e.func, ast.Attribute) and isinstance(e.func.value, ast.Name)
                and e.func.value.id == self.sparam and self.sparam not in env["bound"]): return None
        m = e.func.attr
        cands = [k for k, v in TARGETS.items() if v.get("emits") and v.get("selfobj") and v["cls"] == self.spec["cls"] and v["file"] == self.spec["file"] and v["func"] == m and k != self.target]
        if len(cands) != 1: raise Unsupported("call of self.%s (not a translated method of this class)" % m, e)
        callee = cands[0]; cs = TARGETS[callee]; so = cs["selfobj"]
        if so.get("outputs") or so.get("graph") or cs["ret"] != NONE: raise Unsupported("call of self.%s: the callee assigns attributes / returns a value" % m, e)
        fs = [n for n in self.classdef.body if isinstance(n, ast.FunctionDef) and n.name == m]
        if len(fs) != 1 or fs[0].args.defaults or fs[0].args.vararg or fs[0].args.kwarg or fs[0].args.kwonlyargs: raise Unsupported("signature of the callee %s" % m, e)
        names = [a.arg for a in fs[0].args.args]
        if len(names) != len(cs["params"]): raise Unsupported("signature of the callee %s" % m, e)
        b = self.bind_args(e, names[1:], {})
        site = names[1:1 + len(e.args)] + [k.arg for k in e.keywords]
        if site != [n for n in names[1:] if n in site]: raise Unsupported("keyword arguments of self.%s not in the order of its signature (evaluation order)" % m, e)
        args = []; g = []
        for n, ty in list(zip(names, cs["params"]))[1:]:
            t, aty, gg = self.expr(b[n], env); g += gg
            if ty in ERASED: continue
            if aty != ty and not (aty in NUMERIC and ty in NUMERIC): raise Unsupported("argument %r of type %s, expected %s" % (n, show(aty), show(ty)), b[n])
            args.append(coerce(t, aty, ty, b[n]) if aty != ty else t)
        for a, ty in so["inputs"]:          # the attributes the callee reads: what this method has assigned so far, or its own inputs
            if ty in ERASED: continue
            if a in self.s_out:
                if self.s_out[a] != ty: raise Unsupported("self.%s has type %s here, %s in the callee" % (a, show(self.s_out[a]), show(ty)), e)
                if "self." + a not in env["defined"]: raise Unsupported("self.%s may be unassigned when self.%s is called" % (a, m), e)
                args.append("(at_%s s)" % a)
            elif a in self.s_in:
                if self.s_in[a] != ty: raise Unsupported("self.%s has type %s here, %s in the callee" % (a, show(self.s_in[a]), show(ty)), e)
                args.append("in_" + a)
            else: raise Unsupported("the callee self.%s reads self.%s, which is not in the typed embedding of this method" % (m, a), e)
        if so.get("lengths") or so.get("flows"): raise Unsupported("callee with an edge table", e)
        for key, (nm, ty) in so.get("calls", {}).items():
            if self.s_calls.get(key) != (nm, ty): raise Unsupported("the callee self.%s uses the input expression %s" % (m, key), e)
            args.append("in_" + nm)
        if callee not in self.callees: self.callees.append(callee)
        return self.guarded(g, "py_emit_call (fun s => Gen_%s.fn %s) emit_out" % (callee, " ".join(args)))

    def bind_args(self, e, names, defaults):
        """positional / keyword arguments of a call -> {parameter name: node}"""
        if any(isinstance(a, ast.Starred) for a in e.args) or any(k.arg is None for k in e.keywords):
            raise Unsupported("* / ** arguments", e)
        if len(e.args) > len(names): raise Unsupported("too many arguments", e)
        b = dict(zip(names, e.args))
        for k in e.keywords:
            if k.arg not in names or k.arg in b: raise Unsupported("argument %r" % k.arg, e)
            b[k.arg] = k.value
        for n in names:
            if n not in b and n not in defaults: raise Unsupported("missing argument %r" % n, e)
        return b

    def add_variables_call(self, e, env):
        b = self.bind_args(e, ["indexes", "name_prefix", "lb", "ub", "var_type"], {"lb": 0, "ub": 1, "var_type": "integer"})
        it, ity, g = self.expr(b["indexes"], env)
        if isinstance(b["name_prefix"], ast.Constant):
            return self.add_variables_keyed(e, b, it, ity, g, env)
        if ity != List(INT): raise Unsupported("add_variables over indexes of type %s" % show(ity), e)
        key = self.src_key(b["indexes"])
        if key is None: raise Unsupported("add_variables over an index list that is not a stable expression", b["indexes"])
        pre = b["name_prefix"]
        if not (isinstance(pre, ast.JoinedStr) and len(pre.values) == 2 and isinstance(pre.values[0], ast.Constant)
                and pre.values[0].value in PREFIX_FAMILY and isinstance(pre.values[1], ast.FormattedValue)
                and pre.values[1].format_spec is None and pre.values[1].conversion == -1 and isinstance(pre.values[1].value, ast.Name)):
            raise Unsupported("name_prefix of add_variables (only f\"<%s>{name}\")" % "|".join(PREFIX_FAMILY), pre)
        nm, nty, ng = self.expr(pre.values[1].value, env)
        if nty != HNAME: raise Unsupported("name_prefix built from a value of type %s" % show(nty), pre)
        bounds = []
        for k in ("lb", "ub"):
            if k in b:
                t, ty, gg = self.expr(b[k], env); g = g + gg
                if ty not in (INT, NUM): raise Unsupported("bound %s of type %s (only scalars)" % (k, show(ty)), b[k])
                bounds.append(coerce(t, ty, NUM, e))
            else:
                bounds.append({"lb": "(0#1)%Q", "ub": "(1#1)%Q"}[k])
        vt = b.get("var_type")
        while isinstance(vt, ast.Name) and vt.id in env.get("inline", {}): vt = env["inline"][vt.id][2]
        vt = "integer" if vt is None else (vt.value if isinstance(vt, ast.Constant) else None)
        if vt not in ("integer", "continuous"): raise Unsupported("var_type of add_variables", e)
        fam = PREFIX_FAMILY[pre.values[0].value]
        cols = "(py_add_variables %s %s %s %s %s %s)" % (fam, nm, it, bounds[0], bounds[1], "true" if vt == "integer" else "false")
        return cols, fam, nm, key, g + ng

    def add_variables_keyed(self, e, b, it, ity, g, env):
        """add_variables(<list of index tuples>, name_prefix="<literal>", ...): the variable of an index is V <family> <index components>"""
        pre = b["name_prefix"].value
        if pre not in PREFIX_LITERAL: raise Unsupported("name_prefix %r (only %s)" % (pre, "/".join(PREFIX_LITERAL)), e)
        if ity[0] != "List" or ity[1] not in KEYENC: raise Unsupported("add_variables over indexes of type %s" % show(ity), e)
        K = ity[1]; fam = PREFIX_LITERAL[pre]
        bounds = []
        for k in ("lb", "ub"):
            if k in b:
                t, ty, gg = self.expr(b[k], env); g = g + gg
                if ty not in (INT, NUM): raise Unsupported("bound %s of type %s (only scalars)" % (k, show(ty)), b[k])
                bounds.append(coerce(t, ty, NUM, e))
            else:
                bounds.append({"lb": "(0#1)%Q", "ub": "(1#1)%Q"}[k])
        vt = b.get("var_type")
        while isinstance(vt, ast.Name) and vt.id in env.get("inline", {}): vt = env["inline"][vt.id][2]       # a local bound once to the expression
        if vt is None: isint = "true"
        elif isinstance(vt, ast.Constant) and vt.value in ("integer", "continuous"): isint = "true" if vt.value == "integer" else "false"
        elif isinstance(vt, ast.IfExp) and isinstance(vt.body, ast.Constant) and isinstance(vt.orelse, ast.Constant) \
                and {vt.body.value, vt.orelse.value} == {"integer", "continuous"}:
            t, ty, gg = self.expr(vt.test, env); g = g + gg
            if ty != BOOL: raise Unsupported("var_type condition of type %s" % show(ty), vt)
            isint = t if vt.body.value == "integer" else "(negb %s)" % t
        else: raise Unsupported("var_type of add_variables", e)
        cols = "(py_new_vars %s %s %s %s %s %s)" % (fam, KEYENC[K][0], it, bounds[0], bounds[1], isint)
        return cols, fam, it, ("keyed", K), g

    def emit_call_stmt(self, e, env):
        m = self.self_call(e, env)
        if m == "add_constraint":
            b = self.bind_args(e, ["expr", "name"], {"name": ""})
            t, ty, g = self.expr(b["expr"], env)
            if ty != CON: raise Unsupported("add_constraint of a value of type %s" % show(ty), e)
            if "name" in b:
                _, nty, ng = self.expr(b["name"], env); g = g + ng
                if nty not in (STR, HNAME): raise Unsupported("constraint name of type %s" % show(nty), b["name"])
            return self.guarded(g, "py_assign (fun s => emit_out [] [mk_row %s] s)" % t)
        if m == "add_variables":
            cols, fam, nm, key, g = self.add_variables_call(e, env)
            return self.guarded(g, "py_assign (fun s => emit_out %s [] s)" % cols)
        if m == "set_objective":
            b = self.bind_args(e, ["expr", "sense"], {"sense": "minimize"})
            t, ty, g = self.expr(b["expr"], env)
            if ty not in (LEXP, VAR): raise Unsupported("objective of type %s" % show(ty), e)
            sn = b.get("sense")
            sn = "minimize" if sn is None else (sn.value if isinstance(sn, ast.Constant) else None)
            if sn not in ("minimize", "min", "maximize", "max"): raise Unsupported("objective sense (only a literal minimize / maximize)", e)
            return self.guarded(g, "py_assign (fun s => set_o_obj (Some (%s, %s)) s)" % (coerce(t, ty, LEXP, e), "true" if sn in ("maximize", "max") else "false"))
        wcls = "SolverWrapper" if self.selfobj else self.spec["cls"]
        callee = [k for k, v in TARGETS.items() if v.get("emits") and not v.get("selfobj") and v["cls"] == wcls and v["func"] == m]
        if len(callee) != 1 or callee[0] == self.target:
            raise Unsupported("call of self.%s (not a translated helper)" % m, e)
        callee = callee[0]; cs = TARGETS[callee]
        fs = [n for n in self.wrapper_classdef.body if isinstance(n, ast.FunctionDef) and n.name == m]
        if len(fs) != 1: raise Unsupported("source layout: %s not found exactly once" % m, e)
        names = [a.arg for a in fs[0].args.args]
        if len(names) != len(cs["params"]) or fs[0].args.defaults: raise Unsupported("signature of the callee %s" % m, e)
        b = self.bind_args(e, names[1:], {})
        site = names[1:1 + len(e.args)] + [k.arg for k in e.keywords]        # Python evaluates the arguments in the order written at the call site
        if site != [n for n in names[1:] if n in site]: raise Unsupported("keyword arguments of self.%s not in the order of its signature (evaluation order)" % m, e)
        args = []; g = []
        for n, ty in list(zip(names, cs["params"]))[1:]:
            t, aty, gg = self.expr(b[n], env); g += gg
            if ty in ERASED:
                if aty not in (STR, HNAME): raise Unsupported("argument %r of type %s" % (n, show(aty)), b[n])
                continue
            if ty == HNAME and aty != HNAME and isinstance(b[n], ast.JoinedStr) and len(b[n].values) == 4 \
                    and isinstance(b[n].values[0], ast.Constant) and isinstance(b[n].values[2], ast.Constant) \
                    and (b[n].values[0].value, b[n].values[2].value) in HNAME_FSTRING2 \
                    and all(isinstance(b[n].values[q], ast.FormattedValue) and b[n].values[q].format_spec is None and b[n].values[q].conversion == -1 for q in (1, 3)):
                nd = b[n]; parts = []
                for q in (1, 3):
                    it_, ity_, ig_ = self.expr(nd.values[q].value, env)
                    if ity_ != INT or ig_: raise Unsupported("helper name built from a value of type %s" % show(ity_), nd)
                    parts.append(it_)
                args.append("(V %s (vkey2 (%s, %s)))" % (HNAME_FSTRING2[(nd.values[0].value, nd.values[2].value)], parts[0], parts[1])); continue
            if ty == HNAME and aty != HNAME:
                nd = b[n]
                if not (isinstance(nd, ast.JoinedStr) and len(nd.values) == 2 and isinstance(nd.values[0], ast.Constant) and nd.values[0].value in HNAME_FSTRING
                        and isinstance(nd.values[1], ast.FormattedValue) and nd.values[1].format_spec is None and nd.values[1].conversion == -1):
                    raise Unsupported("argument %r of type %s (helper names: only f\"<%s>{i}\")" % (n, show(aty), "|".join(HNAME_FSTRING)), b[n])
                it_, ity_, ig_ = self.expr(nd.values[1].value, env)
                if ity_ != INT or ig_: raise Unsupported("helper name built from a value of type %s" % show(ity_), nd)
                args.append("(V %s (vkey1 %s))" % (HNAME_FSTRING[nd.values[0].value], it_)); continue
            args.append(coerce(t, aty, ty, b[n]) if aty != ty else t)
            if aty != ty and not (aty in NUMERIC and ty in NUMERIC): raise Unsupported("argument %r of type %s, expected %s" % (n, show(aty), show(ty)), b[n])
        if callee not in self.callees: self.callees.append(callee)
        return self.guarded(g, "py_emit_call (fun s => Gen_%s.fn %s) emit_out" % (callee, " ".join(args)))

    # -------------------------------------------------------------------------------- in-place list growth
    def alias_uses(self, node):
        """names of appended-to lists that `node` uses as a VALUE (so that another reference to the same list object may exist
        afterwards); len(L), L[i], L[a:b], x in L, L + M, f-strings and the receiver of L.append do not alias"""
        out = set()
        def walk(n, direct_ok=True):
            if isinstance(n, ast.Name):
                if n.id in self.appended: out.add(n.id)
                return
            if isinstance(n, ast.JoinedStr): return
            if isinstance(n, ast.Subscript):
                if not isinstance(n.value, ast.Name): walk(n.value)
                walk(n.slice); return
            if isinstance(n, ast.Call):
                if isinstance(n.func, ast.Name) and n.func.id == "len" and len(n.args) == 1 and isinstance(n.args[0], ast.Name): return
                if self.append_call(n) is not None:
                    walk(n.args[0]); return
                if isinstance(n.func, ast.Attribute) and n.func.attr in ("pop", "index") and isinstance(n.func.value, ast.Name):
                    for a_ in n.args: walk(a_)          # the receiver is read / shortened, no new reference to it is created
                    return
            if isinstance(n, ast.Compare) and len(n.ops) == 1 and isinstance(n.ops[0], (ast.In, ast.NotIn)):
                walk(n.left)
                if not isinstance(n.comparators[0], ast.Name): walk(n.comparators[0])
                return
            if isinstance(n, ast.BinOp) and isinstance(n.op, ast.Add):
                for c in (n.left, n.right):
                    if not isinstance(c, ast.Name): walk(c)
                return
            for c in ast.iter_child_nodes(n): walk(c)
        walk(node)
        return out

    def alias_scan(self, stmts):
        out = set()
        for st in stmts:
            for n in ast.walk(st):
                if isinstance(n, ast.Assign): out |= self.alias_uses(n.value)
                elif isinstance(n, ast.Expr): out |= self.alias_uses(n.value)
        return out

    @staticmethod
    def own_breaks(stmts):
        """does this loop body contain a `break` of its own (not of a nested loop)?"""
        for st in stmts:
            if isinstance(st, ast.Break): return True
            if isinstance(st, ast.If) and (Fn.own_breaks(st.body) or Fn.own_breaks(st.orelse)): return True
        return False

    def stable_condition(self, test):
        """a condition whose value cannot change during the call: built from input attributes of self and parameters only"""
        for n in ast.walk(test):
            if isinstance(n, ast.Name) and n.id != self.sparam and n.id not in ("len", "int"):
                if n.id in self.locals or n.id in self.loopvars or n.id not in self.params: return False
            if isinstance(n, ast.Attribute) and self.self_attr(n) is not None and (self.self_attr(n) in self.s_out or self.self_attr(n) not in self.s_in):
                return False
            if isinstance(n, ast.Call) and not (isinstance(n.func, ast.Name) and n.func.id == "len"): return False
        return self.sparam is not None

    def graph_call_stmt(self, e, env):
        """self.add_edge(u, v) / self.add_nodes_from(X) / self.add_edges_from(X) on the graph the method fills"""
        if not (isinstance(e, ast.Call) and self.self_attr(e.func) is not None and self.sparam not in env["bound"]): return None
        m = e.func.attr
        if m not in ("add_edge", "add_node", "add_nodes_from", "add_edges_from"): return None
        if e.keywords: raise Unsupported("keyword arguments (edge / node attributes) of self.%s" % m, e)
        args = [self.expr(a, env) for a in e.args]; g = sum((a[2] for a in args), [])
        tys = [a[1] for a in args]
        if m == "add_edge" and tys == [NODE, NODE]: upd = "py_m_add_edge (o_graph s) %s %s" % (args[0][0], args[1][0])
        elif m == "add_node" and tys == [NODE]: upd = "py_m_add_node (o_graph s) %s" % args[0][0]
        elif m == "add_nodes_from" and len(tys) == 1 and tys[0] in (NODEDATA, List(NODE)): upd = "py_m_add_nodes_from (o_graph s) %s" % args[0][0]
        elif m == "add_edges_from" and len(tys) == 1 and tys[0] in (EDGEDATA, List(EDGE)): upd = "py_m_add_edges_from (o_graph s) %s" % args[0][0]
        else: raise Unsupported("self.%s with arguments of type %s" % (m, ", ".join(show(t) for t in tys)), e)
        return self.guarded(g, "py_assign (fun s => set_o_graph (%s) s)" % upd)

    def stmt(self, s, env):
        """returns (gallina stmt term, falls_through: bool)"""
        if isinstance(s, ast.Expr) and self.append_call(s.value) is not None:
            n, arg = self.append_call(s.value)
            if n not in env["defined"]: raise Unsupported("append to %r where it may be unassigned" % n, s)
            if n in env["aliased"]:
                raise Unsupported("append to the list %r while another reference to the same list object may exist (aliasing is not modelled)" % n, s)
            if env["iterating"] & {n}: raise Unsupported("append to the list %r while iterating over it" % n, s)
            t, ty, g = self.expr(arg, env)
            env["aliased"] |= self.alias_uses(arg)
            lt = env["vt"][n]; kind = "List" if s.value.func.attr == "append" else "Set"
            if lt[0] != kind: raise Unsupported("%s on a value of type %s" % (s.value.func.attr, show(lt)), s)
            ety = join(lt[1], ty, s)
            final = env["final"].get(n, (kind, ety))
            a = self.assign_to(n, "(app (%s s) [%s])" % (self.xname[n], coerce(t, ty, final[1], s)), (kind, ety), env, s)
            return self.guarded(g, a), True
        if isinstance(s, ast.Expr) and self.item_append(s.value) is not None:           # d[k].append(v)
            n, knode, arg = self.item_append(s.value)
            if n not in self.locals or n not in env["defined"]: raise Unsupported("%r[..].append where %r may be unassigned / is not a local" % (n, n), s)
            dty = env["vt"][n]
            if dty[0] != "Dict" or dty[2][0] != "List": raise Unsupported("item append on a value of type %s" % show(dty), s)
            k, kty, kg = self.expr(knode, env); v, vty, vg = self.expr(arg, env)
            if kty != dty[1]: raise Unsupported("dict key of type %s, expected %s" % (show(kty), show(dty[1])), s)
            ety = join(dty[2][1], vty, s)
            if ety[0] in ("List", "Dict", "Set"): raise Unsupported("append of a mutable value into a dict of lists (aliasing is not modelled)", s)
            q = eqb(kty, s); d = "(%s s)" % self.xname[n]
            env["vt"][n] = Dict(dty[1], List(ety))
            return self.guarded(kg + vg + [("(negb (py_dict_mem %s %s %s))" % (q, d, k), "KeyError")],
                                "py_assign (fun s => set_%s (py_dict_set %s %s %s (app (py_dict_get %s %s %s []) [%s])) s)" % (self.xname[n], q, d, k, q, d, k, coerce(v, vty, ety, s))), True
        if isinstance(s, ast.Assign) and len(s.targets) == 1 and self.sub_store(s.targets[0]) is not None:
            kind, n, inode = self.sub_store(s.targets[0])
            if n not in self.locals or n not in env["defined"]: raise Unsupported("store into %r where it may be unassigned / is not a local" % n, s)
            cty = env["vt"][n]
            if kind == "item":                                                   # d[k] = v
                if cty[0] != "Dict": raise Unsupported("item assignment on a value of type %s" % show(cty), s)
                k, kty, kg = self.expr(inode, env); v, vty, vg = self.expr(s.value, env)
                if vty[0] in ("List", "Dict", "Set") and not isinstance(s.value, (ast.List, ast.ListComp)) \
                        and not (isinstance(s.value, ast.Subscript) and isinstance(s.value.slice, ast.Slice)):
                    raise Unsupported("a dict value that is not a fresh list (aliasing is not modelled)", s)
                nk = join(cty[1], kty, s); nv = join(cty[2], vty, s)
                env["vt"][n] = Dict(nk, nv)
                final = env["final"].get(n, Dict(nk, nv))
                return self.guarded(kg + vg, "py_assign (fun s => set_%s (py_dict_set %s (%s s) %s %s) s)" % (self.xname[n], eqb(nk, s), self.xname[n], k, coerce(v, vty, final[2], s))), True
            if cty[0] != "List": raise Unsupported("slice assignment on a value of type %s" % show(cty), s)      # l[i:i] = c
            if n in env["aliased"] or env["iterating"] & {n}: raise Unsupported("slice assignment into %r while another reference may exist / while iterating over it" % n, s)
            i, ity, ig = self.expr(inode, env); c, cty2, cg = self.expr(s.value, env)
            if ity != INT or cty2[0] != "List" or join(cty[1], cty2[1], s) != cty[1]: raise Unsupported("slice assignment l[i:i] = c with i : %s, c : %s" % (show(ity), show(cty2)), s)
            return self.guarded(ig + cg, "py_assign (fun s => set_%s (py_insert_at (%s s) %s %s) s)" % (self.xname[n], self.xname[n], i, c)), True
        if isinstance(s, ast.Assign) and len(s.targets) == 1 and isinstance(s.targets[0], ast.Name) and self.pop_call(s.value) is not None:
            kind, cn, knode = self.pop_call(s.value); x = s.targets[0].id           # x = l.pop() / x = d[k].pop()
            if cn not in self.locals or cn not in env["defined"]: raise Unsupported("pop from %r where it may be unassigned / is not a local" % cn, s)
            if cn in env["aliased"] or env["iterating"] & {cn}: raise Unsupported("pop from %r while another reference may exist / while iterating over it" % cn, s)
            cty = env["vt"][cn]; cf = "(%s s)" % self.xname[cn]
            if kind == "list":
                if cty[0] != "List": raise Unsupported("pop on a value of type %s" % show(cty), s)
                ety = cty[1]; lst = cf; g = [("(py_list_is_empty %s)" % lst, "IndexError")]
                upd = "set_%s (py_pop_rest %s)" % (self.xname[cn], lst)
            else:
                if cty[0] != "Dict" or cty[2][0] != "List": raise Unsupported("item pop on a value of type %s" % show(cty), s)
                k, kty, kg = self.expr(knode, env)
                if kty != cty[1]: raise Unsupported("dict key of type %s, expected %s" % (show(kty), show(cty[1])), s)
                q = eqb(kty, s); ety = cty[2][1]; lst = "(py_dict_get %s %s %s [])" % (q, cf, k)
                g = kg + [("(negb (py_dict_mem %s %s %s))" % (q, cf, k), "KeyError"), ("(py_list_is_empty %s)" % lst, "IndexError")]
                upd = "set_%s (py_dict_set %s %s %s (py_pop_rest %s))" % (self.xname[cn], q, cf, k, lst)
            if ety[0] in ("List", "Dict", "Set") or has_bot(ety): raise Unsupported("pop of an element of type %s" % show(ety), s)
            env["vt"][x] = join(env["vt"].get(x, BOT), ety, s); env["defined"] = env["defined"] | {x}
            # the popped value is read from the state BEFORE the container is shortened
            return self.guarded(g, "py_assign (fun s => let v_ := py_pop_value %s %s in set_%s v_ (%s s))" % (dflt(ety), lst, self.xname[x], upd)), True
        if isinstance(s, ast.Expr):
            if isinstance(s.value, ast.Constant) and isinstance(s.value.value, str): return None, True   # docstring / string statement
            if self.emits and self.self_call(s.value, env) is not None:
                return self.emit_call_stmt(s.value, env), True
            sm = self.self_method_call(s.value, env)
            if sm is not None: return sm, True
            if self.builds and self.graph_call_stmt(s.value, env) is not None:
                return self.graph_call_stmt(s.value, env), True
            if is_logging_call(s.value):
                g = self.dropped_guards(s.value, env)
                return (self.guarded(g, "py_skip") if g else None), True
            raise Unsupported("expression statement", s)
        if isinstance(s, ast.Pass): return None, True
        if isinstance(s, ast.Break):
            if not env["inloop"]: raise Unsupported("break outside a loop", s)
            return "py_raise BreakSignal", False
        if isinstance(s, ast.While):
            t, g = self.truth(s.test, env)
            d0 = env["defined"]; inloop0 = env["inloop"]
            env["inloop"] = True; env["aliased"] |= self.alias_scan(s.body)
            b, _ = self.block(s.body, env)
            env["defined"] = d0; env["inloop"] = inloop0
            if g:       # the condition may raise: it is evaluated at the head of every iteration, leaving the loop like a `break` when it is false
                head = self.guarded(g, "py_if (fun s => (negb %s))\n%s\n%s" % (t, self.ind("py_raise BreakSignal"), self.ind("py_skip")))
                return "py_while fuel (fun s => true)\n%s" % self.ind("py_seq\n%s\n%s" % (self.ind(head), self.ind(b))), True
            return "py_while fuel (fun s => %s)\n%s" % (t, self.ind(b)), True
        if isinstance(s, ast.Assign) and len(s.targets) == 1 and self.self_attr(s.targets[0]) is not None and self.s_in.get(self.self_attr(s.targets[0])) == WRAP:
            # self.solver = sw.SolverWrapper(**self.solver_options): a fresh, empty wrapper — exactly the state the emitter starts from.
            # Only as the first statement (nothing emitted before it can be lost), with the module imported under that name.
            body = [x for x in self.fdef.body if not (isinstance(x, ast.Expr) and isinstance(x.value, ast.Constant) and isinstance(x.value.value, str))]
            if not (self.emits and body and body[0] is s and ast.unparse(s.value) == "sw.SolverWrapper(**self.solver_options)"
                    and self.module_imports.get("sw") == "flowpaths.utils.solverwrapper"):
                raise Unsupported("assignment to the wrapper attribute (only `self.solver = sw.SolverWrapper(**self.solver_options)` as the first statement)", s)
            return None, True
        if isinstance(s, ast.Assign) and len(s.targets) == 1 and self.self_attr(s.targets[0]) in self.s_out \
                and not (self.emits and self.self_call(s.value, env) == "add_variables"):
            a = self.self_attr(s.targets[0]); want = self.s_out[a]
            t, ty, g = self.expr(s.value, env)
            if join(ty, want, s) != want: raise Unsupported("self.%s assigned a value of type %s, the embedding declares %s" % (a, show(ty), show(want)), s)
            env["defined"] = env["defined"] | {"self." + a}
            return self.guarded(g, "py_assign (fun s => set_at_%s %s s)" % (a, coerce(t, ty, want, s))), True
        if isinstance(s, ast.Assign) and self.emits and self.self_call(s.value, env) == "add_variables":
            cols, fam, nm, key, g = self.add_variables_call(s.value, env)
            if isinstance(key, tuple) and key[0] == "keyed":
                vty = VarDictK(fam, key[1]); val = nm
            else:
                vty = VarDict(fam, key); val = "(%s, %s)" % (fam, nm)
            a_out = self.self_attr(s.targets[0]) if len(s.targets) == 1 else None
            if a_out in self.s_out:
                if self.s_out[a_out] != vty: raise Unsupported("self.%s assigned variables of type %s, the embedding declares %s" % (a_out, show(vty), show(self.s_out[a_out])), s)
                env["defined"] = env["defined"] | {"self." + a_out}
                a = "py_assign (fun s => set_at_%s %s s)" % (a_out, val)
            elif len(s.targets) == 1 and isinstance(s.targets[0], ast.Name):
                a = self.assign_to(s.targets[0].id, val, vty, env, s)
            else: raise Unsupported("assignment target", s)
            return self.guarded(g, "py_seq\n%s\n%s" % (self.ind("py_assign (fun s => emit_out %s [] s)" % cols), self.ind(a))), True
        if isinstance(s, ast.Assign) and self.inline_ok and s.targets[0].id not in self.no_inline and s.targets[0].id not in self.params \
                and self.plain_assigns.get(s.targets[0].id) == 1 and s.targets[0].id not in self.mutated:
            # `name = expr`, the only binding of the name, expr free of the encoder's own state: every later read IS that value (let-binding).
            # The partial operations of expr stay where Python performs them: here.
            n = s.targets[0].id
            t, ty, g = self.expr(s.value, env)
            if re.search(r"[ (]s\)", t) or has_bot(ty) or ty[0] in ("VarDict", "VarDictK"):
                self.no_inline.add(n); raise Restart()
            env["inline"] = dict(env.get("inline", {}), **{n: (t, ty, s.value)})
            env["defined"] = env["defined"] | {n}; self.inlined.add(n)
            return (self.guarded(g, "py_skip") if g else None), True
        if isinstance(s, ast.Assign):
            t, ty, g = self.expr(s.value, env)
            n = s.targets[0].id
            uses = self.alias_uses(s.value)
            env["aliased"] = (env["aliased"] | uses) - ({n} if not (isinstance(s.value, ast.Name) and s.value.id in self.appended) else set())
            if isinstance(s.value, ast.Name) and s.value.id in self.appended and n in self.appended: env["aliased"] |= {n}
            return self.guarded(g, self.assign_to(n, t, ty, env, s)), True
        if isinstance(s, ast.AugAssign):
            op = {ast.Add: ast.Add, ast.Sub: ast.Sub}.get(type(s.op))
            if op is None: raise Unsupported("augmented operator %s" % type(s.op).__name__, s)
            e = ast.BinOp(left=ast.Name(id=s.target.id, ctx=ast.Load()), op=op(), right=s.value)
            ast.copy_location(e, s); ast.copy_location(e.left, s)
            t, ty, g = self.expr(e, env)
            return self.guarded(g, self.assign_to(s.target.id, t, ty, env, s)), True
        if isinstance(s, ast.Continue):
            if not env["inloop"]: raise Unsupported("continue outside a loop", s)
            return "py_continue", False
        if isinstance(s, ast.Return):
            if s.value is None:
                if not (self.emits or self.selfobj) or self.spec["ret"] != NONE: raise Unsupported("bare return", s)
                env["ret"][0] = join(env["ret"][0], NONE, s)
                return "py_return (fun s => tt)", False
            t, ty, g = self.expr(s.value, env)
            env["ret"][0] = join(env["ret"][0], ty, s)
            return self.guarded(g, "py_return (fun s => %s)" % coerce(t, ty, env["final_ret"] or env["ret"][0], s)), False
        if isinstance(s, ast.Raise):
            ex = s.exc
            if s.cause is not None or ex is None: raise Unsupported("raise form", s)
            name = ex.func.id if isinstance(ex, ast.Call) and isinstance(ex.func, ast.Name) else (ex.id if isinstance(ex, ast.Name) else None)
            if name not in EXNS: raise Unsupported("raise of %s (only %s)" % (name, "/".join(EXNS)), s)
            return self.guarded(self.dropped_guards(ex, env), "py_raise %s" % EXNS[name]), False      # the message text is dropped
        if isinstance(s, ast.If) and getattr(s, "_catch_return", False):        # the expanded body of a method call: its `return` ends the callee only
            ret0 = env["ret"][0]
            b, _ = self.block(s.body, env)
            env["ret"][0] = ret0
            return "py_catch_return\n%s" % self.ind(b), True
        if isinstance(s, ast.If):
            t, g = self.truth(s.test, env)
            d0 = env["defined"]; al0 = set(env["aliased"])
            # `self.<input> is None` / `is not None`: the other branch knows the value
            nar = None
            if isinstance(s.test, ast.Compare) and len(s.test.ops) == 1 and isinstance(s.test.ops[0], (ast.Is, ast.IsNot)) \
                    and isinstance(s.test.comparators[0], ast.Constant) and s.test.comparators[0].value is None \
                    and self.self_attr(s.test.left) in self.s_in and self.s_in[self.self_attr(s.test.left)][0] == "Opt" \
                    and self.self_attr(s.test.left) not in self.s_out:
                nar = ("self." + self.self_attr(s.test.left), isinstance(s.test.ops[0], ast.IsNot))
            narrow0 = dict(env.get("narrow", {}))
            # an earlier `if <same stable condition>:` assigned attributes / locals: they are assigned here as well
            ck = self.cond_key(s.test); ckey = (ck[0], ck[1]) if ck is not None else None
            if ckey is not None and ckey in env["cond_defs"]: env["defined"] = env["defined"] | env["cond_defs"][ckey]
            if nar and nar[1]: env["narrow"] = dict(narrow0, **{nar[0]: True})
            a, fa = self.block(s.body, env); da = env["defined"]; ala = env["aliased"]
            if ckey is not None and not s.orelse: env["cond_defs"][ckey] = env["cond_defs"].get(ckey, set()) | (da - d0)
            env["defined"] = d0; env["aliased"] = set(al0); env["narrow"] = dict(narrow0)
            if nar and not nar[1]: env["narrow"] = dict(narrow0, **{nar[0]: True})
            b, fb = self.block(s.orelse, env); db = env["defined"]
            env["narrow"] = narrow0
            if nar and not nar[1] and not fa and not s.orelse:          # `if self.x is None: return / raise`: afterwards self.x is not None
                env["narrow"] = dict(narrow0, **{nar[0]: True})
            env["aliased"] = env["aliased"] | ala
            env["defined"] = (da & db) if (fa and fb) else (da if fa else (db if fb else da | db))
            return self.guarded(g, "py_if (fun s => %s)\n%s\n%s" % (t, self.ind(a), self.ind(b))), fa or fb
        if isinstance(s, ast.For):
            t, ty, g = self.expr(s.iter, env)
            if ty[0] != "List": raise Unsupported("iteration over a value of type %s (only lists; set order is not modelled)" % show(ty), s.iter)
            el = ty[1]
            inames = self.for_names[id(s)]
            if isinstance(s.target, ast.Name):
                names = [s.target.id]; tys = [el]; pat = inames[0]
            else:
                names = [x.id for x in s.target.elts]
                if el[0] != "Tuple" or len(el) - 1 != len(names): raise Unsupported("unpacking %d names from %s" % (len(names), show(el)), s)
                tys = list(el[1:]); pat = "'(" + ", ".join(inames) + ")"
            for n in names:
                if n in env["bound"]: raise Unsupported("loop variable %r rebound by a nested loop" % n, s)
            d0 = env["defined"]; bound0 = dict(env["bound"]); inloop0 = env["inloop"]; it0 = set(env["iterating"])
            key = self.src_key(s.iter) if len(names) == 1 else None
            env["bound"].update({n: (i, t, key) for n, i, t in zip(names, inames, tys)}); env["inloop"] = True
            env["aliased"] |= self.alias_scan(s.body)
            if isinstance(s.iter, ast.Name): env["iterating"] |= {s.iter.id}
            b, _ = self.block(s.body, env)
            env["defined"] = d0; env["bound"] = bound0; env["inloop"] = inloop0; env["iterating"] = it0
            loop = "py_for_b" if self.own_breaks(s.body) else "py_for"
            return self.guarded(g, "%s (fun s => %s) (fun %s =>\n%s)" % (loop, t, pat, self.ind(b))), True
        raise Unsupported("statement node %s" % type(s).__name__, s)

    def ind(self, txt):
        return "\n".join("  " + l for l in ("(" + txt + ")").splitlines())

    def stable_iter(self, node):
        """an iterated expression that denotes the same list every time it is evaluated during the call: range / len of input attributes"""
        for n in ast.walk(node):
            if isinstance(n, ast.Name) and n.id != self.sparam and n.id not in ("len", "range") \
                    and not (n.id in self.locals and self.plain_assigns.get(n.id) == 1 and n.id not in self.mutated and n.id not in self.loop_assigned and n.id not in self.params) \
                    and not (n.id in self.params and n.id not in self.locals and self.ptype.get(n.id) == INT): return False
            if isinstance(n, ast.Attribute) and (self.self_attr(n) is None or self.self_attr(n) in self.s_out or self.self_attr(n) not in self.s_in): return False
            if isinstance(n, ast.Call) and not (isinstance(n.func, ast.Name) and n.func.id in ("len", "range")): return False
            if isinstance(n, (ast.Subscript, ast.ListComp, ast.GeneratorExp, ast.Lambda)): return False
        return self.sparam is not None

    def block(self, stmts, env):
        terms = []; falls = True
        pl0 = dict(env.get("postloop", {})); in0 = dict(env.get("inline", {}))
        try:
            return self.block_(stmts, env)
        finally:
            env["postloop"] = pl0; env["inline"] = in0

    def block_(self, stmts, env):
        terms = []; falls = True
        for s in stmts:
            t, f = self.stmt(s, env)
            if isinstance(s, ast.For) and self.stable_iter(s.iter) and not self.own_breaks(s.body):
                pl = {k: list(v) for k, v in env.get("postloop", {}).items()}
                f = s; conds = []
                while isinstance(f, ast.For) and self.stable_iter(f.iter) and not self.own_breaks(f.body):
                    try: it, _, ig = self.expr(f.iter, env)
                    except Unsupported: break
                    if ig: break
                    conds = conds + [it]
                    if isinstance(f.target, ast.Name):       # after the loop the name is bound iff every list on the way to it was non-empty
                        pl.setdefault(f.target.id, []).append(({id(f)}, list(conds)))
                    f = f.body[0] if f.body else None      # a loop that is the FIRST statement of the body runs whenever the body does
                env["postloop"] = pl
            if t is not None: terms.append(t)
            if not f: falls = False        # later statements are dead code but are still translated
        if not terms: return "py_skip", falls
        out = terms[-1]
        for t in reversed(terms[:-1]):
            out = "py_seq\n%s\n%s" % (self.ind(t), self.ind(out))
        return out, falls

    # -------------------------------------------------------------------------------- whole function
    def translate(self):
        self.inline_ok = bool(self.emits)        # the emitters: encoders of the model classes and the wrapper helpers
        self.no_inline = set()
        for _ in range(len(self.locals) + 2):
            try:
                self.inlined = set()
                return self.translate_once()
            except Restart:
                continue
        raise Unsupported("inlining of single-assignment locals did not stabilise", self.fdef)

    def translate_once(self):
        vt = {p: self.ptype[p] for p in self.state_params}
        ret = BOT
        final = {}; final_ret = None
        for rnd in range(8):
            env = dict(vt=dict(vt), defined=set(self.state_params) | {"self." + a for a in self.s_out if a in self.s_in}, bound={}, inloop=False, ret=[ret], final=final, final_ret=final_ret, ncomp=[0], aliased=set(), iterating=set(), cond_defs={}, narrow={}, postloop={})
            body, falls = self.block(self.fdef.body, env)
            if env["vt"] == vt and env["ret"][0] == ret:
                break
            vt = env["vt"]; ret = env["ret"][0]
        else:
            raise Unsupported("type inference did not stabilise", self.fdef)
        fields = [n for n in self.locals if n not in self.inlined]
        for n in fields:
            if n not in vt or has_bot(vt[n]):
                raise Unsupported("type of local %r could not be determined (%s)" % (n, show(vt.get(n, BOT))), self.fdef)
        if ret == BOT and (self.emits or self.selfobj): ret = NONE        # an emitter falls off its end (returns None)
        if ret == BOT: raise Unsupported("function has no return statement", self.fdef)
        if ret != self.spec["ret"]:
            raise Unsupported("return type %s, the typed embedding declares %s" % (show(ret), show(self.spec["ret"])), self.fdef)
        # final field numbering: by Gallina type, then by first assignment — independent of the Python names and of the
        # order of assignments to locals of different types
        order = sorted(fields, key=lambda n: (gty(vt[n]), self.locals.index(n)))
        self.xname = {n: "x%d" % i for i, n in enumerate(order)}
        self.locals_in_field_order = order
        env = dict(vt=dict(vt), defined=set(self.state_params) | {"self." + a for a in self.s_out if a in self.s_in}, bound={}, inloop=False, ret=[ret], final=vt, final_ret=ret, ncomp=[0], aliased=set(), iterating=set(), cond_defs={}, narrow={}, postloop={})
        self.callees = []
        body, falls = self.block(self.fdef.body, env)
        if env["vt"] != vt: raise Unsupported("type inference unstable in the emission pass", self.fdef)
        return self.emit(vt, ret, body)

    def emit(self, vt, ret, body):
        sp = self.spec
        L = []
        L.append("(* GENERATED by harness/translate.py from %s :: %s%s — do not edit." % (sp["file"], (sp["cls"] + "." if sp["cls"] else ""), sp["func"]))
        L.append("   parameters: " + ", ".join("%s = %s : %s" % (self.aname[p], p, show(self.ptype[p])) for p in self.params))
        L.append("   locals:     " + (", ".join("%s = %s : %s" % (self.xname[n], n, show(vt[n])[:60]) for n in self.locals_in_field_order) or "(none)"))
        L.append("   loop vars:  " + (", ".join("i%d = %s" % (i, n) for i, n in enumerate(self.loopvars)) or "(none)") + " *)")
        L.append("From Coq Require Import List NArith ZArith QArith Bool.")
        L.append("Import ListNotations.")
        if self.emits and self.selfobj:
            L.append("From FP Require Import Lin PathEnc PyRt PyLin.")
            for c in self.callees:
                L.append("From FPGen Require Gen_%s." % c)
        elif self.emits:
            L.append("From FP Require Import Lin PyRt PyLin.")
            for c in self.callees:
                L.append("From FPGen Require Gen_%s." % c)
        else:
            lin = set(re.findall(r"^(?:Definition|Fixpoint)\s+(\w+)", open(os.path.join(os.path.dirname(os.path.dirname(os.path.abspath(__file__))), "coq", "theories", "PyLin.v")).read(), re.M))
            L.append("From FP Require Import PyRt." if not (lin & set(re.findall(r"\w+", body))) else "From FP Require Import Lin PyRt PyLin.")
        L.append("")
        order = self.locals_in_field_order
        fields = [(self.xname[n], gty(vt[n])) for n in order]
        if self.emits:       # the columns and rows handed to the solver so far, in order
            fields += [("o_cols", "(list col)"), ("o_rows", "(list row)")]
        if self.uses_objective: fields += [("o_obj", "(option (lexp * bool))")]      # the objective last set: expression, maximise?
        if self.builds: fields += [("o_graph", "mgraph")]
        for a, ty in (self.selfobj["outputs"] if self.selfobj else []): fields += [("at_" + a, gty(ty))]
        fields = fields or [("x_unit", "unit")]
        rty = "unit" if ret == NONE else gty(ret)
        L.append("Record st := mk_st { " + "; ".join("%s : %s" % f for f in fields) + " }.")
        for i, (f, ty) in enumerate(fields):
            args = " ".join("v_" if j == i else "(%s s)" % g for j, (g, _) in enumerate(fields))
            L.append("Definition set_%s (v_ : %s) (s : st) : st := mk_st %s." % (f, ty, args))
        if self.emits:
            L.append("Definition emit_out (cs : list col) (rs : list row) (s : st) : st := set_o_rows (o_rows s ++ rs) (set_o_cols (o_cols s ++ cs) s).")
            # for the proof scripts: reduce projections of updated states, whatever fields this version of the source needs
            L.append("Ltac gen_simpl := cbn [%s emit_out fst snd]." % " ".join([f for f, _ in fields] + ["set_" + f for f, _ in fields]))
            L.append("Tactic Notation \"gen_simpl\" \"in\" hyp(H) := cbn [%s emit_out fst snd] in H." % " ".join([f for f, _ in fields] + ["set_" + f for f, _ in fields]))
        else:
            L.append("Ltac gen_simpl := cbn [%s fst snd]." % " ".join([f for f, _ in fields] + ["set_" + f for f, _ in fields]))
            L.append("Tactic Notation \"gen_simpl\" \"in\" hyp(H) := cbn [%s fst snd] in H." % " ".join([f for f, _ in fields] + ["set_" + f for f, _ in fields]))
        gparams = [(self.aname[p], gty(self.ptype[p])) for p in self.params if self.ptype[p] not in ERASED]
        gparams += [("in_" + a, gty(ty)) for a, ty in (self.selfobj["inputs"] if self.selfobj else []) if ty not in ERASED]
        gparams += [("in_" + nm, gty(ty)) for nm, ty in self.s_extra]
        gparams += [("in_" + nm, gty(ty)) for nm, ty in self.s_calls.values()]
        if self.uses_fuel: gparams = [("fuel", "nat")] + gparams
        binder = " ".join("(%s : %s)" % gp for gp in gparams)
        names = " ".join(gp[0] for gp in gparams)
        init = []
        for n in order:
            init.append(self.aname[n] if n in self.state_params else dflt(vt[n]))
        if self.emits: init += ["[]", "[]"]
        if self.uses_objective: init += ["None"]
        if self.builds: init += ["py_m_empty"]
        for a, ty in (self.selfobj["outputs"] if self.selfobj else []): init += ["in_" + a if a in self.s_in else dflt(ty)]
        if not init: init = ["tt"]
        L.append("Definition init_st %s : st := mk_st %s." % (binder, " ".join(init)))
        L.append("")
        L.append("Definition body %s : stmt st %s :=" % (binder, rty))
        L.append(self.ind(body) + ".")
        L.append("")
        if self.emits and self.selfobj:
            outs = ["o_cols", "o_rows"] + (["o_obj"] if self.uses_objective else []) + ["at_" + a for a, _ in self.selfobj["outputs"]]
            L.append("Definition fn %s :=" % binder)
            L.append("  let r := body %s (init_st %s) in (%s)." % (names, names, ", ".join(["py_outcome (fst r)"] + ["%s (snd r)" % o for o in outs])))
        elif self.emits:
            L.append("Definition fn %s : result %s * list col * list row :=" % (binder, rty))
            L.append("  let r := body %s (init_st %s) in (py_outcome (fst r), o_cols (snd r), o_rows (snd r))." % (names, names))
        elif self.selfobj:     # the outcome, the graph the method filled, and the attributes it assigned
            outs = (["o_graph"] if self.builds else []) + ["at_" + a for a, _ in self.selfobj["outputs"]]
            L.append("Definition fn %s :=" % binder)
            L.append("  let r := body %s (init_st %s) in (%s)." % (names, names, ", ".join(["py_outcome (fst r)"] + ["%s (snd r)" % o for o in outs])))
        else:
            L.append("Definition fn %s : result %s := py_run (body %s) (init_st %s)." % (binder, rty, names, names))
        L.append("")
        return "\n".join(L)


def translate(target, repo=None):
    repo = repo or os.environ.get("VERIF_REPO", "/repo")
    return Fn(target, repo).translate()


# the self test translates its bodies as a function returning an int, so that a body is rejected for its construct, not its type
TARGETS["_selftest"] = dict(file="flowpaths/utils/graphutils.py", cls=None, func="max_occurrence",
                            params=[List(EDGE), List(List(NODE)), Dict(EDGE, NUM)], defaults=["{}"], ret=INT)
# bodies that MUST be rejected (fail-closed self test; each replaces the body of max_occurrence(seq, paths_in_DAG, edge_lengths={}))
REJECT = {
    "while/else": "i = 0\nwhile i < 3:\n    i += 1\nelse:\n    i = 0\nreturn i",
    "while with a partial condition": "i = 0\nwhile edge_lengths[(0, 0)] > 0:\n    i += 1\nreturn i",
    "append to an aliased list": "a = []\nb = []\nfor p in paths_in_DAG:\n    b.append(a)\n    a.append(0)\nreturn 0",
    "append through a second name": "a = []\nb = a\nb.append(0)\na.append(1)\nreturn len(a)",
    "append while iterating": "a = [0]\nfor x in a:\n    a.append(x)\nreturn 0",
    "append to a parameter": "seq.append((0, 0))\nreturn 0",
    "other list method": "a = [0]\na.pop()\nreturn 0",
    "try": "try:\n    r = 0\nexcept Exception:\n    r = 1\nreturn r",
    "bare return": "return",
    "chained assignment": "a = b = 0\nreturn a",
    "tuple assignment": "a, b = 0, 1\nreturn a",
    "dict of lists index": "r = 0\nfor p in paths_in_DAG:\n    r = paths_in_DAG[0][0]\nreturn 0",
    "slice with a step": "r = seq[::2]\nreturn 0",
    "sum()": "return sum(edge_lengths.get(e, 1) for e in seq)",
    "any()": "r = 0\nif any(e in seq for e in seq):\n    r = 1\nreturn r",
    "comprehension with four generators": "s = [0 for a in seq for b in seq for c in seq for d in seq]\nreturn 0",
    "loop variable after a loop whose sibling also binds it differently": "for e in seq:\n    pass\nfor e in paths_in_DAG:\n    pass\nraise ValueError(f'{e}')",
    "partial operation in one of two comprehension filters": "s = [e for e in seq if edge_lengths[e] > 0 if e in edge_lengths]\nreturn 0",
    "assignment to an attribute of a parameter": "seq.solver = 0\nreturn 0",
    "comprehension filter with two generators": "s = [e for p in paths_in_DAG for e in seq if e in edge_lengths]\nreturn 0",
    "comprehension filter that is not a boolean": "s = [e for e in seq if len(seq)]\nreturn 0",
    "loop variable in an f-string after a loop over a local list": "for e in seq:\n    pass\nraise ValueError(f'{e}')",
    "unary minus on a list": "s = -seq\nreturn 0",
    "dict comprehension": "s = {e: 1 for e in seq}\nreturn 0",
    "partial operation in the second generator": "s = [f for e in seq for f in paths_in_DAG[0]]\nreturn 0",
    "filtered pairs": "r = 0\nfor p in paths_in_DAG:\n    s = [(p[i], p[i + 1]) for i in range(len(p) - 1) if i]\nreturn r",
    "lambda": "f = lambda x: x\nreturn 0",
    "floor division": "r = 2\nr = r // 2\nreturn 0",
    "modulo": "r = 7\nr = r % 2\nreturn 0",
    "power of a variable": "r = 2\nr = r ** 2\nreturn 0",
    "math call": "r = ceil(2)\nreturn 0",
    "self call in a non-emitter": "seq.add_constraint(0)\nreturn 0",
    "float constant": "r = 0.5\nreturn r",
    "float(inf)": "r = float(\"inf\")\nreturn 0",
    "truthiness of a number": "r = 0\nif len(seq):\n    r = 1\nreturn r",
    "pop from a parameter": "x = seq.pop()\nreturn 0",
    "item assignment into a parameter": "edge_lengths[(0, 0)] = 1\nreturn 0",
    "slice assignment with different bounds": "a = [0]\na[0:1] = [1]\nreturn 0",
    "dict value that is not a fresh list": "a = [0]\nd = {}\nd[0] = a\nreturn 0",
    "partial operation in a conditional expression": "r = edge_lengths[(0, 0)] if len(seq) > 0 else 0\nreturn 0",
    "chained comparison": "r = 0\nif 0 < len(seq) < 3:\n    r = 1\nreturn r",
    "unknown call": "r = divmod(4, 2)\nreturn 0",
    "method call": "seq.append((0, 0))\nreturn 0",
    "attribute": "r = seq.x\nreturn 0",
    "global name": "return nx",
    "unbound local": "for p in paths_in_DAG:\n    r = 0\nreturn r",
    "loop var after loop": "r = 0\nfor p in paths_in_DAG:\n    r = 0\nreturn len(p)",
    "loop var assigned": "r = 0\nfor p in paths_in_DAG:\n    p = []\nreturn r",
    "nested rebinding": "r = 0\nfor p in paths_in_DAG:\n    for p in paths_in_DAG:\n        r = 1\nreturn r",
    "set iteration": "r = 0\ns = set(seq)\nfor e in s:\n    r += 1\nreturn r",
    "len of set": "s = set(seq)\nreturn len(s)",
    "for else": "r = 0\nfor p in paths_in_DAG:\n    r = 1\nelse:\n    r = 2\nreturn r",
    "raise other": "raise IndexError(\"x\")",
    "raise from": "raise ValueError(\"x\") from None",
    "assert": "assert seq is not None\nreturn 0",
    "with": "with open(\"f\") as f:\n    pass\nreturn 0",
    "import": "import math\nreturn 0",
    "nested def": "def g():\n    return 0\nreturn 0",
    "print": "print(seq)\nreturn 0",
    "walrus": "r = 0\nif (n := len(seq)) > 0:\n    r = n\nreturn r",
    "and of a non-boolean": "r = 0\nfor e in seq:\n    if e in edge_lengths and edge_lengths[e]:\n        r = 1\nreturn r",
    "mixed types": "r = 0\nr = seq\nreturn 0",
    "wrong return type": "return seq",
    "no return": "r = 0",
    "del": "r = 0\ndel r\nreturn 0",
    "starred": "r = [*seq]\nreturn 0",
    "keyword to builtin": "return max(0, 1, key=None)",
    "isclose": "r = 0\nif not math.isclose(r, 0):\n    r = 1\nreturn r",
}


# bodies that must be rejected as replacement of SolverWrapper.add_binary_continuous_product_constraint (emitter subset),
# and edits of the wrapper primitives that must make the translation of every emitter fail
REJECT_EMIT = {
    "direct solver access": "self.solver.addConstr(product_var <= ub * binary_var)",
    "strict inequality": "self.add_constraint(product_var < ub * binary_var, name=name)",
    "product of variables": "self.add_constraint(product_var * binary_var <= ub, name=name)",
    "division of an expression": "self.add_constraint(product_var / 2 <= ub, name=name)",
    "boolean instead of a constraint": "self.add_constraint(lb <= ub, name=name)",
    "floor(log2())": "n = floor(log2(ub))",
    "ceil of something else": "n = ceil(ub)",
    "log2 alone": "n = log2(ub)",
    "arithmetic on the bit count": "n = ceil(log2(ub))\nm = n + 1",
    "backend test": "if self.external_solver == 'highs':\n    self.add_constraint(product_var <= ub, name=name)",
    "other wrapper method": "self.optimize()",
    "objective with a computed sense": "self.set_objective(product_var + 0, sense=name)",
    "literal name_prefix": "v = self.add_variables([0], name_prefix='foo', lb=0, ub=1)",
    "name_prefix from a plain string": "v = self.add_variables(list(range(2)), name_prefix=f'binary_{name}', lb=0, ub=1)",
    "list literal": "for r in [product_var]:\n    self.add_constraint(r <= ub, name=name)",
    "return value": "self.add_constraint(product_var <= ub, name=name)\nreturn product_var",
    "constraints kept in a list": "ks = [product_var <= ub]\nfor k in ks:\n    self.add_constraint(k, name=name)",
    "extra argument": "self.add_constraint(product_var <= ub, name, 3)",
    "chained constraint": "self.add_constraint(lb <= product_var <= ub, name=name)",
}
PRIMITIVE_EDITS = {
    "add_constraint drops the name": ("self.solver.addConstr(expr, name=name)", "self.solver.addConstr(expr)", 2),
    "quicksum via python sum": ("return self.solver.qsum(expr)", "return sum(expr)", 1),
    "add_variables bounds swapped": ("lb=lbs, \n                ub=ubs, ", "lb=ubs, \n                ub=lbs, ", 1),
    "add_variables integer type map": ('"integer": highspy.HighsVarType.kInteger', '"integer": highspy.HighsVarType.kContinuous', 1),
    "scalar bound rounded": ("return [float(param)] * len(indexes)", "return [float(round(param))] * len(indexes)", 1),
}


def selftest_emit(repo=None):
    """fail-closed self test of the emitter subset on a scratch copy of the CURRENT solverwrapper.py; (rejected, total, wrongly accepted).
    If the current source does not have the expected layout the test cannot be set up: (0, 0, [])."""
    import tempfile, shutil
    repo = repo or os.environ.get("VERIF_REPO", "/repo")
    T = TARGETS["binprod"]
    try:
        src = open(os.path.join(repo, T["file"])).read()
        tree = ast.parse(src)
        cls = [n for n in tree.body if isinstance(n, ast.ClassDef) and n.name == T["cls"]][0]
        f = [n for n in cls.body if isinstance(n, ast.FunctionDef) and n.name == T["func"]][0]
        lines = src.splitlines(keepends=True)
        first = f.body[1].lineno if isinstance(f.body[0], ast.Expr) and isinstance(f.body[0].value, ast.Constant) else f.body[0].lineno
        head, tail = lines[:first - 1], lines[f.end_lineno:]
        translate("binprod", repo)
    except Exception:
        return 0, 0, []
    d = tempfile.mkdtemp(prefix="translate_selftest_")
    bad = []; total = 0
    try:
        path = os.path.join(d, T["file"]); os.makedirs(os.path.dirname(path))
        for k, body in REJECT_EMIT.items():
            total += 1
            open(path, "w").write("".join(head) + "".join("        " + l + "\n" for l in body.splitlines()) + "\n" + "".join(tail))
            try:
                translate("binprod", d); bad.append(k)
            except Unsupported:
                pass
        for k, (old, new, cnt) in PRIMITIVE_EDITS.items():
            if src.count(old) != cnt: continue
            total += 1
            open(path, "w").write(src.replace(old, new, 1))
            try:
                translate("binprod", d); bad.append(k)
            except Unsupported:
                pass
    finally:
        shutil.rmtree(d, ignore_errors=True)
    return total - len(bad), total, bad


def selftest():
    """every body in REJECT must raise Unsupported; returns (rejected, total, list of wrongly accepted)"""
    import tempfile, shutil
    d = tempfile.mkdtemp(prefix="translate_selftest_")
    bad = []
    try:
        os.makedirs(os.path.join(d, "flowpaths", "utils"))
        for k, body in REJECT.items():
            src = "def max_occurrence(seq, paths_in_DAG, edge_lengths: dict = {}) -> int:\n" + "\n".join("    " + l for l in body.splitlines()) + "\n"
            open(os.path.join(d, "flowpaths", "utils", "graphutils.py"), "w").write(src)
            try:
                translate("_selftest", d); bad.append(k)
            except Unsupported:
                pass
    finally:
        shutil.rmtree(d, ignore_errors=True)
    return len(REJECT) - len(bad), len(REJECT), bad


def main(argv):
    if argv == ["--selftest"]:
        ok, n, bad = selftest()
        ok2, n2, bad2 = selftest_emit()
        print("fail-closed self test: %d/%d unsupported bodies rejected, emitter subset %d/%d%s" % (ok, n, ok2, n2, ("; WRONGLY ACCEPTED: %s" % (bad + bad2)) if bad + bad2 else ""))
        return 0 if not (bad or bad2) else 4
    out = None; repo = None; args = []
    i = 0
    while i < len(argv):
        if argv[i] == "-o": out = argv[i + 1]; i += 2
        elif argv[i] == "--repo": repo = argv[i + 1]; i += 2
        else: args.append(argv[i]); i += 1
    if len(args) != 1 or args[0] not in TARGETS:
        print("usage: translate.py <%s> [--repo DIR] [-o FILE]" % "|".join(TARGETS), file=sys.stderr); return 2
    try:
        txt = translate(args[0], repo)
    except Unsupported as e:
        print("TRANSLATION FAILED (%s): %s" % (args[0], e), file=sys.stderr); return 3
    except Exception as e:      # anything unexpected is a failure, never a guess
        print("TRANSLATION FAILED (%s): internal error %r" % (args[0], e), file=sys.stderr); return 3
    if out: open(out, "w").write(txt)
    else: sys.stdout.write(txt)
    return 0


if __name__ == "__main__":
    sys.exit(main(sys.argv[1:]))
