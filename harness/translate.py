#!/venv/bin/python
"""translate.py — FAIL-CLOSED translator from a restricted Python subset to Gallina.

    translate.py <target> [--repo DIR] [-o FILE]        exit 0: Gallina text written; exit 3: unsupported construct

The function named by <target> (table TARGETS: file, class, function, typed embedding of the parameters) is
parsed with `ast` from the CURRENT source under --repo / $VERIF_REPO / /repo and turned into a module
Gen_<target>.v over the runtime coq/theories/PyRt.v:

    Record st       one field x<i> per assigned local (numbered by Gallina type, then by first assignment, so renaming
                    a local does not change the output); parameters are a<i>, loop variables i<k>
    body            the statement list as PyRt combinators (py_seq / py_assign / py_if / py_for / py_continue /
                    py_return / py_raise / py_guard) over  st -> ctl R * st
    fn              py_run body init_st : result R

Supported: docstrings and logging calls (dropped, but d[k] / data[attr] inside them keep their KeyError guards), `x = e`, `x += e`, `x -= e`, `for <name or tuple of names> in <list>`,
nested loops, if/elif/else, continue, pass, `return e`, `raise ValueError(...)` (also KeyError/TypeError/RuntimeError),
int / bool constants, float("-inf"), tuples, + and -, one comparison (< <= > >= == != in, not in, is None, is not None),
and/or/not, max(a,b), min(a,b), len(l), set(l), list(l), set(), d.get(k[, default]), d[k], k in d, t[0] / t[1] on a pair,
[(p[i], p[i+1]) for i in range(len(p)-1)] (also as set comprehension / inside set()), and on a graph argument
.nodes(), .edges(data=True), .out_edges(v, data=True), .in_edges(v, data=True), .out_degree(v), .in_degree(v);
on an edge-data dict: attr in data, data.get(attr), data[attr].
ANYTHING ELSE raises Unsupported naming the node: the translator never guesses.

Partial operations (d[k], data[attr], `x in s` with s possibly None) become a py_guard in front of the statement
that evaluates them, raising KeyError / TypeError as Python would; they are rejected where evaluation is
conditional (right operand of and/or).  A local may only be read where it is definitely assigned."""
import ast, os, sys

# ------------------------------------------------------------------------------------------ types
INT, NUM, EXT, BOOL, NODE, EDATA, ATTR, GRAPH, BOT, NONE, STR = (("Int",), ("Num",), ("Ext",), ("Bool",), ("Node",),
                                                               ("EData",), ("Attr",), ("Graph",), ("Bot",), ("NoneT",), ("Str",))
def Tuple(*ts): return ("Tuple",) + tuple(ts)
def List(t): return ("List", t)
def Set(t): return ("Set", t)
def Dict(k, v): return ("Dict", k, v)
def Opt(t): return ("Opt", t)
EDGE = Tuple(NODE, NODE)
DEDGE = Tuple(NODE, NODE, EDATA)
NUMERIC = {INT: 0, NUM: 1, EXT: 2}


class Unsupported(Exception):
    def __init__(self, msg, node=None):
        where = ""
        if node is not None and hasattr(node, "lineno"):
            where = " at line %d col %d" % (node.lineno, node.col_offset)
            try:
                where += ": `" + ast.unparse(node).splitlines()[0][:100] + "`"
            except Exception:
                pass
        super().__init__("unsupported %s%s" % (msg, where))


TARGETS = {
    "max_occurrence": dict(file="flowpaths/utils/graphutils.py", cls=None, func="max_occurrence",
                           params=[List(EDGE), List(List(NODE)), Dict(EDGE, NUM)], defaults=["{}"], ret=NUM),
    "nonneg_check": dict(file="flowpaths/abstractsourcesinkgraph.py", cls="AbstractSourceSinkGraph",
                         func="get_max_flow_value_and_check_non_negative_flow",
                         params=[GRAPH, ATTR, Opt(Set(EDGE))], defaults=[], ret=EXT),
    "check_flow_conservation": dict(file="flowpaths/utils/graphutils.py", cls=None, func="check_flow_conservation",
                                    params=[GRAPH, ATTR], defaults=[], ret=BOOL),
}


def has_bot(t):
    return t == BOT or any(has_bot(x) for x in t[1:] if isinstance(x, tuple))


def join(a, b, node=None):
    if a == b: return a
    if a == BOT: return b
    if b == BOT: return a
    if a in NUMERIC and b in NUMERIC:
        return a if NUMERIC[a] >= NUMERIC[b] else b
    if a == NONE: return b if b[0] == "Opt" else Opt(b)
    if b == NONE: return a if a[0] == "Opt" else Opt(a)
    if a[0] == "Opt" and b[0] == "Opt": return Opt(join(a[1], b[1], node))
    if a[0] == "Opt": return Opt(join(a[1], b, node))
    if b[0] == "Opt": return Opt(join(a, b[1], node))
    if a[0] == b[0] and a[0] in ("List", "Set", "Dict", "Tuple") and len(a) == len(b):
        parts = []
        for x, y in zip(a[1:], b[1:]):
            if x != y and not (has_bot(x) or has_bot(y)):
                raise Unsupported("mix of container types %s / %s" % (show(a), show(b)), node)
            parts.append(join(x, y, node))
        return (a[0],) + tuple(parts)
    raise Unsupported("mix of types %s / %s" % (show(a), show(b)), node)


def show(t):
    return t[0] if len(t) == 1 else "%s(%s)" % (t[0], ", ".join(show(x) for x in t[1:]))


def gty(t):
    if t == INT: return "Z"
    if t == NUM: return "Q"
    if t == EXT: return "xq"
    if t == BOOL: return "bool"
    if t == NODE: return "N"
    if t == EDATA: return "(option Q)"
    if t == GRAPH: return "pygraph"
    if t[0] == "Tuple": return "(" + " * ".join(gty(x) for x in t[1:]) + ")%type"
    if t[0] in ("List", "Set"): return "(list %s)" % gty(t[1])
    if t[0] == "Dict": return "(list (%s * %s))" % (gty(t[1]), gty(t[2]))
    if t[0] == "Opt": return "(option %s)" % gty(t[1])
    raise Unsupported("value of type %s has no Gallina representation" % show(t))


def dflt(t):
    if t == INT: return "0%Z"
    if t == NUM: return "(0#1)%Q"
    if t == EXT: return "NegInf"
    if t == BOOL: return "false"
    if t == NODE: return "0%N"
    if t == EDATA: return "None"
    if t == GRAPH: return "py_empty_graph"
    if t[0] == "Tuple": return "(" + ", ".join(dflt(x) for x in t[1:]) + ")"
    if t[0] in ("List", "Set", "Dict"): return "[]"
    if t[0] == "Opt": return "None"
    raise Unsupported("no default value for type %s" % show(t))


def eqb(t, node=None):
    if t == NODE: return "N.eqb"
    if t == INT: return "Z.eqb"
    if t == NUM: return "Qeq_bool"
    if t == EXT: return "xq_eqb"
    if t == BOOL: return "Bool.eqb"
    if t[0] == "Tuple" and len(t) == 3:
        if t == EDGE: return "edge_eqb"
        return "(py_pair_eqb %s %s)" % (eqb(t[1], node), eqb(t[2], node))
    raise Unsupported("equality / membership on values of type %s" % show(t), node)


def coerce(term, a, b, node=None):
    if a == b or a == BOT: return term
    if a == INT and b == NUM: return "(inject_Z %s)" % term
    if a == INT and b == EXT: return "(Fin (inject_Z %s))" % term
    if a == NUM and b == EXT: return "(Fin %s)" % term
    if b[0] == "Opt":
        if a == NONE: return "None"
        if a[0] == "Opt":
            if has_bot(a[1]) or a[1] == b[1]: return term
            raise Unsupported("coercion %s -> %s" % (show(a), show(b)), node)
        return "(Some %s)" % coerce(term, a, b[1], node)
    if a[0] == b[0] and a[0] in ("List", "Set", "Dict", "Tuple") and has_bot(a):
        return term
    raise Unsupported("coercion %s -> %s" % (show(a), show(b)), node)


NUMOPS = {  # per numeric type: add sub ltb leb eqb max min
    INT: dict(add="Z.add", sub="Z.sub", ltb="Z.ltb", leb="Z.leb", eqb="Z.eqb", max="Zmax_py", min="Zmin_py"),
    NUM: dict(add="Qplus", sub="Qminus", ltb="Qltb", leb="Qle_bool", eqb="Qeq_bool", max="Qmax_py", min="Qmin_py"),
    EXT: dict(ltb="xq_ltb", leb="xq_leb", eqb="xq_eqb", max="xq_max", min="xq_min"),
}
EXNS = ("ValueError", "KeyError", "TypeError", "RuntimeError")
LOG_METHODS = ("debug", "info", "warning", "error", "critical", "exception", "log")


def is_logging_call(e):
    if not (isinstance(e, ast.Call) and isinstance(e.func, ast.Attribute) and e.func.attr in LOG_METHODS):
        return False
    base = e.func.value; names = []
    while isinstance(base, ast.Attribute):
        names.append(base.attr); base = base.value
    if isinstance(base, ast.Name):
        names.append(base.id)
    return any(n in ("logger", "logging") for n in names)


class Fn:
    def __init__(self, target, repo):
        self.spec = TARGETS[target]; self.target = target
        path = os.path.join(repo, self.spec["file"])
        self.src_path = path
        tree = ast.parse(open(path).read(), filename=path)
        scope = tree.body
        if self.spec["cls"]:
            cs = [n for n in scope if isinstance(n, ast.ClassDef) and n.name == self.spec["cls"]]
            if len(cs) != 1:
                raise Unsupported("source layout: class %s not found exactly once in %s" % (self.spec["cls"], self.spec["file"]))
            scope = cs[0].body
        fs = [n for n in scope if isinstance(n, ast.FunctionDef) and n.name == self.spec["func"]]
        if len(fs) != 1:
            raise Unsupported("source layout: function %s not found exactly once in %s" % (self.spec["func"], self.spec["file"]))
        self.fdef = f = fs[0]
        if f.decorator_list:
            raise Unsupported("decorator", f.decorator_list[0])
        a = f.args
        if a.vararg or a.kwarg or a.kwonlyargs or a.posonlyargs:
            raise Unsupported("parameter kinds (*args / **kw / keyword-only / positional-only)", f)
        if len(a.args) != len(self.spec["params"]):
            raise Unsupported("signature: %d parameters, the typed embedding declares %d" % (len(a.args), len(self.spec["params"])), f)
        if [ast.unparse(d) for d in a.defaults] != self.spec["defaults"]:
            raise Unsupported("signature: default values %s, the embedding declares %s" % ([ast.unparse(d) for d in a.defaults], self.spec["defaults"]), f)
        self.params = [x.arg for x in a.args]
        self.ptype = dict(zip(self.params, self.spec["params"]))
        self.collect_names()

    # -------------------------------------------------------------------------------- names
    def collect_names(self):
        self.locals = []         # assigned names in order of first assignment
        self.loopvars = []       # loop targets in order (one entry per binding occurrence)
        self.for_names = {}      # id(For node) -> generated names of its targets
        def targets_of_for(t):
            if isinstance(t, ast.Name): return [t.id]
            if isinstance(t, ast.Tuple) and all(isinstance(x, ast.Name) for x in t.elts): return [x.id for x in t.elts]
            raise Unsupported("loop target", t)
        def walk(stmts):
            for s in stmts:
                if isinstance(s, ast.Assign):
                    if len(s.targets) != 1 or not isinstance(s.targets[0], ast.Name):
                        raise Unsupported("assignment target (only `name = expr`)", s)
                    if s.targets[0].id not in self.locals: self.locals.append(s.targets[0].id)
                elif isinstance(s, ast.AugAssign):
                    if not isinstance(s.target, ast.Name):
                        raise Unsupported("augmented-assignment target", s)
                    if s.target.id not in self.locals: self.locals.append(s.target.id)
                elif isinstance(s, ast.For):
                    ns = targets_of_for(s.target)
                    if len(set(ns)) != len(ns): raise Unsupported("loop target repeats a name", s)
                    self.for_names[id(s)] = []
                    for n in ns:       # every loop gets fresh i<k> names; the same Python name may be reused by a LATER loop
                        self.for_names[id(s)].append("i%d" % len(self.loopvars))
                        self.loopvars.append(n)
                    if s.orelse: raise Unsupported("for/else", s)
                    walk(s.body)
                elif isinstance(s, ast.If):
                    walk(s.body); walk(s.orelse)
        walk(self.fdef.body)
        for n in self.loopvars:
            if n in self.locals or n in self.params:
                raise Unsupported("loop variable %r is also assigned / a parameter" % n, self.fdef)
        self.state_params = [p for p in self.params if p in self.locals]
        for p in self.state_params:
            if self.ptype[p] == ATTR: raise Unsupported("assignment to the attribute-name parameter", self.fdef)
        self.xname = {n: "x%d" % i for i, n in enumerate(self.locals)}
        self.aname = {n: "a%d" % i for i, n in enumerate(self.params)}

    # -------------------------------------------------------------------------------- expressions
    # expr returns (term, type, guards); guards = [(bool term that is true when the operation fails, exception)]
    def expr(self, e, env):
        m = getattr(self, "e_" + type(e).__name__, None)
        if m is None:
            raise Unsupported("expression node %s" % type(e).__name__, e)
        return m(e, env)

    def e_Name(self, e, env):
        n = e.id
        if n in self.locals:
            if n not in env["defined"]:
                raise Unsupported("read of local %r where it may be unassigned" % n, e)
            return "(%s s)" % self.xname[n], env["vt"][n], []
        if n in self.loopvars:
            if n not in env["bound"]:
                raise Unsupported("read of loop variable %r outside its loop" % n, e)
            return env["bound"][n][0], env["bound"][n][1], []
        if n in self.params:
            return self.aname[n], self.ptype[n], []
        raise Unsupported("name %r (not a parameter, local or loop variable)" % n, e)

    def e_Constant(self, e, env):
        v = e.value
        if isinstance(v, bool): return ("true" if v else "false"), BOOL, []
        if isinstance(v, int): return "(%d)%%Z" % v, INT, []
        if v is None: return "None", NONE, []
        raise Unsupported("constant %r" % (v,), e)

    def e_Tuple(self, e, env):
        parts = [self.expr(x, env) for x in e.elts]
        if len(parts) < 2: raise Unsupported("tuple of length < 2", e)
        return "(" + ", ".join(p[0] for p in parts) + ")", Tuple(*[p[1] for p in parts]), sum((p[2] for p in parts), [])

    def num2(self, a, b, node):
        (ta, tya, ga), (tb, tyb, gb) = a, b
        if tya not in NUMERIC or tyb not in NUMERIC:
            raise Unsupported("arithmetic / comparison on %s and %s" % (show(tya), show(tyb)), node)
        t = join(tya, tyb)
        return coerce(ta, tya, t), coerce(tb, tyb, t), t, ga + gb

    def e_BinOp(self, e, env):
        op = {ast.Add: "add", ast.Sub: "sub"}.get(type(e.op))
        if op is None: raise Unsupported("binary operator %s" % type(e.op).__name__, e)
        x, y, t, g = self.num2(self.expr(e.left, env), self.expr(e.right, env), e)
        if op not in NUMOPS[t]: raise Unsupported("%s on %s" % (op, show(t)), e)
        return "(%s %s %s)" % (NUMOPS[t][op], x, y), t, g

    def e_UnaryOp(self, e, env):
        if isinstance(e.op, ast.Not):
            t, ty, g = self.expr(e.operand, env)
            if ty != BOOL: raise Unsupported("`not` on a non-boolean (%s)" % show(ty), e)
            return "(negb %s)" % t, BOOL, g
        if isinstance(e.op, ast.USub) and isinstance(e.operand, ast.Constant) and isinstance(e.operand.value, int) \
                and not isinstance(e.operand.value, bool):
            return "(%d)%%Z" % (-e.operand.value), INT, []
        raise Unsupported("unary operator %s" % type(e.op).__name__, e)

    def e_BoolOp(self, e, env):
        parts = [self.expr(x, env) for x in e.values]
        for i, (t, ty, g) in enumerate(parts):
            if ty != BOOL: raise Unsupported("and/or on a non-boolean (%s)" % show(ty), e.values[i])
            if i > 0 and g: raise Unsupported("partial operation evaluated conditionally (right operand of and/or)", e.values[i])
        f = "andb" if isinstance(e.op, ast.And) else "orb"
        term = parts[-1][0]
        for p in reversed(parts[:-1]):
            term = "(%s %s %s)" % (f, p[0], term)
        return term, BOOL, parts[0][2]

    def e_Compare(self, e, env):
        if len(e.ops) != 1: raise Unsupported("chained comparison", e)
        op = e.ops[0]; L = self.expr(e.left, env); R = self.expr(e.comparators[0], env)
        if isinstance(op, (ast.Is, ast.IsNot)):
            if R[1] != NONE: raise Unsupported("`is` with anything but None", e)
            if L[1] == NONE: t = "true"
            elif L[1][0] == "Opt": t = "(py_is_none %s)" % L[0]
            else: t = "false"          # a value of a non-optional embedded type is never None
            return (t if isinstance(op, ast.Is) else "(negb %s)" % t), BOOL, L[2]
        if isinstance(op, (ast.In, ast.NotIn)):
            t, g = self.member(L, R, e)
            return (t if isinstance(op, ast.In) else "(negb %s)" % t), BOOL, g
        if isinstance(op, (ast.Eq, ast.NotEq)) and not (L[1] in NUMERIC and R[1] in NUMERIC):
            ty = join(L[1], R[1], e)
            t = "(%s %s %s)" % (eqb(ty, e), coerce(L[0], L[1], ty, e), coerce(R[0], R[1], ty, e))
            return (t if isinstance(op, ast.Eq) else "(negb %s)" % t), BOOL, L[2] + R[2]
        x, y, t, g = self.num2(L, R, e)
        o = NUMOPS[t]
        term = {ast.Lt: "(%s %s %s)" % (o["ltb"], x, y), ast.LtE: "(%s %s %s)" % (o["leb"], x, y),
                ast.Gt: "(%s %s %s)" % (o["ltb"], y, x), ast.GtE: "(%s %s %s)" % (o["leb"], y, x),
                ast.Eq: "(%s %s %s)" % (o["eqb"], x, y), ast.NotEq: "(negb (%s %s %s))" % (o["eqb"], x, y)}.get(type(op))
        if term is None: raise Unsupported("comparison operator %s" % type(op).__name__, e)
        return term, BOOL, g

    def member(self, L, R, node):
        (lt, lty, lg), (rt, rty, rg) = L, R
        g = lg + rg
        if rty == EDATA:
            if lty != ATTR: raise Unsupported("membership of a non-attribute key in an edge-data dict", node)
            return "(py_is_some %s)" % rt, g
        opt = False
        if rty[0] == "Opt":
            opt = True; inner = rty[1]
        else:
            inner = rty
        if inner[0] in ("List", "Set"):
            ety = join(lty, inner[1], node)
            if ety != inner[1] and not has_bot(inner[1]):
                raise Unsupported("membership of %s in a container of %s" % (show(lty), show(inner[1])), node)
            c = rt
            if opt:
                g = g + [("(py_is_none %s)" % rt, "TypeError")]; c = "(py_opt_get [] %s)" % rt
            return "(py_mem %s %s %s)" % (eqb(ety, node), coerce(lt, lty, ety, node), c), g
        if inner[0] == "Dict" and not opt:
            if lty != inner[1]: raise Unsupported("dict key of type %s, expected %s" % (show(lty), show(inner[1])), node)
            return "(py_dict_mem %s %s %s)" % (eqb(inner[1], node), rt, lt), g
        raise Unsupported("membership test on a value of type %s" % show(rty), node)

    def e_Subscript(self, e, env):
        b, bty, bg = self.expr(e.value, env)
        if bty[0] == "Tuple" and isinstance(e.slice, ast.Constant) and isinstance(e.slice.value, int) and not isinstance(e.slice.value, bool):
            k = e.slice.value; n = len(bty) - 1
            if not (0 <= k < n) or n not in (2, 3): raise Unsupported("tuple index", e)
            if n == 2: t = "(%s %s)" % (("fst", "snd")[k], b)
            else: t = ("(fst (fst %s))", "(snd (fst %s))", "(snd %s)")[k] % b
            return t, bty[1 + k], bg
        k, kty, kg = self.expr(e.slice, env)
        if bty == EDATA:
            if kty != ATTR: raise Unsupported("edge-data dict indexed by something else than the attribute name", e)
            return "(py_opt_get (0#1)%%Q %s)" % b, NUM, bg + kg + [("(py_is_none %s)" % b, "KeyError")]
        if bty[0] == "Dict":
            if kty != bty[1]: raise Unsupported("dict key of type %s, expected %s" % (show(kty), show(bty[1])), e)
            q = eqb(kty, e)
            return ("(py_dict_get %s %s %s %s)" % (q, b, k, dflt(bty[2])), bty[2],
                    bg + kg + [("(negb (py_dict_mem %s %s %s))" % (q, b, k), "KeyError")])
        raise Unsupported("subscript on a value of type %s" % show(bty), e)

    def e_Attribute(self, e, env):
        raise Unsupported("attribute access outside a supported method call", e)

    def is_pairs_idiom(self, e, env):
        """[(p[i], p[i+1]) for i in range(len(p) - 1)] with p a name of list type; returns (term, elem type, guards) or None"""
        if not isinstance(e, (ast.ListComp, ast.SetComp, ast.GeneratorExp)) or len(e.generators) != 1: return None
        g = e.generators[0]
        if g.ifs or g.is_async or not isinstance(g.target, ast.Name): return None
        i = g.target.id
        if i in self.locals or i in self.params or i in self.loopvars: return None
        it = g.iter
        if not (isinstance(it, ast.Call) and isinstance(it.func, ast.Name) and it.func.id == "range" and len(it.args) == 1 and not it.keywords): return None
        a = it.args[0]
        if not (isinstance(a, ast.BinOp) and isinstance(a.op, ast.Sub) and isinstance(a.right, ast.Constant) and a.right.value == 1
                and isinstance(a.left, ast.Call) and isinstance(a.left.func, ast.Name) and a.left.func.id == "len"
                and len(a.left.args) == 1 and not a.left.keywords and isinstance(a.left.args[0], ast.Name)): return None
        p = a.left.args[0].id
        el = e.elt
        if not (isinstance(el, ast.Tuple) and len(el.elts) == 2): return None
        x, y = el.elts
        def sub(z): return isinstance(z, ast.Subscript) and isinstance(z.value, ast.Name) and z.value.id == p
        if not (sub(x) and sub(y)): return None
        if not (isinstance(x.slice, ast.Name) and x.slice.id == i): return None
        ys = y.slice
        if not (isinstance(ys, ast.BinOp) and isinstance(ys.op, ast.Add) and isinstance(ys.left, ast.Name) and ys.left.id == i
                and isinstance(ys.right, ast.Constant) and ys.right.value == 1 and not isinstance(ys.right.value, bool)): return None
        pt, pty, pg = self.expr(a.left.args[0], env)
        if pty[0] != "List": raise Unsupported("consecutive-pairs comprehension over a non-list (%s)" % show(pty), e)
        return "(py_consecutive_pairs %s %s)" % (dflt(pty[1]), pt), Tuple(pty[1], pty[1]), pg

    def comp(self, e, env, kind):
        r = self.is_pairs_idiom(e, env)
        if r is None:
            raise Unsupported("comprehension (only `[(p[i], p[i+1]) for i in range(len(p) - 1)]` is translated)", e)
        return r[0], (kind, r[1]), r[2]

    def e_ListComp(self, e, env): return self.comp(e, env, "List")
    def e_SetComp(self, e, env): return self.comp(e, env, "Set")

    def e_Call(self, e, env):
        f = e.func
        if isinstance(f, ast.Name):
            n = f.id
            if n in self.locals or n in self.params or n in self.loopvars:
                raise Unsupported("call of a local name", e)
            if n == "float":
                if len(e.args) == 1 and not e.keywords and isinstance(e.args[0], ast.Constant) and e.args[0].value == "-inf":
                    return "NegInf", EXT, []
                raise Unsupported("float(...) other than float(\"-inf\")", e)
            if e.keywords: raise Unsupported("keyword arguments of %s" % n, e)
            if n in ("max", "min"):
                if len(e.args) != 2: raise Unsupported("%s with %d arguments (only two)" % (n, len(e.args)), e)
                x, y, t, g = self.num2(self.expr(e.args[0], env), self.expr(e.args[1], env), e)
                return "(%s %s %s)" % (NUMOPS[t][n], x, y), t, g
            if n == "len":
                if len(e.args) != 1: raise Unsupported("len arity", e)
                t, ty, g = self.expr(e.args[0], env)
                if ty[0] != "List": raise Unsupported("len of %s" % show(ty), e)   # a set built from a list may have fewer elements
                return "(py_len %s)" % t, INT, g
            if n in ("set", "list"):
                kind = "Set" if n == "set" else "List"
                if not e.args: return "[]", (kind, BOT), []
                if len(e.args) != 1: raise Unsupported("%s arity" % n, e)
                a = e.args[0]
                if isinstance(a, (ast.ListComp, ast.SetComp, ast.GeneratorExp)):
                    return self.comp(a, env, kind)
                t, ty, g = self.expr(a, env)
                if ty[0] == "List" or (ty[0] == "Set" and kind == "Set"):
                    return t, (kind, ty[1]), g
                raise Unsupported("%s(...) of a value of type %s" % (n, show(ty)), e)
            raise Unsupported("call of %s" % n, e)
        if isinstance(f, ast.Attribute):
            recv, rty, rg = self.expr(f.value, env)
            m = f.attr
            kw = {k.arg: k.value for k in e.keywords}
            if None in kw: raise Unsupported("**kwargs in a call", e)
            def data_true():
                return set(kw) == {"data"} and isinstance(kw["data"], ast.Constant) and kw["data"].value is True
            if rty == GRAPH:
                if m == "nodes" and not e.args and not kw: return "(g_nodes %s)" % recv, List(NODE), rg
                if m == "edges" and not e.args and data_true(): return "(g_edges %s)" % recv, List(DEDGE), rg
                if m in ("out_edges", "in_edges") and len(e.args) == 1 and data_true():
                    v, vty, vg = self.expr(e.args[0], env)
                    if vty != NODE: raise Unsupported("%s of a non-node" % m, e)
                    return "(py_%s %s %s)" % (m, recv, v), List(DEDGE), rg + vg
                if m in ("out_degree", "in_degree") and len(e.args) == 1 and not kw:
                    v, vty, vg = self.expr(e.args[0], env)
                    if vty != NODE: raise Unsupported("%s of a non-node" % m, e)
                    return "(py_%s %s %s)" % (m, recv, v), INT, rg + vg
                raise Unsupported("graph method call .%s with these arguments" % m, e)
            if m == "get" and not kw:
                if rty == EDATA:
                    if not (1 <= len(e.args) <= 2): raise Unsupported("get arity", e)
                    k, kty, kg = self.expr(e.args[0], env)
                    if kty != ATTR: raise Unsupported("edge-data .get of something else than the attribute name", e)
                    if len(e.args) == 1: return recv, Opt(NUM), rg + kg
                    d, dty, dg = self.expr(e.args[1], env)
                    t = join(NUM, dty, e)
                    if t not in NUMERIC: raise Unsupported("edge-data .get default of type %s" % show(dty), e)
                    return ("(match %s with Some v_ => %s | None => %s end)" % (recv, coerce("v_", NUM, t), coerce(d, dty, t)), t, rg + kg + dg)
                if rty[0] == "Dict":
                    if not (1 <= len(e.args) <= 2): raise Unsupported("get arity", e)
                    k, kty, kg = self.expr(e.args[0], env)
                    if kty != rty[1]: raise Unsupported("dict key of type %s, expected %s" % (show(kty), show(rty[1])), e)
                    q = eqb(kty, e)
                    if len(e.args) == 1:
                        return "(py_dict_find %s %s %s)" % (q, recv, k), Opt(rty[2]), rg + kg
                    d, dty, dg = self.expr(e.args[1], env)
                    t = join(rty[2], dty, e)
                    if t != rty[2]: raise Unsupported("dict .get default of type %s for values of type %s" % (show(dty), show(rty[2])), e)
                    return "(py_dict_get %s %s %s %s)" % (q, recv, k, coerce(d, dty, t, e)), t, rg + kg + dg
            raise Unsupported("method call .%s on a value of type %s" % (m, show(rty)), e)
        raise Unsupported("call", e)

    # -------------------------------------------------------------------------------- statements
    def guarded(self, guards, term):
        for (g, ex) in reversed(guards):
            term = "py_guard (fun s => %s) %s (%s)" % (g, ex, term)
        return term

    def assign_to(self, name, term, ty, env, node):
        env["vt"][name] = join(env["vt"].get(name, BOT), ty, node)
        env["defined"] = env["defined"] | {name}
        return "py_assign (fun s => set_%s %s s)" % (self.xname[name], coerce(term, ty, env["final"].get(name, env["vt"][name]), node))

    def dropped_guards(self, node, env):
        """A dropped logging call / exception message is still EVALUATED by Python: the partial operations in it that the
        subset can express (d[k], data[attr]) keep their guards, so a KeyError raised while formatting a message is modelled."""
        guards = []
        def walk(n):
            if isinstance(n, ast.Subscript):
                try:
                    guards.extend(self.expr(n, env)[2]); return
                except Unsupported:
                    pass
            for c in ast.iter_child_nodes(n):
                walk(c)
        walk(node)
        return guards

    def stmt(self, s, env):
        """returns (gallina stmt term, falls_through: bool)"""
        if isinstance(s, ast.Expr):
            if isinstance(s.value, ast.Constant) and isinstance(s.value.value, str): return None, True   # docstring / string statement
            if is_logging_call(s.value):
                g = self.dropped_guards(s.value, env)
                return (self.guarded(g, "py_skip") if g else None), True
            raise Unsupported("expression statement", s)
        if isinstance(s, ast.Pass): return None, True
        if isinstance(s, ast.Assign):
            t, ty, g = self.expr(s.value, env)
            return self.guarded(g, self.assign_to(s.targets[0].id, t, ty, env, s)), True
        if isinstance(s, ast.AugAssign):
            op = {ast.Add: ast.Add, ast.Sub: ast.Sub}.get(type(s.op))
            if op is None: raise Unsupported("augmented operator %s" % type(s.op).__name__, s)
            e = ast.BinOp(left=ast.Name(id=s.target.id, ctx=ast.Load()), op=op(), right=s.value)
            ast.copy_location(e, s); ast.copy_location(e.left, s)
            t, ty, g = self.expr(e, env)
            return self.guarded(g, self.assign_to(s.target.id, t, ty, env, s)), True
        if isinstance(s, ast.Continue):
            if not env["inloop"]: raise Unsupported("continue outside a loop", s)
            return "py_continue", False
        if isinstance(s, ast.Return):
            if s.value is None: raise Unsupported("bare return", s)
            t, ty, g = self.expr(s.value, env)
            env["ret"][0] = join(env["ret"][0], ty, s)
            return self.guarded(g, "py_return (fun s => %s)" % coerce(t, ty, env["final_ret"] or env["ret"][0], s)), False
        if isinstance(s, ast.Raise):
            ex = s.exc
            if s.cause is not None or ex is None: raise Unsupported("raise form", s)
            name = ex.func.id if isinstance(ex, ast.Call) and isinstance(ex.func, ast.Name) else (ex.id if isinstance(ex, ast.Name) else None)
            if name not in EXNS: raise Unsupported("raise of %s (only %s)" % (name, "/".join(EXNS)), s)
            return self.guarded(self.dropped_guards(ex, env), "py_raise %s" % name), False      # the message text is dropped
        if isinstance(s, ast.If):
            t, ty, g = self.expr(s.test, env)
            if ty != BOOL: raise Unsupported("condition of type %s (truthiness of non-booleans is not translated)" % show(ty), s.test)
            d0 = env["defined"]
            a, fa = self.block(s.body, env); da = env["defined"]
            env["defined"] = d0
            b, fb = self.block(s.orelse, env); db = env["defined"]
            env["defined"] = (da & db) if (fa and fb) else (da if fa else (db if fb else da | db))
            return self.guarded(g, "py_if (fun s => %s)\n%s\n%s" % (t, self.ind(a), self.ind(b))), fa or fb
        if isinstance(s, ast.For):
            t, ty, g = self.expr(s.iter, env)
            if ty[0] != "List": raise Unsupported("iteration over a value of type %s (only lists; set order is not modelled)" % show(ty), s.iter)
            el = ty[1]
            inames = self.for_names[id(s)]
            if isinstance(s.target, ast.Name):
                names = [s.target.id]; tys = [el]; pat = inames[0]
            else:
                names = [x.id for x in s.target.elts]
                if el[0] != "Tuple" or len(el) - 1 != len(names): raise Unsupported("unpacking %d names from %s" % (len(names), show(el)), s)
                tys = list(el[1:]); pat = "'(" + ", ".join(inames) + ")"
            for n in names:
                if n in env["bound"]: raise Unsupported("loop variable %r rebound by a nested loop" % n, s)
            d0 = env["defined"]; bound0 = dict(env["bound"]); inloop0 = env["inloop"]
            env["bound"].update({n: (i, t) for n, i, t in zip(names, inames, tys)}); env["inloop"] = True
            b, _ = self.block(s.body, env)
            env["defined"] = d0; env["bound"] = bound0; env["inloop"] = inloop0
            return self.guarded(g, "py_for (fun s => %s) (fun %s =>\n%s)" % (t, pat, self.ind(b))), True
        raise Unsupported("statement node %s" % type(s).__name__, s)

    def ind(self, txt):
        return "\n".join("  " + l for l in ("(" + txt + ")").splitlines())

    def block(self, stmts, env):
        terms = []; falls = True
        for s in stmts:
            t, f = self.stmt(s, env)
            if t is not None: terms.append(t)
            if not f: falls = False        # later statements are dead code but are still translated
        if not terms: return "py_skip", falls
        out = terms[-1]
        for t in reversed(terms[:-1]):
            out = "py_seq\n%s\n%s" % (self.ind(t), self.ind(out))
        return out, falls

    # -------------------------------------------------------------------------------- whole function
    def translate(self):
        vt = {p: self.ptype[p] for p in self.state_params}
        ret = BOT
        final = {}; final_ret = None
        for rnd in range(8):
            env = dict(vt=dict(vt), defined=set(self.state_params), bound={}, inloop=False, ret=[ret], final=final, final_ret=final_ret)
            body, falls = self.block(self.fdef.body, env)
            if env["vt"] == vt and env["ret"][0] == ret:
                break
            vt = env["vt"]; ret = env["ret"][0]
        else:
            raise Unsupported("type inference did not stabilise", self.fdef)
        for n in self.locals:
            if n not in vt or has_bot(vt[n]):
                raise Unsupported("type of local %r could not be determined (%s)" % (n, show(vt.get(n, BOT))), self.fdef)
        if ret == BOT: raise Unsupported("function has no return statement", self.fdef)
        if ret != self.spec["ret"]:
            raise Unsupported("return type %s, the typed embedding declares %s" % (show(ret), show(self.spec["ret"])), self.fdef)
        # final field numbering: by Gallina type, then by first assignment — independent of the Python names and of the
        # order of assignments to locals of different types
        order = sorted(self.locals, key=lambda n: (gty(vt[n]), self.locals.index(n)))
        self.xname = {n: "x%d" % i for i, n in enumerate(order)}
        self.locals_in_field_order = order
        env = dict(vt=dict(vt), defined=set(self.state_params), bound={}, inloop=False, ret=[ret], final=vt, final_ret=ret)
        body, falls = self.block(self.fdef.body, env)
        if env["vt"] != vt: raise Unsupported("type inference unstable in the emission pass", self.fdef)
        return self.emit(vt, ret, body)

    def emit(self, vt, ret, body):
        sp = self.spec
        L = []
        L.append("(* GENERATED by harness/translate.py from %s :: %s%s — do not edit." % (sp["file"], (sp["cls"] + "." if sp["cls"] else ""), sp["func"]))
        L.append("   parameters: " + ", ".join("%s = %s : %s" % (self.aname[p], p, show(self.ptype[p])) for p in self.params))
        L.append("   locals:     " + (", ".join("%s = %s : %s" % (self.xname[n], n, show(vt[n])) for n in self.locals_in_field_order) or "(none)"))
        L.append("   loop vars:  " + (", ".join("i%d = %s" % (i, n) for i, n in enumerate(self.loopvars)) or "(none)") + " *)")
        L.append("From Coq Require Import List NArith ZArith QArith Bool.")
        L.append("Import ListNotations.")
        L.append("From FP Require Import PyRt.")
        L.append("")
        order = self.locals_in_field_order
        fields = [(self.xname[n], gty(vt[n])) for n in order] or [("x_unit", "unit")]
        L.append("Record st := mk_st { " + "; ".join("%s : %s" % f for f in fields) + " }.")
        for i, (f, ty) in enumerate(fields):
            args = " ".join("v_" if j == i else "(%s s)" % g for j, (g, _) in enumerate(fields))
            L.append("Definition set_%s (v_ : %s) (s : st) : st := mk_st %s." % (f, ty, args))
        gparams = [(self.aname[p], gty(self.ptype[p])) for p in self.params if self.ptype[p] != ATTR]
        binder = " ".join("(%s : %s)" % gp for gp in gparams)
        names = " ".join(gp[0] for gp in gparams)
        init = []
        for n in order:
            init.append(self.aname[n] if n in self.state_params else dflt(vt[n]))
        if not self.locals: init = ["tt"]
        L.append("Definition init_st %s : st := mk_st %s." % (binder, " ".join(init)))
        L.append("")
        L.append("Definition body %s : stmt st %s :=" % (binder, gty(ret)))
        L.append(self.ind(body) + ".")
        L.append("")
        L.append("Definition fn %s : result %s := py_run (body %s) (init_st %s)." % (binder, gty(ret), names, names))
        L.append("")
        return "\n".join(L)


def translate(target, repo=None):
    repo = repo or os.environ.get("VERIF_REPO", "/repo")
    return Fn(target, repo).translate()


# bodies that MUST be rejected (fail-closed self test; each replaces the body of max_occurrence(seq, paths_in_DAG, edge_lengths={}))
REJECT = {
    "while": "i = 0\nwhile i < 3:\n    i += 1\nreturn i",
    "break": "r = 0\nfor p in paths_in_DAG:\n    break\nreturn r",
    "try": "try:\n    r = 0\nexcept Exception:\n    r = 1\nreturn r",
    "bare return": "return",
    "chained assignment": "a = b = 0\nreturn a",
    "tuple assignment": "a, b = 0, 1\nreturn a",
    "list index": "r = 0\nfor p in paths_in_DAG:\n    r = p[0]\nreturn r",
    "sum()": "return sum(edge_lengths.get(e, 1) for e in seq)",
    "any()": "r = 0\nif any(e in seq for e in seq):\n    r = 1\nreturn r",
    "general comprehension": "s = [e for e in seq]\nreturn len(s)",
    "filtered pairs": "r = 0\nfor p in paths_in_DAG:\n    s = [(p[i], p[i + 1]) for i in range(len(p) - 1) if i]\nreturn r",
    "pairs off by one": "r = 0\nfor p in paths_in_DAG:\n    s = [(p[i], p[i + 1]) for i in range(len(p))]\nreturn r",
    "lambda": "f = lambda x: x\nreturn 0",
    "multiplication": "r = 2\nr = r * 2\nreturn r",
    "float constant": "r = 0.5\nreturn r",
    "float(inf)": "r = float(\"inf\")\nreturn 0",
    "truthiness": "r = 0\nif seq:\n    r = 1\nreturn r",
    "ternary": "r = 1 if len(seq) > 0 else 0\nreturn r",
    "chained comparison": "r = 0\nif 0 < len(seq) < 3:\n    r = 1\nreturn r",
    "unknown call": "r = abs(0)\nreturn r",
    "method call": "seq.append((0, 0))\nreturn 0",
    "attribute": "r = seq.x\nreturn 0",
    "global name": "return nx",
    "unbound local": "for p in paths_in_DAG:\n    r = 0\nreturn r",
    "loop var after loop": "r = 0\nfor p in paths_in_DAG:\n    r = 0\nreturn len(p)",
    "loop var assigned": "r = 0\nfor p in paths_in_DAG:\n    p = []\nreturn r",
    "nested rebinding": "r = 0\nfor p in paths_in_DAG:\n    for p in paths_in_DAG:\n        r = 1\nreturn r",
    "set iteration": "r = 0\ns = set(seq)\nfor e in s:\n    r += 1\nreturn r",
    "len of set": "s = set(seq)\nreturn len(s)",
    "for else": "r = 0\nfor p in paths_in_DAG:\n    r = 1\nelse:\n    r = 2\nreturn r",
    "raise other": "raise IndexError(\"x\")",
    "raise from": "raise ValueError(\"x\") from None",
    "assert": "assert seq is not None\nreturn 0",
    "with": "with open(\"f\") as f:\n    pass\nreturn 0",
    "import": "import math\nreturn 0",
    "nested def": "def g():\n    return 0\nreturn 0",
    "print": "print(seq)\nreturn 0",
    "walrus": "r = 0\nif (n := len(seq)) > 0:\n    r = n\nreturn r",
    "guard under or": "r = 0\nfor e in seq:\n    if e in edge_lengths or edge_lengths[e] > 0:\n        r = 1\nreturn r",
    "mixed types": "r = 0\nr = seq\nreturn 0",
    "wrong return type": "return seq",
    "no return": "r = 0",
    "del": "r = 0\ndel r\nreturn 0",
    "starred": "r = [*seq]\nreturn 0",
    "keyword to builtin": "return max(0, 1, key=None)",
    "isclose": "r = 0\nif not math.isclose(r, 0):\n    r = 1\nreturn r",
}


def selftest():
    """every body in REJECT must raise Unsupported; returns (rejected, total, list of wrongly accepted)"""
    import tempfile, shutil
    d = tempfile.mkdtemp(prefix="translate_selftest_")
    bad = []
    try:
        os.makedirs(os.path.join(d, "flowpaths", "utils"))
        for k, body in REJECT.items():
            src = "def max_occurrence(seq, paths_in_DAG, edge_lengths: dict = {}) -> int:\n" + "\n".join("    " + l for l in body.splitlines()) + "\n"
            open(os.path.join(d, "flowpaths", "utils", "graphutils.py"), "w").write(src)
            try:
                translate("max_occurrence", d); bad.append(k)
            except Unsupported:
                pass
    finally:
        shutil.rmtree(d, ignore_errors=True)
    return len(REJECT) - len(bad), len(REJECT), bad


def main(argv):
    if argv == ["--selftest"]:
        ok, n, bad = selftest()
        print("fail-closed self test: %d/%d unsupported bodies rejected%s" % (ok, n, ("; WRONGLY ACCEPTED: %s" % bad) if bad else ""))
        return 0 if not bad else 4
    out = None; repo = None; args = []
    i = 0
    while i < len(argv):
        if argv[i] == "-o": out = argv[i + 1]; i += 2
        elif argv[i] == "--repo": repo = argv[i + 1]; i += 2
        else: args.append(argv[i]); i += 1
    if len(args) != 1 or args[0] not in TARGETS:
        print("usage: translate.py <%s> [--repo DIR] [-o FILE]" % "|".join(TARGETS), file=sys.stderr); return 2
    try:
        txt = translate(args[0], repo)
    except Unsupported as e:
        print("TRANSLATION FAILED (%s): %s" % (args[0], e), file=sys.stderr); return 3
    except Exception as e:      # anything unexpected is a failure, never a guess
        print("TRANSLATION FAILED (%s): internal error %r" % (args[0], e), file=sys.stderr); return 3
    if out: open(out, "w").write(txt)
    else: sys.stdout.write(txt)
    return 0


if __name__ == "__main__":
    sys.exit(main(sys.argv[1:]))
