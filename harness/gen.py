"""Input generators shared by the correspondence engines.  Every random choice comes from the
`rng` handed in, so a case is a function of (seed, property, stream, n)."""
import itertools, collections
import networkx as nx


def rand_dag(rng, nmax=6, names="v"):
    """Random DAG on 2..nmax nodes (string names), at least one edge; may have several sources/sinks
    and isolated nodes are dropped."""
    while True:
        n = rng.randint(2, nmax)
        nodes = [f"{names}{i}" for i in range(n)]
        order = nodes[:]
        rng.shuffle(order)
        G = nx.DiGraph()
        p = rng.choice([0.25, 0.4, 0.6, 0.8])
        ins = nodes[:]; rng.shuffle(ins)           # insertion order differs from topological order
        pairs = [(order[i], order[j]) for i in range(n) for j in range(i + 1, n) if rng.random() < p]
        rng.shuffle(pairs)
        for u, v in pairs:
            G.add_edge(u, v)
        if G.number_of_edges() >= 1:
            return G


def rand_cyclic(rng, nmax=7):
    """Random digraph with cycles / self-loops in which every edge lies on a source-to-sink walk."""
    while True:
        n = rng.randint(2, nmax)
        nodes = [f"n{i}" for i in range(n)]
        G = nx.DiGraph(); G.add_nodes_from(nodes)
        p = rng.choice([0.2, 0.3, 0.45])
        for u in nodes:
            for v in nodes:
                if rng.random() < p and (u != v or rng.random() < 0.4):
                    G.add_edge(u, v)
        s = "s"; t = "t"
        G.add_edge(s, rng.choice(nodes)); G.add_edge(rng.choice(nodes), t)
        if rng.random() < 0.4: G.add_edge(s, rng.choice(nodes))
        if rng.random() < 0.4: G.add_edge(rng.choice(nodes), t)
        if rng.random() < 0.25:
            G.add_edge("s2", rng.choice(nodes))
        if rng.random() < 0.25:
            G.add_edge(rng.choice(nodes), "t2")
        H = G
        while True:
            srcs = [v for v in H if H.in_degree(v) == 0]; snks = [v for v in H if H.out_degree(v) == 0]
            if not srcs or not snks:
                H = None; break
            fwd = set()
            for a in srcs: fwd |= nx.descendants(H, a) | {a}
            bwd = set()
            for b in snks: bwd |= nx.ancestors(H, b) | {b}
            keep = fwd & bwd
            if len(keep) < H.number_of_nodes():
                H = H.subgraph(keep).copy()
            else:
                break
        if H is not None and H.number_of_edges() >= 1:
            # rebuild with a shuffled insertion order so that iteration orders vary
            es = list(H.edges()); rng.shuffle(es)
            K = nx.DiGraph(); K.add_edges_from(es)
            return K


def rand_walk(rng, G, maxlen=30, srcs=None, snks=None):
    srcs = srcs or [v for v in G if G.in_degree(v) == 0]
    snks = set(snks or [v for v in G if G.out_degree(v) == 0])
    for _ in range(100):
        v = rng.choice(srcs); w = [v]
        while (v not in snks or (G.out_degree(v) > 0 and rng.random() < 0.5)) and len(w) < maxlen:
            succ = list(G.successors(v))
            if not succ: break
            v = rng.choice(succ); w.append(v)
        if v in snks:
            return w
    return None


def all_st_paths(G, limit=5000):
    srcs = [v for v in G if G.in_degree(v) == 0]; res = []
    def rec(p):
        if len(res) >= limit: return
        v = p[-1]
        if G.out_degree(v) == 0:
            res.append(list(p)); return
        for w in G.successors(v):
            rec(p + [w])
    for s in srcs:
        rec([s])
    return res


def pairs(w):
    return list(zip(w, w[1:]))


FLOAT_VALUES = [0.1, 0.2, 0.3, 0.7, 1.1, 2.2, 0.05, 0.15, 3.3, 0.6]


def float_conserving_dag(rng):
    """DAG with INEXACT float flows that satisfy flow conservation exactly in float arithmetic (the sums are formed in the
    order in which networkx enumerates in-/out-edges, as graphutils.check_flow_conservation does), e.g. trunk = 0.2 + 0.1.
    Families: out-tree (fan-out), in-tree (fan-in), chain + fan, and superpositions of paths on a random DAG kept only if
    exactly conserving.  Returns (G, number of leaves/paths used)."""
    fam = rng.choice(["out", "in", "out", "in", "super", "super"])
    G = nx.DiGraph()
    if fam in ("out", "in"):
        # random tree given by parent pointers; leaf flows drawn, inner flows = float sum in networkx' enumeration order
        n = rng.randint(3, 8)
        parent = {i: rng.randrange(0, i) for i in range(1, n)}
        children = {i: [c for c in range(1, n) if parent[c] == i] for i in range(n)}
        chain = rng.choice([0, 0, 1, 2])                       # unary trunk above the root
        name = lambda i: f"x{i}"
        def build(i):
            # returns the flow that must enter node i
            if not children[i]:
                return None
            for c in children[i]:
                fc = build(c)
                if fc is None:
                    fc = rng.choice(FLOAT_VALUES)
                e = (name(i), name(c)) if fam == "out" else (name(c), name(i))
                G.add_edge(*e, flow=fc)
            total = 0
            it = G.out_edges(name(i), data=True) if fam == "out" else G.in_edges(name(i), data=True)
            for _, _, d in it:
                total += d["flow"]
            return total
        top = build(0)
        if top is None:
            return float_conserving_dag(rng)
        prev = name(0)
        for j in range(chain + 1):
            e = (f"r{j}", prev) if fam == "out" else (prev, f"r{j}")
            G.add_edge(*e, flow=top); prev = f"r{j}"
        return G, sum(1 for i in range(n) if not children[i])
    for _ in range(200):
        H = rand_dag(rng, nmax=rng.choice([4, 5, 6]))
        for e in H.edges(): H.edges[e]["flow"] = 0
        paths = all_st_paths(H); k = rng.choice([2, 3, 3, 4])
        for _ in range(k):
            p = rng.choice(paths); w = rng.choice(FLOAT_VALUES)
            for e in pairs(p): H.edges[e]["flow"] += w
        H.remove_edges_from([e for e in H.edges() if H.edges[e]["flow"] == 0])
        H.remove_nodes_from([v for v in list(H.nodes()) if H.degree(v) == 0])
        ok = H.number_of_edges() >= 2
        for v in H.nodes():
            if H.in_degree(v) and H.out_degree(v):
                a = 0
                for _, _, d in H.out_edges(v, data=True): a += d["flow"]
                b = 0
                for _, _, d in H.in_edges(v, data=True): b += d["flow"]
                ok &= a == b
        if ok and any(x != int(x * 8) / 8 for _, _, x in H.edges(data="flow")):
            return H, k
    return float_conserving_dag(rng)


def mimic_names(rng, G, p=1.0, gid=None):
    """Copy of G (same node / edge insertion order, same attributes) whose node names MIMIC names that the library derives
    internally, so that a helper which builds auxiliary nodes in the caller's name space collides with them:
      z<k> / z<k>_ / z<id-like digits><k>   (graphutils.min_cost_flow: "z" + str(id(G)) + counter),
      source_<digits> / sink_<digits>        (AbstractSourceSinkGraph),
      <v>.0 / <v>.1                          (NodeExpandedDiGraph),
      <k> / <k>_expanded                     (stDiGraph condensation: str(int), str(int) + "_expanded"),
      numeric-looking strings, the empty-ish and white-space free oddities,
      source<gid> / sink<gid> / z<gid>...    (names built from the caller-controlled graph attribute "id", when gid is given).
    With probability 1-p the graph is returned unchanged.  Names stay distinct strings."""
    if rng.random() >= p:
        return G
    nodes = list(G.nodes()); m = max(2, 2 * G.number_of_edges() + 2 * len(nodes) + 4)
    fam = rng.choice(["z", "z", "z_mixed", "st", "dot", "cond", "num", "mixed", "mixed"] + (["gid", "gid", "gid"] if gid is not None else []))
    def draw(f, v):
        k = rng.randint(1, m)
        if f == "gid":
            return rng.choice(["source", "sink", "source", "sink", "source_", "sink_", "z", ""]) + str(gid) + rng.choice(["", "", "", "_", str(k)])
        if f == "z": return "z" + str(k)
        if f == "z_mixed": return rng.choice(["z" + str(k), "z" + str(k) + "_", "z0" + str(k), "Z" + str(k), "z" + str(rng.randint(10 ** 14, 10 ** 15)) + str(k)])
        if f == "st": return rng.choice(["source_", "sink_"]) + str(rng.choice([k, 0, rng.randint(10 ** 14, 10 ** 15)]))
        if f == "dot": return rng.choice([str(v), "v" + str(k), str(k)]) + rng.choice([".0", ".1"])
        if f == "cond": return rng.choice([str(k - 1), str(k - 1) + "_expanded"])
        if f == "num": return rng.choice([str(k), str(-k), "0" + str(k), str(k) + ".5", "1e" + str(k % 5)])
        return draw(rng.choice(["z", "z_mixed", "st", "dot", "cond", "num"]), v)
    ren = {}; used = set()
    for v in nodes:
        for _ in range(50):
            name = draw(fam, v)
            if name not in used: break
        else:
            name = str(v) + "_" + str(len(used))
        ren[v] = name; used.add(name)
    H = nx.DiGraph(); H.graph.update(G.graph)
    for v in nodes: H.add_node(ren[v], **G.nodes[v])
    for u, v, d in G.edges(data=True): H.add_edge(ren[u], ren[v], **d)
    return H


def rand_digraph_free(rng, nmax=6):
    """Digraph for the s-t classes WITHOUT the guarantee that every node lies on a source-to-sink walk: a random DAG or
    cyclic skeleton plus, with high probability, a strongly connected part that nothing enters from outside (a cycle or
    self-loop that only feeds into the rest: NOT reachable from any source) and / or one that nothing leaves (does not
    reach any sink).  Has at least one in-degree-0 and one out-degree-0 node."""
    K = rand_cyclic(rng, nmax=nmax) if rng.random() < 0.5 else rand_dag(rng, nmax=nmax)
    G = nx.DiGraph(); G.add_nodes_from(K.nodes()); G.add_edges_from(K.edges())
    base = list(G.nodes())
    def gadget(tag):
        k = rng.choice([1, 2, 2, 3]); ns = [f"{tag}{i}" for i in range(k)]
        if k == 1: G.add_edge(ns[0], ns[0])
        else:
            for i in range(k): G.add_edge(ns[i], ns[(i + 1) % k])
        return ns
    r = rng.random()
    if r < 0.75:
        ns = gadget("x")                               # source-less closed SCC feeding in
        for _ in range(rng.choice([1, 1, 2])): G.add_edge(rng.choice(ns), rng.choice(base))
    if r > 0.35:
        ns2 = gadget("y")                              # sink-less closed SCC fed from the rest
        for _ in range(rng.choice([1, 1, 2])): G.add_edge(rng.choice(base), rng.choice(ns2))
        if r < 0.75 and rng.random() < 0.3: G.add_edge(rng.choice(ns), rng.choice(ns2))
    es = list(G.edges()); rng.shuffle(es)
    H = nx.DiGraph(); H.add_edges_from(es)
    return H
