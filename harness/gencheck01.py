"""gencheck01.py — the GENERATED-MODEL tie for C01: the s-t augmentation every model works on
(AbstractSourceSinkGraph._augment_with_source_sink -> Gen_augment.v, coq/gen_proofs/AugSpec.v) and the DAG decoder
(AbstractPathModelDAG.get_solution_paths -> Gen_solpaths.v, coq/gen_proofs/SolPathsSpec.v).

Per run: translate the current source (harness/translate.py), compile the generated file and the hand-written proof script
against it, validate the translator by evaluating the generated model (vm_compute) and the real method on the same inputs,
evaluate the statement of the theorem directly on the real method's output; on any failure search for a concrete failing input.

    run_generated_c01(ctx)          (one call at the end of engines/c01.py::run)
"""
import os, shutil, tempfile
import networkx as nx
import common, translate, gencheck

PROOFS = {"augment": "AugSpec.v", "solpaths": "SolPathsSpec.v", "is_scc_edge": "SccEdgeSpec.v"}
ORDER = ["augment", "solpaths", "is_scc_edge"]          # every target this module knows
C01 = ["augment", "solpaths"]; C17 = ["is_scc_edge"]
STATEMENT = {
    "augment": "the augmentation adds exactly: the caller's edges, an edge source->u for every node u with in-degree 0 or in additional_starts, "
               "an edge u->sink for every node with out-degree 0 or in additional_ends; source_edges / sink_edges list them in node order",
    "is_scc_edge": "stDiGraph.is_scc_edge(u, v) raises ValueError exactly when (u, v) is not an edge and otherwise says whether v reaches u (same SCC)",
    "solpaths": "get_solution_paths returns, per layer, the route obtained by following from the source the first successor whose edge variable is 1 "
                "(source and sink stripped), [] when no edge leaves the source",
}
cN = gencheck.cN; cL = gencheck.cL; cE = gencheck.cE


# ------------------------------------------------------------------------------------------ augment
def aug_case(rng, i):
    """(nodes, edges, starts, ends): nodes are 0..n-1 in insertion order"""
    B = [([0, 1, 2], [(0, 1), (1, 2)], [], []), ([0, 1, 2], [(0, 1), (1, 2)], [1], []), ([0, 1, 2], [(0, 1), (1, 2)], [], [1]),
         ([0, 1, 2], [(0, 1), (1, 2)], [1], [1]), ([0], [], [], []), ([], [], [], []), ([0, 1], [(0, 1), (1, 0)], [], []),
         ([0, 1], [(0, 1), (1, 0)], [0], [1]), ([0, 1, 2, 3], [(0, 1), (1, 2)], [2], [0]), ([0], [(0, 0)], [], []),
         ([2, 0, 1], [(1, 0), (0, 2)], [], [0]), ([0, 1, 2], [(0, 2), (0, 1), (1, 2)], [2], [0])]
    if i < len(B): return B[i]
    n = rng.randint(1, 6)
    nodes = list(range(n)); rng.shuffle(nodes)
    cyc = rng.random() < 0.4
    pairs = [(u, v) for u in range(n) for v in range(n) if (cyc or u < v)]
    rng.shuffle(pairs)
    edges = pairs[:rng.randint(0, min(8, len(pairs)))]
    S = [v for v in nodes if rng.random() < 0.3] if rng.random() < 0.6 else []
    T = [v for v in nodes if rng.random() < 0.3] if rng.random() < 0.6 else []
    return (nodes, edges, S, T)


def aug_real(args):
    """run the real constructor (its hooks are no-ops in the base class), read the graph and the attributes back"""
    from flowpaths.abstractsourcesinkgraph import AbstractSourceSinkGraph
    nodes, edges, S, T = args
    name = {v: "v%d" % v for v in nodes}
    G = nx.DiGraph(); G.add_nodes_from(name[v] for v in nodes); G.add_edges_from((name[u], name[v]) for u, v in edges)
    n = (max(nodes) + 1) if nodes else 0
    try:
        st = AbstractSourceSinkGraph(G, additional_starts=[name[v] for v in S], additional_ends=[name[v] for v in T])
    except Exception as e:
        return {"exc": type(e).__name__}
    back = {name[v]: v for v in nodes}; back[st.source] = n; back[st.sink] = n + 1
    conv = lambda es: [(back[u], back[v]) for u, v in es]
    return {"exc": None, "edges": sorted(conv(st.edges())), "n_edges": st.number_of_edges(), "source_edges": conv(st.source_edges),
            "sink_edges": conv(st.sink_edges), "source_sink_edges": sorted(conv(st.source_sink_edges)), "s": n, "t": n + 1}


def aug_spec(args):
    nodes, edges, S, T = args
    n = (max(nodes) + 1) if nodes else 0; s, t = n, n + 1
    starts = [u for u in nodes if not any(v == u for (_, v) in edges) or u in S]
    ends = [u for u in nodes if not any(a == u for (a, _) in edges) or u in T]
    se = [(s, u) for u in starts]; te = [(u, t) for u in ends]
    return {"exc": None, "edges": sorted(set(edges) | set(se) | set(te)), "n_edges": len(set(edges)) + len(se) + len(te), "source_edges": se,
            "sink_edges": te, "source_sink_edges": sorted(se + te), "s": s, "t": t}


def aug_call(args):
    nodes, edges, S, T = args
    n = (max(nodes) + 1) if nodes else 0
    return ("(let r := fn (mk_bgraph %s %s) %s %s %s %s in [enc_result (fun _ => []) (fst (fst (fst (fst r)))); enc_edges (m_edges (snd (fst (fst (fst r))))); "
            "enc_edges (snd (fst (fst r))); enc_edges (snd (fst r)); enc_edges (snd r)])"
            % (cL([cN(v) for v in nodes]), cL([cE(e) for e in edges]), cL([cN(v) for v in S]), cL([cN(v) for v in T]), cN(n), cN(n + 1)))


def aug_decode(r, args):
    nodes = args[0]; n = (max(nodes) + 1) if nodes else 0
    pairs = lambda l: list(zip(l[0::2], l[1::2]))
    if r[0][0] != 2: return {"exc": "model outcome %s" % r[0]}
    return {"exc": None, "edges": sorted(pairs(r[1])), "n_edges": len(pairs(r[1])), "source_edges": pairs(r[2]), "sink_edges": pairs(r[3]),
            "source_sink_edges": sorted(set(pairs(r[4]))), "s": n, "t": n + 1}


# ------------------------------------------------------------------------------------------ get_solution_paths
def sp_case(rng, i):
    """(n, edges of a DAG on 0..n-1, k, per layer the set of edges with value 1 (in terms of 's', 't' and node numbers), mode)"""
    import itertools
    n = rng.randint(1, 6)
    pairs = [(u, v) for u in range(n) for v in range(u + 1, n)]
    rng.shuffle(pairs)
    edges = pairs[:rng.randint(0, min(8, len(pairs)))]
    k = rng.randint(1, 3)
    mode = rng.choice(["cache", "cache", "cache", "solver", "external"]) if i >= 4 else ["cache", "solver", "external", "cache"][i]
    G = nx.DiGraph(); G.add_nodes_from(range(n)); G.add_edges_from(edges)
    srcs = [v for v in G if G.in_degree(v) == 0]; snks = [v for v in G if G.out_degree(v) == 0]
    def rand_path():
        v = rng.choice(srcs); p = ["s", v]
        while G.out_degree(v) > 0:
            v = rng.choice(list(G.successors(v))); p.append(v)
        return p + ["t"]
    layers = []
    for _ in range(k):
        r = rng.random()
        if r < 0.15: ones = []
        else:
            p = rand_path(); ones = list(zip(p, p[1:]))
            if r > 0.6:                              # a second route switched on as well: the first successor with value 1 decides
                q = rand_path(); ones += [e for e in zip(q, q[1:]) if e not in ones]
        layers.append(ones)
    ext = [[rng.randrange(n) for _ in range(rng.randint(0, 3))] for _ in range(rng.randint(0, 2))] if mode == "external" else None
    return (n, edges, k, layers, mode, ext)


def sp_objects(args):
    import flowpaths as fp
    n, edges, k, layers, mode, ext = args
    name = {v: "v%d" % v for v in range(n)}
    G = nx.DiGraph(); G.add_nodes_from(name[v] for v in range(n)); G.add_edges_from((name[u], name[v]) for u, v in edges)
    st = fp.stDAG(G)
    name["s"] = st.source; name["t"] = st.sink
    num = {name[v]: v for v in range(n)}; num[st.source] = n; num[st.sink] = n + 1
    sol = {}
    for i, ones in enumerate(layers):
        on = {(name[u], name[v]) for u, v in ones}
        for (u, v) in st.edges(): sol[(str(u), str(v), i)] = 1 if (u, v) in on else 0
    return st, name, num, sol


def sp_real(args):
    from flowpaths.abstractpathmodeldag import AbstractPathModelDAG as P
    class Stub(P):
        def get_solution(self): pass
        def get_lowerbound_k(self): return 1
        def is_valid_solution(self): return True
        def get_objective_value(self): return None
    class Solver:
        def __init__(self, vals): self.vals = vals
        def get_values(self, variables, binary_values=False): return dict(self.vals)
    n, edges, k, layers, mode, ext = args
    st, name, num, sol = sp_objects(args)
    m = object.__new__(Stub); m.G = st; m.k = k
    m.external_solution_paths = None if ext is None else [[name[v] for v in p] for p in ext]
    m.edge_vars_sol = dict(sol) if mode != "solver" else {}
    m.solver = Solver(sol if mode == "solver" else {}); m.edge_vars = {}
    try:
        got = m.get_solution_paths()
    except Exception as e:
        return {"exc": type(e).__name__}
    return {"exc": None, "paths": [[num[v] for v in p] for p in got], "cache_filled": len(m.edge_vars_sol)}


def sp_spec(args):
    n, edges, k, layers, mode, ext = args
    st, name, num, sol = sp_objects(args)
    if ext is not None: return {"exc": None, "paths": [list(p) for p in ext], "cache_filled": len(sol)}
    out = []
    for i in range(k):
        v = st.source; route = []
        while True:
            nxt = [w for w in st.successors(v) if sol[(str(v), str(w), i)] == 1]
            if not nxt or nxt[0] == st.sink: break
            v = nxt[0]; route.append(num[v])
        out.append(route)
    return {"exc": None, "paths": out, "cache_filled": len(sol)}


def sp_call(args):
    n, edges, k, layers, mode, ext = args
    st, name, num, sol = sp_objects(args)
    d = cL(["((%s, %s, (%d)%%Z), (%d)%%Z)" % (cN(num[u]), cN(num[v]), i, x) for (u, v, i), x in sol.items()])
    G = "(mk_sgraph %s %s %s)" % (cN(n), cN(n + 1), cL(["(%s, %s)" % (cN(num[v]), cL([cN(num[w]) for w in st.successors(v)])) for v in st.nodes()]))
    e = "None" if ext is None else "(Some %s)" % cL([cL([cN(v) for v in p]) for p in ext])
    return ("(let r := fn %d %s %s %s (%d)%%Z %s in [enc_result (fun _ => []) (match fst r with Ret _ => RetNone | Exc e => Exc e | RetNone => Ret tt end)] ++ "
            "(match fst r with Ret o => enc_paths (Some o) | _ => [] end) ++ [[Z.of_nat (length (snd r))]])"
            % (n + 3, e, d if mode != "solver" else "[]", G, k, d if mode == "solver" else "[]"))


def sp_decode(r, args):
    if r[0][0] == 1:
        return {"exc": {0: "ValueError", 1: "KeyError", 2: "TypeError", 3: "RuntimeError", 4: "IndexError", 5: "Exception", 7: "OutOfFuel (the loop does not terminate)"}.get(r[0][1], str(r[0]))}
    if r[0][0] != 2: return {"exc": "returned None"}
    if r[1] == [0]: return {"exc": "returned None"}
    return {"exc": None, "paths": [list(p) for p in r[2:-1]], "cache_filled": r[-1][0]}


# ------------------------------------------------------------------------------------------ stDiGraph.is_scc_edge
def scc_case(rng, i):
    n = rng.randint(1, 6)
    pairs = [(u, v) for u in range(n) for v in range(n) if u != v or rng.random() < 0.3]
    rng.shuffle(pairs)
    edges = pairs[:rng.randint(0, min(9, len(pairs)))]
    r = rng.random()
    if edges and r < 0.7: q = rng.choice(edges)
    elif r < 0.85: q = ("s", rng.randrange(n))
    else: q = (rng.randrange(n), rng.randrange(n))
    return (n, edges, q)


def scc_objects(args):
    import flowpaths as fp
    n, edges, q = args
    name = {v: "v%d" % v for v in range(n)}
    G = nx.DiGraph(); G.add_nodes_from(name[v] for v in range(n)); G.add_edges_from((name[u], name[v]) for u, v in edges)
    S = [] if any(G.in_degree(x) == 0 for x in G) else [name[0]]        # stDiGraph wants at least one start and one end
    T = [] if any(G.out_degree(x) == 0 for x in G) else [name[n - 1]]
    st = fp.stDiGraph(G, additional_starts=S, additional_ends=T)
    name["s"] = st.source; name["t"] = st.sink
    num = {name[v]: v for v in range(n)}; num[st.source] = n; num[st.sink] = n + 1
    return st, name, num


def scc_real(args):
    st, name, num = scc_objects(args)
    try:
        r = st.is_scc_edge(name[args[2][0]], name[args[2][1]])
    except Exception as e:
        return {"exc": type(e).__name__}
    return {"exc": None, "value": r}


def scc_spec(args):
    st, name, num = scc_objects(args)
    u, v = name[args[2][0]], name[args[2][1]]
    if not st.has_edge(u, v): return {"exc": "ValueError"}
    return {"exc": None, "value": nx.has_path(st, v, u)}


def scc_call(args):
    st, name, num = scc_objects(args)
    m = st._condensation.graph["mapping"]
    return "[enc_result enc_bool (fn %s %s %s %s)]" % (cN(num[name[args[2][0]]]), cN(num[name[args[2][1]]]), cL([cE((num[u], num[v])) for u, v in st.edges()]),
                                                       cL(["(%s, %s)" % (cN(num[x]), cN(c)) for x, c in m.items()]))


def scc_decode(r, args):
    r = r[0]
    if r[0] == 1: return {"exc": {0: "ValueError", 1: "KeyError"}.get(r[1], str(r))}
    return {"exc": None, "value": bool(r[1])} if r[0] == 0 else {"exc": "returned None"}


TARGET = {
    "is_scc_edge": dict(case=scc_case, real=scc_real, spec=scc_spec, call=scc_call, decode=scc_decode, header=["From FP Require Import PyRt.", "From FPGen Require Import Gen_is_scc_edge."],
                        show=lambda a: {"nodes": a[0], "edges": a[1], "query_(u,v)": a[2]}),
    "solpaths": dict(case=sp_case, real=sp_real, spec=sp_spec, call=sp_call, decode=sp_decode, header=["From FP Require Import PyRt.", "From FPGen Require Import Gen_solpaths."],
                     show=lambda a: {"nodes": a[0], "edges": a[1], "k": a[2], "value_1_edges_per_layer": a[3], "mode": a[4], "external_solution_paths": a[5]}),
    "augment": dict(case=aug_case, real=aug_real, spec=aug_spec, call=aug_call, decode=aug_decode, header=["From FP Require Import PyRt.", "From FPGen Require Import Gen_augment."],
                    show=lambda a: {"nodes": a[0], "edges": a[1], "additional_starts": a[2], "additional_ends": a[3]}),
}


# ------------------------------------------------------------------------------------------ driver
def run_generated_c17(ctx):
    run_generated_c01(ctx, C17)


def run_generated_c01(ctx, names=None):
    names = [n for n in ORDER if n in (names or C01) and n in TARGET and os.path.exists(os.path.join(common.COQ, "gen_proofs", PROOFS[n]))]
    base = os.path.join(common.OUT, "work", "gen"); os.makedirs(base, exist_ok=True)
    build = tempfile.mkdtemp(prefix="c01_", dir=base)
    try:
        ok, n, bad = translate.selftest()
        ctx.count("generated_model", "translator_fail_closed_selftest_rejected", ok)
        if bad:
            ctx.report("translator is not fail-closed: it accepted unsupported bodies %s" % bad, {"generated_model": "selftest", "accepted": bad}, concrete=False)
        ctx.notes.append({"generated_model_trusted": [
            "harness/translate.py (Python subset -> Gallina, fail-closed; typed embedding of `self`: input attributes become parameters, assigned attributes and the graph being filled become results)",
            "coq/theories/PyRt.v (combinators; bgraph: degrees counted on the caller's edge list; mgraph: insertion log of a fresh nx.DiGraph, each node / edge kept once; loops with break and fuel-bounded while)",
            "coqc 8.16.1; vm_compute as evaluator of the generated model in the correspondence run",
            "node names are interned as numbers by the harness; node / edge attribute dicts are not modelled"]})
        compiled = set()
        for name in names:
            try:
                one(ctx, name, build, compiled)
            except Exception as e:
                import traceback
                ctx.report("generated-model check of %s crashed: %r" % (name, e), {"generated_model": name, "traceback": traceback.format_exc()}, concrete=False)
    finally:
        shutil.rmtree(build, ignore_errors=True)


def one(ctx, name, build, compiled):
    T = TARGET[name]; spec = translate.TARGETS[name]
    rep = {"generated_model": name, "source": spec["file"] + " :: " + spec["func"]}
    model_ok, problems = gencheck.translate_and_prove(ctx, name, build, PROOFS[name], compiled)
    n = ctx.budget(90, 900) if name == "solpaths" else ctx.budget(250, 2500)
    cases = [T["case"](ctx.rng("gen01-" + name, i), i) for i in range(n)]
    real = [T["real"](a) for a in cases]
    concrete = None
    for a, got in zip(cases, real):
        ctx.count("generated_model", "property_evaluations")
        ctx.case(["generated", name, T["show"](a)], nontrivial=any(bool(x) for x in a[1:4] if not isinstance(x, tuple)))
        want = T["spec"](a)
        if got != want and concrete is None: concrete = (a, got, want)
    if model_ok:
        res, secs = gencheck.vm_eval(build, name, T["header"], [T["call"](a) for a in cases], depth=3)
        ctx.count("generated_model", "coqc_s", secs)
        if isinstance(res, str):
            problems.append("correspondence: " + res)
        else:
            bad = [(a, T["decode"](m, a), r) for a, m, r in zip(cases, res, real) if T["decode"](m, a) != r]
            ctx.count("generated_model", "correspondence_cases", len(cases))
            ctx.count("generated_model", "correspondence_agreements", len(cases) - len(bad))
            if bad:
                problems.append("correspondence: the generated model and the real method disagree on %d of %d inputs, first %s: model %s, implementation %s"
                                % (len(bad), len(cases), T["show"](bad[0][0]), bad[0][1], bad[0][2]))
    if concrete is None and problems:
        for i in range(ctx.budget(3000, 30000)):
            a = T["case"](ctx.rng("gen01-search-" + name, i), i)
            ctx.count("generated_model", "search_evaluations")
            got = T["real"](a); want = T["spec"](a)
            if got != want: concrete = (a, got, want); break
    if concrete is not None:
        a, got, want = concrete
        diff = {k: (got.get(k), want.get(k)) for k in want if got.get(k) != want.get(k)}
        rep.update({"input": T["show"](a), "args_repr": repr(a), "observed": got, "required_by_statement": want, "differences_(observed, required)": diff, "broken": problems})
        ctx.report("%s — violated by the implementation on %s: %s%s" % (STATEMENT[name], T["show"](a), str(diff)[:300], (" [" + problems[0][:160] + "]") if problems else ""),
                   rep, concrete=True)
    elif problems:
        rep.update({"broken": problems})
        ctx.report("generated-model tie of %s no longer checks (%s); the statement held on every input tried" % (name, problems[0][:300]), rep, concrete=False)


def replay(ctx, body):
    common.setup_env()
    name = body["generated_model"]
    if "args_repr" not in body:
        print("no concrete input recorded; broken:", body.get("broken")); return False
    a = eval(body["args_repr"], {"__builtins__": {}}, {})
    got = TARGET[name]["real"](a); want = TARGET[name]["spec"](a)
    print("observed now:", got, "| required by the statement:", want)
    return got != want
