(* handlers for the cyclic error models (C07 kLeastAbsErrorsCycles, C08 kMinPathErrorCycles):
   wire -> WalkErrEnc.werr_inst -> canonical LP (see harness/e1werr.py) *)
open Model
open Fpmodel
let x_edge () = let u = next_n () in let v = next_n () in (u, v)
let x_adj () = next_list (fun () -> let v = next_n () in let ns = next_list next_n in (v, ns))
let x_stgraph () =
  let nodes = next_list next_n in let edges = next_list x_edge in
  let s = next_n () in let t = next_n () in let succ = x_adj () in let pred = x_adj () in
  { g_nodes = nodes; g_edges = edges; g_src = s; g_snk = t; g_succ = succ; g_pred = pred }
let x_eq () = let e = x_edge () in let x = next_q () in (e, x)
let x_edges () = next_list x_edge
let x_seqs () = next_list x_edges
let x_opts () =
  let ae = next_bool () in let sf = next_bool () in let geq = next_bool () in let bnd = next_bool () in
  let zero = next_bool () in let sc = next_bool () in let ac = next_bool () in
  { o_allow_empty = ae; o_safe = sf; o_geq = geq; o_bounds = bnd; o_zero = zero; o_safe_cons = sc; o_anti_cons = ac }
(* graph k flow ignore scale isint cons cov opts safe_lists walks_to_fix *)
let x_inst () =
  let g = x_stgraph () in let k = next_nat () in let flow = next_list x_eq in let ign = x_edges () in
  let scale = next_list x_eq in let isint = next_bool () in
  let cons = x_seqs () in let cov = next_q () in let o = x_opts () in
  let sl = x_seqs () in let fx = x_seqs () in
  { x_graph = g; x_k = k; x_flow = flow; x_ignore = ign; x_scale = scale; x_int = isint; x_cons = cons; x_cov = cov;
    x_opts = o; x_safe_lists = sl; x_fix = fx }
let () = register "klaec" (fun () -> print_milp (encode_klae_cycles (x_inst ())))
let () = register "kmpec" (fun () -> print_milp (encode_kmpe_cycles (x_inst ())))
let b2s b = if b then "1" else "0"
let xprem () = let wi = werr_walk (x_inst ()) in print_endline (b2s (wf_stg_b wi.w_graph) ^ " " ^ b2s (winputs_ok_b wi))
let () = register "klaecpremises" xprem
let () = register "kmpecpremises" xprem
(* the same encoders compared with the implementation's LP by the verified checker LinEquiv.milp_equiv_b *)
let () = register "klaec_eq" (fun () -> let m = encode_klae_cycles (x_inst ()) in equiv_report m)
let () = register "kmpec_eq" (fun () -> let m = encode_kmpe_cycles (x_inst ()) in equiv_report m)
