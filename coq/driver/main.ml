let () =
  try while true do
    let line = input_line stdin in
    Fpbase.toks := List.filter (fun s -> s <> "") (String.split_on_char ' ' line);
    (match !Fpbase.toks with
     | [] -> print_endline "EMPTY"
     | cmd :: rest ->
       Fpbase.toks := rest;
       (match List.assoc_opt cmd !Fpbase.handlers with
        | Some f -> (try f () with Failure m -> print_endline ("ERROR " ^ m) | Not_found -> print_endline "ERROR not_found" | Stack_overflow -> print_endline "ERROR stack_overflow")
        | None -> print_endline ("ERROR unknown command " ^ cmd)));
    flush stdout
  done with End_of_file -> ()
