open Model
open Fpmodel
(* graph premise of the walk-encoder theorems, decided by the extracted verified checker WalkChecked.wf_stg_b *)
let w_edge () = let u = next_n () in let v = next_n () in (u, v)
let w_adj () = next_list (fun () -> let v = next_n () in let ns = next_list next_n in (v, ns))
let w_stgraph () =
  let nodes = next_list next_n in let edges = next_list w_edge in
  let s = next_n () in let t = next_n () in let succ = w_adj () in let pred = w_adj () in
  { g_nodes = nodes; g_edges = edges; g_src = s; g_snk = t; g_succ = succ; g_pred = pred }
(* wpremises <stgraph> : "1" | "0" *)
let () = register "wpremises" (fun () -> print_endline (if wf_stg_b (w_stgraph ()) then "1" else "0"))
