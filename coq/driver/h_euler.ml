open Model
open Fpmodel
(* euler s t <m> (u v num den)*  ->  "OK <leftover> <walk...>" | "OUTOFFUEL" *)
let () = register "euler" (fun () ->
  let s = next_n () in let t = next_n () in
  let es = next_list (fun () -> let u = next_n () in let v = next_n () in let x = next_q () in ((u, v), x)) in
  match solution_walk es s t with
  | None -> print_endline "OUTOFFUEL"
  | Some (left, w) -> Printf.printf "OK %d %s\n" (int_of_nat left) (s_nodes w))
