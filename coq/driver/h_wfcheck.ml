open Model
open Fpmodel
(* premises of the DAG encoder theorems, decided by the extracted verified checkers (WfCheck.premises_b, CheckedInstances.cons_ok_b) *)
let next_edge () = let u = next_n () in let v = next_n () in (u, v)
let next_adj () = next_list (fun () -> let v = next_n () in let ns = next_list next_n in (v, ns))
let next_stgraph () =
  let nodes = next_list next_n in let edges = next_list next_edge in
  let s = next_n () in let t = next_n () in let succ = next_adj () in let pred = next_adj () in
  { g_nodes = nodes; g_edges = edges; g_src = s; g_snk = t; g_succ = succ; g_pred = pred }
let next_eq () = let e = next_edge () in let x = next_q () in (e, x)
let next_path_inst () =
  let g = next_stgraph () in let k = next_nat () in let ae = next_bool () in
  let cons = next_list (fun () -> next_list next_edge) in let cov = next_q () in
  let len = if next_bool () then Some (next_list next_eq) else None in
  { p_graph = g; p_k = k; p_allow_empty = ae; p_cons = cons; p_cov = cov; p_len = len }
let b2s b = if b then "1" else "0"
(* premises <path_inst> <topological order> : "wf+acyclic constraints_ok" *)
let () = register "premises" (fun () ->
  let b = next_path_inst () in let order = next_list next_n in
  print_endline (b2s (premises_b b.p_graph order) ^ " " ^ b2s (cons_ok_b b)))
