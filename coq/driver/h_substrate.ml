open Model
open Fpmodel
(* C17 handlers.  Only parsing and printing; every computation is extracted code. *)

let s_z z = string_of_int (int_of_z z)
let s_list f l = String.concat "," (List.map f l)
let s_n x = string_of_int (int_of_n x)
let s_edge (u, v) = s_n u ^ ">" ^ s_n v
let s_bool b = if b then "1" else "0"

let next_edge () = let u = next_n () in let v = next_n () in (u, v)
let next_wedges () = next_list (fun () -> let e = next_edge () in let w = next_z () in (e, w))
let next_adj () = next_list (fun () -> let v = next_n () in let l = next_list next_n in (v, l))
let next_cond () =
  let m = next_list (fun () -> let v = next_n () in let c = next_n () in (v, c)) in
  let ce = next_list next_edge in
  let topo = next_list next_n in
  { c_map = map_of m (n_of_int 1000000); c_edges = ce; c_topo = topo }

let s_optnodes = function None -> "E" | Some l -> "N:" ^ s_list s_n l

(* sdg V E C W xnodes xpairs -> condok | reach per node | reaching per node | scc per edge | max per edge | extra nodes | extra pairs *)
let () = register "sdg" (fun () ->
  let v = next_list next_n in let e = next_list next_edge in let c = next_cond () in
  let w = next_wedges () in
  let xn = next_list next_n in let xp = next_list next_edge in
  let ok = cond_ok v e c in
  let reach = List.map (fun x -> s_optnodes (nodes_reachable_cold v c x)) (v @ xn) in
  let reaching = List.map (fun x -> s_optnodes (nodes_reaching_cold v c x)) (v @ xn) in
  let scc = List.map (fun (a, b) -> match is_scc_edge_model e c a b with None -> "E" | Some b -> s_bool b) (e @ xp) in
  let mx = List.map (fun (_, z) -> s_z z) (edge_max_reachable_all e c w) in
  Printf.printf "OK %s | %s | %s | %s | %s\n" (s_bool ok) (String.concat " " reach) (String.concat " " reaching)
    (String.concat " " scc) (String.concat " " mx))

(* sdgq V E C alias nq (kind args)* -> answers *)
let () = register "sdgq" (fun () ->
  let v = next_list next_n in let e = next_list next_edge in let c = next_cond () in
  let alias = next_bool () in
  let qs = next_list (fun () ->
    match next () with
    | 0 -> QReach (next_n ())
    | 1 -> QReaching (next_n ())
    | 2 -> let a = next_n () in let b = next_n () in QScc (a, b)
    | _ -> let fwd = next_bool () in let add = next_bool () in let x = next_n () in let y = next_n () in QMut (fwd, add, x, y)) in
  let ans = qrun v e c alias cache0 qs in
  let s = List.map (function ANodes l -> "N:" ^ s_list s_n l | ABool b -> "B:" ^ s_bool b | AErr -> "E" | AUnit -> "U") ans in
  Printf.printf "OK %s | %s\n" (s_bool (cond_ok v e c)) (String.concat " " s))

(* dag V E topo -> ok | per node of topo: reachable_from ; nodes_reaching ; edges_from ; edges_rev_from *)
let () = register "dag" (fun () ->
  let v = next_list next_n in let e = next_list next_edge in let topo = next_list next_n in
  let ok = dag_topo_ok v e topo in
  let per x = Printf.sprintf "%s;%s;%s;%s" (s_list s_n (dag_reachable_from e topo x)) (s_list s_n (dag_nodes_reaching e topo x))
      (s_list s_edge (dag_reachable_edges_from e topo x)) (s_list s_edge (dag_reachable_edges_rev_from e topo x)) in
  Printf.printf "OK %s | %s\n" (s_bool ok) (String.concat " " (List.map per topo)))

let s_outcome = function
  | MBPath (b, p) -> "PATH " ^ s_z b ^ " " ^ s_nodes p
  | MBNoPath -> "NOPATH"
  | MBNoSink -> "NOSINK"

(* mbp W P S topo *)
let () = register "mbp" (fun () ->
  let w = next_wedges () in let p = next_adj () in let s = next_adj () in let topo = next_list next_n in
  Printf.printf "OK %s | %s\n" (s_bool (peel_inputs_ok (List.map fst w) p s topo)) (s_outcome (max_bottleneck_run w p s topo)))

let () = register "peel" (fun () ->
  let w = next_wedges () in let p = next_adj () in let s = next_adj () in let topo = next_list next_n in
  let ok = s_bool (peel_inputs_ok (List.map fst w) p s topo) in
  match decompose_run w p s topo with
  | PeelOK d -> Printf.printf "OK %s | %s\n" ok (String.concat " ; " (List.map (fun (pa, b) -> s_z b ^ " " ^ s_nodes pa) d))
  | PeelKeyError -> Printf.printf "KEYERROR %s\n" ok
  | PeelOutOfFuel -> Printf.printf "OUTOFFUEL %s\n" ok)

let next_wpaths () = next_list (fun () -> let m = next_z () in let p = next_list next_n in (p, m))

(* explains W D -> 0/1 *)
let () = register "explains" (fun () ->
  let w = next_wedges () in let d = next_wpaths () in
  Printf.printf "OK %s\n" (s_bool (explains_ok w d)))

(* antichain V E A *)
let () = register "antichain" (fun () ->
  let v = next_list next_n in let e = next_list next_edge in let a = next_list next_edge in
  Printf.printf "OK %s\n" (s_bool (antichain_ok v e a)))

(* cert V E s t W A P -> certificate_ok antichain_ok cover_ok weight size *)
let () = register "cert" (fun () ->
  let v = next_list next_n in let e = next_list next_edge in let s = next_n () in let t = next_n () in
  let w = next_wedges () in let a = next_list next_edge in let p = next_wpaths () in
  Printf.printf "OK %s %s %s %s %s\n" (s_bool (certificate_ok v e s t w a p)) (s_bool (antichain_ok v e a))
    (s_bool (cover_ok e s t w p)) (s_z (antichain_weight w a)) (s_z (cover_size p)))
