open Model
open Fpmodel
(* the verified exhaustive oracle for integer walk decompositions: WalkOracle.min_wfd_model
   walkoracle <nE (u v)..> <s> <t> <nF (u v f)..> <kmax>  ->  "NONE" | "<k>"
   (E: the edges of the s-t graph; the flow on the edges that are neither source nor sink edges; NONE also when the premise check fails) *)
let () = register "walkoracle" (fun () ->
  let pr () = let u = next_n () in let v = next_n () in (u, v) in
  let es = next_list pr in let s = next_n () in let t = next_n () in
  let fl = next_list (fun () -> let e = pr () in let x = next_nat () in (e, x)) in let kmax = next_nat () in
  match min_wfd_model es s t fl kmax with
  | None -> print_endline "NONE"
  | Some k -> Printf.printf "%d\n" (int_of_nat k))
