open Model
open Fpmodel
(* mcc <b> <c> <p> lb ub *)
let () = register "mcc" (fun () ->
  let b = next_var () in let c = next_var () in let p = next_var () in
  let lb = next_q () in let ub = next_q () in
  print_rows (mcc_rows b c p lb ub); print_endline "END")
(* intprod <x> <c> <p> lb ub : n = num_bits ub *)
let () = register "intprod" (fun () ->
  let x = next_var () in let c = next_var () in let p = next_var () in
  let lb = next_q () in let ub = next_q () in
  let n = num_bits ub in
  Printf.printf "N %d\n" (int_of_nat n);
  print_cols (intprod_cols p lb ub n); print_rows (intprod_rows x c p lb ub n); print_endline "END")
(* pwc <x> <y> npieces (L U c)* *)
let () = register "pwc" (fun () ->
  let x = next_var () in let y = next_var () in
  let ps = next_list (fun () -> let l = next_q () in let u = next_q () in let c = next_q () in ((l, u), c)) in
  print_cols (pwc_cols y ps); print_rows (pwc_rows x y ps); print_endline "END")
(* wrapper nops ops..  : one OBS line per Optimize *)
let () = register "wrapper" (fun () ->
  let ops = next_list (fun () ->
    match next () with
    | 0 -> let isint = next_bool () in let bs = next_list (fun () -> let l = next_q () in let u = next_q () in (l, u)) in AddVars (bs, isint)
    | 1 -> let mx = next_bool () in let c = next_q () in let ts = next_list (fun () -> let i = next_nat () in let v = next_q () in (i, v)) in SetObjective (ts, c, mx)
    | 2 -> let i = next_nat () in let v = next_q () in QueueFix (i, v)
    | 3 -> let i = next_nat () in let v = next_q () in QueueLb (i, v)
    | _ -> Optimize) in
  List.iter (fun ((cols, off), mx) ->
    Printf.printf "OBS %s %s | %s\n" (s_q (canon_q off)) (if mx then "max" else "min")
      (String.concat " ; " (List.map (fun (((l, u), c), i) -> Printf.sprintf "%s %s %s %d" (s_q (canon_q l)) (s_q (canon_q u)) (s_q (canon_q c)) (if i then 1 else 0)) cols)))
    (trace ops);
  print_endline "END")
