open Model
open Fpmodel
let next_edge () = let u = next_n () in let v = next_n () in (u, v)
let b2s b = if b then "1" else "0"
(* vroute <V> <E> <S> <T> simple <r> *)
let () = register "vroute" (fun () ->
  let v = next_list next_n in let e = next_list next_edge in let s = next_list next_n in let t = next_list next_n in
  let simple = next_bool () in let r = next_list next_n in
  print_endline (b2s (valid_route_b v e s t simple r)))
(* vexplains <flow: u v num den> <ignore> <routes: (nodes) num den> *)
let () = register "vexplains" (fun () ->
  let flow = next_list (fun () -> let e = next_edge () in let q = next_q () in (e, q)) in
  let ign = next_list next_edge in
  let routes = next_list (fun () -> let r = next_list next_n in let w = next_q () in (r, w)) in
  print_endline (b2s (explains_b flow ign routes)))
(* vcovers <E> <ignore> <routes> *)
let () = register "vcovers" (fun () ->
  let e = next_list next_edge in let ign = next_list next_edge in let routes = next_list (fun () -> next_list next_n) in
  print_endline (b2s (covers_b e ign routes)))
(* vcons <c> <routes> *)
let () = register "vcons" (fun () ->
  let c = next_list next_edge in let routes = next_list (fun () -> next_list next_n) in
  print_endline (b2s (constraint_b c routes)))
