
val negb : bool -> bool

type nat =
| O
| S of nat

val option_map : ('a1 -> 'a2) -> 'a1 option -> 'a2 option

val fst : ('a1 * 'a2) -> 'a1

val snd : ('a1 * 'a2) -> 'a2

val length : 'a1 list -> nat

val app : 'a1 list -> 'a1 list -> 'a1 list

type comparison =
| Eq
| Lt
| Gt

val compOpp : comparison -> comparison

val add : nat -> nat -> nat

val mul : nat -> nat -> nat

val sub : nat -> nat -> nat

module Nat :
 sig
  val eqb : nat -> nat -> bool

  val leb : nat -> nat -> bool

  val ltb : nat -> nat -> bool

  val max : nat -> nat -> nat
 end

val hd_error : 'a1 list -> 'a1 option

val nth : nat -> 'a1 list -> 'a1 -> 'a1

val last : 'a1 list -> 'a1 -> 'a1

val removelast : 'a1 list -> 'a1 list

val rev : 'a1 list -> 'a1 list

val map : ('a1 -> 'a2) -> 'a1 list -> 'a2 list

val flat_map : ('a1 -> 'a2 list) -> 'a1 list -> 'a2 list

val fold_left : ('a1 -> 'a2 -> 'a1) -> 'a2 list -> 'a1 -> 'a1

val fold_right : ('a2 -> 'a1 -> 'a1) -> 'a1 -> 'a2 list -> 'a1

val existsb : ('a1 -> bool) -> 'a1 list -> bool

val forallb : ('a1 -> bool) -> 'a1 list -> bool

val filter : ('a1 -> bool) -> 'a1 list -> 'a1 list

val find : ('a1 -> bool) -> 'a1 list -> 'a1 option

val skipn : nat -> 'a1 list -> 'a1 list

val seq : nat -> nat -> nat list

val repeat : 'a1 -> nat -> 'a1 list

type positive =
| XI of positive
| XO of positive
| XH

type n =
| N0
| Npos of positive

type z =
| Z0
| Zpos of positive
| Zneg of positive

module Pos :
 sig
  type mask =
  | IsNul
  | IsPos of positive
  | IsNeg
 end

module Coq_Pos :
 sig
  val succ : positive -> positive

  val add : positive -> positive -> positive

  val add_carry : positive -> positive -> positive

  val pred_double : positive -> positive

  type mask = Pos.mask =
  | IsNul
  | IsPos of positive
  | IsNeg

  val succ_double_mask : mask -> mask

  val double_mask : mask -> mask

  val double_pred_mask : positive -> mask

  val sub_mask : positive -> positive -> mask

  val sub_mask_carry : positive -> positive -> mask

  val sub : positive -> positive -> positive

  val mul : positive -> positive -> positive

  val iter : ('a1 -> 'a1) -> 'a1 -> positive -> 'a1

  val size_nat : positive -> nat

  val size : positive -> positive

  val compare_cont : comparison -> positive -> positive -> comparison

  val compare : positive -> positive -> comparison

  val eqb : positive -> positive -> bool

  val ggcdn : nat -> positive -> positive -> positive * (positive * positive)

  val ggcd : positive -> positive -> positive * (positive * positive)

  val iter_op : ('a1 -> 'a1 -> 'a1) -> positive -> 'a1 -> 'a1

  val to_nat : positive -> nat

  val of_succ_nat : nat -> positive
 end

module N :
 sig
  val succ_double : n -> n

  val double : n -> n

  val add : n -> n -> n

  val sub : n -> n -> n

  val mul : n -> n -> n

  val compare : n -> n -> comparison

  val eqb : n -> n -> bool

  val leb : n -> n -> bool

  val ltb : n -> n -> bool

  val log2 : n -> n

  val pos_div_eucl : positive -> n -> n * n

  val div_eucl : n -> n -> n * n

  val div : n -> n -> n

  val modulo : n -> n -> n

  val to_nat : n -> nat

  val of_nat : nat -> n
 end

module Z :
 sig
  val double : z -> z

  val succ_double : z -> z

  val pred_double : z -> z

  val pos_sub : positive -> positive -> z

  val add : z -> z -> z

  val opp : z -> z

  val sub : z -> z -> z

  val mul : z -> z -> z

  val pow_pos : z -> positive -> z

  val pow : z -> z -> z

  val compare : z -> z -> comparison

  val sgn : z -> z

  val leb : z -> z -> bool

  val ltb : z -> z -> bool

  val eqb : z -> z -> bool

  val abs : z -> z

  val to_nat : z -> nat

  val of_nat : nat -> z

  val of_N : n -> z

  val to_pos : z -> positive

  val pos_div_eucl : positive -> z -> z * z

  val div_eucl : z -> z -> z * z

  val div : z -> z -> z

  val even : z -> bool

  val ggcd : z -> z -> z * (z * z)
 end

val zeq_bool : z -> z -> bool

type q = { qnum : z; qden : positive }

val inject_Z : z -> q

val qeq_bool : q -> q -> bool

val qle_bool : q -> q -> bool

val qplus : q -> q -> q

val qmult : q -> q -> q

val qopp : q -> q

val qminus : q -> q -> q

val qinv : q -> q

val qdiv : q -> q -> q

val qred : q -> q

type var = { vfam : n; vidx : n list }

val fEdge : n

val fPi : n

val fW : n

val fR : n

val fBit : n

val fComp : n

val fZ : n

val edge : n -> n -> n -> var

val pi : n -> n -> n -> var

val w : n -> var

val bit : var -> n -> var

val comp : var -> n -> var

val zsel : var -> n -> var

type lin = (var * q) list

type sense =
| SLe
| SGe
| SEq

type row = { lhs : lin; sns : sense; rhs : q }

type col = { cvar : var; clb : q; cub : q; cint : bool }

type milp = { cols : col list; rows : row list; obj : lin; maximize : bool }

val canon_q : q -> z * positive

type row_out = ((var * (z * positive)) list * sense) * (z * positive)

val canon_row : row -> row_out

type col_out = ((var * (z * positive)) * (z * positive)) * bool

val canon_col : col -> col_out

val canon :
  milp -> ((col_out list * row_out list) * (var * (z * positive)) list) * bool

val mkrow : lin -> sense -> q -> row

val mcc_rows : var -> var -> var -> q -> q -> row list

val least_pow : nat -> nat -> q -> nat

val num_bits : q -> nat

val pow2 : nat -> q

val bit_idx : nat -> nat list

val intprod_cols : var -> q -> q -> nat -> col list

val intprod_rows : var -> var -> var -> q -> q -> nat -> row list

type piece = (q * q) * q

val pL : piece -> q

val pU : piece -> q

val pC : piece -> q

val qmax : q -> q -> q

val qmin : q -> q -> q

val list_max : q -> q list -> q

val list_min : q -> q list -> q

val pwc_M : piece list -> q

val pwc_cols : var -> piece list -> col list

val pwc_piece_rows : var -> var -> q -> nat -> piece -> row list

val indexed : nat -> 'a1 list -> (nat * 'a1) list

val pwc_rows_M : var -> var -> q -> piece list -> row list

val pwc_rows : var -> var -> piece list -> row list

type edge0 = n * n

val edge_eqb : edge0 -> edge0 -> bool

val mem_edge : edge0 -> edge0 list -> bool

val lookup_adj : n -> (n * n list) list -> n list

val lookup_q : edge0 -> (edge0 * q) list -> q -> q

type stgraph = { g_nodes : n list; g_edges : edge0 list; g_src : n;
                 g_snk : n; g_succ : (n * n list) list;
                 g_pred : (n * n list) list }

val succs : stgraph -> n -> n list

val preds : stgraph -> n -> n list

val inner : stgraph -> n list

val layers : nat -> n list

type path_inst = { p_graph : stgraph; p_k : nat; p_allow_empty : bool;
                   p_cons : edge0 list list; p_cov : q;
                   p_len : (edge0 * q) list option }

val bincol : var -> col

val edge_cols : stgraph -> nat -> col list

val row_10a : stgraph -> bool -> n -> row

val row_10c : stgraph -> n -> n -> row

val path_rows : stgraph -> nat -> bool -> row list

val r : n -> n -> var

val elen : path_inst -> edge0 -> q

val cons_length : path_inst -> edge0 list -> q

val cons_idx : path_inst -> n list

val zipn : nat -> 'a1 list -> (n * 'a1) list

val cons_cols : path_inst -> col list

val row_7a : path_inst -> n -> (n * edge0 list) -> row

val row_7b : path_inst -> n -> row

val cons_rows : path_inst -> row list

val base_cols : path_inst -> col list

val base_rows : path_inst -> row list

type kfd_inst = { f_base : path_inst; f_flow : (edge0 * q) list;
                  f_ignore : edge0 list; f_wmax : q; f_int : bool }

val wcol_ : var -> q -> bool -> col

val kfd_cols : kfd_inst -> col list

val kfd_edge_rows : kfd_inst -> edge0 -> row list

val kfd_rows : kfd_inst -> row list

val encode_kfd : kfd_inst -> milp

val src_out_terms : stgraph -> nat -> lin

val kfdw_rows : kfd_inst -> q list -> nat -> row list

val encode_kfd_given : kfd_inst -> q list -> nat -> milp

val kpc_rows : path_inst -> edge0 list -> row list

val encode_kpc : path_inst -> edge0 list -> milp

val x_one : (edge0 -> z) -> edge0 -> bool

val out_edges : edge0 list -> n -> edge0 list

val follow_ones : edge0 list -> (edge0 -> z) -> n -> nat -> n -> n list option

val solution_path :
  edge0 list -> (edge0 -> z) -> n -> n -> nat -> n list option

val memn : n -> n list -> bool

val indeg0 : edge0 list -> n -> bool

val outdeg0 : edge0 list -> n -> bool

val is_start : edge0 list -> n list -> n -> bool

val is_end : edge0 list -> n list -> n -> bool

val aug_edges :
  n list -> edge0 list -> n list -> n list -> n -> n -> edge0 list

type edge1 = n * n

type graph = edge1 list

val pop_out : graph -> n -> (n * graph) option

val trail : nat -> graph -> n -> ((graph * n list) * n list) option

val closed_from : nat -> graph -> n -> n -> ((graph * n list) * n list) option

val splice : n list -> n -> n list -> n list

val has_out : graph -> n -> bool

val phase2 :
  nat -> nat -> graph -> n list -> n list -> (graph * n list) option

val reconstruct : graph -> n -> (graph * n list) option

val round_half_even : q -> z

val residual_q : (edge1 * q) list -> graph

val strip_st : n -> n -> n list -> n list

val solution_walk : (edge1 * q) list -> n -> n -> (nat * n list) option

type str = n list

val is_ws : n -> bool

val is_digit : n -> bool

val c_hash : n

val c_S : n

val c_dot : n

val c_plus : n

val c_minus : n

val c_us : n

val str_eqb : str -> str -> bool

val toks_eqb : str list -> str list -> bool

val lstrip : str -> str

val rstrip : str -> str

val strip : str -> str

val split_ws : str -> str -> str list

val starts_with : str -> str -> bool

val lstrip_hash : str -> str

val is_hdr : str -> bool

val is_blank : str -> bool

val pairs_of : str list -> (str * str) list

type dec = { dneg : bool; dmant : n; dscale : nat }

val span_digits : str -> str * str

val digits_val : str -> n -> n

val strip_sign : str -> bool * str

val non_ascii : str -> bool

val udigits : str -> bool -> bool

type pint =
| IOk of z
| IBad
| IUnm

val parse_int : str -> pint

val simple_float : str -> dec option

val us_ok : str -> n -> bool

val lower : n -> n

val is_nil : 'a1 list -> bool

val dec_syntax : str -> bool

val py_float_ok : str -> bool

type pfloat =
| FOk of dec
| FBad
| FUnm

val parse_float : str -> pfloat

type perr =
| EMissingCount
| EBadCount
| EBadEdge
| EBadWeight
| EMissingConstraintEdge
| ENoSource
| ENoSink
| EZeroHasConstraints
| EZeroHasEdges

type 'a res =
| Ok of 'a
| Error of perr
| Unmodelled

type wedge = (str * str) * dec

type ginfo = { gi_nodes : str list; gi_edges : wedge list; gi_n : nat;
               gi_m : nat }

type graph0 = { gid : str option; gcons : (str * str) list list;
                ginf : ginfo option }

val mem_toks : str list -> str list list -> bool

val scan :
  str list -> str list -> str list list -> (str * str) list list -> (str
  list * str list) * (str * str) list list

val skip_blank : str list -> str list

val mem_str : str -> str list -> bool

val add_node : str -> str list -> str list

val set_edge : str -> str -> dec -> wedge list -> wedge list

val add_edge :
  str -> str -> dec -> (str list * wedge list) -> str list * wedge list

val read_edges :
  str list -> (str list * wedge list) -> (str list * wedge list) res

val has_edge : wedge list -> (str * str) -> bool

val has_source : str list -> wedge list -> bool

val has_sink : str list -> wedge list -> bool

val no_st : str list -> perr -> graph0 res

val skipped_line : str -> bool

val zero_block : str option -> (str * str) list list -> str list -> graph0 res

val read_graph : str list -> graph0 res

val span : ('a1 -> bool) -> 'a1 list -> 'a1 list * 'a1 list

val not_hdr : str -> bool

val blocks_fuel : nat -> str list -> str list list option

val seq_blocks : str list list -> graph0 list res

type fres =
| FRes of graph0 list res
| OutOfFuel

val read_graphs : str list -> fres

val show_aux : nat -> n -> str -> str

val show_N : n -> str

val qabs : q -> q

type status =
| Optimal
| Infeasible
| TimeLimit
| Other

type raw = { native : status; custom_timeout : bool }

val status_of : raw -> status

val is_optimal : status -> bool

type kcfg = { external0 : bool; obj_fills_cache : bool }

type kstate = { solved : bool; cached : bool }

type kop =
| Solve of raw
| GetSolution
| GetObjective
| IsSolvedQ

type kout =
| RetBool of bool
| RetData
| Raise

val kinit : kcfg -> kstate

val kstep : kcfg -> kstate -> kop -> kstate * kout

val kruns : kcfg -> kstate -> kop list -> kstate * kout list

val kinvocations : kcfg -> kop list -> nat

type result =
| Solved of nat
| NotSolved
| Exited
| Crashed
| Starved

type outcome = { so_res : result; used : nat; aux : nat; lbk : nat }

val kloop :
  (nat -> bool) -> (nat -> bool) -> nat list -> raw list -> nat ->
  result * nat

val never : nat -> bool

val krange : nat -> nat -> nat list

val upper : bool -> nat -> nat

val mgs_loop : bool -> nat list -> raw list -> nat -> result * nat

val mgs_upper : nat -> nat -> nat

val mgs_range : nat -> nat -> nat list

val mgs_solve : bool -> nat -> nat -> raw list -> outcome

type lbres =
| LB of nat * nat
| LExit of nat
| LStarved of nat

val lb_phase : bool -> bool -> bool -> nat -> nat -> raw list -> lbres

type fd_params = { lb0 : nat; upper_excl : bool; nedges : nat;
                   use_mgs : bool; nweights : nat; guessed : bool;
                   gw_paths : nat; greedy : (nat -> bool);
                   over : (nat -> bool) }

val given_match : nat option -> nat -> bool

val fd_solve : bool -> bool -> fd_params -> raw list -> outcome

val mfd_solve : bool -> bool -> fd_params -> raw list -> outcome

val mfdc_solve : bool -> fd_params -> raw list -> outcome

val mpc_solve : bool -> nat -> nat -> raw list -> outcome

val mpcc_solve : bool -> nat -> nat -> raw list -> outcome

type npo_params = { kstart : nat; kmax : nat; first_feasible : bool;
                    delta_abs : q option; delta_rel : q option;
                    npo_ext : (nat -> bool); npo_obj : (nat -> q);
                    npo_over : (nat -> bool) }

val truthy : q option -> q option

type npo_step =
| Stop
| Crash
| Cont of q option

val npo_check : npo_params -> q option -> q -> npo_step

val npo_loop :
  npo_params -> nat list -> raw list -> q option -> nat -> result * nat

val npo_solve : npo_params -> raw list -> outcome

val of_list : bool list -> nat -> bool

val q_of_list : q list -> nat -> q

val run_kmodel : bool -> bool -> kop list -> kout list * nat

val run_mgs : bool -> nat -> nat -> raw list -> outcome

val run_mfd :
  bool -> bool -> bool -> nat -> nat -> bool -> nat -> bool -> nat -> bool
  list -> raw list -> outcome

val run_mfdc :
  bool -> bool -> nat -> nat -> bool -> nat -> bool -> nat -> bool list ->
  raw list -> outcome

val run_mpc : bool -> nat -> nat -> raw list -> outcome

val run_mpcc : bool -> nat -> nat -> raw list -> outcome

val run_npo :
  nat -> nat -> bool -> q option -> q option -> bool list -> q list -> bool
  list -> raw list -> outcome

type wcol = { wlb : q; wub : q; wcost : q; wint : bool }

type wst = { wcols : wcol list; pfix : (nat * q) list; plb : (nat * q) list;
             woffset : q; wmaxi : bool }

type op =
| AddVars of (q * q) list * bool
| SetObjective of (nat * q) list * q * bool
| QueueFix of nat * q
| QueueLb of nat * q
| Optimize

val upd : wcol list -> nat -> (wcol -> wcol) -> wcol list

val fixc : q -> wcol -> wcol

val raisec : q -> wcol -> wcol

val apply_pending : wcol list -> (nat * q) list -> (nat * q) list -> wcol list

val setcost : q -> wcol -> wcol

val addcost : q -> wcol -> wcol

val set_costs : wcol list -> (nat * q) list -> wcol list

val step : wst -> op -> wst

val winit : wst

val observe : wst -> ((((q * q) * q) * bool) list * q) * bool

val trace : op list -> (((((q * q) * q) * bool) list * q) * bool) list
