open Model
open Fpmodel
(* aug <V> <E> <S> <T> s t  ->  "u v u v ..." (edges of the augmented graph in model order) *)
let () = register "aug" (fun () ->
  let v = next_list next_n in
  let e = next_list (fun () -> let a = next_n () in let b = next_n () in (a, b)) in
  let s_ = next_list next_n in let t_ = next_list next_n in
  let s = next_n () in let t = next_n () in
  let es = aug_edges v e s_ t_ s t in
  print_endline (String.concat " " (List.map (fun (a, b) -> Printf.sprintf "%d %d" (int_of_n a) (int_of_n b)) es)))
(* dpath <E with 0/1 value: u v x> s t fuel -> "OK nodes.." | "NONE" *)
let () = register "dpath" (fun () ->
  let ex = next_list (fun () -> let a = next_n () in let b = next_n () in let x = next_z () in ((a, b), x)) in
  let s = next_n () in let t = next_n () in let fuel = next_nat () in
  let e = List.map fst ex in
  let x (a, b) = (try List.assoc (a, b) ex with Not_found -> Z0) in
  match solution_path e x s t fuel with
  | None -> print_endline "NONE"
  | Some p -> print_endline ("OK " ^ s_nodes p))
