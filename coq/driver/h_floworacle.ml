open Model
open Fpmodel
(* the verified exhaustive oracle for integer flow decompositions (FlowOracle.min_fd, theorem min_fd_correct) *)
let next_edge () = let u = next_n () in let v = next_n () in (u, v)
let next_adj () = next_list (fun () -> let v = next_n () in let ns = next_list next_n in (v, ns))
let next_stgraph () =
  let nodes = next_list next_n in let edges = next_list next_edge in
  let s = next_n () in let t = next_n () in let succ = next_adj () in let pred = next_adj () in
  { g_nodes = nodes; g_edges = edges; g_src = s; g_snk = t; g_succ = succ; g_pred = pred }
let next_eq () = let e = next_edge () in let x = next_q () in (e, x)
let next_path_inst () =
  let g = next_stgraph () in let k = next_nat () in let ae = next_bool () in
  let cons = next_list (fun () -> next_list next_edge) in let cov = next_q () in
  let len = if next_bool () then Some (next_list next_eq) else None in
  { p_graph = g; p_k = k; p_allow_empty = ae; p_cons = cons; p_cov = cov; p_len = len }
let next_kfd_inst () =
  let b = next_path_inst () in let flow = next_list next_eq in let ign = next_list next_edge in
  let wmax = next_q () in let isint = next_bool () in
  { f_base = b; f_flow = flow; f_ignore = ign; f_wmax = wmax; f_int = isint }
(* fdmin <kfd_inst> <kmax> : least k in 1..kmax with an integer decomposition realising the constraints, or "none" *)
let () = register "fdmin" (fun () ->
  let i = next_kfd_inst () in let kmax = next_nat () in
  match min_fd i kmax with
  | Some k -> Printf.printf "%d\n" (int_of_nat k)
  | None -> print_endline "none")
