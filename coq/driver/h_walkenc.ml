open Model
open Fpmodel
(* readers shared in form with h_pathenc.ml (each handler group is compiled against its own extracted module) *)
let next_edge () = let u = next_n () in let v = next_n () in (u, v)
let next_adj () = next_list (fun () -> let v = next_n () in let ns = next_list next_n in (v, ns))
let next_stgraph () =
  let nodes = next_list next_n in let edges = next_list next_edge in
  let s = next_n () in let t = next_n () in let succ = next_adj () in let pred = next_adj () in
  { g_nodes = nodes; g_edges = edges; g_src = s; g_snk = t; g_succ = succ; g_pred = pred }
let next_eq () = let e = next_edge () in let x = next_q () in (e, x)
(* wire format of the cyclic instances (see harness/e1cyc.py) *)
let next_edges () = next_list next_edge
let next_seqs () = next_list next_edges
let next_opts () =
  let ae = next_bool () in let sf = next_bool () in let geq = next_bool () in let bnd = next_bool () in
  let zero = next_bool () in let sc = next_bool () in let ac = next_bool () in
  { o_allow_empty = ae; o_safe = sf; o_geq = geq; o_bounds = bnd; o_zero = zero; o_safe_cons = sc; o_anti_cons = ac }
(* walks: graph k nrep (u v num den)* default cons cov opts safe_lists walks_to_fix *)
let next_walk_inst () =
  let g = next_stgraph () in let k = next_nat () in let rep = next_list next_eq in let dflt = next_q () in
  let cons = next_seqs () in let cov = next_q () in let o = next_opts () in
  let sl = next_seqs () in let fx = next_seqs () in
  { w_graph = g; w_k = k; w_rep = rep; w_rep_default = dflt; w_cons = cons; w_cov = cov; w_opts = o;
    w_safe_lists = sl; w_fix = fx }
let next_kpcc_inst () =
  let g = next_stgraph () in let k = next_nat () in let ign = next_edges () in
  let cons = next_seqs () in let cov = next_q () in let o = next_opts () in
  let sl = next_seqs () in let fx = next_seqs () in
  { pc_graph = g; pc_k = k; pc_ignore = ign; pc_cons = cons; pc_cov = cov; pc_opts = o; pc_safe_lists = sl; pc_fix = fx }
let next_kfdc_inst () =
  let g = next_stgraph () in let k = next_nat () in let flow = next_list next_eq in let ign = next_edges () in
  let isint = next_bool () in
  let cons = next_seqs () in let cov = next_q () in let o = next_opts () in
  let sl = next_seqs () in let fx = next_seqs () in
  let given = if next_bool () then Some (next_list next_q) else None in
  let sf = next_bool () in
  { c_graph = g; c_k = k; c_flow = flow; c_ignore = ign; c_int = isint; c_cons = cons; c_cov = cov; c_opts = o;
    c_safe_lists = sl; c_fix = fx; c_given = given; c_scale_free = sf }
let () = register "walks" (fun () -> print_milp (encode_walks (next_walk_inst ())))
let () = register "kpcc" (fun () -> print_milp (encode_kpcc (next_kpcc_inst ())))
let () = register "kfdc" (fun () -> print_milp (encode_kfdc (next_kfdc_inst ())))
(* reach graph v dir : nodes reachable from (dir=0) / reaching (dir=1) v *)
let () = register "reach" (fun () ->
  let g = next_stgraph () in let v = next_n () in let d = next () in
  print_endline ("OK " ^ s_nodes (if d = 0 then reach_fwd g v else reach_bwd g v)))
(* mfdcsearch lb nE given(-1 = none) n (status tout)*  : status 0 optimal 1 infeasible 2 other, for k = lb, lb+1, ..
   -> "SOLVED k" | "UNSOLVED" *)
let () = register "mfdcsearch" (fun () ->
  let lb = next () in let ne = next () in let g = next () in
  let l = next_list (fun () -> let s = next () in let t = next_bool () in (s, t)) in
  let get k = let j = int_of_nat k - lb in if j >= 0 && j < List.length l then Some (List.nth l j) else None in
  let out k = match get k with Some (0, _) -> Optimal | Some (1, _) -> Infeasible | _ -> Other in
  let tout k = match get k with Some (_, t) -> t | None -> false in
  let given = if g < 0 then None else Some (nat_of_int g) in
  match mfdc_solve out tout given (nat_of_int lb) (nat_of_int ne) with
  | Solved k -> Printf.printf "SOLVED %d\n" (int_of_nat k)
  | Unsolved -> print_endline "UNSOLVED")
(* premises of the walk-encoder theorems on the very instance the encoder receives: "<wf_stg> <sequences consist of edges>" *)
let b2s b = if b then "1" else "0"
let wprem (wi : walk_inst) = print_endline (b2s (wf_stg_b wi.w_graph) ^ " " ^ b2s (winputs_ok_b wi))
let () = register "kfdcpremises" (fun () -> wprem (kfdc_walk (next_kfdc_inst ())))
let () = register "kpccpremises" (fun () -> wprem (kpcc_walk (next_kpcc_inst ())))
let () = register "walkspremises" (fun () -> wprem (next_walk_inst ()))
(* the same encoders compared with the implementation's LP by the verified checker LinEquiv.milp_equiv_b (theorem milp_equiv_sound) *)
let () = register "walks_eq" (fun () -> let m = encode_walks (next_walk_inst ()) in equiv_report m)
let () = register "kpcc_eq" (fun () -> let m = encode_kpcc (next_kpcc_inst ()) in equiv_report m)
let () = register "kfdc_eq" (fun () -> let m = encode_kfdc (next_kfdc_inst ()) in equiv_report m)
