open Model
open Fpmodel
(* C06 handlers.  Edges are "u v"; lists are "<count> items...".
   sf_safe     s t <G> <X: items, each a list of edges> <sq>   -> "1" | "0"      (safe_dec)
   sf_incompat s t <G> <a> <b>                                 -> "1" | "0"      (incompat_dec)
   sf_forbid   s t <G> <sq> <edges>                            -> one bit per edge (forbid_dec)
   sf_pairwise s t <G> <list of sequences>                     -> "1" | "0"      (pairwise_incompat_dec)
   sf_safepath <G> u v                                         -> "OK u v u v .." | "NONE"
   sf_safeseq  s t <G> <c>                                     -> "OK u v .." | "NONE"
   sf_bridges  <G> v t                                         -> "OK u v .." | "NONE"
   sf_excess   <fl: u v z> <p: nodes>                          -> "<0|1> <excess>" *)
let next_edge () = let u = next_n () in let v = next_n () in (u, v)
let next_edges () = next_list next_edge
let s_edges l = String.concat " " (List.map (fun (u, v) -> string_of_int (int_of_n u) ^ " " ^ string_of_int (int_of_n v)) l)
let bit b = if b then "1" else "0"
let out_opt = function None -> print_endline "NONE" | Some l -> print_endline (String.trim ("OK " ^ s_edges l))

let () = register "sf_safe" (fun () ->
  let s = next_n () in let t = next_n () in let g = next_edges () in
  let x = next_list next_edges in let sq = next_edges () in
  print_endline (bit (safe_dec g s t x sq)))
let () = register "sf_incompat" (fun () ->
  let s = next_n () in let t = next_n () in let g = next_edges () in
  let a = next_edges () in let b = next_edges () in
  print_endline (bit (incompat_dec g s t a b)))
let () = register "sf_forbid" (fun () ->
  let s = next_n () in let t = next_n () in let g = next_edges () in
  let sq = next_edges () in let es = next_edges () in
  print_endline (String.concat "" (List.map (fun e -> bit (forbid_dec g s t sq e)) es) ^ "."))
let () = register "sf_pairwise" (fun () ->
  let s = next_n () in let t = next_n () in let g = next_edges () in
  let ss = next_list next_edges in
  print_endline (bit (pairwise_incompat_dec g s t ss)))
let () = register "sf_safepath" (fun () ->
  let g = next_edges () in let e = next_edge () in out_opt (safe_path g e))
let () = register "sf_safeseq" (fun () ->
  let s = next_n () in let t = next_n () in let g = next_edges () in let c = next_edges () in
  out_opt (safe_sequence g s t c))
let () = register "sf_bridges" (fun () ->
  let g = next_edges () in let v = next_n () in let t = next_n () in out_opt (bridges g v t))
let () = register "sf_excess" (fun () ->
  let fl = next_list (fun () -> let e = next_edge () in let z = next_z () in (e, z)) in
  let p = next_list next_n in
  Printf.printf "%s %d\n" (bit (excess_pos_dec fl p)) (int_of_z (excess_of fl p)))
(* sf_iexcess <bl: u v lb ub> <p: nodes>  -> "<0|1> <worst-case excess>"   (inexact flows) *)
let () = register "sf_iexcess" (fun () ->
  let bl = next_list (fun () -> let e = next_edge () in let l = next_z () in let u = next_z () in (e, (l, u))) in
  let p = next_list next_n in
  Printf.printf "%s %d\n" (bit (inexact_pos_dec bl p)) (int_of_z (inexact_excess_of bl p)))
