(* C11 handlers.  Strings travel as  <len> <code>*  (character codes); every ".0"/".1" suffix
   operation, dict update and graph mutation is done by the extracted model (NodeExp.v).
   Wire formats (all tokens are integers; [x] = count followed by that many x):
     str = [code]     attrs = [str z]     nbr = str attrs
     graph = [str attrs [nbr] [nbr]]   (per node: name, attributes, predecessors, successors)
     ostr = 0 | 1 str                  elem = 0 str | 1 str str
   Responses: OK ... | ERR kind  *)
open Model
open Fpmodel

let bit i k = (i lsr k) land 1 = 1
let ascii_of_int i = Ascii (bit i 0, bit i 1, bit i 2, bit i 3, bit i 4, bit i 5, bit i 6, bit i 7)
let int_of_ascii (Ascii (a, b, c, d, e, f, g, h)) =
  let v x k = if x then 1 lsl k else 0 in
  v a 0 + v b 1 + v c 2 + v d 3 + v e 4 + v f 5 + v g 6 + v h 7
let rec cstr_of_codes = function [] -> EmptyString | c :: r -> String (ascii_of_int c, cstr_of_codes r)
let rec codes_of_cstr = function EmptyString -> [] | String (a, r) -> int_of_ascii a :: codes_of_cstr r

let next_str () = cstr_of_codes (next_list next)
let next_attrs () = next_list (fun () -> let k = next_str () in let v = next_z () in (k, v))
let next_nbr () = let n = next_str () in let a = next_attrs () in (n, a)
let next_graph () =
  next_list (fun () ->
      let n = next_str () in
      let a = next_attrs () in
      let ps = next_list next_nbr in
      let ss = next_list next_nbr in
      { ne_nm = n; ne_at = a; ne_preds = ps; ne_succs = ss })
let next_ostr () = if next () = 0 then None else Some (next_str ())
let next_elem () = if next () = 0 then NE_Node (next_str ()) else (let u = next_str () in let v = next_str () in NE_Edge (u, v))

let buf = Buffer.create 4096
let out_int i = Buffer.add_char buf ' '; Buffer.add_string buf (string_of_int i)
let out_str s = let cs = codes_of_cstr s in out_int (List.length cs); List.iter out_int cs
let out_list f l = out_int (List.length l); List.iter f l
let out_attrs a = out_list (fun (k, v) -> out_str k; out_int (int_of_z v)) a
let out_edge (u, v) = out_str u; out_str v
let s_err = function NE_ValueError -> "ValueError" | NE_IndexError -> "IndexError" | NE_KeyError -> "KeyError" | NE_Unmodelled -> "Unmodelled"
let finish_ok () = print_endline ("OK" ^ Buffer.contents buf); Buffer.clear buf
let respond r f = Buffer.clear buf; match r with NE_Ok a -> f a; finish_ok () | NE_Err e -> print_endline ("ERR " ^ s_err e)

(* ne_construct graph flow ostr(len) starts ends try_fill gsrc gsnk -> OK nodes edges_view ignore *)
let () = register "ne_construct" (fun () ->
  let g = next_graph () in let flow = next_str () in let len = next_ostr () in
  let starts = next_list next_str in let ends = next_list next_str in let tf = next_bool () in
  let gsrc = next_str () in let gsnk = next_str () in
  respond (ne_construct g flow len starts ends tf gsrc gsnk) (fun (x, ign) ->
    out_list (fun (n, a) -> out_str n; out_attrs a) x.ne_xn;
    out_list (fun (e, a) -> out_edge e; out_attrs a) (ne_edges_view x);
    out_list out_edge ign))

(* ne_cons graph ncons (nelem elem* )* *)
let () = register "ne_cons" (fun () ->
  let g = next_graph () in let cs = next_list (fun () -> next_list next_elem) in
  respond (ne_expand_constraints g cs) (fun l -> out_list (fun c -> out_list out_edge c) l))

(* ne_elem graph elem  (get_expanded_edge) *)
let () = register "ne_elem" (fun () ->
  let g = next_graph () in let el = next_elem () in
  respond (ne_expanded_edge g el) out_edge)

let () = register "ne_starts" (fun () ->
  let g = next_graph () in let l = next_list next_str in
  respond (ne_expanded_starts g l) (fun r -> out_list out_str r))
let () = register "ne_ends" (fun () ->
  let g = next_graph () in let l = next_list next_str in
  respond (ne_expanded_ends g l) (fun r -> out_list out_str r))

(* ne_condense graph gsrc gsnk npaths (path)* *)
let () = register "ne_condense" (fun () ->
  let g = next_graph () in let gsrc = next_str () in let gsnk = next_str () in
  let ps = next_list (fun () -> next_list next_str) in
  respond (ne_condense_paths g gsrc gsnk ps) (fun r -> out_list (fun p -> out_list out_str p) r))

(* ne_cgraph graph nedges (u v attrs)* flow ostr(len) : node attribute dicts of get_condensed_graph *)
let () = register "ne_cgraph" (fun () ->
  let g = next_graph () in
  let es = next_list (fun () -> let u = next_str () in let v = next_str () in let a = next_attrs () in ((u, v), a)) in
  let flow = next_str () in let len = next_ostr () in
  respond (ne_condensed_graph g { ne_xn = []; ne_xe = es } flow len) (fun r -> out_list (fun (n, a) -> out_str n; out_attrs a) r))

(* ne_ignore graph nign (u v)* nelems elem* *)
let () = register "ne_ignore" (fun () ->
  let g = next_graph () in
  let ign = next_list (fun () -> let u = next_str () in let v = next_str () in (u, v)) in
  let els = next_list next_elem in
  respond (ne_ignore_internal g ign els) (fun r -> out_list out_edge r))

(* ne_nodesol graph gsrc gsnk paths weights remove_empty *)
let () = register "ne_nodesol" (fun () ->
  let g = next_graph () in let gsrc = next_str () in let gsnk = next_str () in
  let ps = next_list (fun () -> next_list next_str) in
  let ws = next_list next_z in let rm = next_bool () in
  respond (ne_node_solution g gsrc gsnk ps ws rm) (fun r -> out_list (fun (p, w) -> out_list out_str p; out_int (int_of_z w)) r))

let () = register "ne_exppath" (fun () ->
  let p = next_list next_str in
  respond (NE_Ok (ne_expand_path p)) (fun r -> out_list out_str r))
