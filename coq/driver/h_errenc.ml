(* handlers for the DAG error models (C07, C08): wire -> ErrEnc.err_inst / kmpe_inst -> canonical LP *)
open Model
open Fpmodel
let e_edge () = let u = next_n () in let v = next_n () in (u, v)
let e_adj () = next_list (fun () -> let v = next_n () in let ns = next_list next_n in (v, ns))
let e_stgraph () =
  let nodes = next_list next_n in let edges = next_list e_edge in
  let s = next_n () in let t = next_n () in let succ = e_adj () in let pred = e_adj () in
  { g_nodes = nodes; g_edges = edges; g_src = s; g_snk = t; g_succ = succ; g_pred = pred }
let e_eq () = let e = e_edge () in let x = next_q () in (e, x)
let e_path_inst () =
  let g = e_stgraph () in let k = next_nat () in let ae = next_bool () in
  let cons = next_list (fun () -> next_list e_edge) in let cov = next_q () in
  let len = if next_bool () then Some (next_list e_eq) else None in
  { p_graph = g; p_k = k; p_allow_empty = ae; p_cons = cons; p_cov = cov; p_len = len }
let e_err_inst () =
  let b = e_path_inst () in let flow = next_list e_eq in let ign = next_list e_edge in
  let scale = next_list e_eq in let isint = next_bool () in
  let given = if next_bool () then Some (next_list next_q) else None in
  let ko = next_nat () in
  { e_base = b; e_flow = flow; e_user_ignore = ign; e_scale = scale; e_int = isint; e_given = given; e_korig = ko }
let e_kmpe_inst () =
  let i = e_err_inst () in
  let len = if next_bool () then Some (next_list e_eq) else None in
  let pieces = next_list (fun () -> let l = next_q () in let u = next_q () in let c = next_q () in ((l, u), c)) in
  { m_err = i; m_len = len; m_pieces = pieces }
let () = register "klae" (fun () -> print_milp (encode_klae (e_err_inst ())))
let () = register "kmpe" (fun () -> print_milp (encode_kmpe (e_kmpe_inst ())))
let () = register "errwmax" (fun () ->
  let i = e_err_inst () in let (z, p) = canon_q (w_max i) in
  Printf.printf "%d/%d\n" (int_of_z z) (int_of_pos p))
(* premises of the C07 / C08 optimality theorems (ErrEncChecked.klae_premises_b / kmpe_premises_b), decided by the
   extracted verified checkers on the very instance the encoder receives: <inst> <topological order> -> 1 | 0 *)
let () = register "klaepremises" (fun () ->
  let i = e_err_inst () in let order = next_list next_n in
  print_endline (if klae_premises_b i order then "1" else "0"))
let () = register "kmpepremises" (fun () ->
  let m = e_kmpe_inst () in let order = next_list next_n in
  print_endline (if kmpe_premises_b m order then "1" else "0"))
(* the same encoders compared with the implementation's LP by the verified checker LinEquiv.milp_equiv_b
   (the given-weights variants are the same commands: e_given is part of the instance) *)
let () = register "klae_eq" (fun () -> let m = encode_klae (e_err_inst ()) in equiv_report m)
let () = register "kmpe_eq" (fun () -> let m = encode_kmpe (e_kmpe_inst ()) in equiv_report m)
