
(** val negb : bool -> bool **)

let negb = function
| true -> false
| false -> true

type nat =
| O
| S of nat

(** val option_map : ('a1 -> 'a2) -> 'a1 option -> 'a2 option **)

let option_map f = function
| Some a -> Some (f a)
| None -> None

(** val fst : ('a1 * 'a2) -> 'a1 **)

let fst = function
| (x, _) -> x

(** val snd : ('a1 * 'a2) -> 'a2 **)

let snd = function
| (_, y) -> y

(** val length : 'a1 list -> nat **)

let rec length = function
| [] -> O
| _ :: l' -> S (length l')

(** val app : 'a1 list -> 'a1 list -> 'a1 list **)

let rec app l m =
  match l with
  | [] -> m
  | a :: l1 -> a :: (app l1 m)

type comparison =
| Eq
| Lt
| Gt

(** val compOpp : comparison -> comparison **)

let compOpp = function
| Eq -> Eq
| Lt -> Gt
| Gt -> Lt

module Coq__1 = struct
 (** val add : nat -> nat -> nat **)
 let rec add n0 m =
   match n0 with
   | O -> m
   | S p -> S (add p m)
end
include Coq__1

(** val mul : nat -> nat -> nat **)

let rec mul n0 m =
  match n0 with
  | O -> O
  | S p -> add m (mul p m)

(** val sub : nat -> nat -> nat **)

let rec sub n0 m =
  match n0 with
  | O -> n0
  | S k -> (match m with
            | O -> n0
            | S l -> sub k l)

module Nat =
 struct
  (** val eqb : nat -> nat -> bool **)

  let rec eqb n0 m =
    match n0 with
    | O -> (match m with
            | O -> true
            | S _ -> false)
    | S n' -> (match m with
               | O -> false
               | S m' -> eqb n' m')

  (** val leb : nat -> nat -> bool **)

  let rec leb n0 m =
    match n0 with
    | O -> true
    | S n' -> (match m with
               | O -> false
               | S m' -> leb n' m')

  (** val ltb : nat -> nat -> bool **)

  let ltb n0 m =
    leb (S n0) m

  (** val max : nat -> nat -> nat **)

  let rec max n0 m =
    match n0 with
    | O -> m
    | S n' -> (match m with
               | O -> n0
               | S m' -> S (max n' m'))
 end

(** val hd_error : 'a1 list -> 'a1 option **)

let hd_error = function
| [] -> None
| x :: _ -> Some x

(** val nth : nat -> 'a1 list -> 'a1 -> 'a1 **)

let rec nth n0 l default =
  match n0 with
  | O -> (match l with
          | [] -> default
          | x :: _ -> x)
  | S m -> (match l with
            | [] -> default
            | _ :: t -> nth m t default)

(** val last : 'a1 list -> 'a1 -> 'a1 **)

let rec last l d =
  match l with
  | [] -> d
  | a :: l0 -> (match l0 with
                | [] -> a
                | _ :: _ -> last l0 d)

(** val removelast : 'a1 list -> 'a1 list **)

let rec removelast = function
| [] -> []
| a :: l0 -> (match l0 with
              | [] -> []
              | _ :: _ -> a :: (removelast l0))

(** val rev : 'a1 list -> 'a1 list **)

let rec rev = function
| [] -> []
| x :: l' -> app (rev l') (x :: [])

(** val map : ('a1 -> 'a2) -> 'a1 list -> 'a2 list **)

let rec map f = function
| [] -> []
| a :: t -> (f a) :: (map f t)

(** val flat_map : ('a1 -> 'a2 list) -> 'a1 list -> 'a2 list **)

let rec flat_map f = function
| [] -> []
| x :: t -> app (f x) (flat_map f t)

(** val fold_left : ('a1 -> 'a2 -> 'a1) -> 'a2 list -> 'a1 -> 'a1 **)

let rec fold_left f l a0 =
  match l with
  | [] -> a0
  | b :: t -> fold_left f t (f a0 b)

(** val fold_right : ('a2 -> 'a1 -> 'a1) -> 'a1 -> 'a2 list -> 'a1 **)

let rec fold_right f a0 = function
| [] -> a0
| b :: t -> f b (fold_right f a0 t)

(** val existsb : ('a1 -> bool) -> 'a1 list -> bool **)

let rec existsb f = function
| [] -> false
| a :: l0 -> (||) (f a) (existsb f l0)

(** val forallb : ('a1 -> bool) -> 'a1 list -> bool **)

let rec forallb f = function
| [] -> true
| a :: l0 -> (&&) (f a) (forallb f l0)

(** val filter : ('a1 -> bool) -> 'a1 list -> 'a1 list **)

let rec filter f = function
| [] -> []
| x :: l0 -> if f x then x :: (filter f l0) else filter f l0

(** val find : ('a1 -> bool) -> 'a1 list -> 'a1 option **)

let rec find f = function
| [] -> None
| x :: tl -> if f x then Some x else find f tl

(** val skipn : nat -> 'a1 list -> 'a1 list **)

let rec skipn n0 l =
  match n0 with
  | O -> l
  | S n1 -> (match l with
             | [] -> []
             | _ :: l0 -> skipn n1 l0)

(** val seq : nat -> nat -> nat list **)

let rec seq start = function
| O -> []
| S len0 -> start :: (seq (S start) len0)

(** val repeat : 'a1 -> nat -> 'a1 list **)

let rec repeat x = function
| O -> []
| S k -> x :: (repeat x k)

type positive =
| XI of positive
| XO of positive
| XH

type n =
| N0
| Npos of positive

type z =
| Z0
| Zpos of positive
| Zneg of positive

module Pos =
 struct
  type mask =
  | IsNul
  | IsPos of positive
  | IsNeg
 end

module Coq_Pos =
 struct
  (** val succ : positive -> positive **)

  let rec succ = function
  | XI p -> XO (succ p)
  | XO p -> XI p
  | XH -> XO XH

  (** val add : positive -> positive -> positive **)

  let rec add x y =
    match x with
    | XI p ->
      (match y with
       | XI q0 -> XO (add_carry p q0)
       | XO q0 -> XI (add p q0)
       | XH -> XO (succ p))
    | XO p ->
      (match y with
       | XI q0 -> XI (add p q0)
       | XO q0 -> XO (add p q0)
       | XH -> XI p)
    | XH -> (match y with
             | XI q0 -> XO (succ q0)
             | XO q0 -> XI q0
             | XH -> XO XH)

  (** val add_carry : positive -> positive -> positive **)

  and add_carry x y =
    match x with
    | XI p ->
      (match y with
       | XI q0 -> XI (add_carry p q0)
       | XO q0 -> XO (add_carry p q0)
       | XH -> XI (succ p))
    | XO p ->
      (match y with
       | XI q0 -> XO (add_carry p q0)
       | XO q0 -> XI (add p q0)
       | XH -> XO (succ p))
    | XH ->
      (match y with
       | XI q0 -> XI (succ q0)
       | XO q0 -> XO (succ q0)
       | XH -> XI XH)

  (** val pred_double : positive -> positive **)

  let rec pred_double = function
  | XI p -> XI (XO p)
  | XO p -> XI (pred_double p)
  | XH -> XH

  type mask = Pos.mask =
  | IsNul
  | IsPos of positive
  | IsNeg

  (** val succ_double_mask : mask -> mask **)

  let succ_double_mask = function
  | IsNul -> IsPos XH
  | IsPos p -> IsPos (XI p)
  | IsNeg -> IsNeg

  (** val double_mask : mask -> mask **)

  let double_mask = function
  | IsPos p -> IsPos (XO p)
  | x0 -> x0

  (** val double_pred_mask : positive -> mask **)

  let double_pred_mask = function
  | XI p -> IsPos (XO (XO p))
  | XO p -> IsPos (XO (pred_double p))
  | XH -> IsNul

  (** val sub_mask : positive -> positive -> mask **)

  let rec sub_mask x y =
    match x with
    | XI p ->
      (match y with
       | XI q0 -> double_mask (sub_mask p q0)
       | XO q0 -> succ_double_mask (sub_mask p q0)
       | XH -> IsPos (XO p))
    | XO p ->
      (match y with
       | XI q0 -> succ_double_mask (sub_mask_carry p q0)
       | XO q0 -> double_mask (sub_mask p q0)
       | XH -> IsPos (pred_double p))
    | XH -> (match y with
             | XH -> IsNul
             | _ -> IsNeg)

  (** val sub_mask_carry : positive -> positive -> mask **)

  and sub_mask_carry x y =
    match x with
    | XI p ->
      (match y with
       | XI q0 -> succ_double_mask (sub_mask_carry p q0)
       | XO q0 -> double_mask (sub_mask p q0)
       | XH -> IsPos (pred_double p))
    | XO p ->
      (match y with
       | XI q0 -> double_mask (sub_mask_carry p q0)
       | XO q0 -> succ_double_mask (sub_mask_carry p q0)
       | XH -> double_pred_mask p)
    | XH -> IsNeg

  (** val sub : positive -> positive -> positive **)

  let sub x y =
    match sub_mask x y with
    | IsPos z0 -> z0
    | _ -> XH

  (** val mul : positive -> positive -> positive **)

  let rec mul x y =
    match x with
    | XI p -> add y (XO (mul p y))
    | XO p -> XO (mul p y)
    | XH -> y

  (** val iter : ('a1 -> 'a1) -> 'a1 -> positive -> 'a1 **)

  let rec iter f x = function
  | XI n' -> f (iter f (iter f x n') n')
  | XO n' -> iter f (iter f x n') n'
  | XH -> f x

  (** val size_nat : positive -> nat **)

  let rec size_nat = function
  | XI p0 -> S (size_nat p0)
  | XO p0 -> S (size_nat p0)
  | XH -> S O

  (** val size : positive -> positive **)

  let rec size = function
  | XI p0 -> succ (size p0)
  | XO p0 -> succ (size p0)
  | XH -> XH

  (** val compare_cont : comparison -> positive -> positive -> comparison **)

  let rec compare_cont r0 x y =
    match x with
    | XI p ->
      (match y with
       | XI q0 -> compare_cont r0 p q0
       | XO q0 -> compare_cont Gt p q0
       | XH -> Gt)
    | XO p ->
      (match y with
       | XI q0 -> compare_cont Lt p q0
       | XO q0 -> compare_cont r0 p q0
       | XH -> Gt)
    | XH -> (match y with
             | XH -> r0
             | _ -> Lt)

  (** val compare : positive -> positive -> comparison **)

  let compare =
    compare_cont Eq

  (** val eqb : positive -> positive -> bool **)

  let rec eqb p q0 =
    match p with
    | XI p0 -> (match q0 with
                | XI q1 -> eqb p0 q1
                | _ -> false)
    | XO p0 -> (match q0 with
                | XO q1 -> eqb p0 q1
                | _ -> false)
    | XH -> (match q0 with
             | XH -> true
             | _ -> false)

  (** val ggcdn :
      nat -> positive -> positive -> positive * (positive * positive) **)

  let rec ggcdn n0 a b =
    match n0 with
    | O -> (XH, (a, b))
    | S n1 ->
      (match a with
       | XI a' ->
         (match b with
          | XI b' ->
            (match compare a' b' with
             | Eq -> (a, (XH, XH))
             | Lt ->
               let (g, p) = ggcdn n1 (sub b' a') a in
               let (ba, aa) = p in (g, (aa, (add aa (XO ba))))
             | Gt ->
               let (g, p) = ggcdn n1 (sub a' b') b in
               let (ab, bb) = p in (g, ((add bb (XO ab)), bb)))
          | XO b0 ->
            let (g, p) = ggcdn n1 a b0 in
            let (aa, bb) = p in (g, (aa, (XO bb)))
          | XH -> (XH, (a, XH)))
       | XO a0 ->
         (match b with
          | XI _ ->
            let (g, p) = ggcdn n1 a0 b in
            let (aa, bb) = p in (g, ((XO aa), bb))
          | XO b0 -> let (g, p) = ggcdn n1 a0 b0 in ((XO g), p)
          | XH -> (XH, (a, XH)))
       | XH -> (XH, (XH, b)))

  (** val ggcd : positive -> positive -> positive * (positive * positive) **)

  let ggcd a b =
    ggcdn (Coq__1.add (size_nat a) (size_nat b)) a b

  (** val iter_op : ('a1 -> 'a1 -> 'a1) -> positive -> 'a1 -> 'a1 **)

  let rec iter_op op0 p a =
    match p with
    | XI p0 -> op0 a (iter_op op0 p0 (op0 a a))
    | XO p0 -> iter_op op0 p0 (op0 a a)
    | XH -> a

  (** val to_nat : positive -> nat **)

  let to_nat x =
    iter_op Coq__1.add x (S O)

  (** val of_succ_nat : nat -> positive **)

  let rec of_succ_nat = function
  | O -> XH
  | S x -> succ (of_succ_nat x)
 end

module N =
 struct
  (** val succ_double : n -> n **)

  let succ_double = function
  | N0 -> Npos XH
  | Npos p -> Npos (XI p)

  (** val double : n -> n **)

  let double = function
  | N0 -> N0
  | Npos p -> Npos (XO p)

  (** val add : n -> n -> n **)

  let add n0 m =
    match n0 with
    | N0 -> m
    | Npos p -> (match m with
                 | N0 -> n0
                 | Npos q0 -> Npos (Coq_Pos.add p q0))

  (** val sub : n -> n -> n **)

  let sub n0 m =
    match n0 with
    | N0 -> N0
    | Npos n' ->
      (match m with
       | N0 -> n0
       | Npos m' ->
         (match Coq_Pos.sub_mask n' m' with
          | Coq_Pos.IsPos p -> Npos p
          | _ -> N0))

  (** val mul : n -> n -> n **)

  let mul n0 m =
    match n0 with
    | N0 -> N0
    | Npos p -> (match m with
                 | N0 -> N0
                 | Npos q0 -> Npos (Coq_Pos.mul p q0))

  (** val compare : n -> n -> comparison **)

  let compare n0 m =
    match n0 with
    | N0 -> (match m with
             | N0 -> Eq
             | Npos _ -> Lt)
    | Npos n' -> (match m with
                  | N0 -> Gt
                  | Npos m' -> Coq_Pos.compare n' m')

  (** val eqb : n -> n -> bool **)

  let eqb n0 m =
    match n0 with
    | N0 -> (match m with
             | N0 -> true
             | Npos _ -> false)
    | Npos p -> (match m with
                 | N0 -> false
                 | Npos q0 -> Coq_Pos.eqb p q0)

  (** val leb : n -> n -> bool **)

  let leb x y =
    match compare x y with
    | Gt -> false
    | _ -> true

  (** val ltb : n -> n -> bool **)

  let ltb x y =
    match compare x y with
    | Lt -> true
    | _ -> false

  (** val log2 : n -> n **)

  let log2 = function
  | N0 -> N0
  | Npos p0 ->
    (match p0 with
     | XI p -> Npos (Coq_Pos.size p)
     | XO p -> Npos (Coq_Pos.size p)
     | XH -> N0)

  (** val pos_div_eucl : positive -> n -> n * n **)

  let rec pos_div_eucl a b =
    match a with
    | XI a' ->
      let (q0, r0) = pos_div_eucl a' b in
      let r' = succ_double r0 in
      if leb b r' then ((succ_double q0), (sub r' b)) else ((double q0), r')
    | XO a' ->
      let (q0, r0) = pos_div_eucl a' b in
      let r' = double r0 in
      if leb b r' then ((succ_double q0), (sub r' b)) else ((double q0), r')
    | XH ->
      (match b with
       | N0 -> (N0, (Npos XH))
       | Npos p -> (match p with
                    | XH -> ((Npos XH), N0)
                    | _ -> (N0, (Npos XH))))

  (** val div_eucl : n -> n -> n * n **)

  let div_eucl a b =
    match a with
    | N0 -> (N0, N0)
    | Npos na -> (match b with
                  | N0 -> (N0, a)
                  | Npos _ -> pos_div_eucl na b)

  (** val div : n -> n -> n **)

  let div a b =
    fst (div_eucl a b)

  (** val modulo : n -> n -> n **)

  let modulo a b =
    snd (div_eucl a b)

  (** val to_nat : n -> nat **)

  let to_nat = function
  | N0 -> O
  | Npos p -> Coq_Pos.to_nat p

  (** val of_nat : nat -> n **)

  let of_nat = function
  | O -> N0
  | S n' -> Npos (Coq_Pos.of_succ_nat n')
 end

module Z =
 struct
  (** val double : z -> z **)

  let double = function
  | Z0 -> Z0
  | Zpos p -> Zpos (XO p)
  | Zneg p -> Zneg (XO p)

  (** val succ_double : z -> z **)

  let succ_double = function
  | Z0 -> Zpos XH
  | Zpos p -> Zpos (XI p)
  | Zneg p -> Zneg (Coq_Pos.pred_double p)

  (** val pred_double : z -> z **)

  let pred_double = function
  | Z0 -> Zneg XH
  | Zpos p -> Zpos (Coq_Pos.pred_double p)
  | Zneg p -> Zneg (XI p)

  (** val pos_sub : positive -> positive -> z **)

  let rec pos_sub x y =
    match x with
    | XI p ->
      (match y with
       | XI q0 -> double (pos_sub p q0)
       | XO q0 -> succ_double (pos_sub p q0)
       | XH -> Zpos (XO p))
    | XO p ->
      (match y with
       | XI q0 -> pred_double (pos_sub p q0)
       | XO q0 -> double (pos_sub p q0)
       | XH -> Zpos (Coq_Pos.pred_double p))
    | XH ->
      (match y with
       | XI q0 -> Zneg (XO q0)
       | XO q0 -> Zneg (Coq_Pos.pred_double q0)
       | XH -> Z0)

  (** val add : z -> z -> z **)

  let add x y =
    match x with
    | Z0 -> y
    | Zpos x' ->
      (match y with
       | Z0 -> x
       | Zpos y' -> Zpos (Coq_Pos.add x' y')
       | Zneg y' -> pos_sub x' y')
    | Zneg x' ->
      (match y with
       | Z0 -> x
       | Zpos y' -> pos_sub y' x'
       | Zneg y' -> Zneg (Coq_Pos.add x' y'))

  (** val opp : z -> z **)

  let opp = function
  | Z0 -> Z0
  | Zpos x0 -> Zneg x0
  | Zneg x0 -> Zpos x0

  (** val sub : z -> z -> z **)

  let sub m n0 =
    add m (opp n0)

  (** val mul : z -> z -> z **)

  let mul x y =
    match x with
    | Z0 -> Z0
    | Zpos x' ->
      (match y with
       | Z0 -> Z0
       | Zpos y' -> Zpos (Coq_Pos.mul x' y')
       | Zneg y' -> Zneg (Coq_Pos.mul x' y'))
    | Zneg x' ->
      (match y with
       | Z0 -> Z0
       | Zpos y' -> Zneg (Coq_Pos.mul x' y')
       | Zneg y' -> Zpos (Coq_Pos.mul x' y'))

  (** val pow_pos : z -> positive -> z **)

  let pow_pos z0 =
    Coq_Pos.iter (mul z0) (Zpos XH)

  (** val pow : z -> z -> z **)

  let pow x = function
  | Z0 -> Zpos XH
  | Zpos p -> pow_pos x p
  | Zneg _ -> Z0

  (** val compare : z -> z -> comparison **)

  let compare x y =
    match x with
    | Z0 -> (match y with
             | Z0 -> Eq
             | Zpos _ -> Lt
             | Zneg _ -> Gt)
    | Zpos x' -> (match y with
                  | Zpos y' -> Coq_Pos.compare x' y'
                  | _ -> Gt)
    | Zneg x' ->
      (match y with
       | Zneg y' -> compOpp (Coq_Pos.compare x' y')
       | _ -> Lt)

  (** val sgn : z -> z **)

  let sgn = function
  | Z0 -> Z0
  | Zpos _ -> Zpos XH
  | Zneg _ -> Zneg XH

  (** val leb : z -> z -> bool **)

  let leb x y =
    match compare x y with
    | Gt -> false
    | _ -> true

  (** val ltb : z -> z -> bool **)

  let ltb x y =
    match compare x y with
    | Lt -> true
    | _ -> false

  (** val eqb : z -> z -> bool **)

  let eqb x y =
    match x with
    | Z0 -> (match y with
             | Z0 -> true
             | _ -> false)
    | Zpos p -> (match y with
                 | Zpos q0 -> Coq_Pos.eqb p q0
                 | _ -> false)
    | Zneg p -> (match y with
                 | Zneg q0 -> Coq_Pos.eqb p q0
                 | _ -> false)

  (** val abs : z -> z **)

  let abs = function
  | Zneg p -> Zpos p
  | x -> x

  (** val to_nat : z -> nat **)

  let to_nat = function
  | Zpos p -> Coq_Pos.to_nat p
  | _ -> O

  (** val of_nat : nat -> z **)

  let of_nat = function
  | O -> Z0
  | S n1 -> Zpos (Coq_Pos.of_succ_nat n1)

  (** val of_N : n -> z **)

  let of_N = function
  | N0 -> Z0
  | Npos p -> Zpos p

  (** val to_pos : z -> positive **)

  let to_pos = function
  | Zpos p -> p
  | _ -> XH

  (** val pos_div_eucl : positive -> z -> z * z **)

  let rec pos_div_eucl a b =
    match a with
    | XI a' ->
      let (q0, r0) = pos_div_eucl a' b in
      let r' = add (mul (Zpos (XO XH)) r0) (Zpos XH) in
      if ltb r' b
      then ((mul (Zpos (XO XH)) q0), r')
      else ((add (mul (Zpos (XO XH)) q0) (Zpos XH)), (sub r' b))
    | XO a' ->
      let (q0, r0) = pos_div_eucl a' b in
      let r' = mul (Zpos (XO XH)) r0 in
      if ltb r' b
      then ((mul (Zpos (XO XH)) q0), r')
      else ((add (mul (Zpos (XO XH)) q0) (Zpos XH)), (sub r' b))
    | XH -> if leb (Zpos (XO XH)) b then (Z0, (Zpos XH)) else ((Zpos XH), Z0)

  (** val div_eucl : z -> z -> z * z **)

  let div_eucl a b =
    match a with
    | Z0 -> (Z0, Z0)
    | Zpos a' ->
      (match b with
       | Z0 -> (Z0, a)
       | Zpos _ -> pos_div_eucl a' b
       | Zneg b' ->
         let (q0, r0) = pos_div_eucl a' (Zpos b') in
         (match r0 with
          | Z0 -> ((opp q0), Z0)
          | _ -> ((opp (add q0 (Zpos XH))), (add b r0))))
    | Zneg a' ->
      (match b with
       | Z0 -> (Z0, a)
       | Zpos _ ->
         let (q0, r0) = pos_div_eucl a' b in
         (match r0 with
          | Z0 -> ((opp q0), Z0)
          | _ -> ((opp (add q0 (Zpos XH))), (sub b r0)))
       | Zneg b' -> let (q0, r0) = pos_div_eucl a' (Zpos b') in (q0, (opp r0)))

  (** val div : z -> z -> z **)

  let div a b =
    let (q0, _) = div_eucl a b in q0

  (** val even : z -> bool **)

  let even = function
  | Z0 -> true
  | Zpos p -> (match p with
               | XO _ -> true
               | _ -> false)
  | Zneg p -> (match p with
               | XO _ -> true
               | _ -> false)

  (** val ggcd : z -> z -> z * (z * z) **)

  let ggcd a b =
    match a with
    | Z0 -> ((abs b), (Z0, (sgn b)))
    | Zpos a0 ->
      (match b with
       | Z0 -> ((abs a), ((sgn a), Z0))
       | Zpos b0 ->
         let (g, p) = Coq_Pos.ggcd a0 b0 in
         let (aa, bb) = p in ((Zpos g), ((Zpos aa), (Zpos bb)))
       | Zneg b0 ->
         let (g, p) = Coq_Pos.ggcd a0 b0 in
         let (aa, bb) = p in ((Zpos g), ((Zpos aa), (Zneg bb))))
    | Zneg a0 ->
      (match b with
       | Z0 -> ((abs a), ((sgn a), Z0))
       | Zpos b0 ->
         let (g, p) = Coq_Pos.ggcd a0 b0 in
         let (aa, bb) = p in ((Zpos g), ((Zneg aa), (Zpos bb)))
       | Zneg b0 ->
         let (g, p) = Coq_Pos.ggcd a0 b0 in
         let (aa, bb) = p in ((Zpos g), ((Zneg aa), (Zneg bb))))
 end

(** val zeq_bool : z -> z -> bool **)

let zeq_bool x y =
  match Z.compare x y with
  | Eq -> true
  | _ -> false

type q = { qnum : z; qden : positive }

(** val inject_Z : z -> q **)

let inject_Z x =
  { qnum = x; qden = XH }

(** val qeq_bool : q -> q -> bool **)

let qeq_bool x y =
  zeq_bool (Z.mul x.qnum (Zpos y.qden)) (Z.mul y.qnum (Zpos x.qden))

(** val qle_bool : q -> q -> bool **)

let qle_bool x y =
  Z.leb (Z.mul x.qnum (Zpos y.qden)) (Z.mul y.qnum (Zpos x.qden))

(** val qplus : q -> q -> q **)

let qplus x y =
  { qnum = (Z.add (Z.mul x.qnum (Zpos y.qden)) (Z.mul y.qnum (Zpos x.qden)));
    qden = (Coq_Pos.mul x.qden y.qden) }

(** val qmult : q -> q -> q **)

let qmult x y =
  { qnum = (Z.mul x.qnum y.qnum); qden = (Coq_Pos.mul x.qden y.qden) }

(** val qopp : q -> q **)

let qopp x =
  { qnum = (Z.opp x.qnum); qden = x.qden }

(** val qminus : q -> q -> q **)

let qminus x y =
  qplus x (qopp y)

(** val qinv : q -> q **)

let qinv x =
  match x.qnum with
  | Z0 -> { qnum = Z0; qden = XH }
  | Zpos p -> { qnum = (Zpos x.qden); qden = p }
  | Zneg p -> { qnum = (Zneg x.qden); qden = p }

(** val qdiv : q -> q -> q **)

let qdiv x y =
  qmult x (qinv y)

(** val qred : q -> q **)

let qred q0 =
  let { qnum = q1; qden = q2 } = q0 in
  let (r1, r2) = snd (Z.ggcd q1 (Zpos q2)) in
  { qnum = r1; qden = (Z.to_pos r2) }

type var = { vfam : n; vidx : n list }

(** val fEdge : n **)

let fEdge =
  N0

(** val fPi : n **)

let fPi =
  Npos XH

(** val fW : n **)

let fW =
  Npos (XO XH)

(** val fR : n **)

let fR =
  Npos (XO (XI XH))

(** val fBit : n **)

let fBit =
  Npos (XO (XO (XI XH)))

(** val fComp : n **)

let fComp =
  Npos (XI (XO (XI XH)))

(** val fZ : n **)

let fZ =
  Npos (XO (XI (XI XH)))

(** val edge : n -> n -> n -> var **)

let edge u v i =
  { vfam = fEdge; vidx = (u :: (v :: (i :: []))) }

(** val pi : n -> n -> n -> var **)

let pi u v i =
  { vfam = fPi; vidx = (u :: (v :: (i :: []))) }

(** val w : n -> var **)

let w i =
  { vfam = fW; vidx = (i :: []) }

(** val bit : var -> n -> var **)

let bit p j =
  { vfam = fBit; vidx = (p.vfam :: (app p.vidx (j :: []))) }

(** val comp : var -> n -> var **)

let comp p j =
  { vfam = fComp; vidx = (p.vfam :: (app p.vidx (j :: []))) }

(** val zsel : var -> n -> var **)

let zsel p j =
  { vfam = fZ; vidx = (p.vfam :: (app p.vidx (j :: []))) }

type lin = (var * q) list

type sense =
| SLe
| SGe
| SEq

type row = { lhs : lin; sns : sense; rhs : q }

type col = { cvar : var; clb : q; cub : q; cint : bool }

type milp = { cols : col list; rows : row list; obj : lin; maximize : bool }

(** val canon_q : q -> z * positive **)

let canon_q q0 =
  let r0 = qred q0 in (r0.qnum, r0.qden)

type row_out = ((var * (z * positive)) list * sense) * (z * positive)

(** val canon_row : row -> row_out **)

let canon_row r0 =
  (((map (fun t -> ((fst t), (canon_q (snd t)))) r0.lhs), r0.sns),
    (canon_q r0.rhs))

type col_out = ((var * (z * positive)) * (z * positive)) * bool

(** val canon_col : col -> col_out **)

let canon_col c =
  (((c.cvar, (canon_q c.clb)), (canon_q c.cub)), c.cint)

(** val canon :
    milp -> ((col_out list * row_out list) * (var * (z * positive))
    list) * bool **)

let canon m =
  ((((map canon_col m.cols), (map canon_row m.rows)),
    (map (fun t -> ((fst t), (canon_q (snd t)))) m.obj)), m.maximize)

(** val mkrow : lin -> sense -> q -> row **)

let mkrow l s r0 =
  { lhs = l; sns = s; rhs = r0 }

(** val mcc_rows : var -> var -> var -> q -> q -> row list **)

let mcc_rows b c p lb ub =
  (mkrow ((p, { qnum = (Zpos XH); qden = XH }) :: ((b, (qopp ub)) :: [])) SLe
    { qnum = Z0; qden = XH }) :: ((mkrow ((p, { qnum = (Zpos XH); qden =
                                    XH }) :: ((b, (qopp lb)) :: [])) SGe
                                    { qnum = Z0; qden = XH }) :: ((mkrow ((p,
                                                                    { qnum =
                                                                    (Zpos
                                                                    XH);
                                                                    qden =
                                                                    XH }) :: ((c,
                                                                    (qopp
                                                                    { qnum =
                                                                    (Zpos
                                                                    XH);
                                                                    qden =
                                                                    XH })) :: ((b,
                                                                    (qopp lb)) :: [])))
                                                                    SLe
                                                                    (qopp lb)) :: (
    (mkrow ((p, { qnum = (Zpos XH); qden = XH }) :: ((c,
      (qopp { qnum = (Zpos XH); qden = XH })) :: ((b, (qopp ub)) :: []))) SGe
      (qopp ub)) :: [])))

(** val least_pow : nat -> nat -> q -> nat **)

let rec least_pow fuel n0 target =
  match fuel with
  | O -> n0
  | S f ->
    if qle_bool target (inject_Z (Z.pow (Zpos (XO XH)) (Z.of_nat n0)))
    then n0
    else least_pow f (S n0) target

(** val num_bits : q -> nat **)

let num_bits ub =
  let t = qplus ub { qnum = (Zpos XH); qden = XH } in
  least_pow (S (Z.to_nat t.qnum)) O t

(** val pow2 : nat -> q **)

let pow2 j =
  inject_Z (Z.pow (Zpos (XO XH)) (Z.of_nat j))

(** val bit_idx : nat -> nat list **)

let bit_idx n0 =
  seq O n0

(** val intprod_cols : var -> q -> q -> nat -> col list **)

let intprod_cols p lb ub n0 =
  app
    (map (fun j -> { cvar = (bit p (N.of_nat j)); clb = { qnum = Z0; qden =
      XH }; cub = { qnum = (Zpos XH); qden = XH }; cint = true })
      (bit_idx n0))
    (map (fun j -> { cvar = (comp p (N.of_nat j)); clb = lb; cub = ub; cint =
      false }) (bit_idx n0))

(** val intprod_rows : var -> var -> var -> q -> q -> nat -> row list **)

let intprod_rows x c p lb ub n0 =
  app
    ((mkrow
       (app (map (fun j -> ((bit p (N.of_nat j)), (pow2 j))) (bit_idx n0))
         ((x, (qopp { qnum = (Zpos XH); qden = XH })) :: [])) SEq { qnum =
       Z0; qden = XH }) :: [])
    (app
      (flat_map (fun j ->
        mcc_rows (bit p (N.of_nat j)) c (comp p (N.of_nat j)) lb ub)
        (bit_idx n0))
      ((mkrow
         (app (map (fun j -> ((comp p (N.of_nat j)), (pow2 j))) (bit_idx n0))
           ((p, (qopp { qnum = (Zpos XH); qden = XH })) :: [])) SEq { qnum =
         Z0; qden = XH }) :: []))

type piece = (q * q) * q

(** val pL : piece -> q **)

let pL p =
  fst (fst p)

(** val pU : piece -> q **)

let pU p =
  snd (fst p)

(** val pC : piece -> q **)

let pC =
  snd

(** val qmax : q -> q -> q **)

let qmax a b =
  if qle_bool a b then b else a

(** val qmin : q -> q -> q **)

let qmin a b =
  if qle_bool a b then a else b

(** val list_max : q -> q list -> q **)

let list_max d l =
  fold_left qmax l d

(** val list_min : q -> q list -> q **)

let list_min d l =
  fold_left qmin l d

(** val pwc_M : piece list -> q **)

let pwc_M = function
| [] -> { qnum = Z0; qden = XH }
| p0 :: r0 ->
  qmax
    (qmult
      (qminus (list_max (pU p0) (map pU r0)) (list_min (pL p0) (map pL r0)))
      { qnum = (Zpos (XO XH)); qden = XH })
    (qminus (list_max (pC p0) (map pC r0)) (list_min (pC p0) (map pC r0)))

(** val pwc_cols : var -> piece list -> col list **)

let pwc_cols y ps =
  map (fun j -> { cvar = (zsel y (N.of_nat j)); clb = { qnum = Z0; qden =
    XH }; cub = { qnum = (Zpos XH); qden = XH }; cint = true })
    (seq O (length ps))

(** val pwc_piece_rows : var -> var -> q -> nat -> piece -> row list **)

let pwc_piece_rows x y m j p =
  let z0 = zsel y (N.of_nat j) in
  (mkrow ((x, { qnum = (Zpos XH); qden = XH }) :: ((z0, (qopp m)) :: [])) SGe
    (qminus (pL p) m)) :: ((mkrow ((x, { qnum = (Zpos XH); qden =
                             XH }) :: ((z0, m) :: [])) SLe (qplus (pU p) m)) :: (
  (mkrow ((y, { qnum = (Zpos XH); qden = XH }) :: ((z0, m) :: [])) SLe
    (qplus (pC p) m)) :: ((mkrow ((y, { qnum = (Zpos XH); qden =
                            XH }) :: ((z0, (qopp m)) :: [])) SGe
                            (qminus (pC p) m)) :: [])))

(** val indexed : nat -> 'a1 list -> (nat * 'a1) list **)

let rec indexed i = function
| [] -> []
| a :: r0 -> (i, a) :: (indexed (S i) r0)

(** val pwc_rows_M : var -> var -> q -> piece list -> row list **)

let pwc_rows_M x y m ps =
  app
    ((mkrow
       (map (fun j -> ((zsel y (N.of_nat j)), { qnum = (Zpos XH); qden =
         XH })) (seq O (length ps))) SEq { qnum = (Zpos XH); qden = XH }) :: [])
    (flat_map (fun jp -> pwc_piece_rows x y m (fst jp) (snd jp))
      (indexed O ps))

(** val pwc_rows : var -> var -> piece list -> row list **)

let pwc_rows x y ps =
  pwc_rows_M x y (pwc_M ps) ps

type edge0 = n * n

(** val edge_eqb : edge0 -> edge0 -> bool **)

let edge_eqb e1 e2 =
  (&&) (N.eqb (fst e1) (fst e2)) (N.eqb (snd e1) (snd e2))

(** val mem_edge : edge0 -> edge0 list -> bool **)

let mem_edge e l =
  existsb (edge_eqb e) l

(** val lookup_adj : n -> (n * n list) list -> n list **)

let rec lookup_adj v = function
| [] -> []
| p :: r0 -> let (u, ns) = p in if N.eqb u v then ns else lookup_adj v r0

(** val lookup_q : edge0 -> (edge0 * q) list -> q -> q **)

let rec lookup_q e l d =
  match l with
  | [] -> d
  | p :: r0 ->
    let (e', q0) = p in if edge_eqb e' e then q0 else lookup_q e r0 d

type stgraph = { g_nodes : n list; g_edges : edge0 list; g_src : n;
                 g_snk : n; g_succ : (n * n list) list;
                 g_pred : (n * n list) list }

(** val succs : stgraph -> n -> n list **)

let succs g v =
  lookup_adj v g.g_succ

(** val preds : stgraph -> n -> n list **)

let preds g v =
  lookup_adj v g.g_pred

(** val inner : stgraph -> n list **)

let inner g =
  filter (fun v -> (&&) (negb (N.eqb v g.g_src)) (negb (N.eqb v g.g_snk)))
    g.g_nodes

(** val layers : nat -> n list **)

let layers k =
  map N.of_nat (seq O k)

type path_inst = { p_graph : stgraph; p_k : nat; p_allow_empty : bool;
                   p_cons : edge0 list list; p_cov : q;
                   p_len : (edge0 * q) list option }

(** val bincol : var -> col **)

let bincol v =
  { cvar = v; clb = { qnum = Z0; qden = XH }; cub = { qnum = (Zpos XH);
    qden = XH }; cint = true }

(** val edge_cols : stgraph -> nat -> col list **)

let edge_cols g k =
  flat_map (fun i ->
    map (fun e -> bincol (edge (fst e) (snd e) i)) g.g_edges) (layers k)

(** val row_10a : stgraph -> bool -> n -> row **)

let row_10a g allow_empty i =
  mkrow
    (map (fun v -> ((edge g.g_src v i), { qnum = (Zpos XH); qden = XH }))
      (succs g g.g_src)) (if allow_empty then SLe else SEq) { qnum = (Zpos
    XH); qden = XH }

(** val row_10c : stgraph -> n -> n -> row **)

let row_10c g i v =
  mkrow
    (app
      (map (fun u -> ((edge u v i), { qnum = (Zpos XH); qden = XH }))
        (preds g v))
      (map (fun w0 -> ((edge v w0 i),
        (qopp { qnum = (Zpos XH); qden = XH }))) (succs g v))) SEq { qnum =
    Z0; qden = XH }

(** val path_rows : stgraph -> nat -> bool -> row list **)

let path_rows g k allow_empty =
  app (map (row_10a g allow_empty) (layers k))
    (flat_map (fun i -> map (row_10c g i) (inner g)) (layers k))

(** val r : n -> n -> var **)

let r i j =
  { vfam = fR; vidx = (i :: (j :: [])) }

(** val elen : path_inst -> edge0 -> q **)

let elen i e =
  match i.p_len with
  | Some l -> lookup_q e l { qnum = (Zpos XH); qden = XH }
  | None -> { qnum = (Zpos XH); qden = XH }

(** val cons_length : path_inst -> edge0 list -> q **)

let cons_length i c =
  fold_right (fun e s -> qplus (elen i e) s) { qnum = Z0; qden = XH } c

(** val cons_idx : path_inst -> n list **)

let cons_idx i =
  map N.of_nat (seq O (length i.p_cons))

(** val zipn : nat -> 'a1 list -> (n * 'a1) list **)

let rec zipn i = function
| [] -> []
| a :: r0 -> ((N.of_nat i), a) :: (zipn (S i) r0)

(** val cons_cols : path_inst -> col list **)

let cons_cols i =
  match i.p_cons with
  | [] -> []
  | _ :: _ ->
    flat_map (fun i0 -> map (fun j -> bincol (r i0 j)) (cons_idx i))
      (layers i.p_k)

(** val row_7a : path_inst -> n -> (n * edge0 list) -> row **)

let row_7a i i0 jc =
  mkrow
    (app (map (fun e -> ((edge (fst e) (snd e) i0), (elen i e))) (snd jc))
      (((r i0 (fst jc)),
      (qopp (qmult (cons_length i (snd jc)) i.p_cov))) :: [])) SGe { qnum =
    Z0; qden = XH }

(** val row_7b : path_inst -> n -> row **)

let row_7b i j =
  mkrow
    (map (fun i0 -> ((r i0 j), { qnum = (Zpos XH); qden = XH }))
      (layers i.p_k)) SGe { qnum = (Zpos XH); qden = XH }

(** val cons_rows : path_inst -> row list **)

let cons_rows i =
  match i.p_cons with
  | [] -> []
  | _ :: _ ->
    app
      (flat_map (fun i0 -> map (row_7a i i0) (zipn O i.p_cons))
        (layers i.p_k)) (map (row_7b i) (cons_idx i))

(** val base_cols : path_inst -> col list **)

let base_cols i =
  app (edge_cols i.p_graph i.p_k) (cons_cols i)

(** val base_rows : path_inst -> row list **)

let base_rows i =
  app (path_rows i.p_graph i.p_k i.p_allow_empty) (cons_rows i)

type kfd_inst = { f_base : path_inst; f_flow : (edge0 * q) list;
                  f_ignore : edge0 list; f_wmax : q; f_int : bool }

(** val wcol_ : var -> q -> bool -> col **)

let wcol_ v ub isint =
  { cvar = v; clb = { qnum = Z0; qden = XH }; cub = ub; cint = isint }

(** val kfd_cols : kfd_inst -> col list **)

let kfd_cols i =
  let g = i.f_base.p_graph in
  let k = i.f_base.p_k in
  app
    (flat_map (fun i0 ->
      map (fun e -> wcol_ (pi (fst e) (snd e) i0) i.f_wmax i.f_int) g.g_edges)
      (layers k)) (map (fun i0 -> wcol_ (w i0) i.f_wmax i.f_int) (layers k))

(** val kfd_edge_rows : kfd_inst -> edge0 -> row list **)

let kfd_edge_rows i e =
  let k = i.f_base.p_k in
  app
    (flat_map (fun i0 ->
      mcc_rows (edge (fst e) (snd e) i0) (w i0) (pi (fst e) (snd e) i0)
        { qnum = Z0; qden = XH } i.f_wmax) (layers k))
    ((mkrow
       (map (fun i0 -> ((pi (fst e) (snd e) i0), { qnum = (Zpos XH); qden =
         XH })) (layers k)) SEq
       (lookup_q e i.f_flow { qnum = Z0; qden = XH })) :: [])

(** val kfd_rows : kfd_inst -> row list **)

let kfd_rows i =
  flat_map (kfd_edge_rows i)
    (filter (fun e -> negb (mem_edge e i.f_ignore)) i.f_base.p_graph.g_edges)

(** val encode_kfd : kfd_inst -> milp **)

let encode_kfd i =
  { cols = (app (base_cols i.f_base) (kfd_cols i)); rows =
    (app (base_rows i.f_base) (kfd_rows i)); obj = []; maximize = false }

(** val src_out_terms : stgraph -> nat -> lin **)

let src_out_terms g k =
  flat_map (fun v ->
    map (fun i -> ((edge g.g_src v i), { qnum = (Zpos XH); qden = XH }))
      (layers k)) (succs g g.g_src)

(** val kfdw_rows : kfd_inst -> q list -> nat -> row list **)

let kfdw_rows i ws k_orig =
  let g = i.f_base.p_graph in
  let k = i.f_base.p_k in
  app
    (map (fun e ->
      mkrow
        (map (fun iw -> ((edge (fst e) (snd e) (fst iw)), (snd iw)))
          (zipn O ws)) SEq (lookup_q e i.f_flow { qnum = Z0; qden = XH }))
      (filter (fun e -> negb (mem_edge e i.f_ignore)) g.g_edges))
    ((mkrow (src_out_terms g k) SLe (inject_Z (Z.of_nat k_orig))) :: [])

(** val encode_kfd_given : kfd_inst -> q list -> nat -> milp **)

let encode_kfd_given i ws k_orig =
  { cols = (base_cols i.f_base); rows =
    (app (base_rows i.f_base) (kfdw_rows i ws k_orig)); obj =
    (src_out_terms i.f_base.p_graph i.f_base.p_k); maximize = false }

(** val kpc_rows : path_inst -> edge0 list -> row list **)

let kpc_rows i ignore =
  map (fun e ->
    mkrow
      (map (fun i0 -> ((edge (fst e) (snd e) i0), { qnum = (Zpos XH); qden =
        XH })) (layers i.p_k)) SGe { qnum = (Zpos XH); qden = XH })
    (filter (fun e -> negb (mem_edge e ignore)) i.p_graph.g_edges)

(** val encode_kpc : path_inst -> edge0 list -> milp **)

let encode_kpc i ignore =
  { cols = (base_cols i); rows = (app (base_rows i) (kpc_rows i ignore));
    obj = []; maximize = false }

(** val x_one : (edge0 -> z) -> edge0 -> bool **)

let x_one x e =
  Z.eqb (x e) (Zpos XH)

(** val out_edges : edge0 list -> n -> edge0 list **)

let out_edges e v =
  filter (fun e0 -> N.eqb (fst e0) v) e

(** val follow_ones :
    edge0 list -> (edge0 -> z) -> n -> nat -> n -> n list option **)

let rec follow_ones e x t fuel v =
  match fuel with
  | O -> None
  | S f ->
    if N.eqb v t
    then Some []
    else (match find (x_one x) (out_edges e v) with
          | Some e0 ->
            option_map (fun x0 -> (snd e0) :: x0)
              (follow_ones e x t f (snd e0))
          | None -> None)

(** val solution_path :
    edge0 list -> (edge0 -> z) -> n -> n -> nat -> n list option **)

let solution_path e x s t fuel =
  match find (x_one x) (out_edges e s) with
  | Some _ -> option_map removelast (follow_ones e x t fuel s)
  | None -> Some []

(** val memn : n -> n list -> bool **)

let memn u l =
  existsb (N.eqb u) l

(** val indeg0 : edge0 list -> n -> bool **)

let indeg0 e u =
  negb (existsb (fun e0 -> N.eqb (snd e0) u) e)

(** val outdeg0 : edge0 list -> n -> bool **)

let outdeg0 e u =
  negb (existsb (fun e0 -> N.eqb (fst e0) u) e)

(** val is_start : edge0 list -> n list -> n -> bool **)

let is_start e s u =
  (||) (indeg0 e u) (memn u s)

(** val is_end : edge0 list -> n list -> n -> bool **)

let is_end e t u =
  (||) (outdeg0 e u) (memn u t)

(** val aug_edges :
    n list -> edge0 list -> n list -> n list -> n -> n -> edge0 list **)

let aug_edges v e s t s0 t0 =
  app e
    (flat_map (fun u ->
      app (if is_start e s u then (s0, u) :: [] else [])
        (if is_end e t u then (u, t0) :: [] else [])) v)

type edge1 = n * n

type graph = edge1 list

(** val pop_out : graph -> n -> (n * graph) option **)

let rec pop_out g u =
  match g with
  | [] -> None
  | e :: r0 ->
    let (a, b) = e in
    (match pop_out r0 u with
     | Some p -> let (v, r') = p in Some (v, ((a, b) :: r'))
     | None -> if N.eqb a u then Some (b, r0) else None)

(** val trail : nat -> graph -> n -> ((graph * n list) * n list) option **)

let rec trail fuel g cur =
  match fuel with
  | O -> None
  | S f ->
    (match pop_out g cur with
     | Some p ->
       let (nxt, g1) = p in
       (match trail f g1 nxt with
        | Some p0 ->
          let (p1, st) = p0 in
          let (g', w0) = p1 in Some ((g', (nxt :: w0)), (cur :: st))
        | None -> None)
     | None -> Some ((g, []), []))

(** val closed_from :
    nat -> graph -> n -> n -> ((graph * n list) * n list) option **)

let rec closed_from fuel g start cur =
  match fuel with
  | O -> None
  | S f ->
    (match pop_out g cur with
     | Some p ->
       let (nxt, g1) = p in
       if N.eqb nxt start
       then Some ((g1, (nxt :: [])), (cur :: []))
       else (match closed_from f g1 start nxt with
             | Some p0 ->
               let (p1, st) = p0 in
               let (g', w0) = p1 in Some ((g', (nxt :: w0)), (cur :: st))
             | None -> None)
     | None -> Some ((g, []), []))

(** val splice : n list -> n -> n list -> n list **)

let rec splice w0 v c =
  match w0 with
  | [] -> []
  | x :: r0 -> if N.eqb x v then x :: (app c r0) else x :: (splice r0 v c)

(** val has_out : graph -> n -> bool **)

let has_out g u =
  existsb (fun e -> N.eqb (fst e) u) g

(** val phase2 :
    nat -> nat -> graph -> n list -> n list -> (graph * n list) option **)

let rec phase2 fuel efuel g w0 stack =
  match fuel with
  | O -> None
  | S f ->
    (match stack with
     | [] -> Some (g, w0)
     | v :: st ->
       if has_out g v
       then (match closed_from efuel g v v with
             | Some p ->
               let (p0, pushed) = p in
               let (g', c) = p0 in
               phase2 f efuel g' (splice w0 v c) (app (rev pushed) st)
             | None -> None)
       else phase2 f efuel g w0 st)

(** val reconstruct : graph -> n -> (graph * n list) option **)

let reconstruct g s =
  let n0 = S (length g) in
  (match trail n0 g s with
   | Some p ->
     let (p0, st) = p in
     let (g1, w0) = p0 in phase2 (mul (S (S O)) n0) n0 g1 (s :: w0) (rev st)
   | None -> None)

(** val round_half_even : q -> z **)

let round_half_even q0 =
  let n0 = q0.qnum in
  let d = Zpos q0.qden in
  let fl = Z.div n0 d in
  let r2 = Z.mul (Zpos (XO XH)) (Z.sub n0 (Z.mul fl d)) in
  if Z.ltb r2 d
  then fl
  else if Z.ltb d r2
       then Z.add fl (Zpos XH)
       else if Z.even fl then fl else Z.add fl (Zpos XH)

(** val residual_q : (edge1 * q) list -> graph **)

let residual_q es =
  flat_map (fun pat ->
    let (e, q0) = pat in repeat e (Z.to_nat (round_half_even q0))) es

(** val strip_st : n -> n -> n list -> n list **)

let strip_st s t w0 = match w0 with
| [] -> w0
| a :: r0 ->
  (match r0 with
   | [] -> if N.eqb a s then [] else w0
   | _ :: _ ->
     if (&&) (N.eqb a s) (N.eqb (last r0 a) t) then removelast r0 else w0)

(** val solution_walk :
    (edge1 * q) list -> n -> n -> (nat * n list) option **)

let solution_walk es s t =
  match reconstruct (residual_q es) s with
  | Some p -> let (g', w0) = p in Some ((length g'), (strip_st s t w0))
  | None -> None

type str = n list

(** val is_ws : n -> bool **)

let is_ws c =
  (||)
    ((||)
      ((||)
        ((||)
          ((||)
            ((||)
              ((||)
                ((||)
                  ((||)
                    ((||)
                      ((&&) (N.leb (Npos (XI (XO (XO XH)))) c)
                        (N.leb c (Npos (XI (XO (XI XH))))))
                      ((&&) (N.leb (Npos (XO (XO (XI (XI XH))))) c)
                        (N.leb c (Npos (XO (XO (XO (XO (XO XH)))))))))
                    (N.eqb c (Npos (XI (XO (XI (XO (XO (XO (XO XH))))))))))
                  (N.eqb c (Npos (XO (XO (XO (XO (XO (XI (XO XH))))))))))
                (N.eqb c (Npos (XO (XO (XO (XO (XO (XO (XO (XI (XO (XI (XI
                  (XO XH)))))))))))))))
              ((&&)
                (N.leb (Npos (XO (XO (XO (XO (XO (XO (XO (XO (XO (XO (XO (XO
                  (XO XH)))))))))))))) c)
                (N.leb c (Npos (XO (XI (XO (XI (XO (XO (XO (XO (XO (XO (XO
                  (XO (XO XH)))))))))))))))))
            (N.eqb c (Npos (XO (XO (XO (XI (XO (XI (XO (XO (XO (XO (XO (XO
              (XO XH))))))))))))))))
          (N.eqb c (Npos (XI (XO (XO (XI (XO (XI (XO (XO (XO (XO (XO (XO (XO
            XH))))))))))))))))
        (N.eqb c (Npos (XI (XI (XI (XI (XO (XI (XO (XO (XO (XO (XO (XO (XO
          XH))))))))))))))))
      (N.eqb c (Npos (XI (XI (XI (XI (XI (XO (XI (XO (XO (XO (XO (XO (XO
        XH))))))))))))))))
    (N.eqb c (Npos (XO (XO (XO (XO (XO (XO (XO (XO (XO (XO (XO (XO (XI
      XH)))))))))))))))

(** val is_digit : n -> bool **)

let is_digit c =
  (&&) (N.leb (Npos (XO (XO (XO (XO (XI XH)))))) c)
    (N.leb c (Npos (XI (XO (XO (XI (XI XH)))))))

(** val c_hash : n **)

let c_hash =
  Npos (XI (XI (XO (XO (XO XH)))))

(** val c_S : n **)

let c_S =
  Npos (XI (XI (XO (XO (XI (XO XH))))))

(** val c_dot : n **)

let c_dot =
  Npos (XO (XI (XI (XI (XO XH)))))

(** val c_plus : n **)

let c_plus =
  Npos (XI (XI (XO (XI (XO XH)))))

(** val c_minus : n **)

let c_minus =
  Npos (XI (XO (XI (XI (XO XH)))))

(** val c_us : n **)

let c_us =
  Npos (XI (XI (XI (XI (XI (XO XH))))))

(** val str_eqb : str -> str -> bool **)

let rec str_eqb a b =
  match a with
  | [] -> (match b with
           | [] -> true
           | _ :: _ -> false)
  | x :: a' ->
    (match b with
     | [] -> false
     | y :: b' -> (&&) (N.eqb x y) (str_eqb a' b'))

(** val toks_eqb : str list -> str list -> bool **)

let rec toks_eqb a b =
  match a with
  | [] -> (match b with
           | [] -> true
           | _ :: _ -> false)
  | x :: a' ->
    (match b with
     | [] -> false
     | y :: b' -> (&&) (str_eqb x y) (toks_eqb a' b'))

(** val lstrip : str -> str **)

let rec lstrip s = match s with
| [] -> []
| c :: r0 -> if is_ws c then lstrip r0 else s

(** val rstrip : str -> str **)

let rec rstrip = function
| [] -> []
| c :: r0 ->
  (match rstrip r0 with
   | [] -> if is_ws c then [] else c :: []
   | n0 :: l -> c :: (n0 :: l))

(** val strip : str -> str **)

let strip s =
  rstrip (lstrip s)

(** val split_ws : str -> str -> str list **)

let rec split_ws s cur =
  match s with
  | [] -> (match cur with
           | [] -> []
           | _ :: _ -> (rev cur) :: [])
  | c :: r0 ->
    if is_ws c
    then (match cur with
          | [] -> split_ws r0 []
          | _ :: _ -> (rev cur) :: (split_ws r0 []))
    else split_ws r0 (c :: cur)

(** val starts_with : str -> str -> bool **)

let rec starts_with p s =
  match p with
  | [] -> true
  | x :: p' ->
    (match s with
     | [] -> false
     | y :: s' -> (&&) (N.eqb x y) (starts_with p' s'))

(** val lstrip_hash : str -> str **)

let rec lstrip_hash s = match s with
| [] -> []
| c :: r0 -> if N.eqb c c_hash then lstrip_hash r0 else s

(** val is_hdr : str -> bool **)

let is_hdr line =
  starts_with (c_hash :: []) (lstrip line)

(** val is_blank : str -> bool **)

let is_blank line =
  match strip line with
  | [] -> true
  | _ :: _ -> false

(** val pairs_of : str list -> (str * str) list **)

let rec pairs_of = function
| [] -> []
| a :: r0 -> (match r0 with
              | [] -> []
              | b :: _ -> (a, b) :: (pairs_of r0))

type dec = { dneg : bool; dmant : n; dscale : nat }

(** val span_digits : str -> str * str **)

let rec span_digits s = match s with
| [] -> ([], [])
| c :: r0 ->
  if is_digit c then let (a, b) = span_digits r0 in ((c :: a), b) else ([], s)

(** val digits_val : str -> n -> n **)

let rec digits_val ds acc =
  match ds with
  | [] -> acc
  | c :: r0 ->
    digits_val r0
      (N.add (N.mul (Npos (XO (XI (XO XH)))) acc)
        (N.sub c (Npos (XO (XO (XO (XO (XI XH))))))))

(** val strip_sign : str -> bool * str **)

let strip_sign s = match s with
| [] -> (false, [])
| c :: r0 ->
  if N.eqb c c_plus
  then (false, r0)
  else if N.eqb c c_minus then (true, r0) else (false, s)

(** val non_ascii : str -> bool **)

let non_ascii s =
  existsb (fun c -> N.leb (Npos (XO (XO (XO (XO (XO (XO (XO XH)))))))) c) s

(** val udigits : str -> bool -> bool **)

let rec udigits s prev_digit =
  match s with
  | [] -> prev_digit
  | c :: r0 ->
    if is_digit c
    then udigits r0 true
    else if (&&) (N.eqb c c_us) prev_digit
         then (match r0 with
               | [] -> false
               | d :: _ -> (&&) (is_digit d) (udigits r0 false))
         else false

type pint =
| IOk of z
| IBad
| IUnm

(** val parse_int : str -> pint **)

let parse_int s =
  if non_ascii s
  then IUnm
  else if Nat.ltb (S (S (S (S (S (S (S (S (S (S (S (S (S (S (S (S (S (S (S (S
            (S (S (S (S (S (S (S (S (S (S (S (S (S (S (S (S (S (S (S (S (S (S
            (S (S (S (S (S (S (S (S (S (S (S (S (S (S (S (S (S (S (S (S (S (S
            (S (S (S (S (S (S (S (S (S (S (S (S (S (S (S (S (S (S (S (S (S (S
            (S (S (S (S (S (S (S (S (S (S (S (S (S (S (S (S (S (S (S (S (S (S
            (S (S (S (S (S (S (S (S (S (S (S (S (S (S (S (S (S (S (S (S (S (S
            (S (S (S (S (S (S (S (S (S (S (S (S (S (S (S (S (S (S (S (S (S (S
            (S (S (S (S (S (S (S (S (S (S (S (S (S (S (S (S (S (S (S (S (S (S
            (S (S (S (S (S (S (S (S (S (S (S (S (S (S (S (S (S (S (S (S (S (S
            (S (S (S (S (S (S (S (S (S (S (S (S (S (S (S (S (S (S (S (S (S (S
            (S (S (S (S (S (S (S (S (S (S (S (S (S (S (S (S (S (S (S (S (S (S
            (S (S (S (S (S (S (S (S (S (S (S (S (S (S (S (S (S (S (S (S (S (S
            (S (S (S (S (S (S (S (S (S (S (S (S (S (S (S (S (S (S (S (S (S (S
            (S (S (S (S (S (S (S (S (S (S (S (S (S (S (S (S (S (S (S (S (S (S
            (S (S (S (S (S (S (S (S (S (S (S (S (S (S (S (S (S (S (S (S (S (S
            (S (S (S (S (S (S (S (S (S (S (S (S (S (S (S (S (S (S (S (S (S (S
            (S (S (S (S (S (S (S (S (S (S (S (S (S (S (S (S (S (S (S (S (S (S
            (S (S (S (S (S (S (S (S (S (S (S (S (S (S (S (S (S (S (S (S (S (S
            (S (S (S (S (S (S (S (S (S (S (S (S (S (S (S (S (S (S (S (S (S (S
            (S (S (S (S (S (S (S (S (S (S (S (S (S (S (S (S (S (S (S (S (S (S
            (S (S (S (S (S (S (S (S (S (S (S (S (S (S (S (S (S (S (S (S (S (S
            (S (S (S (S (S (S (S (S (S (S (S (S (S (S (S (S (S (S (S (S (S (S
            (S (S (S (S (S (S (S (S (S (S (S (S (S (S (S (S (S (S (S (S (S (S
            (S (S (S (S (S (S (S (S (S (S (S (S (S (S (S (S (S (S (S (S (S (S
            (S (S (S (S (S (S (S (S (S (S (S (S (S (S (S (S (S (S (S (S (S (S
            (S (S (S (S (S (S (S (S (S (S (S (S (S (S (S (S (S (S (S (S (S (S
            (S (S (S (S (S (S (S (S (S (S (S (S (S (S (S (S (S (S (S (S (S (S
            (S (S (S (S (S (S (S (S (S (S (S (S (S (S (S (S (S (S (S (S (S (S
            (S (S (S (S (S (S (S (S (S (S (S (S (S (S (S (S (S (S (S (S (S (S
            (S (S (S (S (S (S (S (S (S (S (S (S (S (S (S (S (S (S (S (S (S (S
            (S (S (S (S (S (S (S (S (S (S (S (S (S (S (S (S (S (S (S (S (S (S
            (S (S (S (S (S (S (S (S (S (S (S (S (S (S (S (S (S (S (S (S (S (S
            (S (S (S (S (S (S (S (S (S (S (S (S (S (S (S (S (S (S (S (S (S (S
            (S (S (S (S (S (S (S (S (S (S (S (S (S (S (S (S (S (S (S (S (S (S
            (S (S (S (S (S (S (S (S (S (S (S (S (S (S (S (S (S (S (S (S (S (S
            (S (S (S (S (S (S (S (S (S (S (S (S (S (S (S (S (S (S (S (S (S (S
            (S (S (S (S (S (S (S (S (S (S (S (S (S (S (S (S (S (S (S (S (S (S
            (S (S (S (S (S (S (S (S (S (S (S (S (S (S (S (S (S (S (S (S (S (S
            (S (S (S (S (S (S (S (S (S (S (S (S (S (S (S (S (S (S (S (S (S (S
            (S (S (S (S (S (S (S (S (S (S (S (S (S (S (S (S (S (S (S (S (S (S
            (S (S (S (S (S (S (S (S (S (S (S (S (S (S (S (S (S (S (S (S (S (S
            (S (S (S (S (S (S (S (S (S (S (S (S (S (S (S (S (S (S (S (S (S (S
            (S (S (S (S (S (S (S (S (S (S (S (S (S (S (S (S (S (S (S (S (S (S
            (S (S (S (S (S (S (S (S (S (S (S (S (S (S (S (S (S (S (S (S (S (S
            (S (S (S (S (S (S (S (S (S (S (S (S (S (S (S (S (S (S (S (S (S (S
            (S (S (S (S (S (S (S (S (S (S (S (S (S (S (S (S (S (S (S (S (S (S
            (S (S (S (S (S (S (S (S (S (S (S (S (S (S (S (S (S (S (S (S (S (S
            (S (S (S (S (S (S (S (S (S (S (S (S (S (S (S (S (S (S (S (S (S (S
            (S (S (S (S (S (S (S (S (S (S (S (S (S (S (S (S (S (S (S (S (S (S
            (S (S (S (S (S (S (S (S (S (S (S (S (S (S (S (S (S (S (S (S (S (S
            (S (S (S (S (S (S (S (S (S (S (S (S (S (S (S (S (S (S (S (S (S (S
            (S (S (S (S (S (S (S (S (S (S (S (S (S (S (S (S (S (S (S (S (S (S
            (S (S (S (S (S (S (S (S (S (S (S (S (S (S (S (S (S (S (S (S (S (S
            (S (S (S (S (S (S (S (S (S (S (S (S (S (S (S (S (S (S (S (S (S (S
            (S (S (S (S (S (S (S (S (S (S (S (S (S (S (S (S (S (S (S (S (S (S
            (S (S (S (S (S (S (S (S (S (S (S (S (S (S (S (S (S (S (S (S (S (S
            (S (S (S (S (S (S (S (S (S (S (S (S (S (S (S (S (S (S (S (S (S (S
            (S (S (S (S (S (S (S (S (S (S (S (S (S (S (S (S (S (S (S (S (S (S
            (S (S (S (S (S (S (S (S (S (S (S (S (S (S (S (S (S (S (S (S (S (S
            (S (S (S (S (S (S (S (S (S (S (S (S (S (S (S (S (S (S (S (S (S (S
            (S (S (S (S (S (S (S (S (S (S (S (S (S (S (S (S (S (S (S (S (S (S
            (S (S (S (S (S (S (S (S (S (S (S (S (S (S (S (S (S (S (S (S (S (S
            (S (S (S (S (S (S (S (S (S (S (S (S (S (S (S (S (S (S (S (S (S (S
            (S (S (S (S (S (S (S (S (S (S (S (S (S (S (S (S (S (S (S (S (S (S
            (S (S (S (S (S (S (S (S (S (S (S (S (S (S (S (S (S (S (S (S (S (S
            (S (S (S (S (S (S (S (S (S (S (S (S (S (S (S (S (S (S (S (S (S (S
            (S (S (S (S (S (S (S (S (S (S (S (S (S (S (S (S (S (S (S (S (S (S
            (S (S (S (S (S (S (S (S (S (S (S (S (S (S (S (S (S (S (S (S (S (S
            (S (S (S (S (S (S (S (S (S (S (S (S (S (S (S (S (S (S (S (S (S (S
            (S (S (S (S (S (S (S (S (S (S (S (S (S (S (S (S (S (S (S (S (S (S
            (S (S (S (S (S (S (S (S (S (S (S (S (S (S (S (S (S (S (S (S (S (S
            (S (S (S (S (S (S (S (S (S (S (S (S (S (S (S (S (S (S (S (S (S (S
            (S (S (S (S (S (S (S (S (S (S (S (S (S (S (S (S (S (S (S (S (S (S
            (S (S (S (S (S (S (S (S (S (S (S (S (S (S (S (S (S (S (S (S (S (S
            (S (S (S (S (S (S (S (S (S (S (S (S (S (S (S (S (S (S (S (S (S (S
            (S (S (S (S (S (S (S (S (S (S (S (S (S (S (S (S (S (S (S (S (S (S
            (S (S (S (S (S (S (S (S (S (S (S (S (S (S (S (S (S (S (S (S (S (S
            (S (S (S (S (S (S (S (S (S (S (S (S (S (S (S (S (S (S (S (S (S (S
            (S (S (S (S (S (S (S (S (S (S (S (S (S (S (S (S (S (S (S (S (S (S
            (S (S (S (S (S (S (S (S (S (S (S (S (S (S (S (S (S (S (S (S (S (S
            (S (S (S (S (S (S (S (S (S (S (S (S (S (S (S (S (S (S (S (S (S (S
            (S (S (S (S (S (S (S (S (S (S (S (S (S (S (S (S (S (S (S (S (S (S
            (S (S (S (S (S (S (S (S (S (S (S (S (S (S (S (S (S (S (S (S (S (S
            (S (S (S (S (S (S (S (S (S (S (S (S (S (S (S (S (S (S (S (S (S (S
            (S (S (S (S (S (S (S (S (S (S (S (S (S (S (S (S (S (S (S (S (S (S
            (S (S (S (S (S (S (S (S (S (S (S (S (S (S (S (S (S (S (S (S (S (S
            (S (S (S (S (S (S (S (S (S (S (S (S (S (S (S (S (S (S (S (S (S (S
            (S (S (S (S (S (S (S (S (S (S (S (S (S (S (S (S (S (S (S (S (S (S
            (S (S (S (S (S (S (S (S (S (S (S (S (S (S (S (S (S (S (S (S (S (S
            (S (S (S (S (S (S (S (S (S (S (S (S (S (S (S (S (S (S (S (S (S (S
            (S (S (S (S (S (S (S (S (S (S (S (S (S (S (S (S (S (S (S (S (S (S
            (S (S (S (S (S (S (S (S (S (S (S (S (S (S (S (S (S (S (S (S (S (S
            (S (S (S (S (S (S (S (S (S (S (S (S (S (S (S (S (S (S (S (S (S (S
            (S (S (S (S (S (S (S (S (S (S (S (S (S (S (S (S (S (S (S (S (S (S
            (S (S (S (S (S (S (S (S (S (S (S (S (S (S (S (S (S (S (S (S (S (S
            (S (S (S (S (S (S (S (S (S (S (S (S (S (S (S (S (S (S (S (S (S (S
            (S (S (S (S (S (S (S (S (S (S (S (S (S (S (S (S (S (S (S (S (S (S
            (S (S (S (S (S (S (S (S (S (S (S (S (S (S (S (S (S (S (S (S (S (S
            (S (S (S (S (S (S (S (S (S (S (S (S (S (S (S (S (S (S (S (S (S (S
            (S (S (S (S (S (S (S (S (S (S (S (S (S (S (S (S (S (S (S (S (S (S
            (S (S (S (S (S (S (S (S (S (S (S (S (S (S (S (S (S (S (S (S (S (S
            (S (S (S (S (S (S (S (S (S (S (S (S (S (S (S (S (S (S (S (S (S (S
            (S (S (S (S (S (S (S (S (S (S (S (S (S (S (S (S (S (S (S (S (S (S
            (S (S (S (S (S (S (S (S (S (S (S (S (S (S (S (S (S (S (S (S (S (S
            (S (S (S (S (S (S (S (S (S (S (S (S (S (S (S (S (S (S (S (S (S (S
            (S (S (S (S (S (S (S (S (S (S (S (S (S (S (S (S (S (S (S (S (S (S
            (S (S (S (S (S (S (S (S (S (S (S (S (S (S (S (S (S (S (S (S (S (S
            (S (S (S (S (S (S (S (S (S (S (S (S (S (S (S (S (S (S (S (S (S (S
            (S (S (S (S (S (S (S (S (S (S (S (S (S (S (S (S (S (S (S (S (S (S
            (S (S (S (S (S (S (S (S (S (S (S (S (S (S (S (S (S (S (S (S (S (S
            (S (S (S (S (S (S (S (S (S (S (S (S (S (S (S (S (S (S (S (S (S (S
            (S (S (S (S (S (S (S (S (S (S (S (S (S (S (S (S (S (S (S (S (S (S
            (S (S (S (S (S (S (S (S (S (S (S (S (S (S (S (S (S (S (S (S (S (S
            (S (S (S (S (S (S (S (S (S (S (S (S (S (S (S (S (S (S (S (S (S (S
            (S (S (S (S (S (S (S (S (S (S (S (S (S (S (S (S (S (S (S (S (S (S
            (S (S (S (S (S (S (S (S (S (S (S (S (S (S (S (S (S (S (S (S (S (S
            (S (S (S (S (S (S (S (S (S (S (S (S (S (S (S (S (S (S (S (S (S (S
            (S (S (S (S (S (S (S (S (S (S (S (S (S (S (S (S (S (S (S (S (S (S
            (S (S (S (S (S (S (S (S (S (S (S (S (S (S (S (S (S (S (S (S (S (S
            (S (S (S (S (S (S (S (S (S (S (S (S (S (S (S (S (S (S (S (S (S (S
            (S (S (S (S (S (S (S (S (S (S (S (S (S (S (S (S (S (S (S (S (S (S
            (S (S (S (S (S (S (S (S (S (S (S (S (S (S (S (S (S (S (S (S (S (S
            (S (S (S (S (S (S (S (S (S (S (S (S (S (S (S (S (S (S (S (S (S (S
            (S (S (S (S (S (S (S (S (S (S (S (S (S (S (S (S (S (S (S (S (S (S
            (S (S (S (S (S (S (S (S (S (S (S (S (S (S (S (S (S (S (S (S (S (S
            (S (S (S (S (S (S (S (S (S (S (S (S (S (S (S (S (S (S (S (S (S (S
            (S (S (S (S (S (S (S (S (S (S (S (S (S (S (S (S (S (S (S (S (S (S
            (S (S (S (S (S (S (S (S (S (S (S (S (S (S (S (S (S (S (S (S (S (S
            (S (S (S (S (S (S (S (S (S (S (S (S (S (S (S (S (S (S (S (S (S (S
            (S (S (S (S (S (S (S (S (S (S (S (S (S (S (S (S (S (S (S (S (S (S
            (S (S (S (S (S (S (S (S (S (S (S (S (S (S (S (S (S (S (S (S (S (S
            (S (S (S (S (S (S (S (S (S (S (S (S (S (S (S (S (S (S (S (S (S (S
            (S (S (S (S (S (S (S (S (S (S (S (S (S (S (S (S (S (S (S (S (S (S
            (S (S (S (S (S (S (S (S (S (S (S (S (S (S (S (S (S (S (S (S (S (S
            (S (S (S (S (S (S (S (S (S (S (S (S (S (S (S (S (S (S (S (S (S (S
            (S (S (S (S (S (S (S (S (S (S (S (S (S (S (S (S (S (S (S (S (S (S
            (S (S (S (S (S (S (S (S (S (S (S (S (S (S (S (S (S (S (S (S (S (S
            (S (S (S (S (S (S (S (S (S (S (S (S (S (S (S (S (S (S (S (S (S (S
            (S (S (S (S (S (S (S (S (S (S (S (S (S (S (S (S (S (S (S (S (S (S
            (S (S (S (S (S (S (S (S (S (S (S (S (S (S (S (S (S (S (S (S (S (S
            (S (S (S (S (S (S (S (S (S (S (S (S (S (S (S (S (S (S (S (S (S (S
            (S (S (S (S (S (S (S (S (S (S (S (S (S (S (S (S (S (S (S (S (S (S
            (S (S (S (S (S (S (S (S (S (S (S (S (S (S (S (S (S (S (S (S (S (S
            (S (S (S (S (S (S (S (S (S (S (S (S (S (S (S (S (S (S (S (S (S (S
            (S (S (S (S (S (S (S (S (S (S (S (S (S (S (S (S (S (S (S (S (S (S
            (S (S (S (S (S (S (S (S (S (S (S (S (S (S (S (S (S (S (S (S (S (S
            (S (S (S (S (S (S (S (S (S (S (S (S (S (S (S (S (S (S (S (S (S (S
            (S (S (S (S (S (S (S (S (S (S (S (S (S (S (S (S (S (S (S (S (S (S
            (S (S (S (S (S (S (S (S (S (S (S (S (S (S (S (S (S (S (S (S (S (S
            (S (S (S (S (S (S (S (S (S (S (S (S (S (S (S (S (S (S (S (S (S (S
            (S (S (S (S (S (S (S (S (S (S (S (S (S (S (S (S (S (S (S (S (S (S
            (S (S (S (S (S (S (S (S (S (S (S (S (S (S (S (S (S (S (S (S (S (S
            (S (S (S (S (S (S (S (S (S (S (S (S (S (S (S (S (S (S (S (S (S (S
            (S (S (S (S (S (S (S (S (S (S (S (S (S (S (S (S (S (S (S (S (S (S
            (S (S (S (S (S (S (S (S (S (S (S (S (S (S (S (S (S (S (S (S (S (S
            (S (S (S (S (S (S (S (S (S (S (S (S (S (S (S (S (S (S (S (S (S (S
            (S (S (S (S (S (S (S (S (S (S (S (S (S (S (S (S (S (S (S (S (S (S
            (S (S (S (S (S (S (S (S (S (S (S (S (S (S (S (S (S (S (S (S (S (S
            (S (S (S (S (S (S (S (S (S (S (S (S (S (S (S (S (S (S (S (S (S (S
            (S (S (S (S (S (S (S (S (S (S (S (S (S (S (S (S (S (S (S (S (S (S
            (S (S (S (S (S (S (S (S (S (S (S (S (S (S (S (S (S (S (S (S (S (S
            (S (S (S (S (S (S (S (S (S (S (S (S (S (S (S (S (S (S (S (S (S (S
            (S (S (S (S (S (S (S (S (S (S (S (S (S (S (S (S (S (S (S (S (S (S
            (S (S (S (S (S (S (S (S (S (S (S (S (S (S (S (S (S (S (S (S (S (S
            (S (S (S (S (S (S (S (S (S (S (S (S (S (S (S (S (S (S (S (S (S (S
            (S (S (S (S (S (S (S (S (S (S (S (S (S (S (S (S (S (S (S (S (S (S
            (S (S (S (S (S (S (S (S (S (S (S (S (S (S (S (S (S (S (S (S (S (S
            (S (S (S (S (S (S (S (S (S (S (S (S (S (S (S (S (S (S (S (S (S (S
            (S (S (S (S (S (S (S (S (S (S (S (S (S (S (S (S (S (S (S (S (S (S
            (S (S (S (S (S (S (S (S (S (S (S (S (S (S (S (S (S (S (S (S (S (S
            (S (S (S (S (S (S (S (S (S (S (S (S (S (S (S (S (S (S (S (S (S (S
            (S (S (S (S (S (S (S (S (S (S (S (S (S (S (S (S (S (S (S (S (S (S
            (S (S (S (S (S (S (S (S (S (S (S (S (S (S (S (S (S (S (S (S (S (S
            (S (S (S (S (S (S (S (S (S (S (S (S (S (S (S (S (S (S (S (S (S (S
            (S (S (S (S (S (S (S (S (S (S (S (S (S (S (S (S (S (S (S (S (S (S
            (S (S (S (S (S (S (S (S (S (S (S (S (S (S (S (S (S (S (S (S (S (S
            (S (S (S (S (S (S (S (S (S (S (S (S (S (S (S (S (S (S (S (S (S (S
            (S (S (S (S (S (S (S (S (S (S (S (S (S (S (S (S (S (S (S (S (S (S
            (S (S (S (S (S (S (S (S (S (S (S (S (S (S (S (S (S (S (S (S (S (S
            (S (S (S (S (S (S (S (S (S (S (S (S (S (S (S (S (S (S (S (S (S (S
            (S (S (S (S (S (S (S (S (S (S (S (S (S (S (S (S (S (S (S (S (S (S
            (S (S (S (S (S (S (S (S (S (S (S (S (S (S (S (S (S (S (S (S
            O))))))))))))))))))))))))))))))))))))))))))))))))))))))))))))))))))))))))))))))))))))))))))))))))))))))))))))))))))))))))))))))))))))))))))))))))))))))))))))))))))))))))))))))))))))))))))))))))))))))))))))))))))))))))))))))))))))))))))))))))))))))))))))))))))))))))))))))))))))))))))))))))))))))))))))))))))))))))))))))))))))))))))))))))))))))))))))))))))))))))))))))))))))))))))))))))))))))))))))))))))))))))))))))))))))))))))))))))))))))))))))))))))))))))))))))))))))))))))))))))))))))))))))))))))))))))))))))))))))))))))))))))))))))))))))))))))))))))))))))))))))))))))))))))))))))))))))))))))))))))))))))))))))))))))))))))))))))))))))))))))))))))))))))))))))))))))))))))))))))))))))))))))))))))))))))))))))))))))))))))))))))))))))))))))))))))))))))))))))))))))))))))))))))))))))))))))))))))))))))))))))))))))))))))))))))))))))))))))))))))))))))))))))))))))))))))))))))))))))))))))))))))))))))))))))))))))))))))))))))))))))))))))))))))))))))))))))))))))))))))))))))))))))))))))))))))))))))))))))))))))))))))))))))))))))))))))))))))))))))))))))))))))))))))))))))))))))))))))))))))))))))))))))))))))))))))))))))))))))))))))))))))))))))))))))))))))))))))))))))))))))))))))))))))))))))))))))))))))))))))))))))))))))))))))))))))))))))))))))))))))))))))))))))))))))))))))))))))))))))))))))))))))))))))))))))))))))))))))))))))))))))))))))))))))))))))))))))))))))))))))))))))))))))))))))))))))))))))))))))))))))))))))))))))))))))))))))))))))))))))))))))))))))))))))))))))))))))))))))))))))))))))))))))))))))))))))))))))))))))))))))))))))))))))))))))))))))))))))))))))))))))))))))))))))))))))))))))))))))))))))))))))))))))))))))))))))))))))))))))))))))))))))))))))))))))))))))))))))))))))))))))))))))))))))))))))))))))))))))))))))))))))))))))))))))))))))))))))))))))))))))))))))))))))))))))))))))))))))))))))))))))))))))))))))))))))))))))))))))))))))))))))))))))))))))))))))))))))))))))))))))))))))))))))))))))))))))))))))))))))))))))))))))))))))))))))))))))))))))))))))))))))))))))))))))))))))))))))))))))))))))))))))))))))))))))))))))))))))))))))))))))))))))))))))))))))))))))))))))))))))))))))))))))))))))))))))))))))))))))))))))))))))))))))))))))))))))))))))))))))))))))))))))))))))))))))))))))))))))))))))))))))))))))))))))))))))))))))))))))))))))))))))))))))))))))))))))))))))))))))))))))))))))))))))))))))))))))))))))))))))))))))))))))))))))))))))))))))))))))))))))))))))))))))))))))))))))))))))))))))))))))))))))))))))))))))))))))))))))))))))))))))))))))))))))))))))))))))))))))))))))))))))))))))))))))))))))))))))))))))))))))))))))))))))))))))))))))))))))))))))))))))))))))))))))))))))))))))))))))))))))))))))))))))))))))))))))))))))))))))))))))))))))))))))))))))))))))))))))))))))))))))))))))))))))))))))))))))))))))))))))))))))))))))))))))))))))))))))))))))))))))))))))))))))))))))))))))))))))))))))))))))))))))))))))))))))))))))))))))))))))))))))))))))))))))))))))))))))))))))))))))))))))))))))))))))))))))))))))))))))))))))))))))))))))))))))))))))))))))))))))))))))))))))))))))))))))))))))))))))))))))))))))))))))))))))))))))))))))))))))))))))))))))))))))))))))))))))))))))))))))))))))))))))))))))))))))))))))))))))))))))))))))))))))))))))))))))))))))))))))))))))))))))))))))))))))))))))))))))))))))))))))))))))))))))))))))))))))))))))))))))))))))))))))))))))))))))))))))))))))))))))))))))))))))))))))))))))))))))))))))))))))))))))))))))))))))))))))))))))))))))))))))))))))))))))))))))))))))))))))))))))))))))))))))))))))))))))))))))))))))))))))))))))))))))))))))))))))))))))))))))))))))))))))))))))))))))))))))))))))))))))))))))))))))))))))))))))))))))))))))))))))))))))))))))))))))))))))))))))))))))))))))))))))))))))))))))))))))))))))))))))))))))))))))))))))))))))))))))))))))))))))))))))))))))))))))))))))))))))))))))))))))))))))))))))))))))))))))))))))))))))))))))))))))))))))))))))))))))))))))))))))))))))))))))))))))))))))))))))))))))))))))))))))))))))))))))))))))))))))))))))))))))))))))))))))))))))))))))))))))))))))))))))))))))))))))))))))))))))))))))))))))))))))))))))))))))))))))))))
            (length s)
       then IUnm
       else let (neg, b) = strip_sign s in
            let (ds, s0) = span_digits b in
            (match ds with
             | [] -> if udigits b false then IUnm else IBad
             | _ :: _ ->
               (match s0 with
                | [] ->
                  let v = Z.of_N (digits_val ds N0) in
                  IOk (if neg then Z.opp v else v)
                | _ :: _ -> if udigits b false then IUnm else IBad))

(** val simple_float : str -> dec option **)

let simple_float s =
  let (neg, b) = strip_sign s in
  let (ip, r1) = span_digits b in
  (match ip with
   | [] -> None
   | _ :: _ ->
     (match r1 with
      | [] -> Some { dneg = neg; dmant = (digits_val ip N0); dscale = O }
      | c :: r2 ->
        if N.eqb c c_dot
        then let (fp, s0) = span_digits r2 in
             (match fp with
              | [] -> None
              | _ :: _ ->
                (match s0 with
                 | [] ->
                   Some { dneg = neg; dmant = (digits_val (app ip fp) N0);
                     dscale = (length fp) }
                 | _ :: _ -> None))
        else None))

(** val us_ok : str -> n -> bool **)

let rec us_ok s prev =
  match s with
  | [] -> negb (N.eqb prev c_us)
  | c :: r0 ->
    if N.eqb c c_us
    then (&&) (is_digit prev) (us_ok r0 c)
    else (&&) (if N.eqb prev c_us then is_digit c else true) (us_ok r0 c)

(** val lower : n -> n **)

let lower c =
  if (&&) (N.leb (Npos (XI (XO (XO (XO (XO (XO XH))))))) c)
       (N.leb c (Npos (XO (XI (XO (XI (XI (XO XH))))))))
  then N.add c (Npos (XO (XO (XO (XO (XO XH))))))
  else c

(** val is_nil : 'a1 list -> bool **)

let is_nil = function
| [] -> true
| _ :: _ -> false

(** val dec_syntax : str -> bool **)

let dec_syntax s =
  let (ip, r1) = span_digits s in
  let (fp, r2) =
    match r1 with
    | [] -> ([], [])
    | c :: r0 -> if N.eqb c c_dot then span_digits r0 else ([], r1)
  in
  if (&&) (is_nil ip) (is_nil fp)
  then false
  else (match r2 with
        | [] -> true
        | e :: r3 ->
          if (||) (N.eqb e (Npos (XI (XO (XI (XO (XO (XI XH))))))))
               (N.eqb e (Npos (XI (XO (XI (XO (XO (XO XH))))))))
          then let r4 =
                 match r3 with
                 | [] -> r3
                 | c :: r' ->
                   if (||) (N.eqb c c_plus) (N.eqb c c_minus) then r' else r3
               in
               let (ed, r5) = span_digits r4 in
               (&&) (negb (is_nil ed)) (is_nil r5)
          else false)

(** val py_float_ok : str -> bool **)

let py_float_ok s =
  (&&) (us_ok s N0)
    (let t = filter (fun c -> negb (N.eqb c c_us)) s in
     let b = snd (strip_sign t) in
     let lb = map lower b in
     (||)
       ((||)
         ((||)
           (str_eqb lb ((Npos (XI (XO (XO (XI (XO (XI XH))))))) :: ((Npos (XO
             (XI (XI (XI (XO (XI XH))))))) :: ((Npos (XO (XI (XI (XO (XO (XI
             XH))))))) :: []))))
           (str_eqb lb ((Npos (XI (XO (XO (XI (XO (XI XH))))))) :: ((Npos (XO
             (XI (XI (XI (XO (XI XH))))))) :: ((Npos (XO (XI (XI (XO (XO (XI
             XH))))))) :: ((Npos (XI (XO (XO (XI (XO (XI XH))))))) :: ((Npos
             (XO (XI (XI (XI (XO (XI XH))))))) :: ((Npos (XI (XO (XO (XI (XO
             (XI XH))))))) :: ((Npos (XO (XO (XI (XO (XI (XI
             XH))))))) :: ((Npos (XI (XO (XO (XI (XI (XI
             XH))))))) :: []))))))))))
         (str_eqb lb ((Npos (XO (XI (XI (XI (XO (XI XH))))))) :: ((Npos (XI
           (XO (XO (XO (XO (XI XH))))))) :: ((Npos (XO (XI (XI (XI (XO (XI
           XH))))))) :: []))))) (dec_syntax b))

type pfloat =
| FOk of dec
| FBad
| FUnm

(** val parse_float : str -> pfloat **)

let parse_float s =
  if non_ascii s
  then FUnm
  else (match simple_float s with
        | Some d -> FOk d
        | None -> if py_float_ok s then FUnm else FBad)

type perr =
| EMissingCount
| EBadCount
| EBadEdge
| EBadWeight
| EMissingConstraintEdge
| ENoSource
| ENoSink
| EZeroHasConstraints
| EZeroHasEdges

type 'a res =
| Ok of 'a
| Error of perr
| Unmodelled

type wedge = (str * str) * dec

type ginfo = { gi_nodes : str list; gi_edges : wedge list; gi_n : nat;
               gi_m : nat }

type graph0 = { gid : str option; gcons : (str * str) list list;
                ginf : ginfo option }

(** val mem_toks : str list -> str list list -> bool **)

let mem_toks t seen =
  existsb (toks_eqb t) seen

(** val scan :
    str list -> str list -> str list list -> (str * str) list list -> (str
    list * str list) * (str * str) list list **)

let rec scan lines hdrs seen cstr =
  match lines with
  | [] -> (([], hdrs), cstr)
  | l :: r0 ->
    if is_hdr l
    then let st = lstrip l in
         if starts_with (c_hash :: (c_S :: [])) st
         then let nodes_part = strip (skipn (S (S O)) st) in
              (match nodes_part with
               | [] -> scan r0 hdrs seen cstr
               | _ :: _ ->
                 let toks = split_ws nodes_part [] in
                 if mem_toks toks seen
                 then scan r0 hdrs seen cstr
                 else (match pairs_of toks with
                       | [] -> scan r0 hdrs (toks :: seen) cstr
                       | p :: l0 ->
                         scan r0 hdrs (toks :: seen)
                           (app cstr ((p :: l0) :: []))))
         else scan r0 (app hdrs ((strip (lstrip_hash st)) :: [])) seen cstr
    else ((lines, hdrs), cstr)

(** val skip_blank : str list -> str list **)

let rec skip_blank lines = match lines with
| [] -> []
| l :: r0 -> if is_blank l then skip_blank r0 else lines

(** val mem_str : str -> str list -> bool **)

let mem_str x l =
  existsb (str_eqb x) l

(** val add_node : str -> str list -> str list **)

let add_node x ns =
  if mem_str x ns then ns else app ns (x :: [])

(** val set_edge : str -> str -> dec -> wedge list -> wedge list **)

let rec set_edge u v w0 = function
| [] -> ((u, v), w0) :: []
| w1 :: r0 ->
  let (p, x) = w1 in
  let (a, b) = p in
  if (&&) (str_eqb a u) (str_eqb b v)
  then ((a, b), w0) :: r0
  else ((a, b), x) :: (set_edge u v w0 r0)

(** val add_edge :
    str -> str -> dec -> (str list * wedge list) -> str list * wedge list **)

let add_edge u v w0 g =
  ((add_node v (add_node u (fst g))), (set_edge u v w0 (snd g)))

(** val read_edges :
    str list -> (str list * wedge list) -> (str list * wedge list) res **)

let rec read_edges lines g =
  match lines with
  | [] -> Ok g
  | l :: r0 ->
    if (||) (is_blank l) (is_hdr l)
    then read_edges r0 g
    else (match split_ws l [] with
          | [] -> Error EBadEdge
          | u :: l0 ->
            (match l0 with
             | [] -> Error EBadEdge
             | v :: l1 ->
               (match l1 with
                | [] -> Error EBadEdge
                | ws :: l2 ->
                  (match l2 with
                   | [] ->
                     (match parse_float ws with
                      | FOk w0 -> read_edges r0 (add_edge u v w0 g)
                      | FBad -> Error EBadWeight
                      | FUnm -> Unmodelled)
                   | _ :: _ -> Error EBadEdge))))

(** val has_edge : wedge list -> (str * str) -> bool **)

let has_edge es e =
  existsb (fun t ->
    (&&) (str_eqb (fst (fst t)) (fst e)) (str_eqb (snd (fst t)) (snd e))) es

(** val has_source : str list -> wedge list -> bool **)

let has_source ns es =
  existsb (fun x -> negb (existsb (fun t -> str_eqb (snd (fst t)) x) es)) ns

(** val has_sink : str list -> wedge list -> bool **)

let has_sink ns es =
  existsb (fun x -> negb (existsb (fun t -> str_eqb (fst (fst t)) x) es)) ns

(** val no_st : str list -> perr -> graph0 res **)

let no_st ns e =
  if existsb (fun x -> Nat.eqb (length x) (S O)) ns
  then Unmodelled
  else Error e

(** val skipped_line : str -> bool **)

let skipped_line l =
  (||) (is_blank l) (is_hdr l)

(** val zero_block :
    str option -> (str * str) list list -> str list -> graph0 res **)

let zero_block id cstr body =
  match cstr with
  | [] ->
    if forallb skipped_line body
    then Ok { gid = id; gcons = []; ginf = None }
    else Error EZeroHasEdges
  | _ :: _ -> Error EZeroHasConstraints

(** val read_graph : str list -> graph0 res **)

let read_graph lines =
  let (p, cstr) = scan lines [] [] [] in
  let (rest, hdrs) = p in
  (match skip_blank rest with
   | [] -> Error EMissingCount
   | nline :: body ->
     (match parse_int (strip nline) with
      | IOk n0 ->
        if Z.eqb n0 Z0
        then zero_block (hd_error hdrs) cstr body
        else (match read_edges body ([], []) with
              | Ok a ->
                let (ns, es) = a in
                if forallb (fun c -> forallb (has_edge es) c) cstr
                then if has_source ns es
                     then if has_sink ns es
                          then Ok { gid = (hd_error hdrs); gcons = cstr;
                                 ginf = (Some { gi_nodes = ns; gi_edges = es;
                                 gi_n = (length ns); gi_m = (length es) }) }
                          else no_st ns ENoSink
                     else no_st ns ENoSource
                else Error EMissingConstraintEdge
              | Error e -> Error e
              | Unmodelled -> Unmodelled)
      | IBad -> Error EBadCount
      | IUnm -> Unmodelled))

(** val span : ('a1 -> bool) -> 'a1 list -> 'a1 list * 'a1 list **)

let rec span p l = match l with
| [] -> ([], [])
| x :: r0 -> if p x then let (a, b) = span p r0 in ((x :: a), b) else ([], l)

(** val not_hdr : str -> bool **)

let not_hdr l =
  negb (is_hdr l)

(** val blocks_fuel : nat -> str list -> str list list option **)

let rec blocks_fuel fuel lines =
  match fuel with
  | O -> None
  | S k ->
    let (_, l1) = span not_hdr lines in
    (match l1 with
     | [] -> Some []
     | _ :: _ ->
       let (hs, l2) = span is_hdr l1 in
       let (body, l3) = span not_hdr l2 in
       (match blocks_fuel k l3 with
        | Some bs -> Some ((app hs body) :: bs)
        | None -> None))

(** val seq_blocks : str list list -> graph0 list res **)

let rec seq_blocks = function
| [] -> Ok []
| b :: r0 ->
  (match read_graph b with
   | Ok g -> (match seq_blocks r0 with
              | Ok gs -> Ok (g :: gs)
              | x -> x)
   | Error e -> Error e
   | Unmodelled -> Unmodelled)

type fres =
| FRes of graph0 list res
| OutOfFuel

(** val read_graphs : str list -> fres **)

let read_graphs lines =
  match blocks_fuel (S (length lines)) lines with
  | Some bs -> FRes (seq_blocks bs)
  | None -> OutOfFuel

(** val show_aux : nat -> n -> str -> str **)

let rec show_aux fuel n0 acc =
  match fuel with
  | O -> acc
  | S k ->
    let acc' =
      (N.add (Npos (XO (XO (XO (XO (XI XH))))))
        (N.modulo n0 (Npos (XO (XI (XO XH)))))) :: acc
    in
    if N.ltb n0 (Npos (XO (XI (XO XH))))
    then acc'
    else show_aux k (N.div n0 (Npos (XO (XI (XO XH))))) acc'

(** val show_N : n -> str **)

let show_N n0 =
  show_aux (S (N.to_nat (N.log2 n0))) n0 []

(** val qabs : q -> q **)

let qabs x =
  let { qnum = n0; qden = d } = x in { qnum = (Z.abs n0); qden = d }

type status =
| Optimal
| Infeasible
| TimeLimit
| Other

type raw = { native : status; custom_timeout : bool }

(** val status_of : raw -> status **)

let status_of r0 =
  if r0.custom_timeout then TimeLimit else r0.native

(** val is_optimal : status -> bool **)

let is_optimal = function
| Optimal -> true
| _ -> false

type kcfg = { external0 : bool; obj_fills_cache : bool }

type kstate = { solved : bool; cached : bool }

type kop =
| Solve of raw
| GetSolution
| GetObjective
| IsSolvedQ

type kout =
| RetBool of bool
| RetData
| Raise

(** val kinit : kcfg -> kstate **)

let kinit c =
  { solved = c.external0; cached = c.external0 }

(** val kstep : kcfg -> kstate -> kop -> kstate * kout **)

let kstep c st = function
| Solve r0 ->
  if c.external0
  then ({ solved = true; cached = st.cached }, (RetBool true))
  else if is_optimal (status_of r0)
       then ({ solved = true; cached = ((||) st.cached c.obj_fills_cache) },
              (RetBool true))
       else ({ solved = false; cached = st.cached }, (RetBool false))
| GetSolution ->
  if st.cached
  then (st, RetData)
  else if st.solved
       then ({ solved = true; cached = true }, RetData)
       else (st, Raise)
| GetObjective ->
  if st.solved
  then ({ solved = true; cached = ((||) st.cached c.obj_fills_cache) },
         RetData)
  else (st, Raise)
| IsSolvedQ -> (st, (RetBool st.solved))

(** val kruns : kcfg -> kstate -> kop list -> kstate * kout list **)

let rec kruns c st = function
| [] -> (st, [])
| o :: r0 ->
  let (st1, x) = kstep c st o in
  let (st2, xs) = kruns c st1 r0 in (st2, (x :: xs))

(** val kinvocations : kcfg -> kop list -> nat **)

let kinvocations c ops =
  if c.external0
  then O
  else length
         (filter (fun o -> match o with
                           | Solve _ -> true
                           | _ -> false) ops)

type result =
| Solved of nat
| NotSolved
| Exited
| Crashed
| Starved

type outcome = { so_res : result; used : nat; aux : nat; lbk : nat }

(** val kloop :
    (nat -> bool) -> (nat -> bool) -> nat list -> raw list -> nat ->
    result * nat **)

let rec kloop presolved over0 ks sts n0 =
  match ks with
  | [] -> (NotSolved, n0)
  | k :: ks' ->
    if presolved k
    then if over0 n0 then (NotSolved, n0) else ((Solved k), n0)
    else (match sts with
          | [] -> (Starved, n0)
          | r0 :: sts' ->
            if over0 (S n0)
            then (NotSolved, (S n0))
            else (match status_of r0 with
                  | Optimal -> ((Solved k), (S n0))
                  | Infeasible -> kloop presolved over0 ks' sts' (S n0)
                  | _ -> (NotSolved, (S n0))))

(** val never : nat -> bool **)

let never _ =
  false

(** val krange : nat -> nat -> nat list **)

let krange lb ub =
  seq lb (sub ub lb)

(** val upper : bool -> nat -> nat **)

let upper upper_excl0 nedges0 =
  if upper_excl0 then nedges0 else S nedges0

(** val mgs_loop : bool -> nat list -> raw list -> nat -> result * nat **)

let rec mgs_loop mgs_skips ks sts n0 =
  match ks with
  | [] -> (NotSolved, n0)
  | k :: ks' ->
    (match sts with
     | [] -> (Starved, n0)
     | r0 :: sts' ->
       (match status_of r0 with
        | Optimal -> ((Solved k), (S n0))
        | Infeasible -> mgs_loop mgs_skips ks' sts' (S n0)
        | _ ->
          if mgs_skips
          then mgs_loop mgs_skips ks' sts' (S n0)
          else (NotSolved, (S n0))))

(** val mgs_upper : nat -> nat -> nat **)

let mgs_upper lb nnumbers =
  Nat.max (add lb (S O)) (add nnumbers (S (S O)))

(** val mgs_range : nat -> nat -> nat list **)

let mgs_range lb nnumbers =
  krange lb (mgs_upper lb nnumbers)

(** val mgs_solve : bool -> nat -> nat -> raw list -> outcome **)

let mgs_solve mgs_skips lb nnumbers sts =
  let (r0, n0) = mgs_loop mgs_skips (mgs_range lb nnumbers) sts O in
  { so_res = r0; used = n0; aux = O; lbk = lb }

type lbres =
| LB of nat * nat
| LExit of nat
| LStarved of nat

(** val lb_phase : bool -> bool -> bool -> nat -> nat -> raw list -> lbres **)

let lb_phase mgs_skips exit_on_fail use_mgs0 lb1 nweights0 sts =
  if use_mgs0
  then let (r0, n0) = mgs_loop mgs_skips (mgs_range lb1 nweights0) sts O in
       (match r0 with
        | Solved kg -> LB ((Nat.max lb1 kg), n0)
        | Starved -> LStarved n0
        | _ -> if exit_on_fail then LExit n0 else LB (lb1, n0))
  else LB (lb1, O)

type fd_params = { lb0 : nat; upper_excl : bool; nedges : nat;
                   use_mgs : bool; nweights : nat; guessed : bool;
                   gw_paths : nat; greedy : (nat -> bool);
                   over : (nat -> bool) }

(** val given_match : nat option -> nat -> bool **)

let given_match given k =
  match given with
  | Some g -> Nat.eqb g k
  | None -> false

(** val fd_solve : bool -> bool -> fd_params -> raw list -> outcome **)

let fd_solve mgs_skips exit_on_fail p sts =
  match lb_phase mgs_skips exit_on_fail p.use_mgs p.lb0 p.nweights sts with
  | LB (lb, n1) ->
    let sts1 = skipn n1 sts in
    if p.guessed
    then (match sts1 with
          | [] -> { so_res = Starved; used = n1; aux = n1; lbk = lb }
          | r0 :: sts2 ->
            let given =
              if is_optimal (status_of r0) then Some p.gw_paths else None
            in
            let (rs, n0) =
              kloop (fun k -> (||) (given_match given k) (p.greedy k)) p.over
                (krange lb (upper p.upper_excl p.nedges)) sts2 (S n1)
            in
            { so_res = rs; used = n0; aux = (S n1); lbk = lb })
    else let (rs, n0) =
           kloop p.greedy p.over (krange lb (upper p.upper_excl p.nedges))
             sts1 n1
         in
         { so_res = rs; used = n0; aux = n1; lbk = lb }
  | LExit n0 -> { so_res = Exited; used = n0; aux = n0; lbk = p.lb0 }
  | LStarved n0 -> { so_res = Starved; used = n0; aux = n0; lbk = p.lb0 }

(** val mfd_solve : bool -> bool -> fd_params -> raw list -> outcome **)

let mfd_solve mgs_skips exit_on_fail p sts =
  fd_solve mgs_skips exit_on_fail { lb0 = p.lb0; upper_excl = p.upper_excl;
    nedges = p.nedges; use_mgs = p.use_mgs; nweights = p.nweights; guessed =
    p.guessed; gw_paths = p.gw_paths; greedy = p.greedy; over = never } sts

(** val mfdc_solve : bool -> fd_params -> raw list -> outcome **)

let mfdc_solve mgs_skips p sts =
  fd_solve mgs_skips false { lb0 = p.lb0; upper_excl = p.upper_excl; nedges =
    p.nedges; use_mgs = p.use_mgs; nweights = p.nweights; guessed =
    p.guessed; gw_paths = p.gw_paths; greedy = never; over = p.over } sts

(** val mpc_solve : bool -> nat -> nat -> raw list -> outcome **)

let mpc_solve upper_excl0 lb nedges0 sts =
  let (r0, n0) =
    kloop never never (krange lb (upper upper_excl0 nedges0)) sts O
  in
  { so_res = r0; used = n0; aux = O; lbk = lb }

(** val mpcc_solve : bool -> nat -> nat -> raw list -> outcome **)

let mpcc_solve upper_excl0 lb nedges0 sts =
  let (r0, n0) =
    kloop never never (krange lb (upper upper_excl0 nedges0)) sts O
  in
  { so_res = r0; used = n0; aux = O; lbk = lb }

type npo_params = { kstart : nat; kmax : nat; first_feasible : bool;
                    delta_abs : q option; delta_rel : q option;
                    npo_ext : (nat -> bool); npo_obj : (nat -> q);
                    npo_over : (nat -> bool) }

(** val truthy : q option -> q option **)

let truthy = function
| Some x -> if qeq_bool x { qnum = Z0; qden = XH } then None else Some x
| None -> None

type npo_step =
| Stop
| Crash
| Cont of q option

(** val npo_check : npo_params -> q option -> q -> npo_step **)

let npo_check p prev cur =
  if p.first_feasible
  then Stop
  else let after_abs =
         match truthy p.delta_abs with
         | Some d ->
           (match prev with
            | Some p0 ->
              if qle_bool (qabs (qminus p0 cur)) d then Stop else Cont prev
            | None -> Cont (Some cur))
         | None -> Cont prev
       in
       (match after_abs with
        | Cont prev1 ->
          (match truthy p.delta_rel with
           | Some d ->
             (match prev1 with
              | Some p0 ->
                if qeq_bool p0 { qnum = Z0; qden = XH }
                then Crash
                else if qle_bool (qdiv (qabs (qminus p0 cur)) p0) d
                     then Stop
                     else Cont prev1
              | None -> Cont (Some cur))
           | None -> Cont prev1)
        | x -> x)

(** val npo_loop :
    npo_params -> nat list -> raw list -> q option -> nat -> result * nat **)

let rec npo_loop p ks sts prev n0 =
  match ks with
  | [] -> (NotSolved, n0)
  | k :: ks' ->
    if p.npo_ext k
    then (match npo_check p prev (p.npo_obj k) with
          | Stop -> ((Solved k), n0)
          | Crash -> (Crashed, n0)
          | Cont prev' ->
            if p.npo_over n0
            then (NotSolved, n0)
            else npo_loop p ks' sts prev' n0)
    else (match sts with
          | [] -> (Starved, n0)
          | r0 :: sts' ->
            if is_optimal (status_of r0)
            then (match npo_check p prev (p.npo_obj k) with
                  | Stop -> ((Solved k), (S n0))
                  | Crash -> (Crashed, (S n0))
                  | Cont prev' ->
                    if p.npo_over (S n0)
                    then (NotSolved, (S n0))
                    else npo_loop p ks' sts' prev' (S n0))
            else if p.npo_over (S n0)
                 then (NotSolved, (S n0))
                 else npo_loop p ks' sts' prev (S n0))

(** val npo_solve : npo_params -> raw list -> outcome **)

let npo_solve p sts =
  let (r0, n0) = npo_loop p (krange p.kstart (add p.kmax (S O))) sts None O in
  { so_res = r0; used = n0; aux = O; lbk = p.kstart }

(** val of_list : bool list -> nat -> bool **)

let of_list l k =
  nth k l false

(** val q_of_list : q list -> nat -> q **)

let q_of_list l k =
  nth k l { qnum = Z0; qden = XH }

(** val run_kmodel : bool -> bool -> kop list -> kout list * nat **)

let run_kmodel ext objfill ops =
  let c = { external0 = ext; obj_fills_cache = objfill } in
  ((snd (kruns c (kinit c) ops)), (kinvocations c ops))

(** val run_mgs : bool -> nat -> nat -> raw list -> outcome **)

let run_mgs =
  mgs_solve

(** val run_mfd :
    bool -> bool -> bool -> nat -> nat -> bool -> nat -> bool -> nat -> bool
    list -> raw list -> outcome **)

let run_mfd skips exits excl lb1 ne umgs nw gu gw gr sts =
  mfd_solve skips exits { lb0 = lb1; upper_excl = excl; nedges = ne;
    use_mgs = umgs; nweights = nw; guessed = gu; gw_paths = gw; greedy =
    (of_list gr); over = never } sts

(** val run_mfdc :
    bool -> bool -> nat -> nat -> bool -> nat -> bool -> nat -> bool list ->
    raw list -> outcome **)

let run_mfdc skips excl lb1 ne umgs nw gu gw ov sts =
  mfdc_solve skips { lb0 = lb1; upper_excl = excl; nedges = ne; use_mgs =
    umgs; nweights = nw; guessed = gu; gw_paths = gw; greedy = never; over =
    (of_list ov) } sts

(** val run_mpc : bool -> nat -> nat -> raw list -> outcome **)

let run_mpc =
  mpc_solve

(** val run_mpcc : bool -> nat -> nat -> raw list -> outcome **)

let run_mpcc =
  mpcc_solve

(** val run_npo :
    nat -> nat -> bool -> q option -> q option -> bool list -> q list -> bool
    list -> raw list -> outcome **)

let run_npo ks km ff da dr ext obj0 ov sts =
  npo_solve { kstart = ks; kmax = km; first_feasible = ff; delta_abs = da;
    delta_rel = dr; npo_ext = (of_list ext); npo_obj = (q_of_list obj0);
    npo_over = (of_list ov) } sts

type wcol = { wlb : q; wub : q; wcost : q; wint : bool }

type wst = { wcols : wcol list; pfix : (nat * q) list; plb : (nat * q) list;
             woffset : q; wmaxi : bool }

type op =
| AddVars of (q * q) list * bool
| SetObjective of (nat * q) list * q * bool
| QueueFix of nat * q
| QueueLb of nat * q
| Optimize

(** val upd : wcol list -> nat -> (wcol -> wcol) -> wcol list **)

let rec upd cs i f =
  match cs with
  | [] -> []
  | c :: r0 -> (match i with
                | O -> (f c) :: r0
                | S j -> c :: (upd r0 j f))

(** val fixc : q -> wcol -> wcol **)

let fixc v c =
  { wlb = v; wub = v; wcost = c.wcost; wint = c.wint }

(** val raisec : q -> wcol -> wcol **)

let raisec v c =
  { wlb = v; wub = c.wub; wcost = c.wcost; wint = c.wint }

(** val apply_pending :
    wcol list -> (nat * q) list -> (nat * q) list -> wcol list **)

let apply_pending cs fixes lbs =
  fold_left (fun cs0 iv -> upd cs0 (fst iv) (raisec (snd iv))) lbs
    (fold_left (fun cs0 iv -> upd cs0 (fst iv) (fixc (snd iv))) fixes cs)

(** val setcost : q -> wcol -> wcol **)

let setcost q0 c =
  { wlb = c.wlb; wub = c.wub; wcost = q0; wint = c.wint }

(** val addcost : q -> wcol -> wcol **)

let addcost q0 c =
  setcost (qplus c.wcost q0) c

(** val set_costs : wcol list -> (nat * q) list -> wcol list **)

let set_costs cs terms =
  fold_left (fun cs0 iv -> upd cs0 (fst iv) (addcost (snd iv))) terms
    (map (setcost { qnum = Z0; qden = XH }) cs)

(** val step : wst -> op -> wst **)

let step s = function
| AddVars (bs, isint) ->
  { wcols =
    (app s.wcols
      (map (fun b -> { wlb = (fst b); wub = (snd b); wcost = { qnum = Z0;
        qden = XH }; wint = isint }) bs)); pfix = s.pfix; plb = s.plb;
    woffset = s.woffset; wmaxi = s.wmaxi }
| SetObjective (terms, c, m) ->
  { wcols = (set_costs s.wcols terms); pfix = s.pfix; plb = s.plb; woffset =
    c; wmaxi = m }
| QueueFix (i, v) ->
  { wcols = s.wcols; pfix = (app s.pfix ((i, v) :: [])); plb = s.plb;
    woffset = s.woffset; wmaxi = s.wmaxi }
| QueueLb (i, v) ->
  { wcols = s.wcols; pfix = s.pfix; plb = (app s.plb ((i, v) :: []));
    woffset = s.woffset; wmaxi = s.wmaxi }
| Optimize ->
  { wcols = (apply_pending s.wcols s.pfix s.plb); pfix = []; plb = [];
    woffset = s.woffset; wmaxi = s.wmaxi }

(** val winit : wst **)

let winit =
  { wcols = []; pfix = []; plb = []; woffset = { qnum = Z0; qden = XH };
    wmaxi = false }

(** val observe : wst -> ((((q * q) * q) * bool) list * q) * bool **)

let observe s =
  (((map (fun c -> (((c.wlb, c.wub), c.wcost), c.wint)) s.wcols), s.woffset),
    s.wmaxi)

(** val trace : op list -> (((((q * q) * q) * bool) list * q) * bool) list **)

let trace ops =
  let rec go s = function
  | [] -> []
  | o :: r0 ->
    let s' = step s o in
    (match o with
     | Optimize -> (observe s') :: (go s' r0)
     | _ -> go s' r0)
  in go winit ops
