open Model
open Fpmodel
(* E3 for AbstractWalkModelDiGraph._apply_safety_optimizations_fix_zero_edges: WalkEncRows.zero_edges (the function
   C06_forbidden_edges_are_unreachable_around_the_sequence is about)
   zerofix <stgraph> <nW (u v)..>  ->  "<n> (u v).."   arcs forbidden for a slot whose sequence is W *)
let next_edge () = let u = next_n () in let v = next_n () in (u, v)
let next_adj () = next_list (fun () -> let v = next_n () in let ns = next_list next_n in (v, ns))
let next_stgraph () =
  let nodes = next_list next_n in let edges = next_list next_edge in
  let s = next_n () in let t = next_n () in let succ = next_adj () in let pred = next_adj () in
  { g_nodes = nodes; g_edges = edges; g_src = s; g_snk = t; g_succ = succ; g_pred = pred }
let () = register "zerofix" (fun () ->
  let g = next_stgraph () in let w = next_list next_edge in
  let z = zero_edges g w in
  Printf.printf "%d %s\n" (List.length z) (String.concat " " (List.map (fun (u, v) -> Printf.sprintf "%d %d" (int_of_n u) (int_of_n v)) z)))
