(* shared by every handler group: request tokens and the command registry (no dependence on extracted code) *)
let toks : Stdlib.String.t list ref = ref []
let next_tok () = match !toks with x :: r -> toks := r; x | [] -> failwith "unexpected end of request"
let next () = int_of_string (next_tok ())
let next_bool () = next () <> 0
let next_list f = let c = next () in List.init c (fun _ -> f ())
let handlers : (Stdlib.String.t * (unit -> unit)) list ref = ref []
let register name f =
  if List.mem_assoc name !handlers then failwith ("fpmodel: command registered twice: " ^ name);
  handlers := (name, f) :: !handlers
