open Model
open Fpmodel
(* E3 for stDAG.compute_max_edge_antichain after the minimum flow: MinFlowCut.mincut_model / mincut_premises
   mincut <nV v..> <nE (u v wnum wden fnum fden)..> <s> <t>  ->  "<premises 0|1> <nR> r.. <nA> (u v).." *)
let () = register "mincut" (fun () ->
  let vs = next_list next_n in
  let rows = next_list (fun () -> let u = next_n () in let v = next_n () in let w = next_q () in let f = next_q () in ((u, v), w, f)) in
  let s = next_n () in let t = next_n () in
  let es = List.map (fun (e, _, _) -> e) rows in
  let wl = List.map (fun (e, w, _) -> (e, w)) rows in let fl = List.map (fun (e, _, f) -> (e, f)) rows in
  let ok = mincut_premises vs es s t wl fl in
  let (r, a) = mincut_model vs es s wl fl in
  Printf.printf "%d %d %s %d %s\n" (if ok then 1 else 0) (List.length r) (s_nodes r) (List.length a)
    (String.concat " " (List.map (fun (u, v) -> Printf.sprintf "%d %d" (int_of_n u) (int_of_n v)) a)))
