open Model
open Fpmodel
(* validate <cls> <input tokens>  ->  "<OUTCOME> <in_domain 0/1>"
   input tokens (see harness/engines/c19.py:tokens):
     nodes_str:list bool, n_edges, acyclic, has_selfloop, ign_pct(0 none,1 in range,2 out), trust_pct, has_source, has_sink, origin(0 edge,1 node,2 other),
     wtype(0 int,1 float,2 other), elems:list (w(0 pos,1 zero,2 neg,3 missing) ign), conserving,
     k:(0 z | 1 num den | 2 bool | 3 None | 4 str), has_superset, cons:list (is_list items:list (kind in_graph)), cov:(num den), cov_len:(0 | 1 num den), has_len_attr,
     starts:list bool, ends:list bool, ign:list (kind in_graph), search_enters *)
let cls_of_int = function
  | 0 -> CstDAG | 1 -> CstDiGraph | 2 -> CNodeExpandedDiGraph | 3 -> CkFlowDecomp | 4 -> CMinFlowDecomp
  | 5 -> CkMinPathError | 6 -> CkLeastAbsErrors | 7 -> CkPathCover | 8 -> CMinPathCover
  | 9 -> CkFlowDecompCycles | 10 -> CMinFlowDecompCycles | 11 -> CkMinPathErrorCycles | 12 -> CkLeastAbsErrorsCycles
  | 13 -> CkPathCoverCycles | 14 -> CMinPathCoverCycles | 15 -> CMinErrorFlow | _ -> failwith "class id"
let kind_of_int = function 0 -> IStr | 1 -> IPair | 2 -> ITriple | 3 -> IInt | _ -> failwith "item kind"
let next_item () = let kd = kind_of_int (next ()) in let g = next_bool () in { it_kind = kd; it_in_graph = g }
let s_exn = function EOverflow -> "OverflowError" | ESolverAPI -> "Exception"
let () = register "validate" (fun () ->
  let c = cls_of_int (next ()) in
  let nodes_str = next_list next_bool in
  let n_edges = next_nat () in
  let acyclic = next_bool () in let has_selfloop = next_bool () in
  let pct () = (match next () with 0 -> PNone | 1 -> PInRange | _ -> POutOfRange) in
  let ign_pct = pct () in let trust_pct = pct () in let has_source = next_bool () in let has_sink = next_bool () in
  let origin = (match next () with 0 -> OEdge | 1 -> ONode | _ -> OOther) in
  let wtype = (match next () with 0 -> TInt | 1 -> TFloat | _ -> TOther) in
  let elems = next_list (fun () -> let w = (match next () with 0 -> WPos | 1 -> WZero | 2 -> WNeg | _ -> WMissing) in
                                   let g = next_bool () in { e_w = w; e_ign = g }) in
  let conserving = next_bool () in
  let k = (match next () with 0 -> KInt (next_z ()) | 1 -> KNonInt (next_q ()) | 2 -> KBool (next_bool ()) | 3 -> KNone | _ -> KStr) in
  let has_superset = next_bool () in
  let cons = next_list (fun () -> let l = next_bool () in let its = next_list next_item in
                                  { c_is_list = l; c_items = its }) in
  let cov = next_q () in
  let cov_len = (match next () with 0 -> None | _ -> Some (next_q ())) in let has_len_attr = next_bool () in
  let starts = next_list next_bool in let ends = next_list next_bool in
  let ign = next_list next_item in
  let search_enters = next_bool () in
  let i = { nodes_str = nodes_str; n_edges = n_edges; acyclic = acyclic; has_selfloop = has_selfloop; ign_pct = ign_pct; trust_pct = trust_pct; has_source = has_source; has_sink = has_sink;
            origin = origin; wtype = wtype; elems = elems;
            conserving = conserving; k = k; has_superset = has_superset; cons = cons; cov = cov; cov_len = cov_len; has_len_attr = has_len_attr; starts = starts; ends = ends; ign = ign;
            search_enters = search_enters } in
  let o = (match validate c i with
    | Accept -> "ACCEPT" | RaiseValueError -> "ValueError" | RaiseOther e -> s_exn e | AcceptsButUnsolved -> "UNSOLVED") in
  Printf.printf "%s %d\n" o (if in_domain c i then 1 else 0))
