open Model
open Fpmodel
(* C13: search loops and the solved-flag machine (Search.v).
   status tokens: 0 Optimal 1 Infeasible 2 TimeLimit 3 Other; a solver outcome = <native> <custom_timeout 0|1>
   mfd/mfdc/mpc/mpcc take the switch <upper_excl> (range(lb,|E|) vs range(lb,|E|+1)) before the bounds
   responses of the loops:  RES <S k | N | X | C | V> <used> <aux> <lbk>   (Solved/NotSolved/Exited/Crashed/Starved) *)
let status_of_int = function 0 -> Optimal | 1 -> Infeasible | 2 -> TimeLimit | _ -> Other
let next_raw () = let s = next () in let c = next_bool () in { native = status_of_int s; custom_timeout = c }
let next_optq () = let f = next_bool () in let x = next_q () in if f then Some x else None
let print_outcome o =
  let r = match o.so_res with
    | Solved k -> Printf.sprintf "S %d" (int_of_nat k) | NotSolved -> "N" | Exited -> "X" | Crashed -> "C" | Starved -> "V" in
  Printf.printf "RES %s %d %d %d\n" r (int_of_nat o.used) (int_of_nat o.aux) (int_of_nat o.lbk)

(* kmodel <external> <obj_fills_cache> <nops> ops: 0 <native> <custom> = solve | 1 get_solution | 2 get_objective_value | 3 is_solved
   -> OK <invocations> <T|F|D|R per op> *)
let () = register "kmodel" (fun () ->
  let ext = next_bool () in let fill = next_bool () in
  let ops = next_list (fun () -> match next () with
    | 0 -> Solve (next_raw ()) | 1 -> GetSolution | 2 -> GetObjective | _ -> IsSolvedQ) in
  let (outs, inv) = run_kmodel ext fill ops in
  Printf.printf "OK %d %s\n" (int_of_nat inv)
    (String.concat " " (List.map (function RetBool true -> "T" | RetBool false -> "F" | RetData -> "D" | Raise -> "R") outs)))

(* wrapper <alarm_route> <n> (<native> <alarm>)*  ->  OK <status token after each run> *)
let () = register "swrapper" (fun () ->
  let rt = next_bool () in
  let xs = next_list (fun () -> let s = next () in let a = next_bool () in { run_native = status_of_int s; run_alarm = a }) in
  let outs = run_wrapper rt xs in
  Printf.printf "OK %s\n" (String.concat " " (List.map (function
    | None -> "-" | Some Optimal -> "0" | Some Infeasible -> "1" | Some TimeLimit -> "2" | Some Other -> "3") outs)))

let () = register "mgs" (fun () ->
  let sk = next_bool () in let lb = next_nat () in let n = next_nat () in let cuts = next_nat () in
  let sts = next_list next_raw in print_outcome (run_mgs sk lb n cuts sts))

let () = register "mfd" (fun () ->
  let sk = next_bool () in let ex = next_bool () in let xc = next_bool () in let lb0 = next_nat () in let ne = next_nat () in
  let um = next_bool () in let nw = next_nat () in let cuts = next_nat () in let gu = next_bool () in let gw = next_nat () in
  let gr = next_list next_bool in let sts = next_list next_raw in
  print_outcome (run_mfd sk ex xc lb0 ne um nw cuts gu gw gr sts))

let () = register "mfdc" (fun () ->
  let sk = next_bool () in let xc = next_bool () in let lb0 = next_nat () in let ne = next_nat () in
  let um = next_bool () in let nw = next_nat () in let gu = next_bool () in let gw = next_nat () in
  let ov = next_list next_bool in let sts = next_list next_raw in
  print_outcome (run_mfdc sk xc lb0 ne um nw gu gw ov sts))

(* mfdscan: like mfd, then <nwin> windows (lb0 ne use_mgs nweights guessed gw <n> greedy* ), then sts *)
let () = register "mfdscan" (fun () ->
  let sk = next_bool () in let ex = next_bool () in let xc = next_bool () in let lb0 = next_nat () in let ne = next_nat () in
  let um = next_bool () in let nw = next_nat () in let cuts = next_nat () in let gu = next_bool () in let gw = next_nat () in
  let gr = next_list next_bool in
  let ws = next_list (fun () ->
    let l0 = next_nat () in let e = next_nat () in let m = next_bool () in let w = next_nat () in
    let g = next_bool () in let gp = next_nat () in let grl = next_list next_bool in
    ((((((l0, e), m), w), g), gp), grl)) in
  let sts = next_list next_raw in
  print_outcome (run_mfd_scan sk ex xc lb0 ne um nw cuts gu gw gr ws sts))

(* fd2 <upper_excl> <lb> <ne> <guessed> <gw> <g0? g0> <n> greedy* <n> over* <n> sts*  : a later solve() on the same object *)
let () = register "fd2" (fun () ->
  let xc = next_bool () in let lb = next_nat () in let ne = next_nat () in
  let gu = next_bool () in let gw = next_nat () in
  let f = next_bool () in let g = next_nat () in let g0 = if f then Some g else None in
  let gr = next_list next_bool in let ov = next_list next_bool in let sts = next_list next_raw in
  print_outcome (run_fd2 xc lb ne gu gw g0 gr ov sts))

let () = register "mpc" (fun () ->
  let xc = next_bool () in let lb = next_nat () in let ne = next_nat () in let sts = next_list next_raw in print_outcome (run_mpc xc lb ne sts))
let () = register "mpcc" (fun () ->
  let xc = next_bool () in let lb = next_nat () in let ne = next_nat () in let sts = next_list next_raw in print_outcome (run_mpcc xc lb ne sts))

(* npo <kstart> <kmax> <first_feasible> <abs? num den> <rel? num den> <n> ext* <n> (num den)* <n> over* <n> sts* *)
let () = register "npo" (fun () ->
  let ks = next_nat () in let km = next_nat () in let ff = next_bool () in
  let da = next_optq () in let dr = next_optq () in
  let ext = next_list next_bool in let obj = next_list next_q in let ov = next_list next_bool in
  let sts = next_list next_raw in
  print_outcome (run_npo ks km ff da dr ext obj ov sts))
