open Model
open Fpmodel
(* E3 for graphutils.get_subgraph_between_topological_nodes: SubgraphBound.window_subgraph_opt
   window <ntopo topo..> <left> <right> <nE (u v)..>  ->  "NONE" (ValueError) | "OK <nV> v.. | <nE> u v .." *)
let () = register "window" (fun () ->
  let topo = next_list next_n in let l = next () in let r = next () in
  let es = next_list (fun () -> let u = next_n () in let v = next_n () in (u, v)) in
  if l < 0 || r < 0 then print_endline "NONE" else
  match window_subgraph_opt topo (nat_of_int l) (nat_of_int r) es with
  | None -> print_endline "NONE"
  | Some (vs, eh) ->
    Printf.printf "OK %d %s | %d %s\n" (List.length vs) (s_nodes vs) (List.length eh)
      (String.concat " " (List.map (fun (u, v) -> Printf.sprintf "%d %d" (int_of_n u) (int_of_n v)) eh)))
