open Model
open Fpmodel
(* wire readers for the C15 / C16 models (MiscEnc.v) *)
let m_edge () = let u = next_n () in let v = next_n () in (u, v)
let m_eq () = let e = m_edge () in let x = next_q () in (e, x)
let s_qs l = String.concat " " (List.map (fun x -> s_q (canon_q x)) l)
let s_nats l = String.concat " " (List.map (fun x -> string_of_int (int_of_nat x)) l)

(* mgs: k, numbers, total, int, mult, haspart, parts *)
let next_mgs () =
  let nums = next_list next_q in let total = next_q () in let isint = next_bool () in
  let mult = next_nat () in
  let parts = if next_bool () then Some (next_list (fun () -> next_list next_q)) else None in
  { mg_numbers = nums; mg_total = total; mg_int = isint; mg_mult = mult; mg_parts = parts }
let () = register "mgsenc" (fun () -> let k = next_nat () in let i = next_mgs () in print_milp (encode_mgs i k))
(* mgspre: remove, max_multiplicity, numbers, total ->  the numbers kept *)
let () = register "mgspre" (fun () ->
  let rm = next_bool () in let mult = next_nat () in let nums = next_list next_q in let total = next_q () in
  print_endline ("P " ^ s_qs (mgs_preprocess rm mult nums total)))
(* mgsloop: lowerbound, n_initial, extra cuts, list of (k, status 0 optimal / 1 infeasible / 2 other) -> tried, result, range *)
let () = register "mgsloop" (fun () ->
  let lb = next_nat () in let n = next_nat () in let extra = next_z () in
  let st = next_list (fun () -> let k = next () in let b = next () in (k, b)) in
  let status k = (try (match List.assoc (int_of_nat k) st with 0 -> MgOptimal | 1 -> MgInfeasible | _ -> MgOther) with Not_found -> MgOther) in
  let (tried, res) = mgsm_loop status lb n extra in
  Printf.printf "T %s | R %s | RANGE %s\n" (s_nats tried)
    (match res with Some k -> string_of_int (int_of_nat k) | None -> "none") (s_nats (mgsm_range lb n extra)))
(* pyint num den *)
let () = register "pyint" (fun () -> let x = next_q () in Printf.printf "I %d\n" (int_of_z (py_int x)))
let () = register "pyround" (fun () -> let x = next_q () in Printf.printf "I %d\n" (int_of_z (py_round_half_even x)))
(* msc: universe, subsets, optional weights *)
let () = register "msc" (fun () ->
  let u = next_list next_n in let ss = next_list (fun () -> next_list next_n) in
  let w = if next_bool () then Some (next_list next_q) else None in
  match encode_msc { sc_universe = u; sc_subsets = ss; sc_weights = w } with
  | Some m -> print_milp m
  | None -> print_endline "ERROR no-model (IndexError)")
let next_mef () =
  let nodes = next_list next_n in let edges = next_list m_edge in let flow = next_list m_eq in
  let ign = next_list m_edge in let sc = next_list m_eq in let lam = next_q () in
  let src = if next_bool () then Some (next_n ()) else None in let isint = next_bool () in
  { mef_nodes = nodes; mef_edges = edges; mef_flow = flow; mef_ignore = ign; mef_scale = sc; mef_lambda = lam; mef_src = src; mef_int = isint }
let () = register "mef" (fun () ->
  let i = next_mef () in
  if mef_ok i then print_milp (encode_mef i) else print_endline "ERROR ValueError")
let () = register "mef2" (fun () ->
  let i = next_mef () in let sub = next_list m_edge in let eps = next_q () in let opt = next_q () in
  let nv = next_nat () in
  if mef_ok i then print_milp (encode_mef2 i sub eps opt nv) else print_endline "ERROR ValueError")

(* ---- <cmd>_eq: same request followed by the implementation's LP; decided by the extracted VERIFIED checker
   LinEquiv.milp_equiv_b (lp.ml.in: next_milp / equiv_report) ---- *)
let () = register "mgsenc_eq" (fun () -> let k = next_nat () in let i = next_mgs () in equiv_report (encode_mgs i k))
let () = register "msc_eq" (fun () ->
  let u = next_list next_n in let ss = next_list (fun () -> next_list next_n) in
  let w = if next_bool () then Some (next_list next_q) else None in
  match encode_msc { sc_universe = u; sc_subsets = ss; sc_weights = w } with
  | Some m -> equiv_report m
  | None -> print_endline "0")
let () = register "mef_eq" (fun () ->
  let i = next_mef () in if mef_ok i then equiv_report (encode_mef i) else print_endline "0")
let () = register "mef2_eq" (fun () ->
  let i = next_mef () in let sub = next_list m_edge in let eps = next_q () in let opt = next_q () in
  let nv = next_nat () in
  if mef_ok i then equiv_report (encode_mef2 i sub eps opt nv) else print_endline "0")

(* mefdom: same instance as mef -> 1 / 0: the VERIFIED check of the premises of C16_optimal_solution_is_closest_flow_checked *)
let () = register "mefdom" (fun () -> let i = next_mef () in print_endline (if mef_domain_b i then "1" else "0"))
