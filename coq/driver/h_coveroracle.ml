open Model
open Fpmodel
(* the verified exhaustive cover oracle (CoverOracle.min_cover, theorem min_cover_correct) *)
let next_edge () = let u = next_n () in let v = next_n () in (u, v)
let next_adj () = next_list (fun () -> let v = next_n () in let ns = next_list next_n in (v, ns))
let next_stgraph () =
  let nodes = next_list next_n in let edges = next_list next_edge in
  let s = next_n () in let t = next_n () in let succ = next_adj () in let pred = next_adj () in
  { g_nodes = nodes; g_edges = edges; g_src = s; g_snk = t; g_succ = succ; g_pred = pred }
let next_eq () = let e = next_edge () in let x = next_q () in (e, x)
let next_path_inst () =
  let g = next_stgraph () in let k = next_nat () in let ae = next_bool () in
  let cons = next_list (fun () -> next_list next_edge) in let cov = next_q () in
  let len = if next_bool () then Some (next_list next_eq) else None in
  { p_graph = g; p_k = k; p_allow_empty = ae; p_cons = cons; p_cov = cov; p_len = len }
(* covermin <path_inst> <ignore> <kmax> : least k in 1..kmax with a cover, or "none" *)
let () = register "covermin" (fun () ->
  let b = next_path_inst () in let ign = next_list next_edge in let kmax = next_nat () in
  match min_cover b ign kmax with
  | Some k -> Printf.printf "%d\n" (int_of_nat k)
  | None -> print_endline "none")
