open Model
open Fpmodel
(* effects <sw> <has_ext> <initial opts keys: list int> <ops: list (cls pass_opts sup hc solve refused)>   (refused = 1: the construction raised; Effects.Refused, heap after any prefix of its effects)
     sw = 1: the list-aliasing finding (external_safe_paths) is open -> the summary of the code at 003f186; 0: the list is copied
   ->  per step "keys of optimization_options ; number of extensions of the external_safe_paths list", steps separated by "|"
   (key codes: 0 trusted_edges_for_safety, 1 allow_empty_paths, 2 optimize_with_safe_paths,
   3 optimize_with_safe_sequences, 4 optimize_with_safe_zero_edges, 5 optimize_with_subpath_constraints_as_safe_sequences,
   6 optimize_with_safety_as_subpath_constraints, 100+n user key n) *)
let cls_of_int = function
  | 0 -> CstDAG | 1 -> CstDiGraph | 2 -> CNodeExpandedDiGraph | 3 -> CkFlowDecomp | 4 -> CMinFlowDecomp
  | 5 -> CkMinPathError | 6 -> CkLeastAbsErrors | 7 -> CkPathCover | 8 -> CMinPathCover
  | 9 -> CkFlowDecompCycles | 10 -> CMinFlowDecompCycles | 11 -> CkMinPathErrorCycles | 12 -> CkLeastAbsErrorsCycles
  | 13 -> CkPathCoverCycles | 14 -> CMinPathCoverCycles | 15 -> CMinErrorFlow | _ -> failwith "class id"
let key_of_int i = match i with 0 -> KTrusted | 1 -> KAllowEmpty | 2 -> KSafePaths | 3 -> KSafeSeq | 4 -> KSafeZero
  | 5 -> KSubAsSafe | 6 -> KSafetyAsSub | n -> KUser (nat_of_int (n - 100))
let int_of_key = function KTrusted -> 0 | KAllowEmpty -> 1 | KSafePaths -> 2 | KSafeSeq -> 3 | KSafeZero -> 4
  | KSubAsSafe -> 5 | KSafetyAsSub -> 6 | KUser n -> 100 + int_of_nat n
let () = register "effects" (fun () ->
  let sw = next_bool () in let has_ext = next_bool () in
  let d = next_list (fun () -> key_of_int (next ())) in
  let ops = next_list (fun () ->
    let c = cls_of_int (next ()) in let p = next_bool () in let s = next_bool () in let hc = next_bool () in
    let sv = next_bool () in let refused = next_bool () in
    let o = { o_cls = c; o_pass_opts = p; o_sup = s; o_hc = hc; o_solve = sv } in
    if refused then Refused (o, nat_of_int 9) else Built o) in
  let h0 = { h_graph = []; h_opts = d; h_has_ext = has_ext; h_ext = []; h_sopts = []; h_cons = []; h_ign = []; h_starts = []; h_sup = [];
             h_ends = []; h_defaults = [] } in
  let rec go h acc = function
    | [] -> List.rev acc
    | o :: r -> let h' = ev_step_sw sw h o in
      go h' ((String.concat " " (List.map (fun k -> string_of_int (int_of_key k)) (h_opts h')) ^ " ; " ^
              string_of_int (List.length (h_ext h'))) :: acc) r in
  print_endline ("OK " ^ String.concat " | " (go h0 [] ops)))
