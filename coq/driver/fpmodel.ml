(* fpmodel: line-protocol driver around the extracted Coq model (Model).  It only parses and
   prints; every computation is done by extracted code.  One request per input line, first
   token = command, remaining tokens = integers.  One response line per request (multi-line
   responses end with a line "END"). *)
open Model

let rec pos_of_int i = if i <= 1 then XH else if i land 1 = 0 then XO (pos_of_int (i lsr 1)) else XI (pos_of_int (i lsr 1))
let n_of_int i = if i = 0 then N0 else Npos (pos_of_int i)
let z_of_int i = if i = 0 then Z0 else if i > 0 then Zpos (pos_of_int i) else Zneg (pos_of_int (-i))
let rec int_of_pos = function XH -> 1 | XO p -> 2 * int_of_pos p | XI p -> 2 * int_of_pos p + 1
let int_of_n = function N0 -> 0 | Npos p -> int_of_pos p
let int_of_z = function Z0 -> 0 | Zpos p -> int_of_pos p | Zneg p -> - (int_of_pos p)
let rec nat_of_int i = if i <= 0 then O else S (nat_of_int (i-1))
let rec int_of_nat = function O -> 0 | S n -> 1 + int_of_nat n
let q n d = { qnum = z_of_int n; qden = pos_of_int d }

(* token reader *)
let toks : Stdlib.String.t list ref = ref []   (* Stdlib.String.t: models that use Coq strings extract a type named "string" *)
let next_tok () = match !toks with x :: r -> toks := r; x | [] -> failwith "unexpected end of request"
let next () = int_of_string (next_tok ())
let next_n () = n_of_int (next ())
let next_z () = z_of_int (next ())
let next_nat () = nat_of_int (next ())
let next_q () = let n = next () in let d = next () in q n d
let next_bool () = next () <> 0
let next_list f = let c = next () in List.init c (fun _ -> f ())

let s_nodes l = String.concat " " (List.map (fun x -> string_of_int (int_of_n x)) l)

let handlers : (Stdlib.String.t * (unit -> unit)) list ref = ref []
let register name f = handlers := (name, f) :: !handlers


(* ---- printing of the canonical LP form (Lin.canon) ---- *)
let s_q (z, p) = Printf.sprintf "%d/%d" (int_of_z z) (int_of_pos p)
let s_var v = String.concat "," (string_of_int (int_of_n v.vfam) :: List.map (fun x -> string_of_int (int_of_n x)) v.vidx)
let s_sense = function SLe -> "<=" | SGe -> ">=" | SEq -> "="
let print_col (((v, lb), ub), i) = Printf.printf "C %s %s %s %d\n" (s_var v) (s_q lb) (s_q ub) (if i then 1 else 0)
let print_row ((terms, s), r) =
  Printf.printf "R %s %s | %s\n" (s_sense s) (s_q r) (String.concat " " (List.map (fun (v, c) -> s_var v ^ ":" ^ s_q c) terms))
let print_rows rs = List.iter (fun r -> print_row (canon_row r)) rs
let print_cols cs = List.iter (fun c -> print_col (canon_col c)) cs
let print_milp m =
  let (((cs, rs), ob), mx) = canon m in
  List.iter print_col cs; List.iter print_row rs;
  Printf.printf "O %s\n" (String.concat " " (List.map (fun (v, c) -> s_var v ^ ":" ^ s_q c) ob));
  Printf.printf "S %s\n" (if mx then "max" else "min");
  print_endline "END"
(* a variable on the wire: fam k i1 .. ik *)
let next_var () = let f = next_n () in let idx = next_list next_n in { vfam = f; vidx = idx }
