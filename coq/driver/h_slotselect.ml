open Model
open Fpmodel
(* E3 for stDiGraph.get_longest_incompatible_sequences: SlotSelect.select_model
   slotselect <nE (u v)..> <nmap (v c)..> <nS (<len> (u v)..)..> <nB (a b)..>  ->  "NONE" | "<n> (<len> (u v)..).."
   (B: the antichain the oracle returned, arcs of the expanded condensation with node 2c = "c", 2c+1 = "c_expanded") *)
let () = register "slotselect" (fun () ->
  let pr () = let u = next_n () in let v = next_n () in (u, v) in
  let es = next_list pr in let cmap = next_list pr in let seqs = next_list (fun () -> next_list pr) in let b = next_list pr in
  match select_model es cmap seqs b with
  | None -> print_endline "NONE"
  | Some out ->
    Printf.printf "%d %s\n" (List.length out)
      (String.concat " " (List.map (fun q -> Printf.sprintf "%d %s" (List.length q)
          (String.concat " " (List.map (fun (u, v) -> Printf.sprintf "%d %d" (int_of_n u) (int_of_n v)) q))) out)))
