open Model
open Fpmodel
(* fill_check  nV v*  nE (u v)*  nGiven (v num den)*  nFilled (v num den)*  nY (u v num den)*   ->  "OK 1" | "OK 0"
   the verified certificate checker FillSpec.fill_certificate_ok_b for NodeExpandedDiGraph._try_filling_in_missing_flow_values *)
let () = register "fill_check" (fun () ->
  let vs = next_list next_n in
  let es = next_list (fun () -> let u = next_n () in let v = next_n () in (u, v)) in
  let nq () = let v = next_n () in let x = next_q () in (v, x) in
  let given = next_list nq in
  let filled = next_list nq in
  let y = next_list (fun () -> let u = next_n () in let v = next_n () in let x = next_q () in ((u, v), x)) in
  print_endline (if fill_certificate_ok_b vs es given filled y then "OK 1" else "OK 0"))
