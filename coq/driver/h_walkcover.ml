open Model
open Fpmodel
(* the verified exhaustive oracle for minimum walk covers: WalkCoverOracle.min_wcover_model (capacity |X| + 2 per edge and walk)
   wcoveroracle <nE (u v)..> <s> <t> <nX (u v)..> <kmax>  ->  "NONE" | "<k>" *)
let () = register "wcoveroracle" (fun () ->
  let pr () = let u = next_n () in let v = next_n () in (u, v) in
  let es = next_list pr in let s = next_n () in let t = next_n () in let xs = next_list pr in let kmax = next_nat () in
  match min_wcover_model es s t xs kmax with
  | None -> print_endline "NONE"
  | Some k -> Printf.printf "%d\n" (int_of_nat k))
