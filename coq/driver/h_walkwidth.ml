open Model
open Fpmodel
(* E3 for stDiGraph._build_condensation_expanded and the weights of stDiGraph.get_width: WalkWidth.condense_model
   condense <nE (u v)..> <nmap (v c)..> <ncn c..> <ncE (a b)..> <nign (u v)..>  ->  "<n> u v w .."
   (node 2c = "c", node 2c+1 = "c_expanded") *)
let () = register "condense" (fun () ->
  let pr () = let u = next_n () in let v = next_n () in (u, v) in
  let es = next_list pr in let cmap = next_list pr in let cn = next_list next_n in let ce = next_list pr in let ign = next_list pr in
  let out = condense_model es cmap cn ce ign in
  Printf.printf "%d %s\n" (List.length out)
    (String.concat " " (List.map (fun ((u, v), w) -> Printf.sprintf "%d %d %d" (int_of_n u) (int_of_n v) (int_of_nat w)) out)))

(* condensepremises <nV v..> <nE (u v)..> <nmap (v c)..> <ntopo c..> <ncE (a b)..> <s> <t>  ->  1 | 0 *)
let () = register "condensepremises" (fun () ->
  let pr () = let u = next_n () in let v = next_n () in (u, v) in
  let vs = next_list next_n in let es = next_list pr in let cmap = next_list pr in let topo = next_list next_n in
  let ce = next_list pr in let s = next_n () in let t = next_n () in
  print_endline (if condense_premises vs es cmap topo ce s t then "1" else "0"))
