open Model
open Fpmodel
(* C20 handlers.  Strings travel as lists of Unicode code points:  <len> c1 .. clen ; a list of
   lines as <count> followed by that many strings.  Responses are single lines of integers/keywords.
     readgraph  <lines>  -> OK <graph> | ERR <kind> | UNMODELLED
     readgraphs <lines>  -> OK <nblocks> <graph>* | ERR <kind> | UNMODELLED | OUTOFFUEL
       <graph> := <idflag> [<str>] <ncons> (<npairs> (<str> <str>)* )* <infoflag> [<nnodes> <str>* <nedges> (<str> <str> <neg> <mantissa> <scale>)* <n> <m> <w>]
     pfloat <str> -> OK <neg> <mantissa> <scale> | BAD | UNM        pint <str> -> OK <z> | BAD | UNM
     strops <str> -> <lstrip> <strip> <ntok> <tok>* <is_hdr> <is_blank>       wslist -> all code points < 0x110000 with is_ws *)
let next_str () = next_list next_n
let next_lines () = next_list next_str
let s_str (s : n list) = String.concat " " (string_of_int (List.length s) :: List.map (fun c -> string_of_int (int_of_n c)) s)
let dec_string (x : n) = String.concat "" (List.map (fun c -> String.make 1 (Char.chr (int_of_n c))) (show_N x))
let s_err = function
  | EMissingCount -> "MissingCount" | EBadCount -> "BadCount" | EBadEdge -> "BadEdge" | EBadWeight -> "BadWeight"
  | EMissingConstraintEdge -> "MissingConstraintEdge" | ENoSource -> "NoSource" | ENoSink -> "NoSink"
  | EZeroHasConstraints -> "ZeroHasConstraints" | EZeroHasEdges -> "ZeroHasEdges"
let s_dec d = Printf.sprintf "%d %s %d" (if d.dneg then 1 else 0) (dec_string d.dmant) (int_of_nat d.dscale)
let s_graph g =
  let b = Buffer.create 256 in
  let add s = Buffer.add_string b s; Buffer.add_char b ' ' in
  (match g.gid with None -> add "0" | Some s -> add "1"; add (s_str s));
  add (string_of_int (List.length g.gcons));
  List.iter (fun c -> add (string_of_int (List.length c)); List.iter (fun (u, v) -> add (s_str u); add (s_str v)) c) g.gcons;
  (match g.ginf with
   | None -> add "0"
   | Some i ->
     add "1"; add (string_of_int (List.length i.gi_nodes)); List.iter (fun x -> add (s_str x)) i.gi_nodes;
     add (string_of_int (List.length i.gi_edges));
     List.iter (fun ((u, v), w) -> add (s_str u); add (s_str v); add (s_dec w)) i.gi_edges;
     add (string_of_int (int_of_nat i.gi_n)); add (string_of_int (int_of_nat i.gi_m)); add (string_of_int (int_of_nat i.gi_w)));
  Buffer.contents b
let p_res f = function
  | Ok x -> print_endline ("OK " ^ f x)
  | Error e -> print_endline ("ERR " ^ s_err e)
  | Unmodelled -> print_endline "UNMODELLED"
let () = register "readgraph" (fun () -> p_res s_graph (read_graph (next_lines ())))
let () = register "readgraphs" (fun () ->
  match read_graphs (next_lines ()) with
  | OutOfFuel -> print_endline "OUTOFFUEL"
  | FRes r -> p_res (fun gs -> String.concat " " (string_of_int (List.length gs) :: List.map s_graph gs)) r)
let () = register "pfloat" (fun () ->
  match parse_float (next_str ()) with FOk d -> print_endline ("OK " ^ s_dec d) | FBad -> print_endline "BAD" | FUnm -> print_endline "UNM")
let rec z_string z = match z with Z0 -> "0" | Zpos p -> dec_string (Npos p) | Zneg p -> "-" ^ dec_string (Npos p)
let () = register "pint" (fun () ->
  match parse_int (next_str ()) with IOk z -> print_endline ("OK " ^ z_string z) | IBad -> print_endline "BAD" | IUnm -> print_endline "UNM")
let () = register "strops" (fun () ->
  let s = next_str () in
  let ts = split_ws s [] in
  Printf.printf "%s %s %d %s %d %d\n" (s_str (lstrip s)) (s_str (strip s)) (List.length ts)
    (String.concat " " (List.map s_str ts)) (if is_hdr s then 1 else 0) (if is_blank s then 1 else 0))
let () = register "wslist" (fun () ->
  let b = Buffer.create 256 in
  for c = 0 to 0x10FFFF do if is_ws (n_of_int c) then (Buffer.add_string b (string_of_int c); Buffer.add_char b ' ') done;
  print_endline (Buffer.contents b))
