open Model
open Fpmodel
(* E3 for safetypathcoverscycles.maximal_safe_sequences_via_dominators: DomAlg.idom_s / idom_t / dominator_sequences
   domseq <nE (u v)..> <s> <t> <nX (u v)..>
     ->  "<nE> (su sv tu tv).. <nS> (<len> (u v)..).."   (-1 -1 = the root: source resp. sink) *)
let () = register "domseq" (fun () ->
  let pr () = let u = next_n () in let v = next_n () in (u, v) in
  let es = next_list pr in let s = next_n () in let t = next_n () in let xs = next_list pr in
  let pe = function None -> "-1 -1" | Some (u, v) -> Printf.sprintf "%d %d" (int_of_n u) (int_of_n v) in
  let idoms = List.map (fun e -> pe (idom_s es s e) ^ " " ^ pe (idom_t es t e)) es in
  let seqs = dominator_sequences es s t xs in
  Printf.printf "%d %s %d %s\n" (List.length es) (String.concat " " idoms) (List.length seqs)
    (String.concat " " (List.map (fun q -> Printf.sprintf "%d %s" (List.length q)
        (String.concat " " (List.map (fun (u, v) -> Printf.sprintf "%d %d" (int_of_n u) (int_of_n v)) q))) seqs)))
