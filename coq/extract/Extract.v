(* Extraction of the executable model. Only ExtrOcamlBasic is used (bool, option, list, prod,
   unit, sumbool mapped to OCaml's); nat, N, Z, positive, Q stay the extracted inductives. *)
From Coq Require Import List NArith ZArith QArith.
From FP Require Import Euler.
Require Extraction.
Require Import ExtrOcamlBasic.
Extraction Language OCaml.
Extraction "model.ml" solution_walk.
