(* Feasibility of the cyclic error LPs characterised (C07 / C08 on digraphs with cycles): encode_klae_cycles I resp.
   encode_kmpe_cycles I is satisfiable exactly when k source-to-sink walks with weights (and slacks) of the requested type
   and error values exist that stay within the caps of the model, respect the safety fixing, realise the subset
   constraints and whose error values dominate the deviations (resp. whose slacks cover the scaled deviations). *)
From Coq Require Import List NArith ZArith QArith Qround Lqa Bool Arith Lia Permutation.
Import ListNotations.
From FP Require Import Lin Blocks BlocksProofs PathEnc PathEncProofs Euler EulerProofs1 EulerProofs4
                       WalkEnc WalkDecode WalkEncRows WalkEncRowsProofs WalkTree WalkEncComplete WalkEncIff WalkCoverIff
                       WalkErrEnc WalkErrEncProofs WalkErrCompleteW.
Set Default Timeout 90.
Local Close Scope Q_scope.
Local Open Scope nat_scope.

(* what both classes share: walks, weights, caps, fixing, constraints *)
Definition werr_common (I : werr_inst) (P : N -> list node) (wt : N -> Q) : Prop :=
  let WI := werr_walk I in let k := x_k I in let wm := x_wmax I in
  wwalks WI P /\
  (forall i, In i (layers k) -> (0 <= wt i <= wm)%Q /\ (x_int I = true -> is_int (wt i))) /\
  (* the caps of the model: repetition caps (compute_edge_max_reachable_value inside SCCs, 1 outside), bit width, w_max *)
  wwithin_caps WI P /\
  (forall i e, In i (layers k) -> In e (x_basic I) -> wprod_kind WI e i = 2%N -> (mult P i e < 2 ^ Z.of_nat (num_bits wm))%Z) /\
  (forall i e, In i (layers k) -> In e (x_basic I) -> (wt i * inject_Z (mult P i e) <= wm)%Q) /\
  wrespects_fixing WI P /\ wrealises_constraints WI P.

Definition klaec_admissible (I : werr_inst) (P : N -> list node) (wt : N -> Q) (err : PathEnc.edge -> Q) : Prop :=
  werr_common I P wt /\
  (forall e, In e (x_basic I) ->
     (0 <= err e <= x_wmax I)%Q /\ (x_int I = true -> is_int (err e)) /\
     (xflow I e - expl I P wt e <= err e)%Q /\ (expl I P wt e - xflow I e <= err e)%Q).

Definition kmpec_admissible (I : werr_inst) (P : N -> list node) (wt sl : N -> Q) : Prop :=
  werr_common I P wt /\
  (forall i, In i (layers (x_k I)) -> (0 <= sl i <= x_wmax I)%Q /\ (x_int I = true -> is_int (sl i))) /\
  (forall i e, In i (layers (x_k I)) -> In e (x_basic I) -> (sl i * inject_Z (mult P i e) <= x_wmax I)%Q) /\
  (forall e, In e (x_basic I) ->
     ((xflow I e - expl I P wt e) * xscale I e <= slk I P sl e)%Q /\ (- slk I P sl e <= (xflow I e - expl I P wt e) * xscale I e)%Q).

(* the integer factor of a full product block is representable in its bit vector *)
Lemma wprod_bits_range (WI : walk_inst) (a : var -> Q) (wm : Q) e i (c p : var) (z : Z) :
  (vfam c <> fBit /\ vfam c <> fComp) -> (vfam p <> fBit /\ vfam p <> fComp) ->
  wprod_kind WI e i = 2%N ->
  Forall (sat_col a) (wprod_cols WI wm e i p) -> Forall (sat_row a) (wprod_rows WI wm e i c p) ->
  (a (evar e i) == inject_Z z)%Q -> (z < 2 ^ Z.of_nat (num_bits wm))%Z.
Proof.
  intros Fc Fp K2 HC HR Hx. unfold wprod_cols in HC. unfold wprod_rows in HR. rewrite K2 in HC, HR. cbn in HC, HR.
  pose proof (proj1 (intprod_rows_sem (evar e i) c p 0%Q wm (num_bits wm) ltac:(split; discriminate) Fc Fp a) (conj HC HR)) as S.
  cbn zeta in S. destruct S as (HB & _ & HX & _).
  destruct (bits_range _ HB) as (y & Hy & Ry). rewrite map_length, seq_length in Ry.
  rewrite Hy, Hx in HX. apply inject_Z_inj_eq in HX. subst y. lia.
Qed.

Lemma expl_xint (I : werr_inst) (a : var -> Q) (P : N -> list node) e :
  (forall i, In i (layers (x_k I)) -> mult P i e = xint a i e) ->
  (expl I P (fun i => a (W i)) e == sumq (fun i => (a (W i) * inject_Z (xint a i e))%Q) (layers (x_k I)))%Q.
Proof. intros H. unfold expl. apply sumq_ext. intros i Hi. rewrite (H i Hi). reflexivity. Qed.
Lemma slk_xint (I : werr_inst) (a : var -> Q) (P : N -> list node) e :
  (forall i, In i (layers (x_k I)) -> mult P i e = xint a i e) ->
  (slk I P (fun i => a (Slack i)) e == sumq (fun i => (a (Slack i) * inject_Z (xint a i e))%Q) (layers (x_k I)))%Q.
Proof. intros H. unfold slk. apply sumq_ext. intros i Hi. rewrite (H i Hi). reflexivity. Qed.

(* ---------------------------------------------------------------------------------------------- *)
Theorem klaec_feasible_iff_within_caps (I : werr_inst) :
  wf_stg (x_graph I) -> o_allow_empty (x_opts I) = false -> winputs_ok (werr_walk I) ->
  ((exists a, sat a (encode_klae_cycles I)) <-> (exists P wt err, klaec_admissible I P wt err)).
Proof.
  intros WF Hae Hin. split.
  - intros (a & Hsat). pose proof Hsat as [Hc Hr]. unfold encode_klae_cycles in Hc, Hr. cbn [cols rows] in Hc, Hr.
    unfold base_wcols, klaec_cols in Hc. unfold base_wrows in Hr. rewrite !Forall_app in Hc. rewrite !Forall_app in Hr.
    destruct Hc as ((Hwc & Hsc) & Hpc & Hwwc & Hec & Hppc). destruct Hr as ((Hwr & Hzr & Hfr & Hsr) & Hkr).
    set (WI := werr_walk I) in *. set (P := Pofw WI a).
    assert (MX : forall i e, In i (layers (x_k I)) -> In e (g_edges (x_graph I)) -> mult P i e = xint a i e)
      by (intros i e Hi He; apply (multw_xint WI a WF Hae Hwc Hwr i e Hi He)).
    exists P, (fun i => a (W i)), (fun e => a (errvar e)). split; [split; [|split; [|split; [|split; [|split; [|split]]]]]|].
    + apply (wsound_walks WI a WF Hae Hwc Hwr).
    + intros i Hi. split; [apply (klaec_w_bounds I a Hsat i Hi)|apply (klaec_w_int I a Hsat i Hi)].
    + apply (wsound_caps WI a WF Hae Hwc Hwr).
    + intros i e Hi He K2. pose proof (x_basic_in_E I e He) as HeE.
      apply (wprod_bits_range WI a (x_wmax I) e i (W i) (pvar e i) (mult P i e) ltac:(split; discriminate) ltac:(split; discriminate) K2).
      * apply Forall_forall. intros c Hc0. apply (sat_cols_in a _ _ Hppc). unfold x_piprod_cols.
        apply in_flat_map. exists e. split; [exact He|]. apply in_flat_map. exists i. split; [exact Hi|exact Hc0].
      * pose proof (klaec_edge_rows_sat I a Hsat e He) as HR. unfold klaec_edge_rows in HR. rewrite Forall_app in HR. destruct HR as [HP _].
        unfold x_piprod_rows in HP. rewrite Forall_flat_map in HP. apply HP. exact Hi.
      * rewrite (MX i e Hi HeE). apply (edge_val WI a Hwc i e Hi HeE).
    + intros i e Hi He. rewrite (MX i e Hi (x_basic_in_E I e He)), <- (klaec_product I a Hsat e i He Hi).
      assert (C : sat_col a (wcol_ (pvar e i) (x_wmax I) (x_int I))).
      { apply (sat_cols_in a _ _ Hpc). unfold x_pi_cols. apply in_flat_map. exists i. split; [exact Hi|].
        apply (in_map (fun e => wcol_ (pvar e i) (x_wmax I) (x_int I))). apply (x_basic_in_E I e He). }
      unfold sat_col, wcol_ in C. cbn [cvar clb cub] in C. tauto.
    + apply (wsound_fixing WI a WF Hae Hin Hwc Hwr Hzr Hfr).
    + apply (wsound_constraints WI a WF Hae Hin Hwc Hsc Hwr Hsr).
    + intros e He.
      assert (C : sat_col a (wcol_ (errvar e) (x_wmax I) (x_int I))).
      { apply (sat_cols_in a _ _ Hec). unfold x_err_cols. apply (in_map (fun e => wcol_ (errvar e) (x_wmax I) (x_int I))). exact He. }
      unfold sat_col, wcol_ in C. cbn [cvar clb cub cint] in C. destruct C as (C0 & C1 & Ci).
      split; [split; assumption|]. split; [exact Ci|].
      rewrite (expl_xint I a P e (fun i Hi => MX i e Hi (x_basic_in_E I e He))).
      apply (klaec_err_dominates I a Hsat e He).
  - intros (P & wt & err & ((HP & Hw & Hcap & Hbits & Hprod & Hfix & Hcons) & Herr)).
    destruct (finite_choice_w (all_cons (werr_walk I))
                (fun j c i => In i (layers (w_k (werr_walk I))) /\
                              (qnat (length (nodup_e c)) * w_cov (werr_walk I) <= sumq (usedq P i) (nodup_e c))%Q) Hcons) as (ch & Hch).
    exists (asgx I P wt (fun _ => 0%Q) err ch). apply klaec_complete; assumption.
Qed.

Theorem kmpec_feasible_iff_within_caps (I : werr_inst) :
  wf_stg (x_graph I) -> o_allow_empty (x_opts I) = false -> winputs_ok (werr_walk I) ->
  ((exists a, sat a (encode_kmpe_cycles I)) <-> (exists P wt sl, kmpec_admissible I P wt sl)).
Proof.
  intros WF Hae Hin. split.
  - intros (a & Hsat). pose proof Hsat as [Hc Hr]. unfold encode_kmpe_cycles in Hc, Hr. cbn [cols rows] in Hc, Hr.
    unfold base_wcols, kmpec_cols in Hc. unfold base_wrows in Hr. rewrite !Forall_app in Hc. rewrite !Forall_app in Hr.
    destruct Hc as ((Hwc & Hsc) & Hwwc & Hpc & Hslc & Hgc & Hppc & Hgpc). destruct Hr as ((Hwr & Hzr & Hfr & Hsr) & Hkr).
    set (WI := werr_walk I) in *. set (P := Pofw WI a).
    assert (MX : forall i e, In i (layers (x_k I)) -> In e (g_edges (x_graph I)) -> mult P i e = xint a i e)
      by (intros i e Hi He; apply (multw_xint WI a WF Hae Hwc Hwr i e Hi He)).
    exists P, (fun i => a (W i)), (fun i => a (Slack i)).
    split; [split; [|split; [|split; [|split; [|split; [|split]]]]]|split; [|split]].
    + apply (wsound_walks WI a WF Hae Hwc Hwr).
    + intros i Hi. split; [apply (kmpec_w_bounds I a Hsat i Hi)|intros Hint; apply (kmpec_w_int I a Hsat i Hi Hint)].
    + apply (wsound_caps WI a WF Hae Hwc Hwr).
    + intros i e Hi He K2. pose proof (x_basic_in_E I e He) as HeE.
      apply (wprod_bits_range WI a (x_wmax I) e i (W i) (pvar e i) (mult P i e) ltac:(split; discriminate) ltac:(split; discriminate) K2).
      * apply Forall_forall. intros c Hc0. apply (sat_cols_in a _ _ Hppc). unfold x_piprod_cols.
        apply in_flat_map. exists e. split; [exact He|]. apply in_flat_map. exists i. split; [exact Hi|exact Hc0].
      * pose proof (kmpec_edge_rows_sat I a Hsat e He) as HR. unfold kmpec_edge_rows in HR. rewrite !Forall_app in HR. destruct HR as (HP & _ & _).
        unfold x_piprod_rows in HP. rewrite Forall_flat_map in HP. apply HP. exact Hi.
      * rewrite (MX i e Hi HeE). apply (edge_val WI a Hwc i e Hi HeE).
    + intros i e Hi He. rewrite (MX i e Hi (x_basic_in_E I e He)), <- (kmpec_pi_product I a Hsat e i He Hi).
      assert (C : sat_col a (wcol_ (pvar e i) (x_wmax I) (x_int I))).
      { apply (sat_cols_in a _ _ Hpc). unfold x_pi_cols. apply in_flat_map. exists i. split; [exact Hi|].
        apply (in_map (fun e => wcol_ (pvar e i) (x_wmax I) (x_int I))). apply (x_basic_in_E I e He). }
      unfold sat_col, wcol_ in C. cbn [cvar clb cub] in C. tauto.
    + apply (wsound_fixing WI a WF Hae Hin Hwc Hwr Hzr Hfr).
    + apply (wsound_constraints WI a WF Hae Hin Hwc Hsc Hwr Hsr).
    + intros i Hi. split; [apply (kmpec_s_bounds I a Hsat i Hi)|intros Hint; apply (kmpec_w_int I a Hsat i Hi Hint)].
    + intros i e Hi He. rewrite (MX i e Hi (x_basic_in_E I e He)), <- (kmpec_gamma_product I a Hsat e i He Hi).
      assert (C : sat_col a (wcol_ (gvar e i) (x_wmax I) false)).
      { apply (sat_cols_in a _ _ Hgc). unfold x_gamma_cols. apply in_flat_map. exists i. split; [exact Hi|].
        apply (in_map (fun e => wcol_ (gvar e i) (x_wmax I) false)). apply (x_basic_in_E I e He). }
      unfold sat_col, wcol_ in C. cbn [cvar clb cub] in C. tauto.
    + intros e He.
      rewrite (expl_xint I a P e (fun i Hi => MX i e Hi (x_basic_in_E I e He))), (slk_xint I a P e (fun i Hi => MX i e Hi (x_basic_in_E I e He))).
      apply (kmpec_slack_covers I a Hsat e He).
  - intros (P & wt & sl & ((HP & Hw & Hcap & Hbits & Hprod & Hfix & Hcons) & Hs & Hsp & Hsl)).
    destruct (finite_choice_w (all_cons (werr_walk I))
                (fun j c i => In i (layers (w_k (werr_walk I))) /\
                              (qnat (length (nodup_e c)) * w_cov (werr_walk I) <= sumq (usedq P i) (nodup_e c))%Q) Hcons) as (ch & Hch).
    exists (asgx I P wt sl (fun _ => 0%Q) ch). apply kmpec_complete; assumption.
Qed.
