(* C06 proofs, part 3: flow-safe paths (positive excess flow => contained in every flow decomposition) and the
   layer-assignment lemmas used by C05 (fixing safe, pairwise incompatible sequences to layers; zero fixing). *)
From Coq Require Import List NArith ZArith Bool Arith Lia Permutation.
Import ListNotations.
From FP Require Import SafetyReach Safety.
Set Default Timeout 30.
Local Open Scope Z_scope.

Definition infix (a b : list node) : Prop := exists l r, b = l ++ a ++ r.

Lemma prefixb_spec a : forall b, prefixb a b = true <-> exists r, b = a ++ r.
Proof.
  induction a as [|x a IH]; intros b; cbn [prefixb].
  - split; [intros _; exists b; reflexivity|reflexivity].
  - destruct b as [|y b]; [split; [discriminate|intros (r & E); discriminate]|].
    rewrite andb_true_iff, IH, N.eqb_eq. split.
    + intros [-> (r & ->)]. exists r. reflexivity.
    + intros (r & E). inversion E; subst. split; [reflexivity|exists r; reflexivity].
Qed.
Lemma infixb_spec a : forall b, infixb a b = true <-> infix a b.
Proof.
  induction b as [|y b IH]; cbn [infixb]; rewrite orb_true_iff.
  - rewrite prefixb_spec. split.
    + intros [(r & E)|H]; [|discriminate]. exists [], r. exact E.
    + intros (l & r & E). left. destruct l; [exists r; exact E|discriminate].
  - rewrite prefixb_spec, IH. split.
    + intros [(r & E)|(l & r & E)]; [exists [], r; exact E|exists (y :: l), r; rewrite E; reflexivity].
    + intros (l & r & E). destruct l as [|z l]; [left; exists r; exact E|right].
      inversion E; subst. exists l, r. reflexivity.
Qed.


Lemma pairs_app_in l a b r : In (a, b) (pairs (l ++ a :: b :: r)).
Proof.
  induction l as [|x l IH]; simpl.
  - left. reflexivity.
  - destruct (l ++ a :: b :: r) eqn:E; [destruct l; discriminate|]. right. exact IH.
Qed.

Lemma in_pairs_split a b p : In (a, b) (pairs p) -> exists l r, p = l ++ a :: b :: r.
Proof.
  induction p as [|x p IH]; [intros []|]. destruct p as [|y p]; [intros []|].
  intros [H|H].
  - inversion H; subst. exists [], p. reflexivity.
  - destruct (IH H) as (l & r & E). exists (x :: l), r. rewrite E. reflexivity.
Qed.

(* generic finite sums *)
Lemma sumL_le {A} (g h : A -> Z) l : (forall a, In a l -> g a <= h a) -> sumL g l <= sumL h l.
Proof. induction l as [|a l IH]; intros H; simpl; [lia|]. pose proof (H a (or_introl eq_refl)). specialize (IH (fun a' i => H a' (or_intror i))). lia. Qed.
Lemma sumL_add {A} (g h : A -> Z) l : sumL (fun a => g a + h a) l = sumL g l + sumL h l.
Proof. induction l as [|a l IH]; simpl; [reflexivity|]. rewrite IH. lia. Qed.
Lemma sumL_swap {A B} (g : A -> B -> Z) la lb : sumL (fun a => sumL (g a) lb) la = sumL (fun b => sumL (fun a => g a b) la) lb.
Proof.
  induction la as [|a la IH]; simpl.
  - induction lb; simpl; lia.
  - rewrite IH. rewrite <- sumL_add. reflexivity.
Qed.
Lemma sumL_nonneg {A} (g : A -> Z) l : (forall a, In a l -> 0 <= g a) -> 0 <= sumL g l.
Proof. induction l as [|a l IH]; intros H; simpl; [lia|]. pose proof (H a (or_introl eq_refl)). specialize (IH (fun a' i => H a' (or_intror i))). lia. Qed.
Lemma sumL_member {A} (g : A -> Z) l a : (forall a, In a l -> 0 <= g a) -> In a l -> g a <= sumL g l.
Proof.
  induction l as [|b l IH]; intros H Hin; [destruct Hin|]. simpl. destruct Hin as [<-|Hin].
  - pose proof (sumL_nonneg g l (fun a' i => H a' (or_intror i))). lia.
  - specialize (IH (fun a' i => H a' (or_intror i)) Hin). pose proof (H b (or_introl eq_refl)). lia.
Qed.
Lemma sumL_pos_ex {A} (g : A -> Z) l : 0 < sumL g l -> exists a, In a l /\ 0 < g a.
Proof.
  induction l as [|a l IH]; simpl; [lia|]. intros H. destruct (Z_lt_le_dec 0 (g a)); [exists a; tauto|].
  destruct IH as (b & Hb & Hg); [lia|]. exists b. tauto.
Qed.

Section FlowSafe.
  Variable G : list edge.
  Variable f : edge -> Z.
  Lemma succs_In v x : In x (succs G v) <-> In (v, x) G.
  Proof.
    unfold succs. rewrite in_map_iff. split.
    - intros ([a b] & E & H). apply filter_In in H. destruct H as [H1 H2]. simpl in *. apply N.eqb_eq in H2. subst. assumption.
    - intros H. exists (v, x). split; [reflexivity|]. apply filter_In. split; [assumption|apply N.eqb_refl].
  Qed.

  (* a decomposition: non-negatively weighted paths of G that end at nodes without out-edges *)
  Variable D : list (list node * Z).
  Hypothesis Dw : forall pw, In pw D -> 0 <= snd pw.
  Hypothesis Dp : forall pw, In pw D -> incl (pairs (fst pw)) G.
  Hypothesis Dend : forall pw x, In pw D -> ~ In (last (fst pw) 0%N, x) G.

  Definition hasb (e : edge) (p : list node) : bool :=
    existsb (fun e' => (fst e' =? fst e)%N && (snd e' =? snd e)%N) (pairs p).
  Lemma hasb_spec e p : hasb e p = true <-> In e (pairs p).
  Proof.
    unfold hasb. rewrite existsb_exists. split.
    - intros ([a b] & H & E). apply andb_true_iff in E. destruct E as [E1 E2]. apply N.eqb_eq in E1, E2. destruct e. simpl in *. subst. assumption.
    - intros H. exists e. split; [assumption|]. rewrite !N.eqb_refl. reflexivity.
  Qed.

  Definition ind (b : bool) (w : Z) : Z := if b then w else 0.
  Lemma ind_true w : ind true w = w. Proof. reflexivity. Qed.
  Lemma ind_false w : ind false w = 0. Proof. reflexivity. Qed.
  Lemma ind_nonneg b w : 0 <= w -> 0 <= ind b w. Proof. destruct b; simpl; lia. Qed.
  Lemma ind_le b w : 0 <= w -> ind b w <= w. Proof. destruct b; simpl; lia. Qed.
  Definition Wt (pred : list node -> bool) : Z := sumL (fun pw => ind (pred (fst pw)) (snd pw)) D.

  (* every edge's flow is the total weight of the paths through it (simple paths: no multiplicity) *)
  Hypothesis Dflow : forall e, In e G -> Wt (hasb e) = f e.

  Lemma last_app_ne (l r : list node) d : r <> [] -> last (l ++ r) d = last r d.
  Proof.
    intros Hr. induction l as [|a l IH]; [reflexivity|]. simpl app.
    destruct (l ++ r) eqn:E; [destruct l; [simpl in E; congruence|discriminate]|]. rewrite <- E in *. simpl. rewrite E. rewrite <- E. exact IH.
  Qed.

  (* an occurrence of Q++[v] in a decomposition path continues with some out-neighbour of v *)
  Lemma occurrence_continues pw Q v u : In pw D -> In (v, u) G -> infix (Q ++ [v]) (fst pw) ->
    exists x, infix (Q ++ [v; x]) (fst pw) /\ In (v, x) (pairs (fst pw)).
  Proof.
    intros HD Hvu (l & r & E). destruct r as [|x r].
    - exfalso. apply (Dend pw u HD). rewrite E, app_nil_r, app_assoc.
      rewrite last_app_ne by discriminate. simpl. assumption.
    - exists x. split.
      + exists l, r. rewrite E. rewrite <- !app_assoc. reflexivity.
      + rewrite E. rewrite <- app_assoc. simpl. rewrite app_assoc. apply pairs_app_in.
  Qed.


  Lemma extend_step Q v u : In (v, u) G ->
    Wt (infixb (Q ++ [v])) <= Wt (infixb (Q ++ [v; u])) + sumL (fun x => f (v, x)) (others G v u).
  Proof.
    intros Hvu.
    assert (Hf : sumL (fun x => f (v, x)) (others G v u) = sumL (fun x => Wt (hasb (v, x))) (others G v u)).
    { apply Z.le_antisymm; apply sumL_le; intros x Hx; apply filter_In in Hx; destruct Hx as [Hx _];
      apply succs_In in Hx; rewrite (Dflow _ Hx); lia. }
    rewrite Hf. unfold Wt at 3.
    rewrite (sumL_swap (fun x pw => ind (hasb (v, x) (fst pw)) (snd pw)) (others G v u) D).
    unfold Wt. rewrite <- sumL_add. apply sumL_le. intros pw HD.
    pose proof (Dw pw HD) as Hw.
    assert (Hnn : 0 <= sumL (fun a => ind (hasb (v, a) (fst pw)) (snd pw)) (others G v u)).
    { apply sumL_nonneg. intros a _. apply ind_nonneg. assumption. }
    pose proof (ind_nonneg (infixb (Q ++ [v; u]) (fst pw)) _ Hw) as Hn2.
    destruct (infixb (Q ++ [v]) (fst pw)) eqn:I1; [rewrite ind_true|rewrite ind_false; lia].
    apply infixb_spec in I1. destruct (occurrence_continues pw Q v u HD Hvu I1) as (x & Hx & Hin).
    destruct (N.eqb_spec x u) as [->|Hne].
    - apply infixb_spec in Hx. rewrite Hx, ind_true. lia.
    - assert (Hox : In x (others G v u)).
      { apply filter_In. split; [apply succs_In; apply (Dp pw HD); assumption|]. destruct (N.eqb_spec x u); [congruence|reflexivity]. }
      pose proof (sumL_member (fun a => ind (hasb (v, a) (fst pw)) (snd pw)) (others G v u) x) as Hm.
      cbv beta in Hm. apply hasb_spec in Hin. rewrite Hin, ind_true in Hm.
      specialize (Hm ltac:(intros a _; apply ind_nonneg; assumption) Hox). lia.
  Qed.


  Lemma infix_pair a b p : infix [a; b] p <-> In (a, b) (pairs p).
  Proof.
    split.
    - intros (l & r & ->). simpl. apply pairs_app_in.
    - intros H. destruct (in_pairs_split _ _ _ H) as (l & r & ->). exists l, r. reflexivity.
  Qed.

  Lemma weight_lower_bound : forall r Q v, incl (pairs (v :: r)) G ->
    Wt (infixb (Q ++ [v])) - leak G f (v :: r) <= Wt (infixb (Q ++ v :: r)).
  Proof.
    induction r as [|u r IH]; intros Q v HG.
    - cbn [leak]. lia.
    - change (leak G f (v :: u :: r)) with (sumL (fun x => f (v, x)) (others G v u) + leak G f (u :: r)).
      assert (Hvu : In (v, u) G) by (apply HG; left; reflexivity).
      pose proof (extend_step Q v u Hvu) as Hs.
      specialize (IH (Q ++ [v]) u ltac:(intros e He; apply HG; right; exact He)).
      rewrite <- !app_assoc in IH. cbn [app] in IH. lia.
  Qed.

  Theorem excess_flow_safe u0 u1 r :
    incl (pairs (u0 :: u1 :: r)) G -> 0 < excess G f (u0 :: u1 :: r) ->
    exists pw, In pw D /\ 0 < snd pw /\ infix (u0 :: u1 :: r) (fst pw).
  Proof.
    intros HG Hex. unfold excess in Hex.
    pose proof (weight_lower_bound r [u0] u1 ltac:(intros e He; apply HG; right; exact He)) as H.
    simpl app in H.
    assert (H01 : In (u0, u1) G) by (apply HG; left; reflexivity).
    assert (Wt (infixb [u0; u1]) = f (u0, u1)).
    { rewrite <- (Dflow _ H01). unfold Wt. apply Z.le_antisymm; apply sumL_le; intros pw _;
      destruct (infixb [u0; u1] (fst pw)) eqn:A, (hasb (u0, u1) (fst pw)) eqn:B; rewrite ?ind_true, ?ind_false; try lia; exfalso.
      - apply infixb_spec, infix_pair, hasb_spec in A. congruence.
      - apply hasb_spec, infix_pair, infixb_spec in B. congruence.
      - apply infixb_spec, infix_pair, hasb_spec in A. congruence.
      - apply hasb_spec, infix_pair, infixb_spec in B. congruence. }
    assert (Hpos : 0 < Wt (infixb (u0 :: u1 :: r))) by lia.
    unfold Wt in Hpos. apply sumL_pos_ex in Hpos. destruct Hpos as (pw & HD & Hp).
    exists pw. destruct (infixb (u0 :: u1 :: r) (fst pw)) eqn:I; [rewrite ind_true in Hp|rewrite ind_false in Hp; lia].
    repeat split; [assumption|assumption|apply infixb_spec; assumption].
  Qed.
End FlowSafe.

(* the executable criterion used by the harness on the library's flow-safe paths *)
Theorem excess_pos_dec_sound (fl : list (edge * Z)) (D : list (list node * Z)) (p : list node) :
  excess_pos_dec fl p = true ->
  (forall pw, In pw D -> 0 <= snd pw) ->
  (forall pw, In pw D -> incl (pairs (fst pw)) (map fst fl)) ->
  (forall pw x, In pw D -> ~ In (last (fst pw) 0%N, x) (map fst fl)) ->
  (forall e, In e (map fst fl) -> Wt D (hasb e) = flow_of fl e) ->
  exists pw, In pw D /\ 0 < snd pw /\ infix p (fst pw).
Proof.
  unfold excess_pos_dec, excess_of. intros H Dw Dp Dend Dflow. apply andb_true_iff in H. destruct H as [HG Hex].
  apply Z.ltb_lt in Hex. destruct p as [|u0 [|u1 r]]; try (cbn [excess] in Hex; lia).
  apply (excess_flow_safe (map fst fl) (flow_of fl) D Dw Dp Dend Dflow u0 u1 r); [|assumption].
  intros e He. rewrite forallb_forall in HG. specialize (HG e He). apply existsb_exists in HG.
  destruct HG as (e' & He' & E). destruct (eqe_spec e e'); [subst; assumption|discriminate].
Qed.

(* ------------------------------------------------------------------ inexact flows *)
Lemma sumL_mono {A} (g h : A -> Z) l : (forall a, g a <= h a) -> sumL g l <= sumL h l.
Proof. intros H. induction l as [|a l IH]; cbn [sumL fold_right]; [lia|]. specialize (H a). unfold sumL in IH. lia. Qed.

Lemma leak_mono G (f ub : edge -> Z) : (forall e, f e <= ub e) -> forall p, leak G f p <= leak G ub p.
Proof.
  intros H p. induction p as [|v p IH]; [cbn; lia|]. destruct p as [|u r]; [cbn; lia|].
  change (leak G f (v :: u :: r)) with (sumL (fun x => f (v, x)) (others G v u) + leak G f (u :: r)).
  change (leak G ub (v :: u :: r)) with (sumL (fun x => ub (v, x)) (others G v u) + leak G ub (u :: r)).
  pose proof (sumL_mono (fun x => f (v, x)) (fun x => ub (v, x)) (others G v u) (fun x => H (v, x))). lia.
Qed.

(* the worst-case excess is a lower bound of the excess of every flow inside the intervals *)
Lemma inexact_excess_le G (lb ub f : edge -> Z) p :
  (forall e, lb e <= f e) -> (forall e, f e <= ub e) -> inexact_excess G lb ub p <= excess G f p.
Proof.
  intros Hl Hu. destruct p as [|u0 [|u1 r]]; cbn [inexact_excess excess]; try lia.
  pose proof (leak_mono G f ub Hu (u1 :: r)). specialize (Hl (u0, u1)). lia.
Qed.

(* a path with positive worst-case excess lies in a positive-weight path of every decomposition of every flow f
   with lb <= f <= ub *)
Theorem inexact_excess_flow_safe (G : list edge) (lb ub f : edge -> Z) (D : list (list node * Z)) :
  (forall e, lb e <= f e) -> (forall e, f e <= ub e) ->
  (forall pw, In pw D -> 0 <= snd pw) ->
  (forall pw, In pw D -> incl (pairs (fst pw)) G) ->
  (forall pw x, In pw D -> ~ In (last (fst pw) 0%N, x) G) ->
  (forall e, In e G -> Wt D (hasb e) = f e) ->
  forall u0 u1 r, incl (pairs (u0 :: u1 :: r)) G -> 0 < inexact_excess G lb ub (u0 :: u1 :: r) ->
  exists pw, In pw D /\ 0 < snd pw /\ infix (u0 :: u1 :: r) (fst pw).
Proof.
  intros Hl Hu Dw Dp Dend Dflow u0 u1 r HG Hex.
  apply (excess_flow_safe G f D Dw Dp Dend Dflow u0 u1 r HG).
  pose proof (inexact_excess_le G lb ub f (u0 :: u1 :: r) Hl Hu). lia.
Qed.

(* ------------------------------------------------------------------ fixing sequences to layers (C05) *)
Section Fix.
  Variable route : Type.
  Variable sq : Type.                                (* a sequence to be fixed *)
  Variable cont : route -> sq -> Prop.               (* the route is admissible and contains the sequence *)

  (* pairwise incompatibility of the chosen sequences: no route at all contains two of them *)
  Inductive incompat : list sq -> Prop :=
  | inc_nil : incompat []
  | inc_cons s ss : (forall r s', In s' ss -> cont r s -> cont r s' -> False) -> incompat ss -> incompat (s :: ss).

  Lemma assign_layers : forall (ss : list sq) (sol : list route),
    incompat ss ->
    (forall s, In s ss -> exists r, In r sol /\ cont r s) ->
    exists pre rest, Permutation sol (pre ++ rest) /\ Forall2 cont pre ss.
  Proof.
    induction ss as [|s ss IH]; intros sol Hinc Hsafe.
    - exists [], sol. split; [reflexivity|constructor].
    - inversion Hinc as [|? ? Hs Hinc']; subst.
      destruct (Hsafe s (or_introl eq_refl)) as (r & Hr & Hc).
      destruct (in_split _ _ Hr) as (l1 & l2 & ->).
      destruct (IH (l1 ++ l2) Hinc') as (pre & rest & P & F).
      { intros s' Hs'. destruct (Hsafe s' (or_intror Hs')) as (r' & Hr' & Hc').
        exists r'. split; [|assumption].
        apply in_app_or in Hr'. apply in_or_app. destruct Hr' as [H|[H|H]]; [left; assumption| |right; assumption].
        subst r'. exfalso. eapply Hs; eassumption. }
      exists (r :: pre), rest. split; [|constructor; assumption].
      rewrite <- Permutation_middle. cbn [app]. constructor. assumption.
  Qed.

  Variable Sol : list route -> Prop.
  Variable obj : list route -> nat.
  Hypothesis Sol_perm : forall a b, Permutation a b -> Sol a -> Sol b.
  Hypothesis obj_perm : forall a b, Permutation a b -> obj a = obj b.

  Definition fixed (ss : list sq) (sol : list route) : Prop :=
    exists pre rest, sol = pre ++ rest /\ Forall2 cont pre ss.

  Theorem fix_preserves_opt (ss : list sq) :
    incompat ss ->
    (forall sol, Sol sol -> forall s, In s ss -> exists r, In r sol /\ cont r s) ->   (* safety *)
    forall sol, Sol sol -> exists sol', Sol sol' /\ fixed ss sol' /\ obj sol' = obj sol.
  Proof.
    intros Hinc Hsafe sol HS.
    destruct (assign_layers ss sol Hinc (Hsafe sol HS)) as (pre & rest & P & F).
    exists (pre ++ rest). split; [eapply Sol_perm; eassumption|]. split.
    - exists pre, rest. split; [reflexivity|assumption].
    - symmetry. apply obj_perm. assumption.
  Qed.

  Corollary fix_same_feasibility ss :
    incompat ss ->
    (forall sol, Sol sol -> forall s, In s ss -> exists r, In r sol /\ cont r s) ->
    ((exists sol, Sol sol) <-> (exists sol, Sol sol /\ fixed ss sol)).
  Proof.
    intros Hinc Hsafe. split.
    - intros (sol & HS). destruct (fix_preserves_opt ss Hinc Hsafe sol HS) as (sol' & H1 & H2 & _). eauto.
    - intros (sol & HS & _). eauto.
  Qed.

  (* zero fixing: an edge that lies on no route containing S_j is unused by layer j of every fixed solution *)
  Variable E : Type.
  Variable on : E -> route -> Prop.
  Definition forbidden_for (s : sq) (e : E) : Prop := forall r, cont r s -> ~ on e r.

  Theorem zero_fix_sound ss sol :
    fixed ss sol ->
    exists pre rest, sol = pre ++ rest /\
      Forall2 (fun r s => cont r s /\ forall e, forbidden_for s e -> ~ on e r) pre ss.
  Proof.
    intros (pre & rest & -> & F). exists pre, rest. split; [reflexivity|].
    induction F; constructor; [|assumption]. split; [assumption|]. intros e He. apply He. assumption.
  Qed.
End Fix.

(* ------------------------------------------------------------------ the concrete instance certified per model object *)
From FP Require Import SafetyProofs1.

Definition wcont (G : graph) (s t : node) (w : list edge) (q : list edge) : Prop := st_walk G s t w /\ subseq q w.

Lemma pairwise_incompat G s t ss :
  pairwise_incompat_dec G s t ss = true -> incompat (list edge) (list edge) (wcont G s t) ss.
Proof.
  induction ss as [|a r IH]; cbn [pairwise_incompat_dec]; [constructor|].
  rewrite andb_true_iff, forallb_forall. intros [H1 H2]. constructor; [|apply IH; assumption].
  intros w b Hb [Hw Ha] [_ Hb']. specialize (H1 b Hb). apply incompat_dec_correct in H1. exact (H1 w Hw Ha Hb').
Qed.

(* what the deciders establish on walks_to_fix: every cover of the trusted items can be reordered so that
   walk j contains sequence j, and no walk j uses an edge decided forbidden for sequence j *)
Theorem certified_fix_sound G s t X ss C :
  pairwise_incompat_dec G s t ss = true ->
  forallb (safe_dec G s t X) ss = true ->
  walk_cover G s t X C ->
  exists pre rest, Permutation C (pre ++ rest) /\
    Forall2 (fun w q => st_walk G s t w /\ subseq q w /\ forall e, forbid_dec G s t q e = true -> ~ In e w) pre ss.
Proof.
  intros Hinc Hsafe HC.
  destruct (assign_layers _ _ (wcont G s t) ss C (pairwise_incompat G s t ss Hinc)) as (pre & rest & P & F).
  - intros q Hq. rewrite forallb_forall in Hsafe. specialize (Hsafe q Hq). apply safe_dec_correct in Hsafe.
    destruct (Hsafe C HC) as (w & Hw & Hs). exists w. split; [assumption|]. split; [|assumption]. apply HC. assumption.
  - exists pre, rest. split; [assumption|]. clear - F. induction F as [|w q pre ss [Hw Hs] F IH]; constructor; [|assumption].
    split; [assumption|]. split; [assumption|]. intros e He. apply forbid_dec_correct in He. apply (He w Hw Hs).
Qed.
