(* The side conditions of WalkErrWidth.kmpec_feasible_from_walk_width cannot be dropped (2-cycle with a tail, unit weights,
   k = 1 = walk width: the LP is infeasible -- open finding cycles_rep_cap_from_reachable_max), and non-vacuity of the two
   theorems on the 2-cycle with a tail.  ids: a = 0, b = 1, source = 2, sink = 3. *)
From Coq Require Import List NArith ZArith QArith Qabs Lqa Bool Lia Permutation.
Import ListNotations.
From FP Require Import Lin Blocks BlocksProofs PathEnc PathEncProofs EulerProofs1 SatCheck WalkEncRows WalkEncRowsProofs WalkTree
                       WalkEncComplete WalkCoverIff WalkChecked WalkExamples Dilworth WalkWidth WalkWidthCaps
                       WalkErrEnc WalkErrEncProofs WalkErrComplete WalkErrOptimal WalkErrOptExamples ErrEncProofs2 WalkErrWidth.
Set Default Timeout 300.
Local Close Scope Q_scope.

Definition tail_k (k : nat) (f01 : Q) : werr_inst :=
  {| x_graph := tailG; x_k := k; x_flow := [((0, 1)%N, f01); ((1, 0)%N, 1%Q); ((2, 0)%N, 1%Q); ((1, 3)%N, 1%Q)];
     x_ignore := []; x_scale := []; x_int := true;
     x_cons := []; x_cov := 1%Q; x_opts := no_opts; x_safe_lists := []; x_fix := [] |}.
(* unit weights, one walk *)
Definition tail1 : werr_inst := tail_k 1 1%Q.

Lemma milp_wit_unsat (M : milp) (cs : list col) (rs : list row) :
  cols M = cs -> rows M = rs ->
  (forall a, Forall (sat_col a) cs -> Forall (sat_row a) rs -> False) -> forall a, ~ sat a M.
Proof. intros <- <- H a [Hc Hr]. exact (H a Hc Hr). Qed.

(* the edge b -> a of weight 1 needs a walk through it, that walk passes a -> b twice, the repetition cap of a -> b is the largest
   reachable weight = 1 *)
Lemma tail1_kmpe_unsat : forall a, ~ sat a (encode_kmpe_cycles tail1).
Proof.
  eapply milp_wit_unsat; [vm_compute; reflexivity|vm_compute; reflexivity|].
  intros a Hc Hr. split_forall Hr. split_forall Hc. bits_binary a.
  unfold sat_row in *. unfold sat_col in *. cbn [sns lhs rhs eval fst snd cvar clb cub cint] in *.
  bits_cases a; lra.
Qed.

Lemma tail_st_ok : forall u v, In (u, v) (g_edges tailG) -> conn (g_edges tailG) (g_src tailG) u /\ conn (g_edges tailG) v (g_snk tailG).
Proof. apply st_ok_spec. vm_compute. reflexivity. Qed.
Lemma tail_k_basic k f : x_basic (tail_k k f) = [(0, 1); (1, 0)]%N.
Proof. reflexivity. Qed.
Lemma tail_k_domain k f : (0 <= f)%Q -> is_int f -> forall e, In e (x_basic (tail_k k f)) ->
  (0 <= xscale (tail_k k f) e <= 1)%Q /\ (0 <= xflow (tail_k k f) e)%Q /\ (x_int (tail_k k f) = true -> is_int (xflow (tail_k k f) e)).
Proof.
  intros F0 Fi e He. rewrite tail_k_basic in He. destruct He as [<-|[<-|[]]].
  - split; [vm_compute; split; discriminate|]. split; [exact F0|intros _; exact Fi].
  - split; [vm_compute; split; discriminate|]. split; [vm_compute; discriminate|intros _; exists 1%Z; reflexivity].
Qed.
(* all non-ignored edges lie on the walk s a b a b t: the walk width is at most 1 *)
Lemma tail_width_le_1 k f A' : NoDup A' -> incl A' (x_basic (tail_k k f)) -> walk_incompatible (g_edges tailG) A' -> (length A' <= 1)%nat.
Proof.
  intros ND HA Hinc. destruct A' as [|e1 [|e2 r]]; cbn [length]; try lia. exfalso.
  assert (Hne : e1 <> e2) by (inversion ND as [|? ? Hn _]; subst; intros ->; apply Hn; left; reflexivity).
  assert (Hon : forall e, In e (x_basic (tail_k k f)) -> In e (pairs [2; 0; 1; 0; 1; 3]%N)).
  { intros e He. rewrite tail_k_basic in He. destruct He as [<-|[<-|[]]]; vm_compute; tauto. }
  apply (Hinc e1 e2 [2; 0; 1; 0; 1; 3]%N); [left; reflexivity|right; left; reflexivity|exact Hne| | |].
  - intros e He. vm_compute in He. vm_compute. tauto.
  - apply Hon, HA. left. reflexivity.
  - apply Hon, HA. right. left. reflexivity.
Qed.

(* the statement of kmpec_feasible_from_walk_width WITHOUT the hypothesis caps_admit *)
Definition kmpec_feasible_from_walk_width_without_caps : Prop :=
  forall I : werr_inst,
    wf_stg (x_graph I) ->
    (forall u v, In (u, v) (g_edges (x_graph I)) ->
       conn (g_edges (x_graph I)) (g_src (x_graph I)) u /\ conn (g_edges (x_graph I)) v (g_snk (x_graph I))) ->
    x_cons I = [] -> x_safe_lists I = [] -> x_fix I = [] ->
    (forall e, In e (x_basic I) -> (0 <= xscale I e <= 1)%Q /\ (0 <= xflow I e)%Q /\ (x_int I = true -> is_int (xflow I e))) ->
    x_basic I <> [] ->
    exists A' : list PathEnc.edge,
      NoDup A' /\ incl A' (x_basic I) /\ walk_incompatible (g_edges (x_graph I)) A' /\
      ((length A' <= x_k I)%nat -> exists a, sat a (encode_kmpe_cycles I)).

Theorem kmpec_feasible_from_walk_width_without_caps_refuted : ~ kmpec_feasible_from_walk_width_without_caps.
Proof.
  intros H.
  destruct (H tail1 tail_wf tail_st_ok eq_refl eq_refl eq_refl (tail_k_domain 1 1%Q ltac:(discriminate) (ex_intro _ 1%Z (Qeq_refl _))) ltac:(discriminate))
    as (A' & ND & HA & Hinc & Hfeas).
  destruct (Hfeas (tail_width_le_1 1 1%Q A' ND HA Hinc)) as (a & Hsat). exact (tail1_kmpe_unsat a Hsat).
Qed.
(* ... and it is the caps that fail on the witness: the repetition cap of the cycle edges is 1 < |X| + 2 = 4 *)
Example tail1_caps_do_not_admit : ~ caps_admit tail1 (length (x_basic tail1) + 2).
Proof. intros (H & _). specialize (H (0, 1)%N ltac:(left; reflexivity) eq_refl). vm_compute in H. apply H. reflexivity. Qed.

(* non-vacuity of kmpec_feasible_from_walk_width: a -> b of weight 4, k = 4: all hypotheses hold (cap 4 = |X| + 2 on the cycle,
   w_max = 16, product bound 4 * 4 <= 16), hence the LP is satisfiable *)
Example kmpec_width_premises :
  wf_stg (x_graph (tail_k 4 4%Q)) /\ x_basic (tail_k 4 4%Q) <> [] /\ caps_admit (tail_k 4 4%Q) (length (x_basic (tail_k 4 4%Q)) + 2).
Proof.
  split; [exact tail_wf|]. split; [discriminate|]. split; [|split; vm_compute; discriminate].
  intros e He _. cbn in He. destruct He as [<-|[<-|[<-|[<-|[]]]]]; vm_compute; discriminate.
Qed.
Example kmpec_width_example : exists a, sat a (encode_kmpe_cycles (tail_k 4 4%Q)) /\ (objective a (encode_kmpe_cycles (tail_k 4 4%Q)) == 16)%Q.
Proof.
  destruct kmpec_width_premises as (WF & Hne & Hcaps).
  destruct (kmpec_feasible_from_walk_width (tail_k 4 4%Q) WF tail_st_ok eq_refl eq_refl eq_refl
              (tail_k_domain 4 4%Q ltac:(discriminate) (ex_intro _ 4%Z (Qeq_refl _))) Hne Hcaps) as (A' & ND & HA & Hinc & _ & Hfeas).
  pose proof (tail_width_le_1 4 4%Q A' ND HA Hinc) as L.
  destruct (Hfeas ltac:(cbn [tail_k x_k]; lia)) as (a & Sa & Oa). exists a. split; [exact Sa|]. rewrite Oa. vm_compute. reflexivity.
Qed.

(* non-vacuity of klaec_end_to_end_feasible on the instance of WalkErrOptExamples (weights 1, 2, 1, 1; k = 1) *)
Example klaec_end_to_end_example : exists a, sat a (encode_klae_cycles tail_inst) /\ (objective a (encode_klae_cycles tail_inst) == 3)%Q.
Proof.
  destruct (klaec_end_to_end_feasible tail_inst tail_wf eq_refl eq_refl eq_refl) as (a & Sa & Oa).
  - intros e He. rewrite tail_basic in He. destruct He as [<-|[<-|[]]].
    + split; [vm_compute; split; discriminate|]. split; [vm_compute; discriminate|intros _; exists 2%Z; reflexivity].
    + split; [vm_compute; split; discriminate|]. split; [vm_compute; discriminate|intros _; exists 1%Z; reflexivity].
  - exists [0; 1; 3]%N. split; [intros e He; vm_compute in He; vm_compute; tauto|reflexivity].
  - reflexivity.
  - intros e He _. cbn in He. destruct He as [<-|[<-|[<-|[<-|[]]]]]; vm_compute; discriminate.
  - vm_compute. discriminate.
  - exists a. split; [exact Sa|]. rewrite Oa. vm_compute. reflexivity.
Qed.
