(* C03 in NODE mode, stated in the caller's terms.  The caller gives a DAG (V, E) whose NODES carry integer weights fv; nodes in
   [ign] (explicitly ignored nodes and nodes without the attribute) need not be explained.  A node decomposition with k paths is a
   list of k (source-to-sink path of the caller's graph, non-negative integer weight) such that for every non-ignored node the weights
   of the paths through it add up to its weight.  Node mode solves the edge model of the node expansion (v becomes the edge
   v.0 -> v.1 = 2v -> 2v+1 carrying fv v, every edge u -> v the connecting edge u.1 -> v.0) with the connecting edges and the
   ignored nodes' edges in the ignore list (DilworthNode.node_ignore; NodeExpProofs / DilworthNode.expE_is_xrel tie this expansion
   to NodeExpandedDiGraph).  Key lemma: k-path node decompositions of the caller's instance <-> k-path decompositions of that
   expanded instance.  Theorem: with an exact solver for the k-models of the expanded instance and a valid lower bound,
   MinFlowDecomp's search returns the least number of paths of any node decomposition. *)
From Coq Require Import List NArith ZArith QArith Lqa Bool Arith Lia Permutation.
Import ListNotations.
From FP Require Import Lin PathEnc Euler EulerProofs1 PathEncProofs PathEncComplete Aug AugProofs EndToEnd1 EndToEnd2 EndToEnd3
                       EndToEndCover Search SearchProofs1 SearchProofs2 Dilworth ErrEncIgnore DilworthNode.
From FP Require Peel.
Set Default Timeout 60.
Local Close Scope Q_scope.

(* ---------------------------------------------------------------------------------------------- the caller's notions *)
Definition zind (b : bool) : Z := if b then 1%Z else 0%Z.
Definition node_explained (D : list (list node * Z)) (v : node) : Z :=
  Peel.sumL (fun pw => (snd pw * zind (memn v (fst pw)))%Z) D.

Definition node_decomposition (V : list node) (E : list PathEnc.edge) (fv : node -> Z) (ign : list node)
                              (D : list (list node * Z)) : Prop :=
  Forall (fun pw => nroute V E (fst pw) /\ (0 <= snd pw)%Z) D /\
  forall v, In v V -> ~ In v ign -> node_explained D v = fv v.

(* the instance node mode hands to the edge model *)
Definition node_inst (V : list node) (E : list PathEnc.edge) (s t : node) (fv : node -> Z) (ign : list node) (wmax : Z) (k : nat) : kfd_inst :=
  {| f_base := cover_inst (expV V) (expE V E) s t k;
     f_flow := map (fun v => (nedge v, inject_Z (fv v))) V;
     f_ignore := synth (expV V) (expE V E) s t ++ node_ignore E ign;
     f_wmax := inject_Z wmax; f_int := true |}.

(* ---------------------------------------------------------------------------------------------- helpers *)
Lemma memn_In v l : memn v l = true <-> In v l.
Proof.
  unfold memn. rewrite existsb_exists. split.
  - intros (x & Hx & Eq). apply N.eqb_eq in Eq. subst. exact Hx.
  - intros H. exists v. split; [exact H|apply N.eqb_refl].
Qed.

Lemma lookup_nedge (fv : node -> Z) V v : In v V ->
  lookup_q (nedge v) (map (fun v => (nedge v, inject_Z (fv v))) V) 0%Q = inject_Z (fv v).
Proof.
  induction V as [|u V IH]; intros Hv; [destruct Hv|]. cbn [map lookup_q].
  destruct (edge_eqb (nedge u) (nedge v)) eqn:X.
  - unfold edge_eqb, nedge in X. cbn [fst snd] in X. apply andb_true_iff in X. destruct X as [X _]. apply N.eqb_eq in X.
    apply x0_inj in X. subst. reflexivity.
  - destruct Hv as [->|Hv]; [|exact (IH Hv)]. unfold edge_eqb in X. rewrite !N.eqb_refl in X. discriminate.
Qed.

Lemma sumq_Forall2 {A B} (R : A -> B -> Prop) (g : A -> Q) (h : B -> Q) l l' :
  Forall2 R l l' -> (forall x y, R x y -> (g x == h y)%Q) -> (sumq g l == sumq h l')%Q.
Proof.
  induction 1 as [|a b l l' Hab H IH]; intros Hgh; cbn [sumq]; [reflexivity|].
  rewrite (Hgh a b Hab), (IH Hgh). reflexivity.
Qed.

Lemma sumL_nonneg_local {A} (g : A -> Z) l : (forall y, In y l -> 0 <= g y)%Z -> (0 <= Peel.sumL g l)%Z.
Proof.
  induction l as [|a l IH]; intros H; cbn [Peel.sumL fold_right]; [lia|]. fold (Peel.sumL g l).
  pose proof (H a (or_introl eq_refl)). specialize (IH (fun y Hy => H y (or_intror Hy))). lia.
Qed.

Section NodeFlow.
  Variables (V : list node) (E : list PathEnc.edge) (s t : node).
  Variable topo : list node.
  Variable fv : node -> Z.
  Variable ign : list node.
  Variable wmax : Z.
  Hypothesis Hs : ~ In s (expV V).
  Hypothesis Ht : ~ In t (expV V).
  Hypothesis Hst : s <> t.
  Hypothesis HE : forall e, In e E -> In (fst e) V /\ In (snd e) V.
  Hypothesis NDV : NoDup V.
  Hypothesis NDE : NoDup E.
  Hypothesis Htopo : forall u v, In (u, v) E -> (posn topo u < posn topo v)%nat.
  Hypothesis HVtopo : incl V topo.
  (* the weight bound of the model dominates every non-ignored node weight (the code uses the maximum of these, times k in some models) *)
  Hypothesis Hwmax : forall v, In v V -> ~ In v ign -> (fv v <= wmax)%Z.
  Hypothesis Hwmax0 : (0 <= wmax)%Z.

  Let V' := expV V.
  Let E' := expE V E.
  Let A' := aug_edges V' E' [] [] s t.
  Let HE' := expE_ends V E HE.
  Let rank' := st_rank s t (exp_topo topo).
  Let Hrank' : forall u v, In (u, v) A' -> (rank' u < rank' v)%nat :=
    st_rank_increasing V' E' s t Hs Ht Hst HE' (exp_topo topo) (exp_topo_increasing V E topo HVtopo Htopo).

  (* ---- a route of the caller's graph, expanded and framed by s and t, is a source-to-sink path of the expanded s-t graph *)
  Lemma expand_nonempty p : p <> [] -> exists a r, expand p = a :: r /\ a = x0 (hd 0%N p).
  Proof. destruct p as [|v p]; intros H; [contradiction|]. rewrite expand_cons. eexists _, _. split; reflexivity. Qed.

  Lemma nroute_in_aug p : nroute V E p -> incl (pairs (s :: expand p ++ [t])) A'.
  Proof.
    intros (Hne & HpV & Hw & Hhd & Hlast). destruct (expand_nonempty p Hne) as (a & r & Er & Ea). rewrite Er, pairs_st.
    assert (Hwalk := expand_walk V E p HpV Hw). rewrite Er in Hwalk.
    assert (HhdV : In (hd 0%N p) V) by (destruct p; [contradiction|apply HpV; left; reflexivity]).
    assert (HlastV : In (last p 0%N) V).
    { apply HpV. destruct (exists_last Hne) as (l' & z & ->). rewrite last_last. apply in_or_app. right. left. reflexivity. }
    intros e [<-|He].
    - apply (aug_spec_source V' E' [] [] s t Hs Hst HE'). split; [subst a; apply expV_in; exists (hd 0%N p); auto|].
      unfold is_start, indeg0. apply orb_true_iff. left. apply negb_true_iff. apply not_true_iff_false. intros X.
      apply existsb_exists in X. destruct X as ([c d] & Hcd & Eq). cbn [snd] in Eq. apply N.eqb_eq in Eq. subst d a.
      apply expE_in in Hcd. destruct Hcd as [(v & _ & _ & Eq)|(u & v & Huv & _ & Eq)].
      + exact (x0_x1 _ _ Eq).
      + apply x0_inj in Eq. subst v. exact (Hhd u Huv).
    - apply in_app_or in He. destruct He as [He|[<-|[]]].
      + apply (aug_in V' E' [] [] s t). left. apply Hwalk. exact He.
      + assert (El : last (a :: r) a = x1 (last p 0%N)).
        { rewrite <- Er. rewrite (last_default_irrel (expand p) a 0%N) by (rewrite Er; discriminate). apply expand_last. exact Hne. }
        rewrite El. apply (aug_spec_sink V' E' [] [] s t Ht Hst HE'). split; [apply expV_in; exists (last p 0%N); auto|].
        unfold is_end, outdeg0. apply orb_true_iff. left. apply negb_true_iff. apply not_true_iff_false. intros X.
        apply existsb_exists in X. destruct X as ([c d] & Hcd & Eq). cbn [fst] in Eq. apply N.eqb_eq in Eq. subst c.
        apply expE_in in Hcd. destruct Hcd as [(v & _ & Eq & _)|(u & v & Huv & Eq & _)].
        * exact (x0_x1 _ _ (eq_sym Eq)).
        * apply x1_inj in Eq. subst u. exact (Hlast v Huv).
  Qed.

  (* a path visits v iff its expansion uses the node edge of v *)
  Lemma nedge_on_expanded_path v p : In v V -> p <> [] ->
    mem_edge (nedge v) (pairs (s :: expand p ++ [t])) = memn v p.
  Proof.
    intros Hv Hne. destruct (expand_nonempty p Hne) as (a & r & Er & _). apply eq_true_iff_eq. rewrite mem_edge_In, memn_In.
    rewrite <- (nedge_in_expand v p). rewrite Er, pairs_st. split.
    - intros [H|H].
      + exfalso. injection H as H _. apply Hs. rewrite H. apply expV_in. exists v. auto.
      + apply in_app_or in H. destruct H as [H|[H|[]]]; [exact H|].
        exfalso. injection H as _ H. apply Ht. rewrite H. apply expV_in. exists v. auto.
    - intros H. right. apply in_or_app. left. exact H.
  Qed.

  (* which edges of the expanded s-t graph are NOT ignored: exactly the node edges of the non-ignored nodes *)
  Lemma nonignored_is_nedge e : In e A' -> mem_edge e (synth V' E' s t ++ node_ignore E ign) = false ->
    exists v, In v V /\ ~ In v ign /\ e = nedge v.
  Proof.
    intros He Hig. rewrite mem_edge_app in Hig. apply orb_false_iff in Hig. destruct Hig as [H1 H2].
    assert (HeE : In e E') by (apply (nonignored_iff V' E' s t Hs Ht HE' e); split; assumption).
    exact (proj1 (node_ignore_spec V E ign e HeE) H2).
  Qed.
  Lemma nedge_nonignored v : In v V -> ~ In v ign ->
    In (nedge v) A' /\ mem_edge (nedge v) (synth V' E' s t ++ node_ignore E ign) = false.
  Proof.
    intros Hv Hni. assert (HeE : In (nedge v) E') by (apply expE_in; left; exists v; auto).
    destruct (proj2 (nonignored_iff V' E' s t Hs Ht HE' (nedge v)) HeE) as [H1 H2]. split; [exact H1|].
    rewrite mem_edge_app, H2. cbn [orb]. apply (node_ignore_spec V E ign (nedge v) HeE). exists v. auto.
  Qed.

  (* ============================================================================ caller's decomposition => expanded decomposition *)
  Section Forward.
    Variable D : list (list node * Z).
    Hypothesis HD : node_decomposition V E fv ign D.
    Let k := length D.

    Definition counts (p : list node) : bool := existsb (fun v => negb (memn v ign)) p.   (* visits a non-ignored node *)
    Definition nP (i : N) : list node := s :: expand (fst (nth (N.to_nat i) D ([], 0%Z))) ++ [t].
    (* a path through ignored nodes only explains nothing: its weight is immaterial and is set to 0 *)
    Definition nw_of (pw : list node * Z) : Z := if counts (fst pw) then snd pw else 0%Z.
    Definition nw (i : N) : Q := inject_Z (nw_of (nth (N.to_nat i) D ([], 0%Z))).

    Lemma D_nth' i : In i (layers k) -> In (nth (N.to_nat i) D ([], 0%Z)) D.
    Proof. intros Hi. apply in_layers in Hi. destruct Hi as (n & Hn & ->). rewrite Nat2N.id. apply nth_In. exact Hn. Qed.

    Lemma weight_bound pw : In pw D -> (0 <= nw_of pw <= wmax)%Z.
    Proof.
      intros Hin. destruct HD as [HF Heq]. rewrite Forall_forall in HF. destruct (HF pw Hin) as [(Hne & HpV & _) Hw0].
      unfold nw_of. destruct (counts (fst pw)) eqn:C; [|lia]. split; [exact Hw0|].
      unfold counts in C. apply existsb_exists in C. destruct C as (v & Hvp & Hni). apply negb_true_iff in Hni.
      assert (HvV : In v V) by (apply HpV; exact Hvp).
      assert (Hnotin : ~ In v ign) by (intros H; apply memn_In in H; congruence).
      specialize (Hwmax v HvV Hnotin). rewrite <- (Heq v HvV Hnotin) in Hwmax.
      assert (Hge : (snd pw <= node_explained D v)%Z).
      { unfold node_explained.
        pose proof (sumL_ge_member (fun pw => (snd pw * zind (memn v (fst pw)))%Z) D pw) as H.
        assert (M : memn v (fst pw) = true) by (apply memn_In; exact Hvp). cbn beta in H. rewrite M in H. cbn [zind] in H.
        rewrite Z.mul_1_r in H. apply H; [|exact Hin].
        intros y Hy. destruct (HF y Hy) as [_ Hy0]. destruct (memn v (fst y)); cbn [zind]; lia. }
      lia.
    Qed.

    Theorem node_decomposition_expands : decomposition (node_inst V E s t fv ign wmax k) nP nw.
    Proof.
      destruct HD as [HF Heq]. rewrite Forall_forall in HF.
      unfold decomposition. cbn [node_inst f_base cover_inst p_graph p_k f_wmax f_int f_ignore f_flow st_of g_src g_snk g_edges].
      fold V' E' A'. split; [|split].
      - intros i Hi. pose proof (D_nth' i Hi) as Hin. destruct (HF _ Hin) as [Hr _]. unfold nP.
        pose proof (nroute_in_aug _ Hr) as Hincl. destruct Hr as (Hne & _).
        destruct (expand_nonempty _ Hne) as (a & r & Er & _). rewrite Er in *.
        split; [reflexivity|]. split; [change (s :: (a :: r) ++ [t]) with ((s :: a :: r) ++ [t]); apply last_last|].
        split; [|exact Hincl].
        destruct (rank_walk_nodup A' rank' Hrank' ((a :: r) ++ [t]) s Hincl) as [ND _]. exact ND.
      - intros i Hi. pose proof (D_nth' i Hi) as Hin. unfold nw. destruct (weight_bound _ Hin) as [W0 W1]. split.
        + split; [change 0%Q with (inject_Z 0); rewrite <- Zle_Qle; exact W0|rewrite <- Zle_Qle; exact W1].
        + intros _. eexists. reflexivity.
      - intros e He Hig. destruct (nonignored_is_nedge e He Hig) as (v & Hv & Hni & ->).
        rewrite (lookup_nedge fv V v Hv). rewrite <- (Heq v Hv Hni). unfold node_explained. rewrite sumL_sumq.
        unfold layers. rewrite sumq_map.
        rewrite (sumq_ext (fun n => (nw (N.of_nat n) * indq (mem_edge (nedge v) (pairs (nP (N.of_nat n)))))%Q)
                          (fun n => (fun pw => (inject_Z (nw_of pw) * indq (mem_edge (nedge v) (pairs (s :: expand (fst pw) ++ [t]))))%Q)
                                      (nth n D ([], 0%Z)))).
        2:{ intros n _. unfold nw, nP. rewrite Nat2N.id. reflexivity. }
        unfold k. rewrite (sumq_nth_seq (fun pw => (inject_Z (nw_of pw) * indq (mem_edge (nedge v) (pairs (s :: expand (fst pw) ++ [t]))))%Q) D ([], 0%Z)).
        apply sumq_ext. intros pw Hpw. destruct (HF _ Hpw) as [(Hne & _) _].
        rewrite (nedge_on_expanded_path v (fst pw) Hv Hne). rewrite inject_Z_mult.
        destruct (memn v (fst pw)) eqn:M; cbn [indq zind].
        + assert (C : counts (fst pw) = true).
          { unfold counts. apply existsb_exists. exists v. split; [apply memn_In; exact M|]. apply negb_true_iff.
            apply not_true_iff_false. intros X. apply memn_In in X. contradiction. }
          unfold nw_of. rewrite C. reflexivity.
        + change (inject_Z 0) with 0%Q. ring.
    Qed.
  End Forward.

  (* ============================================================================ expanded decomposition => caller's decomposition *)
  Theorem expanded_decomposition_contracts k P w : decomposition (node_inst V E s t fv ign wmax k) P w ->
    exists D, length D = k /\ node_decomposition V E fv ign D.
  Proof.
    unfold decomposition. cbn [node_inst f_base cover_inst p_graph p_k f_wmax f_int f_ignore f_flow st_of g_src g_snk g_edges].
    fold V' E' A'. intros (HP & Hw & Hf).
    destruct (choice_list (fun i pw => P i = s :: expand (fst pw) ++ [t] /\ nroute V E (fst pw) /\ (w i == inject_Z (snd pw))%Q /\ (0 <= snd pw)%Z)
                          (layers k)) as (D & HF).
    { intros i Hi. destruct (HP i Hi) as (Hh & Hl & _ & Hin). destruct (P i) as [|a m] eqn:EP; [discriminate|]. cbn in Hh. injection Hh as ->.
      destruct m as [|b m']; [cbn in Hl; congruence|].
      destruct (exists_last (l := b :: m') ltac:(discriminate)) as (r & z & Er). rewrite Er in *.
      assert (z = t).
      { rewrite <- Hl. change (s :: r ++ [z]) with ((s :: r) ++ [z]). rewrite last_last. reflexivity. }
      subst z.
      pose proof (aug_route_valid V' E' [] [] s t Hs Ht Hst HE' r Hin) as Hroute.
      destruct (route_contracts V E s r Hroute) as (p & -> & Hp).
      destruct (Hw i Hi) as [[W0 _] Hint]. destruct (Hint eq_refl) as (z & Hz).
      exists (p, z). cbn [fst snd]. split; [reflexivity|]. split; [exact Hp|]. split; [exact Hz|].
      rewrite Hz in W0. change 0%Q with (inject_Z 0) in W0. rewrite <- Zle_Qle in W0. exact W0. }
    exists D. split.
    - rewrite <- (Forall2_len _ _ _ HF). unfold layers. rewrite map_length, seq_length. reflexivity.
    - split.
      + apply Forall_forall. intros pw Hpw. destruct (Forall2_in_r _ _ _ pw HF Hpw) as (i & _ & _ & H1 & _ & H2). split; assumption.
      + intros v Hv Hni. destruct (nedge_nonignored v Hv Hni) as [HeA Hig].
        specialize (Hf (nedge v) HeA Hig). rewrite (lookup_nedge fv V v Hv) in Hf.
        apply inject_Z_injective. rewrite <- Hf. unfold node_explained. rewrite sumL_sumq. symmetry.
        apply (sumq_Forall2 _ _ _ _ _ HF). intros i pw (EP & (Hne & _) & Ew & _).
        rewrite EP, (nedge_on_expanded_path v (fst pw) Hv Hne), Ew, inject_Z_mult.
        destruct (memn v (fst pw)); cbn [indq zind]; reflexivity.
  Qed.

  (* the key lemma *)
  Theorem node_decomposition_iff k :
    (exists D, length D = k /\ node_decomposition V E fv ign D) <->
    (exists P w, decomposition (node_inst V E s t fv ign wmax k) P w).
  Proof.
    split.
    - intros (D & <- & HD). exists (nP D), (nw D). exact (node_decomposition_expands D HD).
    - intros (P & w & H). exact (expanded_decomposition_contracts k P w H).
  Qed.

  (* the k-model of the expanded instance is feasible iff the caller's instance has a node decomposition with k paths *)
  Theorem node_k_model_feasible_iff k :
    (exists a, sat a (encode_kfd (node_inst V E s t fv ign wmax k))) <-> (exists D, length D = k /\ node_decomposition V E fv ign D).
  Proof.
    rewrite node_decomposition_iff.
    apply (kfd_feasible_iff (node_inst V E s t fv ign wmax k) rank' (S (S (length (exp_topo topo))))).
    - exact (st_of_wf V' E' s t Hs Ht Hst HE' (expV_nodup V NDV) (expE_nodup V E NDV NDE)).
    - reflexivity.
    - reflexivity.
    - exact Hrank'.
    - intros v. apply st_rank_le. exact Hst.
  Qed.
End NodeFlow.

(* ================================================================================================================= *)
(* end to end, in the caller's terms; the expansion appears only in the solver-specification hypothesis *)
Theorem node_minflowdecomp_returns_the_minimum
    (V : list node) (E : list PathEnc.edge) (s t : node) (topo : list node) (fv : node -> Z) (ign : list node) (wmax : Z)
    (feasible : nat -> bool) (lb : nat) (sts : list raw) :
  (* the caller's input: a DAG with duplicate-free nodes and edges, a topological order; s, t fresh for the expansion *)
  NoDup V -> NoDup E -> (forall e, In e E -> In (fst e) V /\ In (snd e) V) ->
  (forall u v, In (u, v) E -> (posn topo u < posn topo v)%nat) -> incl V topo ->
  ~ In s (expV V) -> ~ In t (expV V) -> s <> t ->
  (forall v, In v V -> ~ In v ign -> (fv v <= wmax)%Z) -> (0 <= wmax)%Z ->
  (* solver specification for the k-models of the expanded instance; lb is a valid lower bound *)
  (forall k, feasible k = true <-> exists a, sat a (encode_kfd (node_inst V E s t fv ign wmax k))) ->
  (forall i, (i < S (length (expE V E)) - lb)%nat -> exists x, nth_error sts i = Some x /\
             status_of x = if feasible (lb + i)%nat then Optimal else Infeasible) ->
  (forall k, (k < lb)%nat -> feasible k = false) ->
  (* some node decomposition with at most |E'| paths exists *)
  (exists D0, (length D0 <= length (expE V E))%nat /\ node_decomposition V E fv ign D0) ->
  exists kopt,
    so_res (mpc_solve true lb (S (length (expE V E))) sts) = Solved kopt /\
    (exists D, length D = kopt /\ node_decomposition V E fv ign D) /\
    (forall k, (k < kopt)%nat -> ~ exists D, length D = k /\ node_decomposition V E fv ign D).
Proof.
  intros NDV NDE HE Htopo HVt Hs Ht Hst Hwmax Hwmax0 Hspec Hsts Hlb (D0 & Hlen0 & HD0).
  assert (Hiff : forall k, feasible k = true <-> exists D, length D = k /\ node_decomposition V E fv ign D).
  { intros k. rewrite Hspec. exact (node_k_model_feasible_iff V E s t topo fv ign wmax Hs Ht Hst HE NDV NDE Htopo HVt Hwmax Hwmax0 k). }
  assert (Hfeas0 : feasible (length D0) = true) by (apply Hiff; exists D0; auto).
  destruct (least_true feasible (length D0) Hfeas0) as (kopt & Hk & Hgk & Hmin).
  exists kopt. split; [|split].
  - apply (search_min feasible lb (S (length (expE V E))) kopt sts Hsts Hgk Hmin). split.
    + destruct (Nat.le_gt_cases lb kopt) as [H|H]; [exact H|]. rewrite (Hlb kopt H) in Hgk. discriminate.
    + lia.
  - apply Hiff. exact Hgk.
  - intros k Hk' Hex. apply Hiff in Hex. rewrite (Hmin k Hk') in Hex. discriminate.
Qed.

(* ================================================================================================================= *)
(* non-vacuity: the diamond 1 -> {2, 3} -> 4 with node weights 5, 3, (3 is ignored), 5 *)
Definition nxV : list node := [1; 2; 3; 4]%N.
Definition nxE : list PathEnc.edge := [(1, 2); (1, 3); (2, 4); (3, 4)]%N.
Definition nxfv (v : node) : Z := if (v =? 2)%N then 3%Z else if (v =? 3)%N then 77%Z else 5%Z.
Definition nxD : list (list node * Z) := [([1; 2; 4]%N, 3%Z); ([1; 3; 4]%N, 2%Z)].

Lemma nx_premises :
  NoDup nxV /\ NoDup nxE /\ (forall e, In e nxE -> In (fst e) nxV /\ In (snd e) nxV) /\
  (forall u v, In (u, v) nxE -> (posn nxV u < posn nxV v)%nat) /\ incl nxV nxV /\
  ~ In 100%N (expV nxV) /\ ~ In 101%N (expV nxV) /\ 100%N <> 101%N /\
  (forall v, In v nxV -> ~ In v [3%N] -> (nxfv v <= 5)%Z) /\
  (* a node decomposition with 2 paths (node 3, ignored, is visited with weight 2 although it carries 77) ... *)
  node_decomposition nxV nxE nxfv [3%N] nxD /\ (length nxD <= length (expE nxV nxE))%nat /\
  (* ... and none with 1 path *)
  ~ (exists D, length D = 1%nat /\ node_decomposition nxV nxE nxfv [3%N] D).
Proof.
  split; [repeat constructor; cbn; intuition discriminate|].
  split; [repeat constructor; cbn; intuition discriminate|].
  split; [intros e He; cbn in He; repeat (destruct He as [<-|He]; [cbn; tauto|]); destruct He|].
  split; [intros u v He; cbn in He; repeat (destruct He as [Eq|He]; [injection Eq as <- <-; cbn; lia|]); destruct He|].
  split; [apply incl_refl|].
  split; [cbn; intuition discriminate|]. split; [cbn; intuition discriminate|]. split; [discriminate|].
  split; [intros v Hv Hni; cbn in Hv; destruct Hv as [<-|[<-|[<-|[<-|[]]]]]; cbn; try lia; exfalso; apply Hni; left; reflexivity|].
  split; [|split; [cbn; lia|]].
  - split.
    + assert (R : forall p, p = [1; 2; 4]%N \/ p = [1; 3; 4]%N -> nroute nxV nxE p).
      { intros p Hp. unfold nroute. destruct Hp as [-> | ->];
          (split; [discriminate|]); (split; [intros x Hx; cbn in Hx |- *; tauto|]); (split; [intros e He; cbn in He |- *; tauto|]);
          split; intros u Hu; cbn in Hu; repeat (destruct Hu as [Eq|Hu]; [discriminate Eq|]); destruct Hu. }
      constructor; [split; [apply R; left; reflexivity|cbn; lia]|]. constructor; [split; [apply R; right; reflexivity|cbn; lia]|]. constructor.
    + intros v Hv Hni. cbn in Hv. destruct Hv as [<-|[<-|[<-|[<-|[]]]]]; try reflexivity. exfalso. apply Hni. left. reflexivity.
  - intros (D & Hlen & _ & Heq). destruct D as [|[p w] [|]]; try discriminate Hlen.
    pose proof (Heq 1%N ltac:(cbn; tauto) ltac:(cbn; intuition discriminate)) as H1.
    pose proof (Heq 2%N ltac:(cbn; tauto) ltac:(cbn; intuition discriminate)) as H2.
    unfold node_explained in H1, H2. cbn [Peel.sumL fold_right fst snd] in H1, H2.
    destruct (memn 1 p), (memn 2 p); cbn [zind nxfv N.eqb Pos.eqb] in H1, H2; lia.
Qed.
