(* C04 composed: the k-search of MinFlowDecompCycles (WalkSearch.mfdc_solve) + the solver specification + the
   characterisation of feasibility (WalkEncIff.kfdc_feasible_iff_within_caps): the search returns the least number of
   walks among the ADMISSIBLE decompositions (within the caps of the model).  Also: concrete instances. *)
From Coq Require Import List NArith ZArith QArith Qround Lqa Bool Arith Lia Permutation.
Import ListNotations.
From FP Require Import Lin Blocks BlocksProofs PathEnc PathEncProofs Euler EulerProofs1 EulerProofs4
                       WalkEnc WalkDecode WalkEncRows WalkEncRowsProofs WalkTree WalkEncComplete WalkEncIff WalkSearch
                       SatCheck WalkExamples.
Set Default Timeout 120.
Local Close Scope Q_scope.
Local Open Scope nat_scope.

Theorem mfdc_returns_minimum_within_caps (inst : nat -> kfdc_inst) (out : nat -> outcome) (tout : nat -> bool)
        (given : option nat) (lb nE kmin : nat) :
  (* the instances tried differ only in k (and in what the safety machinery derives from k); they are well formed *)
  (forall j, c_k (inst j) = j /\ wf_stg (c_graph (inst j)) /\ o_allow_empty (c_opts (inst j)) = false /\ inputs_ok (inst j)) ->
  (* solver specification: the status of the run for k says whether the generated LP is satisfiable *)
  (forall j, out j = Optimal <-> exists a, sat a (encode_kfdc (inst j))) ->
  (forall j, out j = Infeasible <-> ~ exists a, sat a (encode_kfdc (inst j))) ->
  (forall j, tout j = false) ->
  (* a solution of the given-weights model with g walks is an admissible decomposition into g walks *)
  (forall g, given = Some g -> exists P wt, admissible (inst g) P wt) ->
  (* kmin is the least number of walks of an admissible decomposition, and it lies in the searched range *)
  (exists P wt, admissible (inst kmin) P wt) ->
  (forall j, j < kmin -> ~ exists P wt, admissible (inst j) P wt) ->
  lb <= kmin <= nE ->
  mfdc_solve out tout given lb nE = Solved kmin.
Proof.
  intros Hinst Hopt Hinf Ht Hg Hmin Hless Hrange.
  assert (Iff : forall j, (exists a, sat a (encode_kfdc (inst j))) <-> (exists P wt, admissible (inst j) P wt)).
  { intros j. destruct (Hinst j) as (_ & WF & Hae & Hin). apply kfdc_feasible_iff_within_caps; assumption. }
  apply (mfdc_search_min out tout given (fun j => exists P wt, admissible (inst j) P wt) lb nE kmin); try assumption.
  - intros j. rewrite Hopt. apply Iff.
  - intros j. rewrite Hinf. rewrite (Iff j). tauto.
Qed.

(* ---- non-vacuity: the self-loop with flow 2, one walk that goes round twice with weight 1 ---- *)
Definition loop2_P (_ : N) : list node := [1; 0; 0; 0; 2]%N.
Definition loop2_w (_ : N) : Q := 1%Q.

Lemma layers1 i : In i (layers 1) -> i = 0%N.
Proof. cbn. intros [H|[]]. symmetry. exact H. Qed.

Lemma loop2_admissible : admissible (loop_inst 2) loop2_P loop2_w.
Proof.
  split; [|split; [|split; [|split]]].
  - split; [|split].
    + intros i _. split; [reflexivity|]. split; [reflexivity|]. intros e He. cbn in He. cbn. tauto.
    + intros i _. split; [unfold loop2_w; lra|discriminate].
    + intros e He. vm_compute in He. destruct He as [<-|[]]. vm_compute. reflexivity.
  - split; [|split; [|split]].
    + intros i _. vm_compute. discriminate.
    + intros i e _ He. cbn in He. destruct He as [<-|[<-|[<-|[]]]]; vm_compute; discriminate.
    + intros i e _ He _. vm_compute in He. destruct He as [<-|[]]. vm_compute. reflexivity.
    + intros i e _ He. vm_compute in He. destruct He as [<-|[]]. vm_compute. discriminate.
  - split.
    + intros e i H. vm_compute in H. destruct H.
    + intros e i m H. vm_compute in H. destruct H.
  - intros j c H. cbn in H. destruct j; discriminate.
  - intros ws j w H. discriminate H.
Qed.

Example loop2_lp_feasible_by_completeness : exists a, sat a (encode_kfdc (loop_inst 2)).
Proof. apply (kfdc_complete_admissible (loop_inst 2) loop2_P loop2_w loopG_wf loop2_admissible). Qed.

(* the cap condition cannot be dropped: flow 1/4 on the loop is decomposed by the walk source x x sink of weight 1/4,
   every other clause of admissibility holds, but the multiplicity 1 exceeds the cap 1/4 and the LP is infeasible *)
Theorem within_caps_is_necessary : exists I P wt,
  wf_stg (c_graph I) /\ walk_decomposition I P wt /\ respects_fixing I P /\ realises_constraints I P /\ WalkEncIff.uses_given I wt /\
  ~ within_caps I P wt /\ ~ exists a, sat a (encode_kfdc I).
Proof.
  exists (scale_inst (1 # 4)%Q (loop_inst 1)), (fun _ => [1; 0; 0; 2]%N), (fun _ => (1 # 4)%Q).
  split; [exact loopG_wf|]. split; [|split; [|split; [|split; [|split]]]].
  - split; [|split].
    + intros i _. split; [reflexivity|]. split; [reflexivity|]. intros e He. cbn in He. cbn. tauto.
    + intros i _. split; [lra|discriminate].
    + intros e He. vm_compute in He. destruct He as [<-|[]]. vm_compute. reflexivity.
  - split; [intros e i H|intros e i m H]; vm_compute in H; destruct H.
  - intros j c H. cbn in H. destruct j; discriminate.
  - intros ws j w H. discriminate H.
  - intros (_ & Hcap & _). specialize (Hcap 0%N (0, 0)%N (or_introl eq_refl) (or_introl eq_refl)). vm_compute in Hcap. apply Hcap. reflexivity.
  - exact loop_quarter_infeasible.
Qed.
