From Coq Require Import List NArith ZArith Bool Arith Lia Permutation.
Import ListNotations.
From FP Require Import Lin PathEnc Aug Euler EulerProofs1.
Set Default Timeout 60.

Lemma memn_In u l : memn u l = true <-> In u l.
Proof. unfold memn. rewrite existsb_exists. split; [intros (x & Hx & E); apply N.eqb_eq in E; subst; exact Hx|intros H; exists u; split; [exact H|apply N.eqb_refl]]. Qed.

Section Aug.
  Variables (V : list node) (E : list edge) (S T : list node) (s t : node).
  Hypothesis Hs : ~ In s V.
  Hypothesis Ht : ~ In t V.
  Hypothesis Hst : s <> t.
  Hypothesis HE : forall e, In e E -> In (fst e) V /\ In (snd e) V.

  Let A := aug_edges V E S T s t.

  Lemma aug_in e : In e A <-> In e E \/ (exists u, In u V /\ is_start E S u = true /\ e = (s, u))
                                     \/ (exists u, In u V /\ is_end E T u = true /\ e = (u, t)).
  Proof.
    unfold A, aug_edges. rewrite in_app_iff, in_flat_map. split.
    - intros [H|(u & Hu & H)]; [left; exact H|]. apply in_app_or in H. destruct H as [H|H].
      + destruct (is_start E S u) eqn:X; [|destruct H]. destruct H as [<-|[]]. right. left. exists u. auto.
      + destruct (is_end E T u) eqn:X; [|destruct H]. destruct H as [<-|[]]. right. right. exists u. auto.
    - intros [H|[(u & Hu & X & ->)|(u & Hu & X & ->)]]; [left; exact H| |]; right; exists u; (split; [exact Hu|]); apply in_or_app.
      + left. rewrite X. left. reflexivity.
      + right. rewrite X. left. reflexivity.
  Qed.

  (* exactly the declared attachment: a source edge to u iff u is a node without incoming edges or
     an additional start; dually for the sink; no other new edge, in particular no s -> t edge *)
  Theorem aug_spec_source u : In (s, u) A <-> In u V /\ is_start E S u = true.
  Proof.
    rewrite aug_in. split.
    - intros [H|[(u' & Hu & X & Eq)|(u' & Hu & X & Eq)]].
      + apply HE in H. cbn in H. tauto.
      + injection Eq as ->. auto.
      + injection Eq as -> ->. contradiction.
    - intros [Hu X]. right. left. exists u. auto.
  Qed.
  Theorem aug_spec_sink u : In (u, t) A <-> In u V /\ is_end E T u = true.
  Proof.
    rewrite aug_in. split.
    - intros [H|[(u' & Hu & X & Eq)|(u' & Hu & X & Eq)]].
      + apply HE in H. cbn in H. tauto.
      + injection Eq as -> ->. contradiction.
      + injection Eq as ->. auto.
    - intros [Hu X]. right. right. exists u. auto.
  Qed.
  Theorem aug_spec_inner a b : a <> s -> b <> t -> (In (a, b) A <-> In (a, b) E).
  Proof.
    intros Ha Hb. rewrite aug_in. split; [|auto].
    intros [H|[(u' & _ & _ & Eq)|(u' & _ & _ & Eq)]]; [exact H| |]; injection Eq as -> ->; contradiction.
  Qed.
  Lemma aug_no_into_s a : ~ In (a, s) A.
  Proof.
    rewrite aug_in. intros [H|[(u' & Hu & _ & Eq)|(u' & Hu & _ & Eq)]].
    - apply HE in H. cbn in H. tauto.
    - injection Eq as -> ->. contradiction.
    - injection Eq as -> Eq. congruence.
  Qed.
  Lemma aug_no_out_t b : ~ In (t, b) A.
  Proof.
    rewrite aug_in. intros [H|[(u' & Hu & _ & Eq)|(u' & Hu & _ & Eq)]].
    - apply HE in H. cbn in H. tauto.
    - injection Eq as Eq ->. congruence.
    - injection Eq as -> ->. contradiction.
  Qed.
  Lemma aug_tail_in_V a b : In (a, b) A -> a <> s -> In a V.
  Proof.
    rewrite aug_in. intros [H|[(u' & Hu & _ & Eq)|(u' & Hu & _ & Eq)]] Ha.
    - apply HE in H. cbn in H. tauto.
    - injection Eq as -> ->. contradiction.
    - injection Eq as -> ->. exact Hu.
  Qed.

  (* a walk of the augmented graph that starts at a node of V and ends at t: all nodes before t are
     nodes of V, consecutive pairs are ORIGINAL edges, and the node before t is a declared end *)
  Lemma inner_walk : forall r x, In x V -> incl (pairs (x :: r ++ [t])) A ->
    (forall v, In v (x :: r) -> In v V) /\ incl (pairs (x :: r)) E /\ is_end E T (last r x) = true.
  Proof.
    induction r as [|y r IH]; intros x Hx Hin.
    - cbn [app pairs] in Hin. assert (H : In (x, t) A) by (apply Hin; left; reflexivity).
      apply aug_spec_sink in H. cbn [last pairs]. repeat split; [intros v [<-|[]]; exact Hx|intros e []|tauto].
    - cbn [app] in Hin. change (pairs (x :: y :: r ++ [t])) with ((x, y) :: pairs (y :: r ++ [t])) in Hin.
      assert (Hxy : In (x, y) A) by (apply Hin; left; reflexivity).
      assert (Hrest : incl (pairs (y :: r ++ [t])) A) by (intros e He; apply Hin; right; exact He).
      assert (Hyt : y <> t).
      { intros ->. destruct r as [|z r]; cbn [app pairs] in Hrest.
        - apply (aug_no_out_t t). apply Hrest. left. reflexivity.
        - apply (aug_no_out_t z). apply Hrest. left. reflexivity. }
      assert (Hxs : x <> s) by (intros ->; contradiction).
      assert (HxyE : In (x, y) E) by (apply (aug_spec_inner x y Hxs Hyt); exact Hxy).
      assert (Hy : In y V) by (apply HE in HxyE; cbn in HxyE; tauto).
      destruct (IH y Hy Hrest) as (I1 & I2 & I3). repeat split.
      + intros v [<-|Hv]; [exact Hx|apply I1; exact Hv].
      + change (pairs (x :: y :: r)) with ((x, y) :: pairs (y :: r)). intros e [<-|He]; [exact HxyE|apply I2; exact He].
      + rewrite last_cons_default. exact I3.
  Qed.

  (* C01, graph part: a source-to-sink walk of the augmented graph, stripped of s and t, is a route of
     the caller's graph: non-empty, nodes of V, consecutive pairs are edges of E, starts at a node
     without incoming edges or an additional start, ends at a node without outgoing edges or an
     additional end *)
  Theorem aug_route_valid r : incl (pairs (s :: r ++ [t])) A ->
    r <> [] /\ (forall v, In v r -> In v V) /\ incl (pairs r) E /\
    is_start E S (hd s r) = true /\ is_end E T (last r s) = true.
  Proof.
    intros Hin. destruct r as [|x r].
    - exfalso. cbn [app pairs] in Hin. assert (H : In (s, t) A) by (apply Hin; left; reflexivity).
      apply aug_spec_source in H. tauto.
    - cbn [app] in Hin. change (pairs (s :: x :: r ++ [t])) with ((s, x) :: pairs (x :: r ++ [t])) in Hin.
      assert (Hsx : In (s, x) A) by (apply Hin; left; reflexivity).
      apply aug_spec_source in Hsx. destruct Hsx as [Hx Hstart].
      destruct (inner_walk r x Hx (fun e He => Hin e (or_intror He))) as (I1 & I2 & I3).
      split; [discriminate|]. split; [exact I1|]. split; [exact I2|]. split; [exact Hstart|].
      rewrite last_cons_default. exact I3.
  Qed.
End Aug.

(* in a graph with a rank function increasing along edges (a DAG) every walk is a simple path *)
Lemma rank_walk_nodup (E : list edge) (rank : node -> nat) :
  (forall u v, In (u, v) E -> (rank u < rank v)%nat) ->
  forall r x, incl (pairs (x :: r)) E -> NoDup (x :: r) /\ forall v, In v r -> (rank x < rank v)%nat.
Proof.
  intros Hr. induction r as [|y r IH]; intros x Hin.
  - split; [constructor; [intros []|constructor]|intros v []].
  - change (pairs (x :: y :: r)) with ((x, y) :: pairs (y :: r)) in Hin.
    assert (Hxy : (rank x < rank y)%nat) by (apply Hr, Hin; left; reflexivity).
    destruct (IH y (fun e He => Hin e (or_intror He))) as [ND Hlt].
    assert (Hall : forall v, In v (y :: r) -> (rank x < rank v)%nat).
    { intros v [<-|Hv]; [exact Hxy|]. specialize (Hlt v Hv). lia. }
    split; [|exact Hall]. constructor; [|exact ND].
    intros Hx. specialize (Hall x Hx). lia.
Qed.
