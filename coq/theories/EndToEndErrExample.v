(* Non-vacuity of the caller-level C07 / C08 theorems on the concrete instance of EndToEndExample.v (the diamond
   1->2->4, 1->3->4 with weights 2 / 3; synthetic source 0, sink 5): every hypothesis of kmpe_end_to_end_feasible and
   klae_end_to_end_feasible holds, the two paths of the diamond cover the non-ignored edges, hence kMinPathError is
   feasible for k = 2 and k = 3 and kLeastAbsErrors for k = 1. *)
From Coq Require Import List NArith ZArith QArith Lqa Bool Arith Lia.
Import ListNotations.
From FP Require Import Lin Blocks PathEnc PathEncProofs EulerProofs1 PathEncComplete PathCoverComplete EndToEnd1 EndToEnd2 EndToEnd3 EndToEndCover EndToEndExample
                       ErrEnc ErrEncProofs ErrEncKlae EndToEndErr.
Set Default Timeout 300.
Local Close Scope Q_scope.

Definition xP (i : N) : list node := if (i =? 0)%N then [0; 1; 2; 4; 5]%N else [0; 1; 3; 4; 5]%N.
Definition xtopo : list node := [1; 2; 3; 4]%N.

Lemma x_nodupE : NoDup xE. Proof. repeat constructor; cbn; intuition discriminate. Qed.
Lemma x_topo : forall u v, In (u, v) xE -> (posn xtopo u < posn xtopo v)%nat.
Proof. intros u v He. cbn in He. destruct He as [E|[E|[E|[E|[]]]]]; injection E as <- <-; vm_compute; lia. Qed.
Lemma x_nonneg : forall e, In e xE -> (0 <= xf e)%Z.
Proof. intros e He. cbn in He. destruct He as [<-|[<-|[<-|[<-|[]]]]]; vm_compute; discriminate. Qed.
Lemma x_some : exists e, In e xE /\ mem_edge e [] = false /\
  mem_edge e (map fst (filter (fun es : PathEnc.edge * Q => Qeq_bool (snd es) 0) [])) = false.
Proof. exists (1, 2)%N. split; [left; reflexivity|split; reflexivity]. Qed.

Lemma x_cover : path_cover (e2e_base xV xE 0%N 5%N [] 1%Q 2) (ign_all (e2e_err_inst xV xE 0%N 5%N xf [] [] [] 1%Q 2)) xP.
Proof.
  split.
  - intros i Hi. apply in_layers in Hi. destruct Hi as (n & Hn & ->). cbn in Hn. destruct n as [|[|n]]; [| |lia].
    + split; [reflexivity|]. split; [reflexivity|]. split; [repeat constructor; cbn; intuition discriminate|].
      intros e He. cbn in He. destruct He as [<-|[<-|[<-|[<-|[]]]]]; vm_compute; tauto.
    + split; [reflexivity|]. split; [reflexivity|]. split; [repeat constructor; cbn; intuition discriminate|].
      intros e He. cbn in He. destruct He as [<-|[<-|[<-|[<-|[]]]]]; vm_compute; tauto.
  - intros e He Hn. vm_compute in He.
    destruct He as [<-|[<-|[<-|[<-|[<-|[<-|[]]]]]]]; try (vm_compute in Hn; discriminate Hn).
    + exists 0%N. split; [vm_compute; tauto|vm_compute; reflexivity].
    + exists 1%N. split; [vm_compute; tauto|vm_compute; reflexivity].
    + exists 0%N. split; [vm_compute; tauto|vm_compute; reflexivity].
    + exists 1%N. split; [vm_compute; tauto|vm_compute; reflexivity].
Qed.

Example e2e_err_example :
  (forall k, (2 <= k)%nat -> exists a, sat a (encode_kmpe (e2e_kmpe_inst xV xE 0%N 5%N xf [] [] [] 1%Q k))) /\
  (forall k, (1 <= k)%nat -> exists a, sat a (encode_klae (e2e_err_inst xV xE 0%N 5%N xf [] [] [] 1%Q k)) /\
     (objective a (encode_klae (e2e_err_inst xV xE 0%N 5%N xf [] [] [] 1%Q k)) == 10)%Q).
Proof.
  destruct e2e_premises_satisfiable as (NDV & HE & Hs & Ht & Hst & _).
  split.
  - intros k Hk.
    destruct (kmpe_end_to_end_feasible xV xE 0%N 5%N xf [] [] [] 1%Q Hs Ht Hst HE NDV x_nodupE x_nonneg
                (fun es H => False_ind _ H) (fun c e H => False_ind _ H) x_some 2 k xP x_cover) as (a & S & _).
    + intros n cn Hn. destruct n; discriminate.
    + exact Hk.
    + exists a. exact S.
  - intros k Hk.
    destruct (klae_end_to_end_feasible xV xE 0%N 5%N xtopo xf [] [] [] 1%Q Hs Ht Hst HE NDV x_nodupE x_topo x_nonneg
                (fun es H => False_ind _ H) (fun c e H => False_ind _ H) x_some k eq_refl Hk) as (a & S & O).
    exists a. split; [exact S|]. rewrite O. vm_compute. reflexivity.
Qed.
