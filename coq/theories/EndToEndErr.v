(* C08 / C07 end to end, from hypotheses about the CALLER's input only.
   Caller data: a DAG (V, E) with a topological order, fresh synthetic source / sink s, t, non-negative integer weights f
   on the edges (NO conservation), an ignore list, error scalings in [0,1], subpath constraints made of edges of E.
   The instances e2e_err_inst / e2e_kmpe_inst are built from that data exactly as EndToEnd2.e2e_inst is (Aug.aug_edges,
   adjacency tables of EndToEnd1.st_of).  Derived, not assumed: well-formedness of the s-t graph, the rank function,
   the weight domain, the bound max f <= w_max, the bounds of the position / length columns.
   (1) kMinPathError is feasible for every k >= c whenever c source-to-sink paths cover the non-ignored edges (and the
       subpath constraints) -- in particular for c = the minimum path cover returned by MinPathCover.
   (2) kLeastAbsErrors is feasible for every k >= 1, and its optimum is at most sum_e scale_e * f(e). *)
From Coq Require Import List NArith ZArith QArith Qabs Qround Lqa Bool Arith Lia Permutation.
Import ListNotations.
From FP Require Import Lin Blocks BlocksProofs PathEnc Aug AugProofs Euler EulerProofs1 EulerProofs2 DagDecode PathEncProofs
                       PathEncComplete PathCoverComplete WfCheck EndToEnd1 EndToEnd2 EndToEndCover
                       ErrEnc ErrEncProofs ErrEncProofs3 ErrEncComplete ErrEncOptimal ErrEncKlae ErrEncOptimal2 ErrEncIgnore.
From FP Require Import Search SearchProofs1 SearchProofs2 EndToEnd3.
From FP Require PeelProofs3.
From FP Require Reach ReachProofs1 Peel PeelProofs1.
Set Default Timeout 120.
Local Close Scope Q_scope.

Definition e2e_base (V : list node) (E : list PathEnc.edge) (s t : node) (cons : list (list PathEnc.edge)) (cov : Q) (k : nat) : path_inst :=
  {| p_graph := st_of V E s t; p_k := k; p_allow_empty := false; p_cons := cons; p_cov := cov; p_len := None |}.

(* the instance the constructor builds from the caller's data (integer weight type, no given weights) *)
Definition e2e_err_inst (V : list node) (E : list PathEnc.edge) (s t : node) (f : PathEnc.edge -> Z)
    (ign : list PathEnc.edge) (scale : list (PathEnc.edge * Q)) (cons : list (list PathEnc.edge)) (cov : Q) (k : nat) : err_inst :=
  {| e_base := e2e_base V E s t cons cov k; e_flow := map (fun e => (e, inject_Z (f e))) E; e_user_ignore := ign;
     e_scale := scale; e_int := true; e_given := None; e_korig := k |}.
Definition e2e_kmpe_inst V E s t f ign scale cons cov k : kmpe_inst :=
  {| m_err := e2e_err_inst V E s t f ign scale cons cov k; m_len := None; m_pieces := [] |}.

Lemma lookup_q_range e (l : list (PathEnc.edge * Q)) :
  (forall es, In es l -> (0 <= snd es <= 1)%Q) -> (0 <= lookup_q e l 1 <= 1)%Q.
Proof.
  induction l as [|[e' q] l IH]; intros H; cbn [lookup_q]; [lra|].
  destruct (edge_eqb e' e); [apply (H (e', q)); left; reflexivity|apply IH; intros es Hes; apply H; right; exact Hes].
Qed.

Section Caller.
  Variables (V : list node) (E : list PathEnc.edge) (s t : node).
  Variable topo : list node.
  Variable f : PathEnc.edge -> Z.
  Variable ign : list PathEnc.edge.
  Variable scale : list (PathEnc.edge * Q).
  Variable cons : list (list PathEnc.edge).
  Variable cov : Q.
  Hypothesis Hs : ~ In s V.
  Hypothesis Ht : ~ In t V.
  Hypothesis Hst : s <> t.
  Hypothesis HE : forall e, In e E -> In (fst e) V /\ In (snd e) V.
  Hypothesis NDV : NoDup V.
  Hypothesis NDE : NoDup E.
  Hypothesis Htopo : forall u v, In (u, v) E -> (posn topo u < posn topo v)%nat.
  Hypothesis Hnonneg : forall e, In e E -> (0 <= f e)%Z.
  Hypothesis Hscale : forall es, In es scale -> (0 <= snd es <= 1)%Q.
  Hypothesis Hcons : forall c e, In c cons -> In e c -> In e E.
  (* the documented domain: some edge of the caller's graph is neither ignored nor scaled by 0 *)
  Hypothesis Hsome : exists e, In e E /\ mem_edge e ign = false /\ mem_edge e (map fst (filter (fun es => Qeq_bool (snd es) 0) scale)) = false.

  Let A := aug_edges V E [] [] s t.
  Let G := st_of V E s t.
  Notation I k := (e2e_err_inst V E s t f ign scale cons cov k).
  Notation M k := (e2e_kmpe_inst V E s t f ign scale cons cov k).

  Lemma e2e_wf : wf_graph G. Proof. exact (st_of_wf V E s t Hs Ht Hst HE NDV NDE). Qed.
  Lemma e2e_rank : forall u v, In (u, v) (g_edges G) -> (st_rank s t topo u < st_rank s t topo v)%nat.
  Proof. exact (st_rank_increasing V E s t Hs Ht Hst HE topo Htopo). Qed.
  Lemma e2e_rank_le : forall v, (st_rank s t topo v <= S (S (length topo)))%nat.
  Proof. intros v. apply st_rank_le. exact Hst. Qed.

  Lemma E_in_A e : In e E -> In e A.
  Proof. intros He. apply (aug_in V E [] [] s t). left. exact He. Qed.

  Lemma E_not_st e : In e E -> mem_edge e (st_edges G) = false.
  Proof.
    intros He. destruct (mem_edge e (st_edges G)) eqn:Mm; [|reflexivity]. exfalso.
    apply mem_edge_In in Mm. unfold st_edges in Mm. apply filter_In in Mm. destruct Mm as [_ Mm]. cbn [G st_of g_src g_snk] in Mm.
    destruct (HE e He) as [H1 H2]. apply orb_true_iff in Mm. destruct Mm as [Mm|Mm]; apply N.eqb_eq in Mm; congruence.
  Qed.

  Lemma basic_in_caller k e : In e (basic_edges (I k)) -> In e E.
  Proof.
    intros He. apply filter_In in He. destruct He as [HeA Hn]. apply negb_true_iff in Hn.
    unfold ign_all in Hn. rewrite !mem_edge_app in Hn. apply orb_false_iff in Hn. destruct Hn as [_ Hn].
    apply orb_false_iff in Hn. destruct Hn as [Hst' _].
    apply (aug_in V E [] [] s t) in HeA. destruct HeA as [HeE|[(u & Hu & X & ->)|(u & Hu & X & ->)]]; [exact HeE| |]; exfalso.
    - assert (Mm : mem_edge (s, u) (st_edges (eG (I k))) = true).
      { apply mem_edge_In. unfold st_edges. apply filter_In. split.
        - apply (aug_in V E [] [] s t). right. left. exists u. auto.
        - cbn. rewrite N.eqb_refl. reflexivity. }
      congruence.
    - assert (Mm : mem_edge (u, t) (st_edges (eG (I k))) = true).
      { apply mem_edge_In. unfold st_edges. apply filter_In. split.
        - apply (aug_in V E [] [] s t). right. right. exists u. auto.
        - cbn. rewrite N.eqb_refl. apply orb_true_r. }
      congruence.
  Qed.

  Lemma e2e_flow k e : In e E -> flow_of (I k) e = inject_Z (f e).
  Proof. intros He. unfold flow_of. cbn [e2e_err_inst e_flow]. apply (lookup_flow E f e He). Qed.

  Lemma e2e_domain k : (1 <= k)%nat -> err_domain (I k).
  Proof.
    intros Hk. split; [|split; [|exact Hk]].
    - intros e He. pose proof (basic_in_caller k e He) as HeE. rewrite (e2e_flow k e HeE). split; [|split].
      + change 0%Q with (inject_Z 0). rewrite <- Zle_Qle. apply (Hnonneg e HeE).
      + unfold scale_of. cbn [e2e_err_inst e_scale]. apply (lookup_q_range e scale Hscale).
      + intros _. eexists. reflexivity.
    - destruct Hsome as (e & HeE & H1 & H2). intros Hnil.
      assert (Hin : In e (basic_edges (I k))).
      { apply filter_In. split; [apply (E_in_A e HeE)|]. apply negb_true_iff. unfold ign_all. rewrite !mem_edge_app.
        cbn [e2e_err_inst e_user_ignore e_scale]. rewrite H1, H2. change (eG (I k)) with G. rewrite (E_not_st e HeE). reflexivity. }
      rewrite Hnil in Hin. destruct Hin.
  Qed.

  Lemma e2e_side k : kmpe_side (M k).
  Proof.
    split.
    - intros c e Hc He. split; [apply (E_in_A e); apply (Hcons c e Hc He)|]. unfold elen. cbn. lra.
    - intros e _. unfold plen. cbn. split; [lra|exists 1%Z; reflexivity].
  Qed.

  (* padding a family of c paths to k >= c paths by repeating its first path *)
  Definition pad (c : nat) (P : N -> list node) (i : N) : list node := if (N.to_nat i <? c)%nat then P i else P 0%N.

  Lemma pad_paths c k P : (1 <= c <= k)%nat -> st_paths G c P -> st_paths G k (pad c P).
  Proof.
    intros Hck HP i Hi. unfold pad. destruct (N.to_nat i <? c)%nat eqn:L.
    - apply Nat.ltb_lt in L. apply HP. apply in_layers. exists (N.to_nat i). split; [exact L|]. rewrite N2Nat.id. reflexivity.
    - apply HP. apply in_layers. exists O. split; [lia|reflexivity].
  Qed.
  Lemma pad_same c P i : In i (layers c) -> pad c P i = P i.
  Proof. intros Hi. apply in_layers in Hi. destruct Hi as (n & Hn & ->). unfold pad. rewrite Nat2N.id. apply Nat.ltb_lt in Hn. rewrite Hn. reflexivity. Qed.
  Lemma layers_mono c k i : (c <= k)%nat -> In i (layers c) -> In i (layers k).
  Proof. intros Hck Hi. apply in_layers in Hi. destruct Hi as (n & Hn & ->). apply in_layers. exists n. split; [lia|reflexivity]. Qed.

  (* ---------------------------------------------------------------- (1) kMinPathError *)
  (* what is assumed about the cover: c source-to-sink paths of the augmented graph that contain every edge which is neither
     ignored, nor scaled by 0, nor a source/sink edge, and that cover every subpath constraint to the required fraction *)
  Theorem kmpe_end_to_end_feasible (c k : nat) (P : N -> list node) :
    path_cover (e2e_base V E s t cons cov c) (ign_all (I c)) P ->
    constraints_covered (e2e_base V E s t cons cov c) P ->
    (c <= k)%nat ->
    exists a, sat a (encode_kmpe (M k)) /\
              (objective a (encode_kmpe (M k)) == sumq (fun _ => max_flow (I k)) (layers k))%Q.
  Proof.
    intros [HP Hcover] Hcc Hck.
    assert (Hc1 : (1 <= c)%nat).
    { destruct c as [|c']; [|lia]. exfalso. destruct Hsome as (e & HeE & H1 & H2).
      destruct (Hcover e (E_in_A e HeE)) as (i & Hi & _); [|destruct Hi].
      unfold ign_all. rewrite !mem_edge_app. cbn [e2e_err_inst e_user_ignore e_scale]. rewrite H1, H2.
      change (eG (I 0)) with G. rewrite (E_not_st e HeE). reflexivity. }
    apply (kmpe_feasible_ge_width_paths (M k) (pad c P) eq_refl eq_refl e2e_wf eq_refl (e2e_side k) (e2e_domain k ltac:(lia))).
    - apply (pad_paths c k P (conj Hc1 Hck)). exact HP.
    - intros e He. apply filter_In in He. destruct He as [HeA Hn]. apply negb_true_iff in Hn.
      destruct (Hcover e HeA Hn) as (i & Hi & Hon). exists i. split; [apply (layers_mono c k i Hck Hi)|].
      rewrite (pad_same c P i Hi). exact Hon.
    - intros n cn Hn. destruct (Hcc n cn Hn) as (i & Hi & Hcv). exists i. split; [apply (layers_mono c k i Hck Hi)|].
      rewrite (pad_same c P i Hi). exact Hcv.
  Qed.

  (* ---------------------------------------------------------------- (2) kLeastAbsErrors *)
  (* every edge of a DAG lies on a source-to-sink path: some source-to-sink path of the augmented graph exists *)
  Lemma some_st_path : exists p, hd_error p = Some s /\ last p s = t /\ NoDup p /\ incl (pairs p) (g_edges G).
  Proof.
    destruct (cover_with_one_path_per_edge_exists V E s t topo Hs Ht Hst HE Htopo) as (P & HP & _).
    destruct Hsome as (e & HeE & _). assert (Hi : In 0%N (layers (length E))).
    { apply in_layers. exists O. split; [destruct E; [destruct HeE|cbn; lia]|reflexivity]. }
    exists (P 0%N). apply (HP 0%N Hi).
  Qed.

  (* any k >= 1 source-to-sink paths covering the subpath constraints, with weight 0 and errors = f *)
  Theorem klae_end_to_end_feasible_paths (k : nat) (P : N -> list node) :
    (1 <= k)%nat -> st_paths G k P -> constraints_covered (e2e_base V E s t cons cov k) P ->
    exists a, sat a (encode_klae (I k)) /\
              (objective a (encode_klae (I k)) == sumq (fun e => scale_of (I k) e * flow_of (I k) e) (basic_edges (I k)))%Q.
  Proof.
    intros Hk HP Hcc. pose proof (e2e_domain k Hk) as (Hfs & Hne & _).
    destruct (max_flow_in (I k) Hne) as (em & Hem & Emax).
    assert (Hmint : e_int (I k) = true -> is_int (max_flow (I k))) by (rewrite Emax; apply (Hfs em Hem)).
    assert (Hcast : (cast (e_int (I k)) (max_flow (I k)) == max_flow (I k))%Q) by (apply cast_int_id; exact Hmint).
    assert (Hm0 : (0 <= max_flow (I k))%Q) by (rewrite Emax; apply (Hfs em Hem)).
    assert (Hmw : (max_flow (I k) <= w_max (I k))%Q).
    { pose proof (w_max_ge (I k)) as HW. rewrite Hcast in HW.
      assert (H1 : (1 <= inject_Z (Z.of_nat (eK (I k))))%Q) by (change 1%Q with (inject_Z 1); rewrite <- Zle_Qle; cbn; lia).
      assert (H2 : (0 <= (inject_Z (Z.of_nat (eK (I k))) - 1) * max_flow (I k))%Q) by (apply Qmult_le_0_compat; lra). lra. }
    assert (Z0 : forall e, (sumq (fun i => 0 * onq P i e) (layers (eK (I k))) == 0)%Q).
    { intros e. generalize (layers (eK (I k))). intros l. induction l as [|x l IH]; cbn [sumq]; [reflexivity|]. rewrite IH. ring. }
    assert (Eerr : forall e, In e (basic_edges (I k)) -> (klae_err (I k) P (fun _ => 0%Q) e == flow_of (I k) e)%Q).
    { intros e He. unfold klae_err. rewrite (Z0 e). destruct (Hfs e He) as (F0 & _). rewrite Qabs_pos; [ring|lra]. }
    assert (Hch : klae_choice (I k) P (fun _ => 0%Q)).
    { split; [exact HP|]. split; [|split; [|exact Hcc]].
      - intros i _. split; [lra|]. intros _. exists 0%Z. reflexivity.
      - intros e He. destruct (Hfs e He) as (F0 & _ & Fi). pose proof (flow_le_max (I k) e He) as FM. split.
        + rewrite (Eerr e He). lra.
        + intros Hint. apply klae_err_int; [exact Fi| |exact Hint]. intros i _ _. exists 0%Z. reflexivity. }
    destruct (klae_complete (I k) P (fun _ => 0%Q) eq_refl e2e_wf eq_refl (fun cn e Hc He => proj2 (proj1 (e2e_side k) cn e Hc He)) Hch)
      as (a & S & O & _).
    exists a. split; [exact S|]. rewrite O. unfold klae_cost. apply sumq_ext. intros e He. rewrite (Eerr e He). reflexivity.
  Qed.

  (* without subpath constraints: feasible for EVERY k >= 1 *)
  Theorem klae_end_to_end_feasible (k : nat) : cons = [] -> (1 <= k)%nat ->
    exists a, sat a (encode_klae (I k)) /\
              (objective a (encode_klae (I k)) == sumq (fun e => scale_of (I k) e * flow_of (I k) e) (basic_edges (I k)))%Q.
  Proof.
    intros Hnc Hk. destruct some_st_path as (p & Hp).
    apply (klae_end_to_end_feasible_paths k (fun _ => p) Hk).
    - intros i _. exact Hp.
    - intros n cn Hn. cbn [e2e_base p_cons] in Hn. rewrite Hnc in Hn. destruct n; discriminate.
  Qed.

  (* relative to the solver specification: the optimum is at most the total scaled weight of the non-ignored edges *)
  Theorem klae_end_to_end_optimum_bound (k : nat) (a : var -> Q) : cons = [] -> (1 <= k)%nat ->
    sat a (encode_klae (I k)) -> (forall b, sat b (encode_klae (I k)) -> (objective a (encode_klae (I k)) <= objective b (encode_klae (I k)))%Q) ->
    (objective a (encode_klae (I k)) <= sumq (fun e => scale_of (I k) e * flow_of (I k) e) (basic_edges (I k)))%Q.
  Proof.
    intros Hnc Hk Hsat Hopt. destruct (klae_end_to_end_feasible k Hnc Hk) as (b & Sb & Ob). rewrite <- Ob. apply Hopt. exact Sb.
  Qed.
End Caller.

(* a cover of ALL edges of the caller's graph (ignore = the synthetic source/sink edges, as in minpathcover_end_to_end) covers
   in particular the non-ignored ones, whatever the ignore list and the scaling *)
Lemma cover_all_covers_nonignored (V : list node) (E : list PathEnc.edge) (s t : node) f ign scale (c : nat) (P : N -> list node) :
  path_cover (cover_inst V E s t c) (synth V E s t) P ->
  path_cover (e2e_base V E s t [] 1%Q c) (ign_all (e2e_err_inst V E s t f ign scale [] 1%Q c)) P.
Proof.
  intros [HP Hc]. split; [exact HP|]. intros e He Hn. apply (Hc e He).
  destruct (mem_edge e (synth V E s t)) eqn:Ms; [|reflexivity]. exfalso.
  assert (Hst' : mem_edge e (st_edges (st_of V E s t)) = true).
  { apply mem_edge_In. unfold st_edges. apply filter_In. split; [exact He|].
    apply mem_edge_In in Ms. unfold synth, aug_source_edges, aug_sink_edges in Ms. apply in_app_or in Ms.
    destruct Ms as [Ms|Ms]; apply in_map_iff in Ms; destruct Ms as (u & <- & _); cbn; rewrite N.eqb_refl; [reflexivity|apply orb_true_r]. }
  unfold ign_all in Hn. rewrite !mem_edge_app in Hn. apply orb_false_iff in Hn. destruct Hn as [_ Hn]. apply orb_false_iff in Hn.
  destruct Hn as [Hn _]. change (eG (e2e_err_inst V E s t f ign scale [] 1%Q c)) with (st_of V E s t) in Hn. congruence.
Qed.

(* the headline composed with C09: the number kopt that MinPathCover returns (the minimum number of source-to-sink paths covering
   every edge) makes kMinPathError feasible for every k >= kopt, for every non-negative weight function, ignore list and scaling *)
Theorem kmpe_feasible_from_minpathcover
    (V : list node) (E : list PathEnc.edge) (s t : node) (Pa Sa : list (node * list node)) (topo : list node)
    (feasible : nat -> bool) (lb : nat) (sts : list raw)
    (f : PathEnc.edge -> Z) (ign : list PathEnc.edge) (scale : list (PathEnc.edge * Q)) :
  NoDup V -> (forall e, In e E -> In (fst e) V /\ In (snd e) V) -> ~ In s V -> ~ In t V -> s <> t ->
  Peel.peel_inputs_ok E Pa Sa topo = true ->
  (forall k, feasible k = true <-> exists a, sat a (encode_kpc (cover_inst V E s t k) (synth V E s t))) ->
  (forall i, (i < S (length E) - lb)%nat -> exists x, nth_error sts i = Some x /\
             status_of x = if feasible (lb + i)%nat then Optimal else Infeasible) ->
  (forall k, (k < lb)%nat -> feasible k = false) ->
  (forall e, In e E -> (0 <= f e)%Z) -> (forall es, In es scale -> (0 <= snd es <= 1)%Q) ->
  (exists e, In e E /\ mem_edge e ign = false /\ mem_edge e (map fst (filter (fun es => Qeq_bool (snd es) 0) scale)) = false) ->
  exists kopt,
    so_res (mpc_solve true lb (S (length E)) sts) = Solved kopt /\
    forall k, (kopt <= k)%nat -> exists a, sat a (encode_kmpe (e2e_kmpe_inst V E s t f ign scale [] 1%Q k)).
Proof.
  intros NDV HE Hs Ht Hst Hok Hspec Hsts Hlb Hnn Hsc Hsome.
  destruct (minpathcover_end_to_end V E s t Pa Sa topo feasible lb sts NDV HE Hs Ht Hst Hok Hspec Hsts Hlb) as (kopt & Hres & _ & (P & HP) & _).
  pose proof Hok as Hok'. unfold Peel.peel_inputs_ok in Hok'.
  apply andb_true_iff in Hok'. destruct Hok' as [Hok' _]. apply andb_true_iff in Hok'. destruct Hok' as [Hok' _].
  apply andb_true_iff in Hok'. destruct Hok' as [Hok' _]. apply andb_true_iff in Hok'. destruct Hok' as [Hok' Hbefore].
  apply andb_true_iff in Hok'. destruct Hok' as [HndE Hndt].
  apply ReachProofs1.nodupE_NoDup in HndE. apply ReachProofs1.nodupb_NoDup in Hndt.
  assert (Htopo : forall u v, In (u, v) E -> (posn topo u < posn topo v)%nat).
  { intros u v He. rewrite !EndToEnd3.posn_pos. apply PeelProofs3.beforeb_pos; [exact Hndt|].
    rewrite forallb_forall in Hbefore. exact (Hbefore (u, v) He). }
  exists kopt. split; [exact Hres|]. intros k Hk.
  destruct (kmpe_end_to_end_feasible V E s t f ign scale [] 1%Q Hs Ht Hst HE NDV HndE Hnn Hsc (fun c e Hc => False_ind _ Hc) Hsome
              kopt k P (cover_all_covers_nonignored V E s t f ign scale kopt P HP)) as (a & S & _).
  - intros n cn Hn. destruct n; discriminate.
  - exact Hk.
  - exists a. exact S.
Qed.
