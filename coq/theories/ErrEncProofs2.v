(* Concrete witnesses for the error models: a boolean satisfaction checker (for non-vacuity examples
   and witnesses), the reported objective of kLeastAbsErrors (agreement without scaling, refutation
   with scaling), and the infeasibility witnesses of kMinPathError with path-length factors. *)
From Coq Require Import List NArith ZArith QArith Qabs Qround Lqa Bool Arith Lia Permutation.
Import ListNotations.
From FP Require Import Lin Blocks BlocksProofs PathEnc PathEncProofs ErrEnc ErrEncProofs.
Set Default Timeout 120.
Local Close Scope Q_scope.

(* ------------------------------------------------------------------ boolean checker *)
Definition qint_b (q : Q) : bool := Pos.eqb (Qden (Qred q)) 1.
Lemma qint_b_sound q : qint_b q = true -> is_int q.
Proof.
  unfold qint_b. intros H. apply Pos.eqb_eq in H. exists (Qnum (Qred q)).
  rewrite <- (Qred_correct q) at 1. destruct (Qred q) as [n d]. cbn [Qden Qnum] in *. subst d. reflexivity.
Qed.

Definition sat_col_b (a : var -> Q) (c : col) : bool :=
  Qle_bool (clb c) (a (cvar c)) && Qle_bool (a (cvar c)) (cub c) && (negb (cint c) || qint_b (a (cvar c))).
Definition sat_row_b (a : var -> Q) (r : row) : bool :=
  match sns r with
  | SLe => Qle_bool (eval a (lhs r)) (rhs r)
  | SGe => Qle_bool (rhs r) (eval a (lhs r))
  | SEq => Qeq_bool (eval a (lhs r)) (rhs r)
  end.
Definition sat_b (a : var -> Q) (m : milp) : bool :=
  forallb (sat_col_b a) (cols m) && forallb (sat_row_b a) (rows m).

Lemma sat_b_sound a m : sat_b a m = true -> sat a m.
Proof.
  unfold sat_b, sat. rewrite andb_true_iff, !forallb_forall, !Forall_forall. intros [HC HR]. split.
  - intros c Hc. specialize (HC c Hc). unfold sat_col_b in HC. rewrite !andb_true_iff in HC. destruct HC as [[H1 H2] H3].
    apply Qle_bool_iff in H1. apply Qle_bool_iff in H2. unfold sat_col. repeat split; try assumption.
    intros Hi. rewrite Hi in H3. cbn in H3. apply qint_b_sound. exact H3.
  - intros r Hr. specialize (HR r Hr). unfold sat_row_b in HR. unfold sat_row. destruct (sns r).
    + apply Qle_bool_iff. exact HR.
    + apply Qle_bool_iff. exact HR.
    + apply Qeq_bool_iff. exact HR.
Qed.

(* ------------------------------------------------------------------ the reported objective *)
(* get_objective_value (current code: errors weighed by their scaling) IS the solver objective, for
   every scaling and every assignment *)
Theorem klae_reported_objective I a :
  (klae_reported_objective_code I a == objective a (encode_klae I))%Q.
Proof.
  unfold klae_reported_objective_code, objective, encode_klae. cbn [obj]. unfold klae_obj.
  rewrite (eval_map_coef a (fun e => Err (fst e) (snd e)) (scale_of I)).
  apply sumq_ext. intros e _. ring.
Qed.

(* the old behaviour (plain sum) agreed with the solver objective only when no scaling differs from 1 *)
Theorem klae_reported_objective_old_unscaled I a :
  (forall e, In e (basic_edges I) -> (scale_of I e == 1)%Q) ->
  (klae_reported_objective_old I a == objective a (encode_klae I))%Q.
Proof.
  intros H. unfold klae_reported_objective_old, objective, encode_klae. cbn [obj]. unfold klae_obj.
  rewrite (eval_map_coef a (fun e => Err (fst e) (snd e)) (scale_of I)).
  apply sumq_ext. intros e He. rewrite (H e He). ring.
Qed.

(* the path s -> a -> b -> c -> t used by all witnesses: s=0 a=1 b=2 c=3 t=4 *)
Definition wit_graph : stgraph :=
  {| g_nodes := [1; 2; 3; 0; 4]%N; g_edges := [(1, 2); (2, 3); (0, 1); (3, 4)]%N; g_src := 0%N; g_snk := 4%N;
     g_succ := [(1, [2]); (2, [3]); (3, [4]); (0, [1]); (4, [])]%N;
     g_pred := [(1, [0]); (2, [1]); (3, [2]); (0, []); (4, [3])]%N |}.
Definition wit_base : path_inst :=
  {| p_graph := wit_graph; p_k := 1; p_allow_empty := false; p_cons := []; p_cov := 1%Q; p_len := None |}.

Lemma wit_graph_wf : wf_graph wit_graph.
Proof.
  constructor.
  - repeat constructor; cbn; intuition discriminate.
  - intros e He. cbn in He. repeat (destruct He as [<-|He]; [cbn; intuition|]). destruct He.
  - intros v. unfold succs. cbn [g_succ wit_graph g_edges lookup_adj].
    destruct (N.eqb_spec 1 v) as [<-|]; [reflexivity|]. destruct (N.eqb_spec 2 v) as [<-|]; [reflexivity|].
    destruct (N.eqb_spec 3 v) as [<-|]; [reflexivity|]. destruct (N.eqb_spec 0 v) as [<-|]; [reflexivity|].
    destruct (N.eqb_spec 4 v) as [<-|]; [reflexivity|]. cbn [filter fst snd map].
    repeat match goal with |- context [(?x =? v)%N] => destruct (N.eqb_spec x v); [congruence|] end. reflexivity.
  - intros v. unfold preds. cbn [g_pred wit_graph g_edges lookup_adj].
    destruct (N.eqb_spec 1 v) as [<-|]; [reflexivity|]. destruct (N.eqb_spec 2 v) as [<-|]; [reflexivity|].
    destruct (N.eqb_spec 3 v) as [<-|]; [reflexivity|]. destruct (N.eqb_spec 0 v) as [<-|]; [reflexivity|].
    destruct (N.eqb_spec 4 v) as [<-|]; [reflexivity|]. cbn [filter fst snd map].
    repeat match goal with |- context [(?x =? v)%N] => destruct (N.eqb_spec x v); [congruence|] end. reflexivity.
  - intros e He. cbn in He. repeat (destruct He as [<-|He]; [cbn; discriminate|]). destruct He.
  - intros e He. cbn in He. repeat (destruct He as [<-|He]; [cbn; discriminate|]). destruct He.
  - cbn. discriminate.
Qed.

(* DESIGN §6 #12: f(a,b) = 2, f(b,c) = 0, error_scaling {(b,c): 1/2}, k = 1, integer weights *)
Definition wit12 : err_inst :=
  {| e_base := wit_base; e_flow := [((1, 2), 2%Q); ((2, 3), 0%Q)]%N; e_user_ignore := [];
     e_scale := [((2, 3)%N, (1 # 2)%Q)]; e_int := true; e_given := None; e_korig := 1 |}.
(* the optimum: the path with weight 2, errors 0 and 2 *)
Definition wit12_a (v : var) : Q :=
  if (vfam v =? fEdge)%N then 1%Q else if (vfam v =? fPi)%N then 2%Q else if (vfam v =? fW)%N then 2%Q
  else if var_eqb v (Err 2 3) then 2%Q else 0%Q.

Ltac split_forall H :=
  repeat (apply Forall_cons_iff in H; let H1 := fresh "R" in destruct H as [H1 H]).

Theorem klae_objective_old_refuted : exists I a,
  sat a (encode_klae I) /\
  (forall b, sat b (encode_klae I) -> (objective a (encode_klae I) <= objective b (encode_klae I))%Q) /\
  ~ (klae_reported_objective_old I a == objective a (encode_klae I))%Q.
Proof.
  exists wit12, wit12_a. split; [|split].
  - apply sat_b_sound. vm_compute. reflexivity.
  - intros b [Hc Hr].
    assert (EA : (objective wit12_a (encode_klae wit12) == 1)%Q) by (vm_compute; reflexivity).
    rewrite EA. unfold objective.
    remember (obj (encode_klae wit12)) as ob eqn:EO. vm_compute in EO. subst ob.
    remember (rows (encode_klae wit12)) as rs eqn:ER. vm_compute in ER. subst rs.
    remember (cols (encode_klae wit12)) as cs eqn:EC. vm_compute in EC. subst cs.
    split_forall Hr. split_forall Hc.
    unfold sat_row in *. unfold sat_col in *. cbn [sns lhs rhs eval fst snd cvar clb cub cint] in *.
    lra.
  - vm_compute. intros H. discriminate H.
Qed.

(* ------------------------------------------------------------------ kMinPathError with length factors *)
Definition wit_err (f12 : Q) : err_inst :=
  {| e_base := wit_base; e_flow := [((1, 2)%N, f12); ((2, 3)%N, 0%Q)]; e_user_ignore := [];
     e_scale := []; e_int := true; e_given := None; e_korig := 1 |}.
Definition wit_kmpe (f12 factor : Q) : kmpe_inst :=
  {| m_err := wit_err f12; m_len := None; m_pieces := [((0%Q, 40%Q), factor)] |}.

(* the single source-to-sink path covers every non-ignored edge: k = 1 >= width *)
Lemma wit_cover f12 : forall e, In e (basic_edges (wit_err f12)) -> In e (EulerProofs1.pairs [0; 1; 2; 3; 4]%N).
Proof. intros e He. vm_compute in He. vm_compute. tauto. Qed.

Ltac bits_binary a :=
  repeat match goal with
         | H : sat_col a {| cvar := {| vfam := 12%N; vidx := ?i |}; clb := 0%Q; cub := 1%Q; cint := true |} |- _ =>
             apply bin_of_col in H
         end.
Ltac bits_cases a :=
  repeat match goal with
         | H : bin (a {| vfam := 12%N; vidx := ?i |}) |- _ => destruct H as [H|H]
         end.

Lemma kmpe_wit_unsat (M : kmpe_inst) (cs : list col) (rs : list row) :
  cols (encode_kmpe M) = cs -> rows (encode_kmpe M) = rs ->
  (forall a, Forall (sat_col a) cs -> Forall (sat_row a) rs -> False) -> forall a, ~ sat a (encode_kmpe M).
Proof. intros <- <- H a [Hc Hr]. exact (H a Hc Hr). Qed.

(* finding kmpe_factor_gt1_gamma_bound: f = (1, 0), one range with factor 3, k = 1, integer weights.
   The gamma rows force the scaled slack below w_max = 1, a scaled slack is a multiple of 3, so it is 0
   and both 1 - w <= 0 and w <= 0 are required. *)
Theorem kmpe_factors_gt1_refuted : exists M,
  wf_graph (eG (m_err M)) /\ eK (m_err M) = 1%nat /\
  (forall e, In e (basic_edges (m_err M)) -> In e (EulerProofs1.pairs [0; 1; 2; 3; 4]%N)) /\
  forall a, ~ sat a (encode_kmpe M).
Proof.
  exists (wit_kmpe 1%Q 3%Q). split; [exact wit_graph_wf|]. split; [reflexivity|]. split; [apply wit_cover|].
  eapply kmpe_wit_unsat; [vm_compute; reflexivity|vm_compute; reflexivity|].
  intros a Hc Hr. split_forall Hr. split_forall Hc. bits_binary a.
  unfold sat_row in *. unfold sat_col in *. cbn [sns lhs rhs eval fst snd cvar clb cub cint] in *.
  bits_cases a; lra.
Qed.

(* finding kmpe_factor_lt1_slack_bound: f = (4, 0), factor 1/2: scaled slack >= 2 needs slack >= 4 = w_max,
   but the bit expansion has ceil(log2(4 * 1/2 + 1)) = 2 bits, i.e. slack <= 3 *)
Theorem kmpe_factors_lt1_refuted : exists M,
  wf_graph (eG (m_err M)) /\ eK (m_err M) = 1%nat /\
  (forall e, In e (basic_edges (m_err M)) -> In e (EulerProofs1.pairs [0; 1; 2; 3; 4]%N)) /\
  forall a, ~ sat a (encode_kmpe M).
Proof.
  exists (wit_kmpe 4%Q (1 # 2)%Q). split; [exact wit_graph_wf|]. split; [reflexivity|]. split; [apply wit_cover|].
  eapply kmpe_wit_unsat; [vm_compute; reflexivity|vm_compute; reflexivity|].
  intros a Hc Hr. split_forall Hr. split_forall Hc. bits_binary a.
  unfold sat_row in *. unfold sat_col in *. cbn [sns lhs rhs eval fst snd cvar clb cub cint] in *.
  bits_cases a; lra.
Qed.

(* non-vacuity: with factor 1 the same instances are satisfiable (weight 1 resp. 2, slack 1 resp. 2) *)
Definition wit_kmpe_a (w s len : Q) (slack_bits : list Q) (v : var) : Q :=
  if (vfam v =? fEdge)%N then 1%Q
  else if (vfam v =? fPi)%N then w else if (vfam v =? fW)%N then w
  else if (vfam v =? fSlack)%N then s else if (vfam v =? fGamma)%N then s
  else if (vfam v =? fSSlack)%N then s else if (vfam v =? fFactor)%N then 1%Q
  else if (vfam v =? fZ)%N then 1%Q
  else if (vfam v =? fLen)%N then len
  else if (vfam v =? fPos)%N then (match vidx v with [u; _; _] => inject_Z (Z.of_N u) | _ => 0%Q end)
  else if (vfam v =? fBit)%N then nth (N.to_nat (last (vidx v) 0%N)) slack_bits 0%Q
  else if (vfam v =? fComp)%N then nth (N.to_nat (last (vidx v) 0%N)) slack_bits 0%Q
  else 0%Q.
Lemma kmpe_factor_one_satisfiable : sat (wit_kmpe_a 1%Q 1%Q 4%Q [1%Q]) (encode_kmpe (wit_kmpe 1%Q 1%Q)).
Proof. apply sat_b_sound. vm_compute. reflexivity. Qed.

(* ------------------------------------------------------------------ is_valid_solution of kMinPathError *)
(* the per-edge test of kMinPathError.is_valid_solution as the code computes it (since /repo 43fc741):
   accept iff  |f - explained| * scale <= tolerance * (#layers through e) + (scaled) slack through e *)
Definition kmpe_valid_edge_code (M : kmpe_inst) (a : var -> Q) (tol : Q) (e : PathEnc.edge) : Prop :=
  let I := m_err M in let k := eK I in
  (Qabs (flow_of I e - sumq (fun i => a (W i) * inject_Z (xval a i e)) (layers k)) * scale_of I e
   <= tol * sumq (fun i => inject_Z (xval a i e)) (layers k)
      + sumq (fun i => a (slack_var M i) * inject_Z (xval a i e)) (layers k))%Q.
(* before 43fc741 the error was not multiplied by the scaling *)
Definition kmpe_valid_edge_old (M : kmpe_inst) (a : var -> Q) (tol : Q) (e : PathEnc.edge) : Prop :=
  let I := m_err M in let k := eK I in
  (Qabs (flow_of I e - sumq (fun i => a (W i) * inject_Z (xval a i e)) (layers k))
   <= tol * sumq (fun i => inject_Z (xval a i e)) (layers k)
      + sumq (fun i => a (slack_var M i) * inject_Z (xval a i e)) (layers k))%Q.

Lemma xval_nonneg a i e : (0 <= inject_Z (xval a i e))%Q.
Proof. unfold xval. destruct (Qeq_bool (a (Edge (fst e) (snd e) i)) 1); [change (inject_Z 1) with 1%Q|change (inject_Z 0) with 0%Q]; lra. Qed.

Lemma sumq_nonneg' {A} (g : A -> Q) l : (forall x, (0 <= g x)%Q) -> (0 <= sumq g l)%Q.
Proof. intros H. induction l as [|x l IH]; cbn [sumq]; [lra|]. specialize (H x). lra. Qed.

(* every satisfying assignment passes the validity test of the current code, for every tolerance >= 0 *)
Theorem kmpe_is_valid_accepts (M : kmpe_inst) (a : var -> Q) (tol : Q) (e : PathEnc.edge) :
  sat a (encode_kmpe M) -> e_given (m_err M) = None -> (0 <= tol)%Q ->
  In e (basic_edges (m_err M)) -> (0 <= scale_of (m_err M) e)%Q ->
  kmpe_valid_edge_code M a tol e.
Proof.
  intros Hsat Hg Ht He Hs. unfold kmpe_valid_edge_code. cbv zeta.
  destruct (kmpe_error_covered M a Hsat Hg e He) as [H _].
  rewrite Qabs_Qmult, (Qabs_pos (scale_of (m_err M) e) Hs) in H.
  assert (N : (0 <= sumq (fun i => inject_Z (xval a i e)) (layers (eK (m_err M))))%Q)
    by (apply sumq_nonneg'; intros i; apply xval_nonneg).
  assert (TN : (0 <= tol * sumq (fun i => inject_Z (xval a i e)) (layers (eK (m_err M))))%Q) by nra.
  lra.
Qed.

(* ... whereas the old test rejected satisfying (indeed optimal) assignments when a scaling < 1 is in
   force: path a->b->c, f = (2, 0), scaling 1/2 on (b,c), weight 2, slack 1 *)
Definition wit_kmpe_scaled : kmpe_inst := {| m_err := wit12; m_len := None; m_pieces := [] |}.
Theorem kmpe_is_valid_old_refuted : exists M a e,
  sat a (encode_kmpe M) /\ In e (basic_edges (m_err M)) /\ (0 <= scale_of (m_err M) e)%Q /\
  kmpe_valid_edge_code M a 0%Q e /\ ~ kmpe_valid_edge_old M a 0%Q e.
Proof.
  exists wit_kmpe_scaled, (wit_kmpe_a 2%Q 1%Q 4%Q []), (2, 3)%N.
  split; [apply sat_b_sound; vm_compute; reflexivity|].
  split; [vm_compute; tauto|]. split; [vm_compute; discriminate|].
  split; [vm_compute; discriminate|]. vm_compute. intros H. apply H. reflexivity.
Qed.
