(* C10 for the DAG error models, optimum form (no hypothesis on w_max): relative to the solver specification, ignoring one
   more edge never increases the optimal objective -- through the optimality theorems klae_optimal / kmpe_optimal_unbounded,
   whose declarative minimum ranges over the same paths and weights for both instances. *)
From Coq Require Import List NArith ZArith QArith Qabs Qround Lqa Bool Arith Lia Permutation.
Import ListNotations.
From FP Require Import Lin Blocks BlocksProofs PathEnc PathEncProofs PathEncComplete ErrEnc ErrEncProofs ErrEncProofs3
                       ErrEncComplete ErrEncOptimal ErrEncKlae ErrEncOptimal2 ErrEncIgnore.
Set Default Timeout 120.
Local Open Scope Q_scope.

Theorem klae_ignoring_lowers_optimum (I : err_inst) (e0 : PathEnc.edge) (a a1 : var -> Q) (rank : node -> nat) (Rm : nat) :
  let I1 := with_ignore I (e0 :: e_user_ignore I) in
  e_given I = None -> wf_graph (eG I) -> p_allow_empty (e_base I) = false ->
  (forall u v, In (u, v) (g_edges (eG I)) -> (rank u < rank v)%nat) -> (forall v, (rank v <= Rm)%nat) ->
  klae_side I -> klae_side I1 ->
  sat a (encode_klae I) -> (forall b, sat b (encode_klae I) -> objective a (encode_klae I) <= objective b (encode_klae I)) ->
  sat a1 (encode_klae I1) -> (forall b, sat b (encode_klae I1) -> objective a1 (encode_klae I1) <= objective b (encode_klae I1)) ->
  objective a1 (encode_klae I1) <= objective a (encode_klae I).
Proof.
  intros I1 Hg WF Hae Hrank HR Hs Hs1 Hsat Hopt Hsat1 Hopt1.
  destruct (klae_optimal I a rank Rm Hg WF Hae Hrank HR Hs Hsat Hopt) as [(P & w & HP & Hw & Hc & Hcost) _].
  destruct (klae_optimal I1 a1 rank Rm Hg WF Hae Hrank HR Hs1 Hsat1 Hopt1) as [_ Hmin].
  apply (Qle_trans _ (klae_cost I1 P w)); [apply (Hmin P w HP Hw Hc)|].
  rewrite <- Hcost. unfold klae_cost. unfold I1. rewrite (basic_drop I e0).
  apply (ErrEncProofs3.sumq_filter_le (fun e => scale_of I e * klae_err I P w e) (fun e => negb (edge_eqb e e0)) (basic_edges I)).
  intros e He. destruct Hs as (_ & Hfs & _). apply Qmult_le_0_compat; [apply (Hfs e He)|apply Qabs_nonneg].
Qed.

Theorem kmpe_ignoring_lowers_optimum (M : kmpe_inst) (e0 : PathEnc.edge) (a a1 : var -> Q) (rank : node -> nat) (Rm : nat) :
  let M1 := kwith M (with_ignore (m_err M) (e0 :: e_user_ignore (m_err M))) in
  e_given (m_err M) = None -> m_pieces M = [] -> wf_graph (eG (m_err M)) -> p_allow_empty (e_base (m_err M)) = false ->
  (forall u v, In (u, v) (g_edges (eG (m_err M))) -> (rank u < rank v)%nat) -> (forall v, (rank v <= Rm)%nat) ->
  kmpe_side M -> err_domain (m_err M) -> err_domain (m_err M1) ->
  sat a (encode_kmpe M) -> (forall b, sat b (encode_kmpe M) -> objective a (encode_kmpe M) <= objective b (encode_kmpe M)) ->
  sat a1 (encode_kmpe M1) -> (forall b, sat b (encode_kmpe M1) -> objective a1 (encode_kmpe M1) <= objective b (encode_kmpe M1)) ->
  objective a1 (encode_kmpe M1) <= objective a (encode_kmpe M).
Proof.
  intros M1 Hg Hpc WF Hae Hrank HR Hside Hd Hd1 Hsat Hopt Hsat1 Hopt1.
  destruct (kmpe_optimal_unbounded M a rank Rm Hg Hpc WF Hae Hrank HR Hside Hd Hsat Hopt) as [(P & w & sl & (HP & Hw & Herr & Hc) & Hsum) _].
  destruct (kmpe_optimal_unbounded M1 a1 rank Rm Hg Hpc WF Hae Hrank HR Hside Hd1 Hsat1 Hopt1) as [_ Hmin].
  rewrite <- Hsum. apply (Hmin P w sl).
  split; [exact HP|]. split; [exact Hw|]. split; [|exact Hc].
  intros e He. unfold M1 in He. cbn [kwith m_err] in He. rewrite (basic_drop (m_err M) e0) in He. apply filter_In in He.
  apply (Herr e (proj1 He)).
Qed.
