(* A boolean checker for `sat` on explicit assignments, used to discharge non-vacuity Examples and the
   feasibility half of _refuted witnesses by computation. *)
From Coq Require Import List NArith ZArith QArith Bool Lia.
Import ListNotations.
From FP Require Import Lin.
Local Close Scope Q_scope.

Definition is_int_b (q : Q) : bool := (Qden (Qred q) =? 1)%positive.
Lemma is_int_b_sound q : is_int_b q = true -> is_int q.
Proof.
  unfold is_int_b. intros H. apply Pos.eqb_eq in H. exists (Qnum (Qred q)).
  rewrite <- (Qred_correct q) at 1. destruct (Qred q) as [n d]. cbn [Qden Qnum] in *. subst d. reflexivity.
Qed.

Definition sat_col_b (a : var -> Q) (c : col) : bool :=
  Qle_bool (clb c) (a (cvar c)) && Qle_bool (a (cvar c)) (cub c) && (negb (cint c) || is_int_b (a (cvar c))).
Definition sat_row_b (a : var -> Q) (r : row) : bool :=
  match sns r with
  | SLe => Qle_bool (eval a (lhs r)) (rhs r)
  | SGe => Qle_bool (rhs r) (eval a (lhs r))
  | SEq => Qeq_bool (eval a (lhs r)) (rhs r)
  end.
Definition sat_b (a : var -> Q) (m : milp) : bool := forallb (sat_col_b a) (cols m) && forallb (sat_row_b a) (rows m).

Lemma sat_b_sound a m : sat_b a m = true -> sat a m.
Proof.
  unfold sat_b, sat. intros H. apply andb_true_iff in H. destruct H as [Hc Hr]. split.
  - apply Forall_forall. intros c Hin. rewrite forallb_forall in Hc. specialize (Hc c Hin).
    unfold sat_col_b in Hc. apply andb_true_iff in Hc. destruct Hc as [Hc Hi]. apply andb_true_iff in Hc. destruct Hc as [Hl Hu].
    apply Qle_bool_iff in Hl. apply Qle_bool_iff in Hu. split; [exact Hl|]. split; [exact Hu|].
    intros Hint. rewrite Hint in Hi. cbn in Hi. apply is_int_b_sound. exact Hi.
  - apply Forall_forall. intros r Hin. rewrite forallb_forall in Hr. specialize (Hr r Hin).
    unfold sat_row_b, sat_row in *. destruct (sns r).
    + apply Qle_bool_iff. exact Hr.
    + apply Qle_bool_iff. exact Hr.
    + apply Qeq_bool_iff. exact Hr.
Qed.

(* assignment given as an association list, 0 elsewhere *)
Fixpoint assign (l : list (var * Q)) (v : var) : Q :=
  match l with
  | [] => 0%Q
  | (u, q) :: r => if var_eqb u v then q else assign r v
  end.
