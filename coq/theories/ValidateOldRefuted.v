(* C19 — witnesses that the OLD code (ValidateOld.v, /repo at a068bcc) was not fail-closed.  Each theorem is about an
   explicitly named old-behaviour function [ValidateOld.validate_X]; the defects were repaired in /repo (commit in the
   comment) and the corresponding theorems about the current model (Validate.v) are positive. *)
From Coq Require Import List Bool ZArith QArith.
Import ListNotations.
From FP Require Import ValidateOld.
Local Close Scope Q_scope.

Definition ex_graph : input :=
  {| nodes_str := [true; true]; n_edges := 2; acyclic := false; has_source := true; has_sink := true;
     src_fooled := false; snk_fooled := false; origin := OEdge; wtype := TFloat;
     elems := [ {| e_w := WPos; e_ign := false |}; {| e_w := WPos; e_ign := false |} ];
     conserving := true; k := KInt 2; cons := []; cov := 1%Q; starts := []; ends := []; ign := []; search_enters := true |}.
Definition upd (i : input) (acy hs fool : bool) (ns : list bool) (o : origin_tag) (kk : ktag) (cs : list constr) (c : Q)
               (sts : list bool) : input :=
  {| nodes_str := ns; n_edges := n_edges i; acyclic := acy; has_source := hs; has_sink := has_sink i;
     src_fooled := fool; snk_fooled := snk_fooled i; origin := o; wtype := wtype i; elems := elems i;
     conserving := conserving i; k := kk; cons := cs; cov := c; starts := sts; ends := ends i; ign := ign i;
     search_enters := search_enters i |}.
Definition dag := upd ex_graph true true false [true; true] OEdge (KInt 2) [] 1%Q [].
Definition absent_edge_constraint := {| c_is_list := true; c_items := [ {| it_kind := IPair; it_in_graph := false |} ]; c_greedy_ok := true |}.
Definition int_item_constraint := {| c_is_list := true; c_items := [ {| it_kind := IInt; it_in_graph := false |} ]; c_greedy_ok := true |}.
Definition empty_constraint := {| c_is_list := true; c_items := []; c_greedy_ok := true |}.

(* 59945c9 — stDiGraph:source-sink-test-fooled:single-char-node-names (DESIGN #20) *)
Theorem old_validate_stDiGraph_refuted : exists i, in_domain_stDiGraph i = false /\ validate_stDiGraph i = Accept.
Proof. exists (upd ex_graph false false true [true; true] OEdge (KInt 2) [] 1%Q []). vm_compute. auto. Qed.
Theorem old_validate_kFlowDecompCycles_refuted_fooled :
  exists i, in_domain_kFlowDecompCycles i = false /\ validate_kFlowDecompCycles i = RaiseOther ECrash.
Proof. exists (upd ex_graph false false true [true; true] OEdge (KInt 2) [] 1%Q []). vm_compute. auto. Qed.
(* 92ea36c — kFlowDecomp._get_solution_with_greedy:KeyError|TypeError:unvalidated-constraints (DESIGN #21) *)
Theorem old_validate_kFlowDecomp_refuted_absent_edge :
  exists i, in_domain_kFlowDecomp i = false /\ validate_kFlowDecomp i = RaiseOther EKey.
Proof. exists (upd dag true true false [true; true] OEdge (KInt 2) [absent_edge_constraint] 1%Q []). vm_compute. auto. Qed.
Theorem old_validate_kFlowDecomp_refuted_malformed_item :
  exists i, in_domain_kFlowDecomp i = false /\ validate_kFlowDecomp i = RaiseOther EType.
Proof. exists (upd dag true true false [true; true] OEdge (KInt 2) [int_item_constraint] 1%Q []). vm_compute. auto. Qed.
(* c9173c7 — coverage out of range accepted without constraints *)
Theorem old_validate_kFlowDecomp_refuted_coverage :
  exists i, in_domain_kFlowDecomp i = false /\ validate_kFlowDecomp i = Accept.
Proof. exists (upd dag true true false [true; true] OEdge (KInt 2) [] 0%Q []). vm_compute. auto. Qed.
Theorem old_validate_kFlowDecompCycles_refuted_coverage :
  exists i, in_domain_kFlowDecompCycles i = false /\ validate_kFlowDecompCycles i = Accept.
Proof. exists (upd ex_graph false true false [true; true] OEdge (KInt 2) [] 0%Q []). vm_compute. auto. Qed.
(* 3d7a4b5 — node mode, first constraint empty -> IndexError *)
Theorem old_validate_kFlowDecomp_refuted_empty_constraint :
  exists i, in_domain_kFlowDecomp i = false /\ validate_kFlowDecomp i = RaiseOther EIndex.
Proof. exists (upd dag true true false [true; true] ONode (KInt 2) [empty_constraint] 1%Q []). vm_compute. auto. Qed.
(* 2df6a3b — k <= 0 -> UnboundLocalError (DESIGN #17), float k -> TypeError (#21), kPathCover(k <= 0) merely unsolved *)
Theorem old_validate_kLeastAbsErrors_refuted_k0 :
  exists i, in_domain_kLeastAbsErrors i = false /\ validate_kLeastAbsErrors i = RaiseOther EUnboundLocal.
Proof. exists (upd dag true true false [true; true] OEdge (KInt 0) [] 1%Q []). vm_compute. auto. Qed.
Theorem old_validate_kMinPathError_refuted_k0 :
  exists i, in_domain_kMinPathError i = false /\ validate_kMinPathError i = RaiseOther EUnboundLocal.
Proof. exists (upd dag true true false [true; true] OEdge (KInt 0) [] 1%Q []). vm_compute. auto. Qed.
Theorem old_validate_kMinPathError_refuted_k_float :
  exists i, in_domain_kMinPathError i = false /\ validate_kMinPathError i = RaiseOther EType.
Proof. exists (upd dag true true false [true; true] OEdge (KNonInt (5#2)) [] 1%Q []). vm_compute. auto. Qed.
Theorem old_validate_kFlowDecompCycles_refuted_k_float :
  exists i, in_domain_kFlowDecompCycles i = false /\ validate_kFlowDecompCycles i = RaiseOther EType.
Proof. exists (upd ex_graph false true false [true; true] OEdge (KNonInt (5#2)) [] 1%Q []). vm_compute. auto. Qed.
Theorem old_validate_kPathCover_refuted_k0 :
  exists i, in_domain_kPathCover i = false /\ validate_kPathCover i = AcceptsButUnsolved.
Proof. exists (upd dag true true false [true; true] OEdge (KInt 0) [] 1%Q []). vm_compute. auto. Qed.
(* 10a634a — MinErrorFlow: non-string nodes accepted in a cyclic graph *)
Theorem old_validate_MinErrorFlow_refuted_nonstring_cyclic :
  exists i, in_domain_MinErrorFlow i = false /\ validate_MinErrorFlow i = Accept.
Proof. exists (upd ex_graph false true false [true; false] OEdge (KInt 2) [] 1%Q []). vm_compute. auto. Qed.
(* 65c87ad — the lower bound ignored the additional starts: a documented input was rejected in solve() *)
Theorem old_accepts_domain_MinPathCoverCycles_refuted_lowerbound_ignores_starts :
  exists i, in_domain_MinPathCoverCycles i = true /\ validate_MinPathCoverCycles i = RaiseValueError.
Proof. exists (upd ex_graph false false false [true; true] OEdge (KInt 2) [] 1%Q [true]). vm_compute. auto. Qed.
(* 003f186 — node mode, edge-list constraint with a non-iterable item -> TypeError *)
Theorem old_validate_kFlowDecomp_refuted_non_tuple_item :
  exists i, in_domain_kFlowDecomp i = false /\ validate_kFlowDecomp i = RaiseOther EType.
Proof.
  exists (upd dag true true false [true; true] ONode (KInt 2)
            [ {| c_is_list := true; c_items := [ {| it_kind := IPair; it_in_graph := true |}; {| it_kind := IInt; it_in_graph := false |} ]; c_greedy_ok := true |} ] 1%Q []).
  vm_compute. auto.
Qed.
