(* C05/C06 bridge at the level of the generated LP (DAG, kFlowDecomp): fixing pairwise incompatible SAFE edge lists
   into the first layers -- list j into layer j, x[e, j] = 1 for every e of the list, which is what
   AbstractPathModelDAG does with paths_to_fix -- never changes feasibility of the k-model.
   Proof: a satisfying assignment is a decomposition (soundness); safety puts every list on some path of it,
   incompatibility makes those paths distinct, so the layers can be permuted to bring list j to layer j; the
   permuted decomposition is again a satisfying assignment (completeness) and satisfies the fixing rows. *)
From Coq Require Import List NArith ZArith QArith Lqa Bool Arith Lia Permutation.
Import ListNotations.
From FP Require Import Lin Blocks BlocksProofs PathEnc Aug AugProofs Euler EulerProofs1 EulerProofs2 DagDecode PathEncProofs PathEncComplete.
Set Default Timeout 60.
Local Close Scope Q_scope.

Definition fix_rows (Ss : list (list PathEnc.edge)) : list row :=
  flat_map (fun jS => map (fun e => mkrow [(Edge (fst e) (snd e) (fst jS), 1%Q)] SEq 1%Q) (snd jS)) (zipn 0 Ss).

Definition with_rows (M : milp) (rs : list row) : milp :=
  {| cols := cols M; rows := rows M ++ rs; obj := obj M; maximize := maximize M |}.

Lemma sat_with_rows a M rs : sat a (with_rows M rs) <-> sat a M /\ Forall (sat_row a) rs.
Proof. unfold sat, with_rows. cbn [cols rows]. rewrite Forall_app. tauto. Qed.

(* ---- list plumbing: a permutation of the layers that starts with a given duplicate-free list ---- *)
Definition memN (x : N) (l : list N) : bool := existsb (N.eqb x) l.
Lemma memN_In x l : memN x l = true <-> In x l.
Proof.
  unfold memN. rewrite existsb_exists. split.
  - intros (y & Hy & E). apply N.eqb_eq in E. subst. exact Hy.
  - intros H. exists x. split; [exact H|apply N.eqb_refl].
Qed.

Lemma perm_front (L front : list N) : NoDup L -> NoDup front -> incl front L ->
  Permutation (front ++ filter (fun i => negb (memN i front)) L) L.
Proof.
  intros NL NF Hin. apply NoDup_Permutation; [| exact NL |].
  - apply NoDup_app_intro; [exact NF|apply NoDup_filter; exact NL|].
    intros x H1 H2. apply filter_In in H2. destruct H2 as [_ H2]. apply memN_In in H1. rewrite H1 in H2. discriminate.
  - intros x. rewrite in_app_iff, filter_In. split.
    + intros [H|[H _]]; [apply Hin; exact H|exact H].
    + intros H. destruct (memN x front) eqn:M; [left; apply memN_In; exact M|right; split; [exact H|reflexivity]].
Qed.

Lemma map_nth_seq {A} (d : A) (l : list A) : map (fun n => nth n l d) (seq 0 (length l)) = l.
Proof.
  induction l as [|a l IH]; [reflexivity|]. cbn [length seq map nth]. f_equal.
  rewrite <- seq_shift, map_map. exact IH.
Qed.

Lemma NoDup_map_inj_in {A B} (f : A -> B) (l : list A) :
  (forall x y, In x l -> In y l -> f x = f y -> x = y) -> NoDup l -> NoDup (map f l).
Proof.
  induction l as [|a l IH]; intros Hinj ND; [constructor|]. inversion ND as [|? ? Ha ND']; subst. cbn [map]. constructor.
  - intros Hin. apply in_map_iff in Hin. destruct Hin as (y & E & Hy).
    assert (y = a) by (apply Hinj; [right; exact Hy|left; reflexivity|exact E]). subst. contradiction.
  - apply IH; [|exact ND']. intros x y Hx Hy. apply Hinj; right; assumption.
Qed.

Lemma layers_nodup k : NoDup (layers k).
Proof.
  unfold layers. apply FinFun.Injective_map_NoDup; [|apply seq_NoDup]. intros x y H. lia.
Qed.

Section SafeFix.
  Variable I : kfd_inst.
  Let B := f_base I.
  Let G := p_graph B.
  Let k := p_k B.
  Variable rank : node -> nat.
  Variable Rm : nat.
  Variable Ss : list (list PathEnc.edge).     (* paths_to_fix: list number j is fixed into layer j *)
  Hypothesis WF : wf_graph G.
  Hypothesis Hae : p_allow_empty B = false.
  Hypothesis Hrank : forall u v, In (u, v) (g_edges G) -> (rank u < rank v)%nat.
  Hypothesis HR : forall v, (rank v <= Rm)%nat.
  Hypothesis Hcons : forall c e, In c (p_cons B) -> In e c -> In e (g_edges G) /\ (0 <= elen B e)%Q.
  Hypothesis Hm : (length Ss <= k)%nat.
  (* safety: every decomposition has, for every list, a path containing it *)
  Hypothesis Hsafe : forall P w, decomposition I P w -> constraints_covered B P ->
      forall j S, nth_error Ss j = Some S -> exists i, In i (layers k) /\ incl S (pairs (P i)).
  (* incompatibility: no simple path contains two different lists *)
  Hypothesis Hincompat : forall j j' S S', j <> j' -> nth_error Ss j = Some S -> nth_error Ss j' = Some S' ->
      forall l, NoDup l -> incl S (pairs l) -> incl S' (pairs l) -> False.

  Theorem safe_fix_preserves_feasibility :
    (exists a, sat a (with_rows (encode_kfd I) (fix_rows Ss))) <-> (exists a, sat a (encode_kfd I)).
  Proof.
    split.
    - intros (a & Ha). exists a. apply sat_with_rows in Ha. tauto.
    - intros Hex.
      apply (kfd_feasible_iff_cons I rank Rm WF Hae Hrank HR Hcons) in Hex.
      destruct Hex as (P & w & Hdec & Hcov).
      pose proof Hdec as (HP & Hw & Hflow).
      (* choose the layer of every list *)
      destruct (finite_choice Ss (fun j S i => In i (layers k) /\ incl S (pairs (P i)))
                  (fun j S Hj => Hsafe P w Hdec Hcov j S Hj)) as (ch & Hch).
      set (m := length Ss).
      set (front := map (fun j => ch (N.of_nat j)) (seq 0 m)).
      assert (Hfront_in : incl front (layers k)).
      { intros i Hi. unfold front in Hi. apply in_map_iff in Hi. destruct Hi as (j & <- & Hj). apply in_seq in Hj.
        destruct (nth_error Ss j) as [S|] eqn:E; [|apply nth_error_None in E; unfold m in Hj; lia].
        exact (proj1 (Hch j S E)). }
      assert (Hfront_nodup : NoDup front).
      { unfold front. apply NoDup_map_inj_in; [|apply seq_NoDup].
        intros j j' Hj Hj' Heq. apply in_seq in Hj, Hj'.
        destruct (Nat.eq_dec j j') as [E|Hne]; [exact E|exfalso].
        destruct (nth_error Ss j) as [S|] eqn:E1; [|apply nth_error_None in E1; unfold m in Hj; lia].
        destruct (nth_error Ss j') as [S'|] eqn:E2; [|apply nth_error_None in E2; unfold m in Hj'; lia].
        destruct (Hch j S E1) as [Hi1 HS1]. destruct (Hch j' S' E2) as [Hi2 HS2]. rewrite <- Heq in HS2.
        destruct (HP _ Hi1) as (_ & _ & ND & _).
        exact (Hincompat j j' S S' Hne E1 E2 (P (ch (N.of_nat j))) ND HS1 HS2). }
      set (L' := front ++ filter (fun i => negb (memN i front)) (layers k)).
      assert (HL' : Permutation L' (layers k)) by (apply perm_front; [apply layers_nodup|exact Hfront_nodup|exact Hfront_in]).
      assert (HlenL : length L' = k).
      { rewrite (Permutation_length HL'). unfold layers. rewrite map_length, seq_length. reflexivity. }
      set (sg := fun i : N => nth (N.to_nat i) L' 0%N).
      assert (Hmap : map sg (layers k) = L').
      { unfold layers, sg. rewrite map_map.
        rewrite (map_ext (fun n => nth (N.to_nat (N.of_nat n)) L' 0%N) (fun n => nth n L' 0%N)) by (intros n; rewrite Nat2N.id; reflexivity).
        rewrite <- HlenL. apply map_nth_seq. }
      assert (Hsg_in : forall i, In i (layers k) -> In (sg i) (layers k)).
      { intros i Hi. apply (Permutation_in _ HL'). rewrite <- Hmap. apply in_map. exact Hi. }
      assert (Hsg_front : forall j, (j < m)%nat -> sg (N.of_nat j) = ch (N.of_nat j)).
      { intros j Hj. unfold sg, L'. rewrite Nat2N.id. rewrite app_nth1 by (unfold front; rewrite map_length, seq_length; exact Hj).
        unfold front. rewrite (nth_indep _ 0%N (ch (N.of_nat 0))) by (rewrite map_length, seq_length; exact Hj).
        rewrite (map_nth (fun j => ch (N.of_nat j)) (seq 0 m) 0%nat j). rewrite seq_nth by exact Hj. reflexivity. }
      (* the permuted decomposition *)
      set (P' := fun i => P (sg i)). set (w' := fun i => w (sg i)).
      assert (HP' : forall i, In i (layers k) ->
                 hd_error (P' i) = Some (g_src G) /\ last (P' i) (g_src G) = g_snk G /\ NoDup (P' i) /\ incl (pairs (P' i)) (g_edges G))
        by (intros i Hi; apply HP, Hsg_in, Hi).
      assert (Hw' : forall i, In i (layers k) -> (0 <= w' i <= f_wmax I)%Q /\ (f_int I = true -> is_int (w' i)))
        by (intros i Hi; apply Hw, Hsg_in, Hi).
      assert (Hflow' : forall e, In e (g_edges G) -> mem_edge e (f_ignore I) = false ->
                 (sumq (fun i => w' i * indq (mem_edge e (pairs (P' i)))) (layers k) == lookup_q e (f_flow I) 0)%Q).
      { intros e He Hig. rewrite <- (Hflow e He Hig). unfold w', P'.
        rewrite <- (sumq_map (fun i => (w i * indq (mem_edge e (pairs (P i))))%Q) sg (layers k)). rewrite Hmap.
        apply sumq_perm. exact HL'. }
      assert (Hcov' : constraints_covered B P').
      { intros n c Hn. destruct (Hcov n c Hn) as (i & Hi & Hle).
        assert (Hi' : In i (map sg (layers k))) by (rewrite Hmap; apply (Permutation_in _ (Permutation_sym HL')); exact Hi).
        apply in_map_iff in Hi'. destruct Hi' as (i' & E & Hi'). exists i'. split; [exact Hi'|]. unfold P'. rewrite E. exact Hle. }
      destruct (finite_choice (p_cons B)
                  (fun n c i => In i (layers k) /\
                     (cons_length B c * p_cov B <= sumq (fun e => elen B e * indq (mem_edge e (pairs (P' i)))) c)%Q)
                  Hcov') as (ch' & Hch').
      exists (asg P' w' ch'). apply sat_with_rows. split.
      + apply (kfd_complete_cons I P' w' ch' WF Hae HP' Hw' Hflow'); [|exact Hch'].
        intros c e Hc He. exact (proj2 (Hcons c e Hc He)).
      + unfold fix_rows. apply Forall_flat_map. intros [j S] HjS. rewrite Forall_map. apply Forall_forall. intros e He.
        destruct (in_zipn _ _ _ _ HjS) as (n & -> & _ & Hn). rewrite Nat.sub_0_r in Hn. cbn [fst snd] in *.
        unfold sat_row, mkrow. cbn [sns lhs rhs eval fst snd]. rewrite asg_edge. unfold on, P'.
        assert (Hnm : (n < m)%nat). { unfold m. apply (proj1 (nth_error_Some Ss n)). intros En. pose proof (eq_trans (eq_sym En) Hn) as Ebad. discriminate Ebad. }
        rewrite (Hsg_front n Hnm).
        destruct (Hch n S Hn) as [_ HS].
        assert (M : mem_edge (fst e, snd e) (pairs (P (ch (N.of_nat n)))) = true).
        { apply mem_edge_In. destruct e. apply HS. exact He. }
        rewrite M. cbn [indq]. ring.
  Qed.
End SafeFix.

(* ---- the LIVE route of the DAG models at the pinned commit: optimize_with_safety_as_subpath_constraints appends the safe
   lists to the subpath constraints (AbstractPathModelDAG: self.subpath_constraints += self.safe_lists).  Adding SAFE lists as
   constraints never changes feasibility of the k-model (coverage fraction <= 1, non-negative lengths). ---- *)
Definition add_cons (I : kfd_inst) (Ss : list (list PathEnc.edge)) : kfd_inst :=
  {| f_base := {| p_graph := p_graph (f_base I); p_k := p_k (f_base I); p_allow_empty := p_allow_empty (f_base I);
                  p_cons := p_cons (f_base I) ++ Ss; p_cov := p_cov (f_base I); p_len := p_len (f_base I) |};
     f_flow := f_flow I; f_ignore := f_ignore I; f_wmax := f_wmax I; f_int := f_int I |}.

Lemma sumq_all_on (g : PathEnc.edge -> Q) (S L : list PathEnc.edge) : incl S L ->
  (sumq (fun e => g e * indq (mem_edge e L)) S == sumq g S)%Q.
Proof.
  intros H. apply sumq_ext. intros e He. assert (M : mem_edge e L = true) by (apply mem_edge_In; apply H; exact He).
  rewrite M. cbn [indq]. ring.
Qed.

Lemma cons_length_sumq (B : path_inst) (c : list PathEnc.edge) : (cons_length B c == sumq (elen B) c)%Q.
Proof. unfold cons_length. induction c as [|e c IH]; cbn [fold_right sumq]; [reflexivity|rewrite IH; reflexivity]. Qed.

Section SafetyAsConstraints.
  Variable I : kfd_inst.
  Let B := f_base I.
  Let G := p_graph B.
  Let k := p_k B.
  Variable rank : node -> nat.
  Variable Rm : nat.
  Variable Ss : list (list PathEnc.edge).
  Hypothesis WF : wf_graph G.
  Hypothesis Hae : p_allow_empty B = false.
  Hypothesis Hrank : forall u v, In (u, v) (g_edges G) -> (rank u < rank v)%nat.
  Hypothesis HR : forall v, (rank v <= Rm)%nat.
  Hypothesis Hcons : forall c e, In c (p_cons B ++ Ss) -> In e c -> In e (g_edges G) /\ (0 <= elen B e)%Q.
  Hypothesis Hcov1 : (p_cov B <= 1)%Q.
  Hypothesis Hsafe : forall P w, decomposition I P w -> constraints_covered B P ->
      forall S, In S Ss -> exists i, In i (layers k) /\ incl S (pairs (P i)).

  Theorem safety_as_constraints_preserves_feasibility :
    (exists a, sat a (encode_kfd (add_cons I Ss))) <-> (exists a, sat a (encode_kfd I)).
  Proof.
    assert (Hc1 : forall c e, In c (p_cons B) -> In e c -> In e (g_edges G) /\ (0 <= elen B e)%Q)
      by (intros c e Hc He; apply (Hcons c e); [apply in_or_app; left; exact Hc|exact He]).
    rewrite (kfd_feasible_iff_cons (add_cons I Ss) rank Rm WF Hae Hrank HR Hcons).
    rewrite (kfd_feasible_iff_cons I rank Rm WF Hae Hrank HR Hc1).
    split.
    - intros (P & w & Hd & Hcc). exists P, w. split; [exact Hd|].
      intros n c Hn. apply (Hcc n c). cbn [add_cons f_base p_cons]. fold B. rewrite nth_error_app1; [exact Hn|].
      apply nth_error_Some. intros En. pose proof (eq_trans (eq_sym En) Hn) as Ebad. discriminate Ebad.
    - intros (P & w & Hd & Hcc). exists P, w. split; [exact Hd|].
      intros n c Hn. cbn [add_cons f_base p_cons] in Hn. fold B in Hn.
      destruct (Nat.lt_ge_cases n (length (p_cons B))) as [Hlt|Hge].
      + rewrite nth_error_app1 in Hn by exact Hlt. exact (Hcc n c Hn).
      + rewrite nth_error_app2 in Hn by exact Hge.
        assert (HcS : In c Ss) by (apply nth_error_In with (n - length (p_cons B))%nat; exact Hn).
        destruct (Hsafe P w Hd Hcc c HcS) as (i & Hi & Hincl). exists i. split; [exact Hi|].
        change (elen (f_base (add_cons I Ss))) with (elen B). change (p_cov (f_base (add_cons I Ss))) with (p_cov B).
        change (cons_length (f_base (add_cons I Ss)) c) with (cons_length B c).
        rewrite (sumq_all_on (elen B) c (pairs (P i)) Hincl), cons_length_sumq.
        assert (N0 : (0 <= sumq (elen B) c)%Q).
        { apply sumq_nonneg. intros e He. apply (Hcons c e); [apply in_or_app; right; exact HcS|exact He]. }
        nra.
  Qed.
End SafetyAsConstraints.
