(* Concrete instances of the cyclic error encoders (non-vacuity of the C07 / C08 walk theorems):
   the self-loop graph of WalkExamples (node x with a loop, additional start/end x), loop weight 2,
   k = 1, integer weights: one walk  source x x sink  of weight 1, error / slack 1. *)
From Coq Require Import List NArith ZArith QArith Lqa Bool Lia.
Import ListNotations.
From FP Require Import Lin Blocks PathEnc SatCheck WalkEncRows WalkEncRowsProofs WalkExamples WalkErrEnc.
Set Default Timeout 120.
Local Close Scope Q_scope.

Definition loop_err_inst : werr_inst :=
  {| x_graph := loopG; x_k := 1; x_flow := [((0, 0)%N, 2%Q)]; x_ignore := []; x_scale := []; x_int := true;
     x_cons := []; x_cov := 1%Q; x_opts := no_opts; x_safe_lists := []; x_fix := [] |}.

Definition loop_base_sol : list (var * Q) :=
  [ (evar (0, 0)%N 0%N, 1%Q); (evar (1, 0)%N 0%N, 1%Q); (evar (0, 2)%N 0%N, 1%Q);
    (svar (1, 0)%N 0%N, 1%Q); (svar (0, 2)%N 0%N, 1%Q);
    (Dist 1%N 0%N, 1%Q); (Dist 0%N 0%N, 2%Q); (Dist 2%N 0%N, 3%Q);
    (pvar (0, 0)%N 0%N, 1%Q); (W 0%N, 1%Q);
    (Bit (pvar (0, 0)%N 0%N) 0%N, 1%Q); (Comp (pvar (0, 0)%N 0%N) 0%N, 1%Q) ].

Definition loop_klae_sol : var -> Q := assign (loop_base_sol ++ [ (errvar (0, 0)%N, 1%Q) ]).
Lemma loop_klae_feasible : sat loop_klae_sol (encode_klae_cycles loop_err_inst).
Proof. apply sat_b_sound. vm_compute. reflexivity. Qed.

Definition loop_kmpe_sol : var -> Q :=
  assign (loop_base_sol ++ [ (Slack 0%N, 1%Q); (gvar (0, 0)%N 0%N, 1%Q);
                             (Bit (gvar (0, 0)%N 0%N) 0%N, 1%Q); (Comp (gvar (0, 0)%N 0%N) 0%N, 1%Q) ]).
Lemma loop_kmpe_feasible : sat loop_kmpe_sol (encode_kmpe_cycles loop_err_inst).
Proof. apply sat_b_sound. vm_compute. reflexivity. Qed.

Lemma loop_err_basic : x_basic loop_err_inst = [(0, 0)%N].
Proof. vm_compute. reflexivity. Qed.
