(* SolverWrapper bookkeeping as a state machine (C12): add_variables, set_objective (replace),
   queue_fix_variable / queue_set_var_lower_bound, optimize (= _apply_pending_bound_updates),
   get_values.  Columns are identified by their HiGHS index (position in the list). *)
From Coq Require Import List NArith ZArith QArith Bool Arith Lia.
Import ListNotations.
Local Close Scope Q_scope.

Record wcol := { wlb : Q; wub : Q; wcost : Q; wint : bool }.
Record wst := { wcols : list wcol; pfix : list (nat * Q); plb : list (nat * Q); woffset : Q; wmaxi : bool }.

Inductive op :=
| AddVars (bounds : list (Q * Q)) (isint : bool)       (* one column per entry, appended in order *)
| SetObjective (terms : list (nat * Q)) (const : Q) (maxi : bool)
| QueueFix (i : nat) (v : Q)
| QueueLb (i : nat) (v : Q)
| Optimize.

Fixpoint upd (cs : list wcol) (i : nat) (f : wcol -> wcol) : list wcol :=
  match cs, i with
  | [], _ => []
  | c :: r, O => f c :: r
  | c :: r, S j => c :: upd r j f
  end.

(* changeColBounds(idx, v, v) *)
Definition fixc (v : Q) (c : wcol) : wcol := {| wlb := v; wub := v; wcost := wcost c; wint := wint c |}.
(* changeColBounds(idx, lb, current upper bound) *)
Definition raisec (v : Q) (c : wcol) : wcol := {| wlb := v; wub := wub c; wcost := wcost c; wint := wint c |}.

(* _apply_pending_bound_updates: all queued fixes in queue order, then all queued lower bounds *)
Definition apply_pending (cs : list wcol) (fixes lbs : list (nat * Q)) : list wcol :=
  fold_left (fun cs iv => upd cs (fst iv) (raisec (snd iv))) lbs
    (fold_left (fun cs iv => upd cs (fst iv) (fixc (snd iv))) fixes cs).

Definition setcost (q : Q) (c : wcol) : wcol := {| wlb := wlb c; wub := wub c; wcost := q; wint := wint c |}.
Definition addcost (q : Q) (c : wcol) : wcol := setcost (wcost c + q)%Q c.

(* set_objective_without_solving: all costs reset to zero, then the expression's coefficients
   (duplicates added up), offset and sense replaced *)
Definition set_costs (cs : list wcol) (terms : list (nat * Q)) : list wcol :=
  fold_left (fun cs iv => upd cs (fst iv) (addcost (snd iv))) terms (map (setcost 0%Q) cs).

Definition step (s : wst) (o : op) : wst :=
  match o with
  | AddVars bs isint =>
      {| wcols := wcols s ++ map (fun b => {| wlb := fst b; wub := snd b; wcost := 0%Q; wint := isint |}) bs;
         pfix := pfix s; plb := plb s; woffset := woffset s; wmaxi := wmaxi s |}
  | SetObjective terms c m =>
      {| wcols := set_costs (wcols s) terms; pfix := pfix s; plb := plb s; woffset := c; wmaxi := m |}
  | QueueFix i v => {| wcols := wcols s; pfix := pfix s ++ [(i, v)]; plb := plb s; woffset := woffset s; wmaxi := wmaxi s |}
  | QueueLb i v => {| wcols := wcols s; pfix := pfix s; plb := plb s ++ [(i, v)]; woffset := woffset s; wmaxi := wmaxi s |}
  | Optimize => {| wcols := apply_pending (wcols s) (pfix s) (plb s); pfix := []; plb := []; woffset := woffset s; wmaxi := wmaxi s |}
  end.

Definition winit : wst := {| wcols := []; pfix := []; plb := []; woffset := 0%Q; wmaxi := false |}.
Definition run (ops : list op) : wst := fold_left step ops winit.

(* get_values(variables): each asked key with the value at its column index *)
Definition get_values {K} (all : list Q) (asked : list (K * nat)) : list (K * Q) :=
  map (fun kv => (fst kv, nth (snd kv) all 0%Q)) asked.

(* observable after every operation (what the correspondence reads back through getLp) *)
Definition observe (s : wst) : list (Q * Q * Q * bool) * Q * bool :=
  (map (fun c => (wlb c, wub c, wcost c, wint c)) (wcols s), woffset s, wmaxi s).
Definition trace (ops : list op) : list (list (Q * Q * Q * bool) * Q * bool) :=
  (fix go (s : wst) (ops : list op) :=
     match ops with
     | [] => []
     | o :: r => let s' := step s o in
                 match o with Optimize => observe s' :: go s' r | _ => go s' r end
     end) winit ops.
