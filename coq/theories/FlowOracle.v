(* A VERIFIED exhaustive oracle for integer flow decompositions of small DAG instances: does a list of at most k
   source-to-sink paths with non-negative INTEGER weights exist that explains the flow on every non-ignored edge and
   realises every subpath constraint?  Part 1: the weight search for a fixed list of paths. *)
From Coq Require Import List NArith ZArith QArith Qround Lqa Bool Arith Lia Permutation.
Import ListNotations.
From FP Require Import Lin PathEnc Euler EulerProofs1 PathEncComplete.
Set Default Timeout 60.
Local Close Scope Q_scope.
Local Open Scope Z_scope.

Definition indz (p : list node) (e : edge) : Z := if mem_edge e (pairs p) then 1 else 0.

(* flow explained on e by the paths with their weights *)
Fixpoint expl (sub : list (list node)) (ws : list Z) (e : edge) : Z :=
  match sub, ws with
  | p :: sub', w :: ws' => w * indz p e + expl sub' ws' e
  | _, _ => 0
  end.

Definition zrange (n : Z) : list Z := if n <? 0 then [] else map Z.of_nat (seq 0 (S (Z.to_nat n))).
Lemma zrange_In n w : In w (zrange n) <-> 0 <= w <= n.
Proof.
  unfold zrange. destruct (Z.ltb_spec n 0) as [Hn|Hn]; [split; [intros []|lia]|].
  rewrite in_map_iff. split.
  - intros (x & <- & Hx). apply in_seq in Hx. lia.
  - intros H. exists (Z.to_nat w). split; [lia|apply in_seq; lia].
Qed.

Section Search.
  Variable need : list edge.                 (* the non-ignored edges *)

  (* largest admissible weight of p given the residual: the least residual on a needed edge of p; 0 if p has none *)
  Definition ubw (r : edge -> Z) (p : list node) : Z :=
    match filter (fun e => mem_edge e (pairs p)) need with
    | [] => 0
    | e0 :: es => fold_right (fun e a => Z.min (r e) a) (r e0) es
    end.

  Lemma ubw_le r p e : In e need -> mem_edge e (pairs p) = true -> ubw r p <= r e.
  Proof.
    intros He M. unfold ubw. assert (Hin : In e (filter (fun e => mem_edge e (pairs p)) need)) by (apply filter_In; auto).
    destruct (filter (fun e => mem_edge e (pairs p)) need) as [|e0 es]; [destruct Hin|].
    destruct Hin as [->|Hin].
    - induction es as [|x es IH]; cbn [fold_right]; lia.
    - induction es as [|x es IH]; [destruct Hin|]. cbn [fold_right]. destruct Hin as [->|Hin]; [lia|]. specialize (IH Hin). lia.
  Qed.

  Lemma ubw_ge r p w : (forall e, In e need -> mem_edge e (pairs p) = true -> w <= r e) ->
    (exists e, In e need /\ mem_edge e (pairs p) = true) -> w <= ubw r p.
  Proof.
    intros H (e & He & M). unfold ubw.
    assert (Hall : forall x, In x (filter (fun e => mem_edge e (pairs p)) need) -> w <= r x)
      by (intros x Hx; apply filter_In in Hx; apply H; tauto).
    assert (Hin : In e (filter (fun e => mem_edge e (pairs p)) need)) by (apply filter_In; auto).
    destruct (filter (fun e => mem_edge e (pairs p)) need) as [|e0 es]; [destruct Hin|].
    assert (H0 : w <= r e0) by (apply Hall; left; reflexivity).
    assert (Hes : forall x, In x es -> w <= r x) by (intros x Hx; apply Hall; right; exact Hx).
    clear - H0 Hes. induction es as [|x es IH]; cbn [fold_right]; [exact H0|].
    pose proof (Hes x (or_introl eq_refl)). specialize (IH (fun y Hy => Hes y (or_intror Hy))). lia.
  Qed.

  Fixpoint wsearch (sub : list (list node)) (r : edge -> Z) : bool :=
    match sub with
    | [] => forallb (fun e => r e =? 0) need
    | p :: sub' => existsb (fun w => wsearch sub' (fun e => r e - w * indz p e)) (zrange (ubw r p))
    end.

  Lemma indz_01 p e : 0 <= indz p e <= 1. Proof. unfold indz. destruct (mem_edge e (pairs p)); lia. Qed.

  Lemma expl_nonneg sub : forall ws e, Forall (fun w => 0 <= w) ws -> 0 <= expl sub ws e.
  Proof.
    induction sub as [|p sub IH]; intros ws e Hw; [cbn; lia|]. destruct ws as [|w ws]; [cbn; lia|].
    inversion Hw as [|? ? H0 Hw']; subst. cbn [expl]. specialize (IH ws e Hw'). pose proof (indz_01 p e). nia.
  Qed.

  Theorem wsearch_correct : forall sub r, (forall e, In e need -> 0 <= r e) ->
    (wsearch sub r = true <->
     exists ws, length ws = length sub /\ Forall (fun w => 0 <= w) ws /\ forall e, In e need -> expl sub ws e = r e).
  Proof.
    induction sub as [|p sub IH]; intros r Hr.
    - cbn [wsearch]. rewrite forallb_forall. split.
      + intros H. exists []. split; [reflexivity|]. split; [constructor|]. intros e He. specialize (H e He). apply Z.eqb_eq in H. cbn. lia.
      + intros (ws & Hl & _ & He) e Hin. apply Z.eqb_eq. rewrite <- (He e Hin). destruct ws; reflexivity.
    - cbn [wsearch]. rewrite existsb_exists. split.
      + intros (w & Hw & Hs). apply zrange_In in Hw.
        assert (Hr' : forall e, In e need -> 0 <= r e - w * indz p e).
        { intros e He. unfold indz. destruct (mem_edge e (pairs p)) eqn:M; [|specialize (Hr e He); lia].
          pose proof (ubw_le r p e He M). lia. }
        apply (IH _ Hr') in Hs. destruct Hs as (ws & Hl & Hnn & He).
        exists (w :: ws). split; [cbn; lia|]. split; [constructor; [lia|exact Hnn]|].
        intros e Hin. cbn [expl]. rewrite (He e Hin). lia.
      + intros (ws & Hl & Hnn & He). destruct ws as [|w ws]; [discriminate|]. inversion Hnn as [|? ? Hw0 Hnn']; subst.
        cbn [length] in Hl. injection Hl as Hl.
        destruct (existsb (fun e => mem_edge e (pairs p)) need) eqn:Ex.
        * (* p carries a needed edge: w itself is within the range *)
          apply existsb_exists in Ex.
          assert (Hub : w <= ubw r p).
          { apply ubw_ge; [|exact Ex]. intros e Hin M. rewrite <- (He e Hin). cbn [expl]. unfold indz. rewrite M.
            pose proof (expl_nonneg sub ws e Hnn'). lia. }
          exists w. split; [apply zrange_In; lia|].
          apply IH.
          -- intros e Hin. rewrite <- (He e Hin). cbn [expl]. pose proof (expl_nonneg sub ws e Hnn'). lia.
          -- exists ws. split; [exact Hl|]. split; [exact Hnn'|]. intros e Hin. rewrite <- (He e Hin). cbn [expl]. lia.
        * (* p carries no needed edge: its weight is irrelevant, take 0 *)
          assert (Hno : forall e, In e need -> indz p e = 0).
          { intros e Hin. unfold indz. destruct (mem_edge e (pairs p)) eqn:M; [|reflexivity].
            assert (existsb (fun e => mem_edge e (pairs p)) need = true) by (apply existsb_exists; exists e; auto). congruence. }
          exists 0. split.
          -- apply zrange_In. unfold ubw.
             assert (F : filter (fun e => mem_edge e (pairs p)) need = []).
             { destruct (filter (fun e => mem_edge e (pairs p)) need) as [|x l] eqn:F; [reflexivity|exfalso].
               assert (Hx : In x (filter (fun e => mem_edge e (pairs p)) need)) by (rewrite F; left; reflexivity).
               apply filter_In in Hx. destruct Hx as [Hx M]. specialize (Hno x Hx). unfold indz in Hno. rewrite M in Hno. discriminate. }
             rewrite F. lia.
          -- apply IH.
             ++ intros e Hin. specialize (Hr e Hin). lia.
             ++ exists ws. split; [exact Hl|]. split; [exact Hnn'|]. intros e Hin. rewrite <- (He e Hin). cbn [expl]. rewrite (Hno e Hin). lia.
  Qed.
End Search.

(* ---- moving a solution from one list of paths to another one that contains all its paths ---- *)
Lemma list_node_dec : forall x y : list node, {x = y} + {x <> y}.
Proof. apply list_eq_dec. apply N.eq_dec. Qed.

Lemma expl_zeros T e : expl T (repeat 0 (length T)) e = 0.
Proof. induction T as [|q T IH]; [reflexivity|]. cbn [length repeat expl]. rewrite IH. lia. Qed.

Lemma add_weight : forall T ws p w, length ws = length T -> In p T -> 0 <= w -> Forall (fun x => 0 <= x) ws ->
  exists ws', length ws' = length T /\ Forall (fun x => 0 <= x) ws' /\ forall e, expl T ws' e = expl T ws e + w * indz p e.
Proof.
  induction T as [|q T IH]; intros ws p w Hl Hin Hw Hnn; [destruct Hin|].
  destruct ws as [|x ws0]; [discriminate|]. inversion Hnn as [|? ? Hx Hnn0]; subst. cbn [length] in Hl. injection Hl as Hl.
  destruct (list_node_dec q p) as [->|Hne].
  - exists ((x + w) :: ws0). split; [cbn; lia|]. split; [constructor; [lia|exact Hnn0]|]. intros e. cbn [expl]. lia.
  - destruct Hin as [E|Hin]; [contradiction|]. destruct (IH ws0 p w Hl Hin Hw Hnn0) as (ws1 & L1 & N1 & E1).
    exists (x :: ws1). split; [cbn; lia|]. split; [constructor; assumption|]. intros e. cbn [expl]. rewrite E1. lia.
Qed.

Lemma transfer_solution : forall L T ws, length ws = length L -> Forall (fun x => 0 <= x) ws -> incl L T ->
  exists ws', length ws' = length T /\ Forall (fun x => 0 <= x) ws' /\ forall e, expl T ws' e = expl L ws e.
Proof.
  induction L as [|p L IH]; intros T ws Hl Hnn Hin.
  - exists (repeat 0 (length T)). split; [apply repeat_length|]. split; [apply Forall_forall; intros x Hx; apply repeat_spec in Hx; lia|].
    intros e. rewrite expl_zeros. destruct ws; reflexivity.
  - destruct ws as [|w ws0]; [discriminate|]. inversion Hnn as [|? ? Hw Hnn0]; subst. cbn [length] in Hl. injection Hl as Hl.
    destruct (IH T ws0 Hl Hnn0 (fun x Hx => Hin x (or_intror Hx))) as (ws1 & L1 & N1 & E1).
    destruct (add_weight T ws1 p w L1 (Hin p (or_introl eq_refl)) Hw N1) as (ws2 & L2 & N2 & E2).
    exists ws2. split; [exact L2|]. split; [exact N2|]. intros e. rewrite E2, E1. cbn [expl]. lia.
Qed.

(* weights of paths without a needed edge can be set to 0 *)
Fixpoint zero_unneeded (need : list edge) (sub : list (list node)) (ws : list Z) : list Z :=
  match sub, ws with
  | p :: sub', w :: ws' => (if existsb (fun e => mem_edge e (pairs p)) need then w else 0) :: zero_unneeded need sub' ws'
  | _, _ => []
  end.

Lemma zero_unneeded_spec need : forall sub ws, length ws = length sub -> Forall (fun x => 0 <= x) ws ->
  length (zero_unneeded need sub ws) = length sub /\ Forall (fun x => 0 <= x) (zero_unneeded need sub ws) /\
  (forall e, In e need -> expl sub (zero_unneeded need sub ws) e = expl sub ws e) /\
  (forall n, nth n (zero_unneeded need sub ws) 0 <> 0 ->
     exists e, In e need /\ mem_edge e (pairs (nth n sub [])) = true /\ nth n (zero_unneeded need sub ws) 0 = nth n ws 0).
Proof.
  induction sub as [|p sub IH]; intros ws Hl Hnn.
  - destruct ws; [|discriminate]. cbn. repeat split; try constructor. intros n H. destruct n; contradiction.
  - destruct ws as [|w ws0]; [discriminate|]. inversion Hnn as [|? ? Hw Hnn0]; subst. cbn [length] in Hl. injection Hl as Hl.
    destruct (IH ws0 Hl Hnn0) as (L1 & N1 & E1 & B1). cbn [zero_unneeded]. split; [cbn; lia|]. split; [|split].
    + constructor; [destruct (existsb (fun e => mem_edge e (pairs p)) need); lia|exact N1].
    + intros e He. cbn [expl]. rewrite (E1 e He). destruct (existsb (fun e => mem_edge e (pairs p)) need) eqn:Ex; [reflexivity|].
      unfold indz. destruct (mem_edge e (pairs p)) eqn:M; [|lia].
      assert (existsb (fun e => mem_edge e (pairs p)) need = true) by (apply existsb_exists; exists e; auto). congruence.
    + intros n H. destruct n as [|n]; cbn [nth] in *.
      * destruct (existsb (fun e => mem_edge e (pairs p)) need) eqn:Ex; [|contradiction].
        apply existsb_exists in Ex. destruct Ex as (e & He & M). exists e. auto.
      * exact (B1 n H).
Qed.

(* sum over the first k positions = expl, when the lists are no longer than k *)
Definition zsum_seq (f : nat -> Z) (l : list nat) : Z := fold_right (fun n a => f n + a) 0 l.
Lemma zsum_seq_ext f g l : (forall n, In n l -> f n = g n) -> zsum_seq f l = zsum_seq g l.
Proof. induction l as [|n l IH]; intros H; [reflexivity|]. cbn [zsum_seq fold_right]. fold (zsum_seq f l) (zsum_seq g l). rewrite (H n (or_introl eq_refl)), IH; [reflexivity|]. intros m Hm. apply H. right. exact Hm. Qed.
Lemma zsum_seq_zero f l : (forall n, In n l -> f n = 0) -> zsum_seq f l = 0.
Proof. induction l as [|n l IH]; intros H; [reflexivity|]. cbn [zsum_seq fold_right]. fold (zsum_seq f l). rewrite (H n (or_introl eq_refl)), IH; [reflexivity|]. intros m Hm. apply H. right. exact Hm. Qed.

Lemma expl_as_sum_shift (p0 : list node) e : forall sub ws s k, length ws = length sub -> (length sub <= k)%nat ->
  zsum_seq (fun n => nth (n - s) ws 0 * indz (nth (n - s) sub p0) e) (seq s k) = expl sub ws e.
Proof.
  induction sub as [|p sub IH]; intros ws s k Hl Hk.
  - destruct ws; [|discriminate]. cbn [expl]. apply zsum_seq_zero. intros n _. destruct (n - s)%nat; cbn; lia.
  - destruct ws as [|w ws0]; [discriminate|]. cbn [length] in *. injection Hl as Hl. destruct k as [|k]; [lia|].
    cbn [seq zsum_seq fold_right]. fold (zsum_seq (fun n => nth (n - s) (w :: ws0) 0 * indz (nth (n - s) (p :: sub) p0) e) (seq (S s) k)).
    rewrite Nat.sub_diag. cbn [nth expl]. f_equal.
    rewrite <- (IH ws0 (S s) k Hl ltac:(lia)). apply zsum_seq_ext. intros n Hn. apply in_seq in Hn.
    replace (n - s)%nat with (S (n - S s)) by lia. reflexivity.
Qed.
Lemma expl_as_sum (p0 : list node) e sub ws k : length ws = length sub -> (length sub <= k)%nat ->
  zsum_seq (fun n => nth n ws 0 * indz (nth n sub p0) e) (seq 0 k) = expl sub ws e.
Proof.
  intros Hl Hk. rewrite <- (expl_as_sum_shift p0 e sub ws 0%nat k Hl Hk). apply zsum_seq_ext. intros n _. rewrite Nat.sub_0_r. reflexivity.
Qed.

(* ---- the oracle ---- *)
From FP Require Import Blocks BlocksProofs Aug AugProofs EulerProofs2 DagDecode PathEncProofs PathCoverComplete CoverOracle.
Local Close Scope Q_scope.
Local Open Scope Z_scope.

Definition fz (I : kfd_inst) (e : edge) : Z := Qfloor (lookup_q e (f_flow I) 0%Q).
Definition need_of (I : kfd_inst) : list edge :=
  filter (fun e => negb (mem_edge e (f_ignore I))) (g_edges (p_graph (f_base I))).

Definition fd_exists_b (I : kfd_inst) (k : nat) : bool :=
  let ps := all_paths (p_graph (f_base I)) in
  match ps with
  | [] => false
  | _ => existsb (fun sub => wsearch (need_of I) sub (fz I) && cons_sub (f_base I) sub) (sublists_upto k ps)
  end.

Lemma Qfloor_int q : is_int q -> (inject_Z (Qfloor q) == q)%Q.
Proof. intros (z & Hz). rewrite (Qfloor_comp _ _ Hz), Qfloor_Z. symmetry. exact Hz. Qed.

Lemma nth_nonneg (ws : list Z) n : Forall (fun x => 0 <= x) ws -> 0 <= nth n ws 0.
Proof. intros H. revert n. induction H as [|x l Hx H IH]; intros n; destruct n; cbn; try lia. apply IH. Qed.

Lemma expl_ge_nth (p0 : list node) e : forall sub ws n, length ws = length sub -> Forall (fun x => 0 <= x) ws ->
  nth n ws 0 * indz (nth n sub p0) e <= expl sub ws e.
Proof.
  induction sub as [|p sub IH]; intros ws n Hl Hnn.
  - destruct ws; [|discriminate]. destruct n; cbn; lia.
  - destruct ws as [|w ws0]; [discriminate|]. inversion Hnn as [|? ? Hw Hnn0]; subst. cbn [length] in Hl. injection Hl as Hl.
    cbn [expl]. pose proof (expl_nonneg sub ws0 e Hnn0). pose proof (indz_01 p e). destruct n as [|n]; cbn [nth].
    + nia.
    + specialize (IH ws0 n Hl Hnn0). nia.
Qed.

Lemma sumq_layers_zsum (g : nat -> Z) k :
  (sumq (fun i => inject_Z (g (N.to_nat i))) (layers k) == inject_Z (zsum_seq g (seq 0 k)))%Q.
Proof.
  unfold layers. rewrite sumq_map. induction (seq 0 k) as [|n l IH]; [reflexivity|].
  cbn [sumq zsum_seq fold_right]. fold (zsum_seq g l). rewrite inject_Z_plus, IH, Nat2N.id. reflexivity.
Qed.

Lemma indq_indz p e : (indq (mem_edge e (pairs p)) == inject_Z (indz p e))%Q.
Proof. unfold indz. destruct (mem_edge e (pairs p)); reflexivity. Qed.

Lemma expl_map {A} (P : A -> list node) (z : A -> Z) e (l : list A) :
  expl (map P l) (map z l) e = fold_right (fun i a => z i * indz (P i) e + a) 0 l.
Proof. induction l as [|i l IH]; [reflexivity|]. cbn [map expl fold_right]. rewrite IH. reflexivity. Qed.

Section FdOracle.
  Variable I : kfd_inst.
  Let B := f_base I.
  Let G := p_graph B.
  Let k := p_k B.
  Variable rank : node -> nat.
  Hypothesis WF : wf_graph G.
  Hypothesis Hrank : forall u v, In (u, v) (g_edges G) -> (rank u < rank v)%nat.
  Hypothesis Hk : (1 <= k)%nat.
  Hypothesis Hint : f_int I = true.
  (* the flow on the non-ignored edges is a non-negative integer not above the weight bound *)
  Hypothesis Hflow : forall e, In e (need_of I) ->
      is_int (lookup_q e (f_flow I) 0%Q) /\ (0 <= lookup_q e (f_flow I) 0 <= f_wmax I)%Q.
  Hypothesis Hwmax : (0 <= f_wmax I)%Q.

  Lemma fz_spec e : In e (need_of I) -> (inject_Z (fz I e) == lookup_q e (f_flow I) 0)%Q /\ 0 <= fz I e.
  Proof.
    intros He. destruct (Hflow e He) as [Hi [H0 _]]. unfold fz. split; [apply Qfloor_int; exact Hi|].
    pose proof (Qfloor_int _ Hi) as E. rewrite <- E in H0. change 0%Q with (inject_Z 0) in H0. rewrite <- Zle_Qle in H0. exact H0.
  Qed.

  Lemma need_in e : In e (need_of I) <-> In e (g_edges G) /\ mem_edge e (f_ignore I) = false.
  Proof. unfold need_of. rewrite filter_In, negb_true_iff. reflexivity. Qed.

  Theorem fd_exists_b_correct :
    fd_exists_b I k = true <-> exists P w, decomposition I P w /\ constraints_covered B P.
  Proof.
    unfold fd_exists_b. fold B G. split.
    - destruct (all_paths G) as [|p0 ps0] eqn:EP; [discriminate|]. intros Hex. apply existsb_exists in Hex.
      destruct Hex as (sub & Hsub & Hok). apply andb_true_iff in Hok. destruct Hok as [Hws Hcons].
      destruct (sublists_incl _ _ _ Hsub) as [Hincl Hlen]. rewrite <- EP in Hincl.
      apply (wsearch_correct (need_of I) sub (fz I) (fun e He => proj2 (fz_spec e He))) in Hws.
      destruct Hws as (ws0 & Hl0 & Hnn0 & He0).
      destruct (zero_unneeded_spec (need_of I) sub ws0 Hl0 Hnn0) as (Hl & Hnn & Hez & Hbd).
      set (ws := zero_unneeded (need_of I) sub ws0) in *.
      assert (Hp0 : In p0 (all_paths G)) by (rewrite EP; left; reflexivity).
      set (P := fun i : N => nth (N.to_nat i) sub p0). set (w := fun i : N => inject_Z (nth (N.to_nat i) ws 0)).
      assert (HPin : forall i, In (P i) (all_paths G)).
      { intros i. unfold P. destruct (Nat.lt_ge_cases (N.to_nat i) (length sub)) as [Hlt|Hge].
        - apply Hincl. apply nth_In. exact Hlt.
        - rewrite nth_overflow by exact Hge. exact Hp0. }
      exists P, w. split; [unfold decomposition; fold B G k; split; [|split]|].
      + intros i _. exact (all_paths_sound B rank Hrank (P i) (HPin i)).
      + intros i _. unfold w. split; [split|].
        * change 0%Q with (inject_Z 0). rewrite <- Zle_Qle. apply nth_nonneg. exact Hnn.
        * destruct (Z.eq_dec (nth (N.to_nat i) ws 0) 0) as [E|Hne]; [rewrite E; exact Hwmax|].
          destruct (Hbd _ Hne) as (e & He & M & _).
          pose proof (expl_ge_nth p0 e sub ws (N.to_nat i) Hl Hnn) as Hge.
          assert (Ei : indz (nth (N.to_nat i) sub p0) e = 1).
          { unfold indz. destruct (Nat.lt_ge_cases (N.to_nat i) (length sub)) as [Hlt|Hge'].
            - rewrite (nth_indep sub p0 [] Hlt). rewrite M. reflexivity.
            - exfalso. apply Hne. apply nth_overflow. rewrite Hl. exact Hge'. }
          rewrite Ei, Z.mul_1_r, (Hez e He), (He0 e He) in Hge.
          destruct (fz_spec e He) as [Efz _]. destruct (Hflow e He) as [_ [_ Hub]].
          rewrite <- Efz in Hub. rewrite Zle_Qle in Hge. lra.
        * intros _. eexists. reflexivity.
      + intros e He Hig. assert (Hn : In e (need_of I)) by (apply need_in; split; assumption).
        destruct (fz_spec e Hn) as [Efz _]. rewrite <- Efz, <- (He0 e Hn), <- (Hez e Hn).
        fold ws. rewrite <- (expl_as_sum p0 e sub ws k Hl ltac:(lia)).
        rewrite <- (sumq_layers_zsum (fun n => nth n ws 0 * indz (nth n sub p0) e) k).
        apply sumq_ext. intros i _. unfold w, P. rewrite indq_indz, <- inject_Z_mult. reflexivity.
      + intros n c Hn. unfold cons_sub in Hcons. rewrite forallb_forall in Hcons.
        specialize (Hcons c (nth_error_In _ _ Hn)). apply existsb_exists in Hcons. destruct Hcons as (p & Hp & R).
        destruct (In_nth sub p p0 Hp) as (j & Hj & Ej).
        exists (N.of_nat j). split; [apply in_layers; exists j; split; [lia|reflexivity]|].
        unfold P. rewrite Nat2N.id, Ej. unfold path_realises in R. apply Qle_bool_iff in R. exact R.
    - intros (P & w & (HP & Hw & Hf) & Hcc). fold B G k in HP, Hw, Hf.
      assert (H0 : In 0%N (layers k)) by (apply in_layers; exists 0%nat; split; [lia|reflexivity]).
      assert (Hall : forall i, In i (layers k) -> In (P i) (all_paths G)).
      { intros i Hi. destruct (HP i Hi) as (Hh & Hl & ND & Hin). exact (path_in_all B WF Hk (P i) Hh Hl ND Hin). }
      destruct (all_paths G) as [|p0 ps0] eqn:EP; [destruct (Hall 0%N H0)|]. rewrite <- EP in *.
      set (L := map P (layers k)). set (zs := map (fun i => Qfloor (w i)) (layers k)).
      assert (HzsL : length zs = length L) by (unfold zs, L; rewrite !map_length; reflexivity).
      assert (Hzsnn : Forall (fun x => 0 <= x) zs).
      { unfold zs. rewrite Forall_map. apply Forall_forall. intros i Hi. destruct (Hw i Hi) as [[W0 _] Wi].
        pose proof (Qfloor_int _ (Wi Hint)) as E. rewrite <- E in W0. change 0%Q with (inject_Z 0) in W0. rewrite <- Zle_Qle in W0. exact W0. }
      assert (HexplL : forall e, In e (need_of I) -> expl L zs e = fz I e).
      { intros e He. apply need_in in He. destruct He as [HeE Hig].
        assert (Hn : In e (need_of I)) by (apply need_in; split; assumption).
        destruct (fz_spec e Hn) as [Efz _]. apply inject_Z_inj_eq. rewrite Efz, <- (Hf e HeE Hig).
        unfold L, zs. rewrite (expl_map P (fun i => Qfloor (w i)) e (layers k)).
        assert (Hgen : forall l, incl l (layers k) ->
                  (inject_Z (fold_right (fun i a => (Qfloor (w i) * indz (P i) e + a)%Z) 0%Z l) ==
                   sumq (fun i => w i * indq (mem_edge e (pairs (P i)))) l)%Q).
        { induction l as [|i l IHl]; intros Hl; [reflexivity|]. cbn [fold_right sumq].
          rewrite inject_Z_plus, inject_Z_mult, IHl by (intros x Hx; apply Hl; right; exact Hx).
          destruct (Hw i (Hl i (or_introl eq_refl))) as [_ Wi]. rewrite (Qfloor_int _ (Wi Hint)), indq_indz. reflexivity. }
        apply Hgen. intros x Hx. exact Hx. }
      destruct (sublists_complete list_node_dec (all_paths G) k (nodup list_node_dec L)) as (sub & Hsub & Hmem).
      + apply NoDup_nodup.
      + intros p Hp. apply nodup_In in Hp. unfold L in Hp. apply in_map_iff in Hp. destruct Hp as (i & <- & Hi). exact (Hall i Hi).
      + assert (Hle : (length (nodup list_node_dec L) <= length L)%nat).
        { apply NoDup_incl_length; [apply NoDup_nodup|]. intros p Hp. apply nodup_In in Hp. exact Hp. }
        unfold L in Hle at 2. rewrite map_length in Hle. unfold layers in Hle. rewrite map_length, seq_length in Hle. exact Hle.
      + assert (HLsub : incl L sub) by (intros p Hp; apply Hmem; apply nodup_In; exact Hp).
        destruct (transfer_solution L sub zs HzsL Hzsnn HLsub) as (ws & Hl & Hnn & He).
        apply existsb_exists. exists sub. split; [exact Hsub|]. apply andb_true_iff. split.
        * apply (wsearch_correct (need_of I) sub (fz I) (fun e He' => proj2 (fz_spec e He'))).
          exists ws. split; [exact Hl|]. split; [exact Hnn|]. intros e Hin. rewrite He. exact (HexplL e Hin).
        * unfold cons_sub. apply forallb_forall. intros c Hc. destruct (In_nth_error _ _ Hc) as (n & Hn).
          destruct (Hcc n c Hn) as (i & Hi & R). apply existsb_exists. exists (P i). split.
          -- apply HLsub. unfold L. apply in_map. exact Hi.
          -- unfold path_realises. apply Qle_bool_iff. exact R.
  Qed.
End FdOracle.

(* least k in 1..kmax for which an integer decomposition exists *)
Fixpoint first_fd (I : kfd_inst) (k : nat) (todo : nat) : option nat :=
  match todo with
  | O => None
  | S n => if fd_exists_b I k then Some k else first_fd I (S k) n
  end.
Definition min_fd (I : kfd_inst) (kmax : nat) : option nat := first_fd I 1 kmax.

Definition set_k_fd (I : kfd_inst) (k : nat) : kfd_inst :=
  {| f_base := set_k (f_base I) k; f_flow := f_flow I; f_ignore := f_ignore I; f_wmax := f_wmax I; f_int := f_int I |}.

Lemma first_fd_spec I : forall n k0,
  match first_fd I k0 n with
  | Some k => (k0 <= k < k0 + n)%nat /\ fd_exists_b I k = true /\ forall j, (k0 <= j < k)%nat -> fd_exists_b I j = false
  | None => forall j, (k0 <= j < k0 + n)%nat -> fd_exists_b I j = false
  end.
Proof.
  induction n as [|n IH]; intros k0; cbn [first_fd]; [intros j Hj; lia|].
  destruct (fd_exists_b I k0) eqn:C.
  - split; [lia|]. split; [exact C|]. intros j Hj. lia.
  - specialize (IH (S k0)). destruct (first_fd I (S k0) n) as [k|].
    + destruct IH as (Hr & Hc & Hm). split; [lia|]. split; [exact Hc|]. intros j Hj.
      destruct (Nat.eq_dec j k0) as [->|Hne]; [exact C|apply Hm; lia].
    + intros j Hj. destruct (Nat.eq_dec j k0) as [->|Hne]; [exact C|apply IH; lia].
Qed.

Theorem min_fd_correct (I : kfd_inst) (rank : node -> nat) (kmax : nat) :
  wf_graph (p_graph (f_base I)) -> (forall u v, In (u, v) (g_edges (p_graph (f_base I))) -> (rank u < rank v)%nat) ->
  f_int I = true ->
  (forall e, In e (need_of I) -> is_int (lookup_q e (f_flow I) 0%Q) /\ (0 <= lookup_q e (f_flow I) 0 <= f_wmax I)%Q) ->
  (0 <= f_wmax I)%Q ->
  match min_fd I kmax with
  | Some k => (1 <= k <= kmax)%nat /\
              (exists P w, decomposition (set_k_fd I k) P w /\ constraints_covered (f_base (set_k_fd I k)) P) /\
              (forall j, (1 <= j < k)%nat -> ~ exists P w, decomposition (set_k_fd I j) P w /\ constraints_covered (f_base (set_k_fd I j)) P)
  | None => forall j, (1 <= j <= kmax)%nat -> ~ exists P w, decomposition (set_k_fd I j) P w /\ constraints_covered (f_base (set_k_fd I j)) P
  end.
Proof.
  intros WF Hrank Hint Hflow Hwmax. unfold min_fd. pose proof (first_fd_spec I kmax 1) as H.
  assert (Hiff : forall j, (1 <= j)%nat -> (fd_exists_b I j = true <->
                   exists P w, decomposition (set_k_fd I j) P w /\ constraints_covered (f_base (set_k_fd I j)) P)).
  { intros j Hj. change (fd_exists_b I j) with (fd_exists_b (set_k_fd I j) j).
    exact (fd_exists_b_correct (set_k_fd I j) rank WF Hrank Hj Hint Hflow Hwmax). }
  destruct (first_fd I 1 kmax) as [k|].
  - destruct H as (Hr & Hc & Hm). split; [lia|]. split; [apply Hiff; [lia|exact Hc]|].
    intros j Hj Hex. apply Hiff in Hex; [|lia]. rewrite (Hm j ltac:(lia)) in Hex. discriminate.
  - intros j Hj Hex. apply Hiff in Hex; [|lia]. rewrite (H j ltac:(lia)) in Hex. discriminate.
Qed.

(* non-vacuity: the diamond with flows 2 / 3 and a subpath constraint needs two paths *)
From FP Require Import PathEncExample.
Example min_fd_example : min_fd (exI 0) 4 = Some 2%nat.
Proof. vm_compute. reflexivity. Qed.
