(* kMinPathError: the bounds of the LP on weights and slacks (w_max) lose nothing.  Every choice of k paths
   with arbitrary non-negative weights and slacks of the requested type that satisfies the path-error
   inequality can be clipped (weights at max f, slacks at w_max) to a choice the LP represents, with no larger
   slack sum.  Hence the objective of an optimal satisfying assignment is the minimum of the slack sum over
   ALL such choices (kmpe_optimal_unbounded). *)
From Coq Require Import List NArith ZArith QArith Qabs Qround Lqa Bool Arith Lia Permutation.
Import ListNotations.
From FP Require Import Lin Blocks BlocksProofs PathEnc Aug AugProofs Euler EulerProofs1 EulerProofs2 EulerProofs4 DagDecode
                       PathEncProofs PathEncComplete ErrEnc ErrEncProofs ErrEncProofs3 ErrEncComplete ErrEncOptimal ErrEncKlae.
Set Default Timeout 120.
Local Open Scope Q_scope.

Definition kmpe_choice_unbounded (M : kmpe_inst) (P : N -> list node) (w sl : N -> Q) : Prop :=
  let I := m_err M in
  st_paths (eG I) (eK I) P /\
  (forall i, In i (layers (eK I)) ->
     0 <= w i /\ (e_int I = true -> is_int (w i)) /\ 0 <= sl i /\ (e_int I = true -> is_int (sl i))) /\
  (forall e, In e (basic_edges I) ->
     Qabs (scale_of I e * (flow_of I e - sumq (fun i => w i * onq P i e) (layers (eK I))))
     <= sumq (fun i => sl i * onq P i e) (layers (eK I))) /\
  constraints_covered (e_base I) P.

(* documented domain of the weights: non-negative, scalings in [0,1], integer type only with integer weights,
   at least one non-ignored weighted edge, k >= 1 *)
Definition err_domain (I : err_inst) : Prop :=
  (forall e, In e (basic_edges I) -> 0 <= flow_of I e /\ 0 <= scale_of I e <= 1 /\ (e_int I = true -> is_int (flow_of I e))) /\
  basic_edges I <> [] /\ (1 <= eK I)%nat.

Lemma is_int_qmax p q : is_int p -> is_int q -> is_int (qmax p q).
Proof. intros Hp Hq. unfold qmax. destruct (Qle_bool p q); assumption. Qed.

Lemma w_max_int I : e_given I = None -> e_int I = true -> is_int (w_max I).
Proof.
  intros Hg Hi. unfold w_max. rewrite Hg. apply is_int_qmax; [|exists 0%Z; reflexivity].
  apply is_int_mult; [eexists; reflexivity|]. unfold cast. rewrite Hi. eexists; reflexivity.
Qed.

Lemma kmpe_clip_core (I : err_inst) (P : N -> list node) (w sl : N -> Q) :
  e_given I = None -> err_domain I ->
  (forall i, In i (layers (eK I)) ->
     0 <= w i /\ (e_int I = true -> is_int (w i)) /\ 0 <= sl i /\ (e_int I = true -> is_int (sl i))) ->
  (forall e, In e (basic_edges I) ->
     Qabs (scale_of I e * (flow_of I e - sumq (fun i => w i * onq P i e) (layers (eK I))))
     <= sumq (fun i => sl i * onq P i e) (layers (eK I))) ->
  let w' := fun i => qmin (w i) (max_flow I) in let sl' := fun i => qmin (sl i) (w_max I) in
  (forall i, In i (layers (eK I)) ->
     0 <= w' i <= w_max I /\ (e_int I = true -> is_int (w' i)) /\
     0 <= sl' i <= w_max I /\ (e_int I = true -> is_int (sl' i))) /\
  (forall e, In e (basic_edges I) ->
     Qabs (scale_of I e * (flow_of I e - sumq (fun i => w' i * onq P i e) (layers (eK I))))
     <= sumq (fun i => sl' i * onq P i e) (layers (eK I))) /\
  sumq sl' (layers (eK I)) <= sumq sl (layers (eK I)).
Proof.
  intros Hg (Hfs & Hne & Hk) Hw Herr w' sl'.
  destruct (max_flow_in I Hne) as (em & Hem & Emax).
  assert (Hmint : e_int I = true -> is_int (max_flow I)) by (rewrite Emax; apply (Hfs em Hem)).
  assert (Hcast : cast (e_int I) (max_flow I) == max_flow I) by (apply cast_int_id; exact Hmint).
  assert (Hm0 : 0 <= max_flow I) by (rewrite Emax; apply (Hfs em Hem)).
  assert (Hmw : max_flow I <= w_max I).
  { pose proof (w_max_ge I) as HW. rewrite Hcast in HW.
    assert (H1 : 1 <= inject_Z (Z.of_nat (eK I))) by (change 1 with (inject_Z 1); rewrite <- Zle_Qle; lia).
    assert (H2 : 0 <= (inject_Z (Z.of_nat (eK I)) - 1) * max_flow I) by (apply Qmult_le_0_compat; lra). lra. }
  assert (HU0 : 0 <= w_max I) by lra.
  destruct (wmax_no_loss I w (xz P) (fun e He => proj1 (Hfs e He)) (fun i Hi => proj1 (Hw i Hi))
              (fun i e _ _ => xz01 P i e) Hne) as [Hb Hle]. fold w' in Hb, Hle.
  assert (ES : forall v e, sumq (fun i => v i * onq P i e) (layers (eK I)) == sumq (fun i => v i * inject_Z (xz P i e)) (layers (eK I)))
    by (intros v e; apply sumq_ext; intros i _; rewrite onq_xz; reflexivity).
  split; [|split].
  - intros i Hi. destruct (Hb i Hi) as [B0 B1]. destruct (Hw i Hi) as (W0 & Wi & S0 & Si).
    split; [split; [exact B0|eapply Qle_trans; [exact B1|exact Hmw]]|].
    split; [intros Hint; unfold w'; apply is_int_qmin; [apply Wi; exact Hint|apply Hmint; exact Hint]|].
    split.
    + unfold sl'. destruct (qmin_cases (sl i) (w_max I)) as [[Q1 Q2]|[Q1 Q2]]; rewrite Q1; lra.
    + intros Hint. unfold sl'. apply is_int_qmin; [apply Si; exact Hint|apply (w_max_int I Hg Hint)].
  - intros e He. destruct (Hfs e He) as (F0 & [S0 S1] & _).
    pose proof (Hle e He) as L.
    pose proof (err_fits_bound I w' (xz P) e Hk Hcast He F0 Hb (fun i _ => xz01 P i e)) as FB.
    destruct (clip_sum (w_max I) sl (fun i => xz P i e) (layers (eK I)) HU0 (fun i Hi => proj1 (proj2 (proj2 (Hw i Hi))))
                (fun i _ => xz01 P i e)) as [[C1 C2] C3]. cbn zeta in C1, C2, C3.
    pose proof (Herr e He) as HE.
    rewrite Qabs_Qmult, (Qabs_pos _ S0). rewrite Qabs_Qmult, (Qabs_pos _ S0) in HE.
    rewrite (ES w' e), (ES sl' e). rewrite (ES w e), (ES sl e) in HE. unfold sl'.
    set (A' := Qabs (flow_of I e - sumq (fun i => w' i * inject_Z (xz P i e)) (layers (eK I)))) in *.
    set (A := Qabs (flow_of I e - sumq (fun i => w i * inject_Z (xz P i e)) (layers (eK I)))) in *.
    assert (A0 : 0 <= A') by apply Qabs_nonneg.
    assert (L' : A' <= A) by exact L.
    assert (FB' : A' <= w_max I) by exact FB.
    assert (H2 : 0 <= scale_of I e * (A - A')) by (apply Qmult_le_0_compat; lra).
    assert (H3 : 0 <= (1 - scale_of I e) * A') by (apply Qmult_le_0_compat; lra).
    destruct C3 as [C3|C3]; [rewrite C3; lra|lra].
  - apply sumq_le_mono. intros i Hi. unfold sl'. destruct (qmin_cases (sl i) (w_max I)) as [[Q1 Q2]|[Q1 Q2]]; rewrite Q1; lra.
Qed.

Lemma kmpe_clip (M : kmpe_inst) (P : N -> list node) (w sl : N -> Q) :
  let I := m_err M in
  e_given I = None -> err_domain I -> kmpe_choice_unbounded M P w sl ->
  let w' := fun i => qmin (w i) (max_flow I) in let sl' := fun i => qmin (sl i) (w_max I) in
  kmpe_choice M P w' sl' /\ sumq sl' (layers (eK I)) <= sumq sl (layers (eK I)).
Proof.
  intros I Hg Hdom (HP & Hw & Herr & Hcov) w' sl'.
  destruct (kmpe_clip_core (m_err M) P w sl Hg Hdom Hw Herr) as (A & B & C).
  split; [|exact C]. split; [exact HP|]. split; [exact A|]. split; [exact B|exact Hcov].
Qed.

Theorem kmpe_optimal_unbounded (M : kmpe_inst) (a : var -> Q) (rank : node -> nat) (Rm : nat) :
  let I := m_err M in
  e_given I = None -> m_pieces M = [] -> wf_graph (eG I) -> p_allow_empty (e_base I) = false ->
  (forall u v, In (u, v) (g_edges (eG I)) -> (rank u < rank v)%nat) -> (forall v, (rank v <= Rm)%nat) ->
  kmpe_side M -> err_domain I ->
  sat a (encode_kmpe M) -> (forall b, sat b (encode_kmpe M) -> objective a (encode_kmpe M) <= objective b (encode_kmpe M)) ->
  (exists P w sl, kmpe_choice_unbounded M P w sl /\ sumq sl (layers (eK I)) == objective a (encode_kmpe M)) /\
  (forall P w sl, kmpe_choice_unbounded M P w sl -> objective a (encode_kmpe M) <= sumq sl (layers (eK I))).
Proof.
  intros I Hg Hpc WF Hae Hrank HR Hside Hdom Hsat Hopt.
  destruct (kmpe_optimal M a rank Rm Hg Hpc WF Hae Hrank HR Hside Hsat Hopt) as [(P & w & sl & (HP & Hw & He & Hc) & O) Hmin]. split.
  - exists P, w, sl. split; [|exact O]. split; [exact HP|]. split; [|split; [exact He|exact Hc]].
    intros i Hi. destruct (Hw i Hi) as ([W0 _] & Wi & [S0 _] & Si). tauto.
  - intros P' w' sl' Hch. destruct (kmpe_clip M P' w' sl' Hg Hdom Hch) as [Hb Hle].
    eapply Qle_trans; [apply (Hmin _ _ _ Hb)|exact Hle].
Qed.

(* ------------------------------------------------------------------ feasibility for k >= width *)
(* any k source-to-sink paths that cover every non-ignored edge (and the subpath constraints) make the LP feasible:
   zero weights and slack max f on every path *)
Theorem kmpe_feasible_ge_width_paths (M : kmpe_inst) (P : N -> list node) :
  let I := m_err M in
  e_given I = None -> m_pieces M = [] -> wf_graph (eG I) -> p_allow_empty (e_base I) = false ->
  kmpe_side M -> err_domain I ->
  st_paths (eG I) (eK I) P ->
  (forall e, In e (basic_edges I) -> exists i, In i (layers (eK I)) /\ mem_edge e (pairs (P i)) = true) ->
  constraints_covered (e_base I) P ->
  exists a, sat a (encode_kmpe M) /\ objective a (encode_kmpe M) == sumq (fun _ => max_flow I) (layers (eK I)).
Proof.
  intros I Hg Hpc WF Hae [Hcons Hpl] (Hfs & Hne & Hk) HP Hcover Hcov. subst I.
  destruct (max_flow_in (m_err M) Hne) as (em & Hem & Emax).
  assert (Hmint : e_int (m_err M) = true -> is_int (max_flow (m_err M))) by (rewrite Emax; apply (Hfs em Hem)).
  assert (Hcast : cast (e_int (m_err M)) (max_flow (m_err M)) == max_flow (m_err M)) by (apply cast_int_id; exact Hmint).
  assert (Hm0 : 0 <= max_flow (m_err M)) by (rewrite Emax; apply (Hfs em Hem)).
  assert (Hmw : max_flow (m_err M) <= w_max (m_err M)).
  { pose proof (w_max_ge (m_err M)) as HW. rewrite Hcast in HW.
    assert (H1 : 1 <= inject_Z (Z.of_nat (eK (m_err M)))) by (change 1 with (inject_Z 1); rewrite <- Zle_Qle; lia).
    assert (H2 : 0 <= (inject_Z (Z.of_nat (eK (m_err M))) - 1) * max_flow (m_err M)) by (apply Qmult_le_0_compat; lra). lra. }
  assert (Hch : kmpe_choice M P (fun _ => 0) (fun _ => max_flow (m_err M))).
  { split; [exact HP|]. split; [|split; [|exact Hcov]].
    - intros i Hi. split; [lra|]. split; [intros _; exists 0%Z; reflexivity|]. split; [lra|exact Hmint].
    - intros e He. destruct (Hfs e He) as (F0 & [S0 S1] & _). pose proof (flow_le_max (m_err M) e He) as FM.
      destruct (Hcover e He) as (i0 & Hi0 & Hon).
      assert (Z0 : sumq (fun i => 0 * onq P i e) (layers (eK (m_err M))) == 0).
      { generalize (layers (eK (m_err M))). intros l. induction l as [|x l IH]; cbn [sumq]; [reflexivity|]. rewrite IH. ring. }
      pose proof (sumq_ge_term (fun i => max_flow (m_err M) * onq P i e) (layers (eK (m_err M))) i0
                    (fun i _ => Qmult_le_0_compat _ _ Hm0 (proj1 (onq01 P i e))) Hi0) as T.
      cbn beta in T. unfold onq at 1 in T. rewrite Hon in T. cbn [indq] in T.
      rewrite Z0, Qabs_Qmult, (Qabs_pos _ S0).
      assert (A : Qabs (flow_of (m_err M) e - 0) == flow_of (m_err M) e) by (rewrite Qabs_pos; [ring|lra]).
      rewrite A. assert (H2 : 0 <= (1 - scale_of (m_err M) e) * flow_of (m_err M) e) by (apply Qmult_le_0_compat; lra). lra. }
  destruct (kmpe_complete M P _ _ Hg Hpc WF Hae (fun c e Hc He => proj2 (Hcons c e Hc He)) Hpl Hch) as (a & S & O & _).
  exists a. split; [exact S|exact O].
Qed.
