From Coq Require Import List NArith ZArith QArith Bool Arith Lia.
Import ListNotations.
From FP Require Import Lin PathEnc Aug AugProofs Euler EulerProofs1 EulerProofs4 Checkers PathEncComplete.
Set Default Timeout 60.
Local Close Scope Q_scope.

Lemma nodup_b_spec l : nodup_b l = true <-> NoDup l.
Proof.
  induction l as [|x r IH]; cbn [nodup_b]; [split; [constructor|reflexivity]|].
  rewrite andb_true_iff, negb_true_iff, IH. split.
  - intros [H1 H2]. constructor; [|exact H2]. intros Hin. apply memn_In in Hin. congruence.
  - intros H. inversion H as [|? ? Hni ND]; subst. split; [|exact ND].
    destruct (memn x r) eqn:M; [apply memn_In in M; contradiction|reflexivity].
Qed.

Lemma all_in_spec l V : all_in l V = true <-> forall v, In v l -> In v V.
Proof. unfold all_in. rewrite forallb_forall. split; intros H v Hv; [apply memn_In, H, Hv|apply memn_In, H, Hv]. Qed.

Lemma edges_in_spec l E : edges_in l E = true <-> incl l E.
Proof. unfold edges_in. rewrite forallb_forall. split; intros H e He; [apply mem_edge_In, H, He|apply mem_edge_In, H, He]. Qed.

(* C01 checker: exactly the route predicate of the property *)
Theorem valid_route_b_correct V E S T simple r :
  valid_route_b V E S T simple r = true <->
  r <> [] /\ (forall v, In v r -> In v V) /\ incl (pairs r) E /\
  is_start E S (hd 0%N r) = true /\ is_end E T (last r 0%N) = true /\ (simple = true -> NoDup r).
Proof.
  destruct r as [|x r']; [cbn; split; [discriminate|intros [H _]; contradiction]|].
  unfold valid_route_b. rewrite !andb_true_iff, all_in_spec, edges_in_spec, orb_true_iff, negb_true_iff, nodup_b_spec.
  cbn [hd]. rewrite (last_cons_default r' 0%N x).
  assert (L : last (x :: r') x = last r' x) by apply last_cons_default.
  rewrite L. split.
  - intros ((((H1 & H2) & H3) & H4) & H5). repeat split; try assumption; [discriminate|].
    intros ->. destruct H5 as [H5|H5]; [discriminate|exact H5].
  - intros (_ & H1 & H2 & H3 & H4 & H5). repeat split; try assumption.
    destruct simple; [right; apply H5; reflexivity|left; reflexivity].
Qed.

(* C09 checker *)
Theorem covers_b_correct E ignore routes :
  covers_b E ignore routes = true <->
  forall e, In e E -> ~ In e ignore -> exists r, In r routes /\ In e (pairs r).
Proof.
  unfold covers_b. rewrite forallb_forall. split.
  - intros H e He Hni. specialize (H e He). apply orb_true_iff in H. destruct H as [H|H].
    + apply mem_edge_In in H. contradiction.
    + apply existsb_exists in H. destruct H as (r & Hr & Hm). exists r. split; [exact Hr|apply mem_edge_In; exact Hm].
  - intros H e He. apply orb_true_iff. destruct (mem_edge e ignore) eqn:M; [left; reflexivity|right].
    assert (Hni : ~ In e ignore) by (intros X; apply mem_edge_In in X; congruence).
    destruct (H e He Hni) as (r & Hr & Hm). apply existsb_exists. exists r. split; [exact Hr|apply mem_edge_In; exact Hm].
Qed.

(* C10 checker (coverage 1) *)
Theorem constraint_b_correct c routes :
  constraint_b c routes = true <-> exists r, In r routes /\ incl c (pairs r).
Proof.
  unfold constraint_b. rewrite existsb_exists. split.
  - intros (r & Hr & H). exists r. split; [exact Hr|]. rewrite forallb_forall in H. intros e He. apply mem_edge_In, H, He.
  - intros (r & Hr & H). exists r. split; [exact Hr|]. apply forallb_forall. intros e He. apply mem_edge_In, H, He.
Qed.

(* C02 checker: every listed, non-ignored edge is explained exactly *)
Theorem explains_b_correct flow ignore routes :
  explains_b flow ignore routes = true <->
  forall e f, In (e, f) flow -> ~ In e ignore -> (explained_q routes e == f)%Q.
Proof.
  unfold explains_b. rewrite forallb_forall. split.
  - intros H e f Hin Hni. specialize (H (e, f) Hin). cbn [fst snd] in H. apply orb_true_iff in H. destruct H as [H|H].
    + apply mem_edge_In in H. contradiction.
    + apply Qeq_bool_iff. exact H.
  - intros H [e f] Hin. cbn [fst snd]. apply orb_true_iff. destruct (mem_edge e ignore) eqn:M; [left; reflexivity|right].
    apply Qeq_bool_iff. apply (H e f Hin). intros X. apply mem_edge_In in X. congruence.
Qed.
