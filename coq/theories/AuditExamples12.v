(* Instances of exactly the hypotheses of older property theorems (Props/C12.v .. C15.v) that no Example reached; written
   during the audit of 2026-10-02 (audit/props_C12_C15.md).  Props files restate them as Examples by [exact]. *)
From Coq Require Import List NArith ZArith QArith Bool Arith Lia Lqa Permutation.
Import ListNotations.
From FP Require Import Lin Blocks BlocksProofs Wrapper WrapperProofs Search SearchProofs1 SearchProofs2
                       Euler EulerProofs1 EulerProofs2 EulerProofs3 EulerProofs4
                       MiscEnc MiscEncProofs MgsComplete MgsRange.
Local Open Scope Q_scope.

(* ------------------------------------------------------------------ C15: a TRUTHFUL, everywhere conclusive status function *)
Definition au_mgs : mgs_inst := {| mg_numbers := [1; 2]; mg_total := 1 + (2 + 0); mg_int := true; mg_mult := 1; mg_parts := None |}.
Definition au_status (k : nat) : mstatus := if (2 <=? k)%nat then MgOptimal else MgInfeasible.

Lemma au_genset_needs_two (g : list Q) : genset 1 [1; 2] (1 + (2 + 0)) g -> (2 <= length g)%nat.
Proof.
  intros (Hnn & Hsum & Hgen). destruct g as [|v [|v2 g]]; [exfalso|exfalso|cbn; lia].
  - revert Hsum. vm_compute. discriminate.
  - destruct (Hgen 1 (or_introl eq_refl)) as (xs & Hl & Hr & Hd).
    destruct xs as [|x [|? ?]]; try discriminate Hl. inversion Hr as [|? ? Hx _]; subst.
    cbn [sumql dotz] in *. assert (Hx' : x = 0%Z \/ x = 1%Z) by lia. destruct Hx' as [-> | ->].
    + change (inject_Z 0) with 0 in Hd. lra.
    + change (inject_Z 1) with 1 in Hd. lra.
Qed.

Lemma au_sat_two : exists a, sat a (encode_mgs au_mgs 2).
Proof.
  apply (mgs_enc_complete au_mgs 2 [1; 2]); [cbn; lia|reflexivity|].
  split; [|split; [intros _; repeat constructor; [exists 1%Z|exists 2%Z]; reflexivity|unfold parts_of; cbn; constructor]].
  split; [repeat constructor; discriminate|]. split; [reflexivity|].
  intros a Ha. cbn in Ha. destruct Ha as [<-|[<-|[]]]; [exists [1; 0]%Z|exists [0; 1]%Z];
    (split; [reflexivity|split; [apply Forall_cons; [cbn; lia|apply Forall_cons; [cbn; lia|apply Forall_nil]]|vm_compute; reflexivity]]).
Qed.

Lemma au_mgs_truthful_status :
  mg_parts au_mgs = None /\ (1 <= mg_mult au_mgs)%nat /\ mgs_domain au_mgs /\ (length (mg_numbers au_mgs) <= 2)%nat /\
  (forall k, au_status k = MgOptimal -> exists a, sat a (encode_mgs au_mgs k)) /\
  (forall k, au_status k = MgInfeasible -> forall a, ~ sat a (encode_mgs au_mgs k)) /\
  (forall k, au_status k = MgOptimal \/ au_status k = MgInfeasible) /\
  mgsm_loop au_status 0 2 (extra_cuts (mg_parts au_mgs)) = ([1; 2]%nat, Some 2%nat).
Proof.
  split; [reflexivity|]. split; [cbn; lia|].
  split; [split; [vm_compute; discriminate|split; [repeat constructor; vm_compute; discriminate|
            intros _; split; [exists 3%Z; reflexivity|repeat constructor; [exists 1%Z|exists 2%Z]; reflexivity]]]|].
  split; [cbn; lia|]. split; [|split; [|split; [|vm_compute; reflexivity]]].
  - intros k Hk. unfold au_status in Hk. destruct (2 <=? k)%nat eqn:E; [|discriminate Hk]. apply Nat.leb_le in E.
    exact (mgs_feasible_monotone au_mgs 2 k eq_refl ltac:(cbn; lia) E au_sat_two).
  - intros k Hk a Hs. unfold au_status in Hk. destruct (2 <=? k)%nat eqn:E; [discriminate Hk|]. apply Nat.leb_gt in E.
    destruct (proj1 (mgs_feasible_iff au_mgs k eq_refl ltac:(cbn; lia)) (ex_intro _ a Hs)) as (g & Hl & (Hg & _)).
    pose proof (au_genset_needs_two g Hg). lia.
  - intros k. unfold au_status. destruct (2 <=? k)%nat; [left|right]; reflexivity.
Qed.

(* ------------------------------------------------------------------ C12 *)
Definition au_b : var := V 100 [0%N]. Definition au_c : var := V 101 [0%N]. Definition au_p : var := V 102 [0%N].
Definition au_asg (vb vc vp : Q) (v : var) : Q :=
  if var_eqb v au_b then vb else if var_eqb v au_c then vc else if var_eqb v au_p then vp else 0.

(* binary * continuous: b = 1, c = 3 in [0, 5]: p = 3 satisfies the four rows, p = 2 does not *)
Lemma au_binary_product :
  bin (au_asg 1 3 3 au_b) /\ 0 <= au_asg 1 3 3 au_c <= 5 /\
  Forall (sat_row (au_asg 1 3 3)) (mcc_rows au_b au_c au_p 0 5) /\ ~ Forall (sat_row (au_asg 1 3 2)) (mcc_rows au_b au_c au_p 0 5).
Proof.
  assert (B : bin (au_asg 1 3 3 au_b)) by (right; reflexivity).
  assert (R : 0 <= au_asg 1 3 3 au_c <= 5) by (vm_compute; split; discriminate).
  split; [exact B|]. split; [exact R|]. split.
  - apply (mcc_rows_exact (au_asg 1 3 3) au_b au_c au_p 0 5 B R). vm_compute. reflexivity.
  - intros H. apply (mcc_rows_exact (au_asg 1 3 2) au_b au_c au_p 0 5 B R) in H. revert H. vm_compute. discriminate.
Qed.

(* integer * continuous: x = 3, c = 2, p = 6, bounds [0, 5] (3 bits): every hypothesis holds and the helper columns / rows have a
   completion; DEGENERATE ub = 0: num_bits 0 = 0, no bit at all, the only admitted integer is 0 *)
Lemma au_integer_product :
  (vfam au_b <> fBit /\ vfam au_b <> fComp) /\ (vfam au_c <> fBit /\ vfam au_c <> fComp) /\ (vfam au_p <> fBit /\ vfam au_p <> fComp) /\
  0 <= au_asg 3 2 6 au_c <= 5 /\ 0 <= 0 <= 5 /\
  (exists a', (forall v, vfam v <> fBit -> vfam v <> fComp -> a' v = au_asg 3 2 6 v) /\
              Forall (sat_col a') (intprod_cols au_p 0 5 (num_bits 5)) /\ Forall (sat_row a') (intprod_rows au_b au_c au_p 0 5 (num_bits 5))) /\
  num_bits 0 = 0%nat /\
  (forall z : Z, (0 <= z < 2 ^ Z.of_nat (num_bits 0))%Z -> z = 0%Z).
Proof.
  assert (F : forall v : var, vfam v = 100%N \/ vfam v = 101%N \/ vfam v = 102%N -> vfam v <> fBit /\ vfam v <> fComp)
    by (intros v [E|[E|E]]; rewrite E; split; vm_compute; discriminate).
  assert (Fb := F au_b (or_introl eq_refl)). assert (Fc := F au_c (or_intror (or_introl eq_refl))).
  assert (Fp := F au_p (or_intror (or_intror eq_refl))).
  assert (R : 0 <= au_asg 3 2 6 au_c <= 5) by (vm_compute; split; discriminate).
  assert (Z0 : 0 <= 0 <= 5) by (split; discriminate).
  split; [exact Fb|]. split; [exact Fc|]. split; [exact Fp|]. split; [exact R|]. split; [exact Z0|]. split; [|split; [reflexivity|]].
  - apply (proj2 (intprod_helper_exact au_b au_c au_p 0 5 (au_asg 3 2 6) Fb Fc Fp R Z0)).
    exists 3%Z. split; [reflexivity|]. split; [vm_compute; split; [discriminate|reflexivity]|vm_compute; reflexivity].
  - intros z Hz. change (num_bits 0) with 0%nat in Hz. cbn in Hz. lia.
Qed.

(* piecewise constant: ranges [0,1] -> 0 and [2,3] -> 100; x = 5/2 forces y = 100; every hypothesis holds and the selector columns
   have a completion; DEGENERATE ps = []: no (x, y) is admitted at all *)
Definition au_ps : list piece := [(0, 1, 0); (2, 3, 100)].
Lemma au_piecewise :
  vfam au_b <> fZ /\ vfam au_c <> fZ /\ (forall p', In p' au_ps -> pL p' <= pU p') /\
  (exists a', (forall v, vfam v <> fZ -> a' v = au_asg (5 # 2) 100 0 v) /\
              Forall (sat_col a') (pwc_cols au_c au_ps) /\ Forall (sat_row a') (pwc_rows au_b au_c au_ps)) /\
  (forall a, ~ exists p, In p (@nil piece) /\ pL p <= a au_b <= pU p /\ a au_c == pC p).
Proof.
  assert (Fx : vfam au_b <> fZ) by (vm_compute; discriminate). assert (Fy : vfam au_c <> fZ) by (vm_compute; discriminate).
  assert (Hr : forall p', In p' au_ps -> pL p' <= pU p') by (intros p' [<-|[<-|[]]]; vm_compute; discriminate).
  split; [exact Fx|]. split; [exact Fy|]. split; [exact Hr|]. split.
  - apply (proj2 (pwc_helper_exact au_b au_c au_ps (au_asg (5 # 2) 100 0) Fx Fy Hr)).
    exists (2, 3, 100). split; [right; left; reflexivity|]. split; [vm_compute; split; discriminate|vm_compute; reflexivity].
  - intros a (p & [] & _).
Qed.

(* get_values reads position i of the solver's value list with default 0: an index beyond the list is answered with 0 *)
Lemma au_get_values_default : get_values [7] [(tt, 0%nat); (tt, 5%nat)] = [(tt, 7); (tt, 0)].
Proof. reflexivity. Qed.

(* ------------------------------------------------------------------ C14: every hypothesis of the two walk theorems, incl. NoDup
   of the edge list, zero excess at EVERY other node and connectivity, on 0 -> 1 (once), the loop 1 -> 1 (twice), 1 -> 2 (once) *)
Definition au_es : list (edge * Q) := [((0, 1)%N, 1); ((1, 1)%N, 2); ((1, 2)%N, 1)].
Lemma au_walk_hypotheses :
  let g0 := residual_q au_es in
  NoDup (map fst au_es) /\ 0%N <> 2%N /\ exc g0 0%N = 1%Z /\ exc g0 2%N = (-1)%Z /\
  (forall x, x <> 0%N -> x <> 2%N -> exc g0 x = 0%Z) /\ (forall a b, In (a, b) g0 -> reach g0 0%N a) /\
  solution_walk au_es 0%N 2%N = Some (O, [1; 1; 1]%N).
Proof.
  cbn zeta. assert (G : residual_q au_es = [(0, 1); (1, 1); (1, 1); (1, 2)]%N) by reflexivity. rewrite G.
  split; [repeat constructor; cbn; intuition discriminate|]. split; [discriminate|]. split; [reflexivity|]. split; [reflexivity|].
  split; [|split; [|vm_compute; reflexivity]].
  - intros x H0 H2. destruct (N.eq_dec x 1) as [->|H1]; [reflexivity|].
    unfold exc, outd, ind. cbn [filter fst snd].
    replace (0 =? x)%N with false by (symmetry; apply N.eqb_neq; congruence).
    replace (1 =? x)%N with false by (symmetry; apply N.eqb_neq; congruence).
    replace (2 =? x)%N with false by (symmetry; apply N.eqb_neq; congruence). reflexivity.
  - intros a b H. assert (R1 : reach [(0, 1); (1, 1); (1, 1); (1, 2)]%N 0%N 1%N) by (eapply reach_step; [apply reach_refl|left; reflexivity]).
    cbn in H. destruct H as [H|[H|[H|[H|[]]]]]; injection H as <- <-; [apply reach_refl|exact R1|exact R1|exact R1].
Qed.
