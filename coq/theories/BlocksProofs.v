(* Exactness of the modelling helpers (C12): semantic theorems over Q and bridge lemmas from the
   generated rows (Blocks.v) to the semantic relations. *)
From Coq Require Import List NArith ZArith QArith Lqa Bool Lia Psatz.
Import ListNotations.
From FP Require Import Lin Blocks.
Set Default Timeout 60.
Open Scope Q_scope.

Definition bin (b : Q) : Prop := b == 0 \/ b == 1.

(* ---------------- binary * continuous ---------------- *)
Definition mcc (b c p lb ub : Q) : Prop :=
  p <= ub * b /\ lb * b <= p /\ p <= c - lb * (1 - b) /\ c - ub * (1 - b) <= p.

Lemma mcc_exact b c p lb ub :
  bin b -> lb <= c <= ub -> (mcc b c p lb ub <-> p == b * c).
Proof.
  intros [Hb|Hb] [Hl Hu]; unfold mcc; rewrite Hb; split; intros H.
  - destruct H as (H1&H2&H3&H4). lra.
  - rewrite H. repeat split; lra.
  - destruct H as (H1&H2&H3&H4). lra.
  - rewrite H. repeat split; lra.
Qed.

Lemma sat_mcc_rows a b c p lb ub :
  Forall (sat_row a) (mcc_rows b c p lb ub) <-> mcc (a b) (a c) (a p) lb ub.
Proof.
  unfold mcc_rows, mcc. split.
  - intros H. inversion H as [|? ? H1 H']; subst. inversion H' as [|? ? H2 H'']; subst.
    inversion H'' as [|? ? H3 H''']; subst. inversion H''' as [|? ? H4 _]; subst.
    unfold sat_row, mkrow in *. cbn [sns lhs rhs eval fst snd] in *. repeat split; lra.
  - intros (H1 & H2 & H3 & H4). repeat constructor; unfold sat_row, mkrow; cbn [sns lhs rhs eval fst snd]; lra.
Qed.

(* the four rows admit exactly product = binary * continuous *)
Theorem mcc_rows_exact a b c p lb ub :
  bin (a b) -> lb <= a c <= ub ->
  (Forall (sat_row a) (mcc_rows b c p lb ub) <-> a p == a b * a c).
Proof. intros Hb Hc. rewrite sat_mcc_rows. apply mcc_exact; assumption. Qed.

(* ---------------- integer * continuous (bit expansion) ---------------- *)
(* Horner value of a little-endian digit list: sum_j 2^j * l_j *)
Fixpoint valq (l : list Q) : Q :=
  match l with [] => 0 | b :: r => b + 2 * valq r end.

Definition intprod (n : nat) (x c p lb ub : Q) : Prop :=
  exists bs ms, length bs = n /\ Forall bin bs /\
                Forall2 (fun b m => lb <= m <= ub /\ mcc b c m lb ub) bs ms /\
                valq bs == x /\ valq ms == p.

Lemma comps_value c lb ub : lb <= c <= ub -> forall bs ms,
  Forall bin bs -> Forall2 (fun b m => lb <= m <= ub /\ mcc b c m lb ub) bs ms ->
  valq ms == c * valq bs.
Proof.
  intros Hc bs ms Hb H. induction H as [|b m bs ms [_ Hm] _ IH]; simpl.
  - lra.
  - inversion Hb; subst. apply (mcc_exact _ _ _ _ _ H1 Hc) in Hm.
    rewrite (IH H2), Hm. ring.
Qed.

Lemma bits_range bs : Forall bin bs ->
  exists z : Z, valq bs == inject_Z z /\ (0 <= z < 2 ^ Z.of_nat (length bs))%Z.
Proof.
  induction 1 as [|b bs Hb _ (z & Hz & Hr)].
  - exists 0%Z. simpl. split; [reflexivity|lia].
  - simpl valq. simpl length. rewrite Nat2Z.inj_succ, Z.pow_succ_r by lia.
    destruct Hb as [Hb|Hb].
    + exists (2 * z)%Z. split; [|lia]. rewrite Hb, Hz, inject_Z_mult. ring.
    + exists (1 + 2 * z)%Z. split; [|lia]. rewrite Hb, Hz, inject_Z_plus, inject_Z_mult. ring.
Qed.

Fixpoint bits (n : nat) (z : Z) : list Q :=
  match n with O => [] | S n' => inject_Z (z mod 2) :: bits n' (z / 2) end.

Lemma bits_spec n : forall z, (0 <= z < 2 ^ Z.of_nat n)%Z ->
  length (bits n z) = n /\ Forall bin (bits n z) /\ valq (bits n z) == inject_Z z.
Proof.
  induction n as [|n IH]; intros z Hz.
  - simpl in *. assert (z = 0)%Z by lia. subst. repeat split; try constructor; reflexivity.
  - rewrite Nat2Z.inj_succ, Z.pow_succ_r in Hz by lia.
    assert (Hd : (0 <= z / 2 < 2 ^ Z.of_nat n)%Z).
    { split; [apply Z.div_pos; lia|apply Z.div_lt_upper_bound; lia]. }
    destruct (IH _ Hd) as (L & F & V). simpl. repeat split.
    + rewrite L. reflexivity.
    + constructor; [|exact F]. pose proof (Z.mod_pos_bound z 2 ltac:(lia)).
      assert (z mod 2 = 0 \/ z mod 2 = 1)%Z as [->| ->] by lia; [left|right]; reflexivity.
    + rewrite V. rewrite (Z.div_mod z 2) at 3 by lia.
      rewrite inject_Z_plus, inject_Z_mult. ring.
Qed.

Theorem intprod_exact n x c p lb ub :
  lb <= c <= ub -> lb <= 0 <= ub ->
  (intprod n x c p lb ub <->
   exists z : Z, x == inject_Z z /\ (0 <= z < 2 ^ Z.of_nat n)%Z /\ p == x * c).
Proof.
  intros Hc H0. split.
  - intros (bs & ms & L & Hb & Hm & Vx & Vp).
    destruct (bits_range bs Hb) as (z & Hz & Hr). rewrite L in Hr.
    exists z. repeat split; try lia.
    + rewrite <- Vx. exact Hz.
    + rewrite <- Vp, <- Vx. rewrite (comps_value c lb ub Hc bs ms Hb Hm). ring.
  - intros (z & Hx & Hr & Hp).
    destruct (bits_spec n z Hr) as (L & F & V).
    exists (bits n z), (map (fun b => b * c) (bits n z)). repeat split; try assumption.
    + clear - F Hc H0. induction F as [|b l Hb _ IH]; simpl; constructor; [|exact IH].
      split.
      * destruct Hb as [Hb|Hb]; rewrite Hb; split; lra.
      * apply (mcc_exact _ _ _ _ _ Hb Hc). reflexivity.
    + rewrite V, Hx. reflexivity.
    + rewrite Hp, Hx, <- V. clear. induction (bits n z) as [|b l IH]; simpl; [ring|]. rewrite IH. ring.
Qed.

(* the domain restriction is real: an admissible integer value that does not fit the bit width is cut off *)
Corollary intprod_cuts_off n x c p lb ub (z : Z) :
  lb <= c <= ub -> lb <= 0 <= ub -> x == inject_Z z -> (2 ^ Z.of_nat n <= z)%Z ->
  ~ intprod n x c p lb ub.
Proof.
  intros Hc H0 Hx Hz H. apply (intprod_exact n x c p lb ub Hc H0) in H.
  destruct H as (z' & Hx' & Hr & _).
  assert (E : z = z').
  { assert (Q : inject_Z z == inject_Z z') by (rewrite <- Hx; exact Hx').
    unfold Qeq, inject_Z in Q. cbn [Qnum Qden] in Q. lia. }
  subst z'. lia.
Qed.

(* ---------------- bridge: generated rows/columns <-> semantic relation ---------------- *)
(* auxiliary vector variables mk 0 .. mk (n-1) overriding an assignment *)
Fixpoint setv (mk : nat -> var) (j : nat) (vals : list Q) (a : var -> Q) : var -> Q :=
  match vals with
  | [] => a
  | q :: r => fun v => if var_eqb v (mk j) then q else setv mk (S j) r a v
  end.

Lemma setv_out mk vals : forall j a v, (forall i, v <> mk i) -> setv mk j vals a v = a v.
Proof.
  induction vals as [|q r IH]; intros j a v H; cbn [setv]; [reflexivity|].
  destruct (var_eqb v (mk j)) eqn:E; [apply var_eqb_spec in E; exfalso; exact (H j E)|]. apply IH. exact H.
Qed.

Lemma setv_in mk (Hinj : forall i j, mk i = mk j -> i = j) vals : forall j a i d,
  (i < length vals)%nat -> setv mk j vals a (mk (j + i)%nat) = nth i vals d.
Proof.
  induction vals as [|q r IH]; intros j a i d Hi; cbn [length] in Hi; [lia|]. cbn [setv].
  destruct i as [|i].
  - rewrite Nat.add_0_r. rewrite (proj2 (var_eqb_spec (mk j) (mk j)) eq_refl). reflexivity.
  - destruct (var_eqb (mk (j + S i)%nat) (mk j)) eqn:E.
    + apply var_eqb_spec in E. apply Hinj in E. lia.
    + replace (j + S i)%nat with (S j + i)%nat by lia. cbn [nth]. apply IH. lia.
Qed.

Lemma Bit_inj p i j : Bit p (N.of_nat i) = Bit p (N.of_nat j) -> i = j.
Proof. unfold Bit. intros E. injection E as E. apply app_inj_tail in E. destruct E as [_ E]. lia. Qed.
Lemma Comp_inj p i j : Comp p (N.of_nat i) = Comp p (N.of_nat j) -> i = j.
Proof. unfold Comp. intros E. injection E as E. apply app_inj_tail in E. destruct E as [_ E]. lia. Qed.
Lemma Zsel_inj p i j : Zsel p (N.of_nat i) = Zsel p (N.of_nat j) -> i = j.
Proof. unfold Zsel. intros E. injection E as E. apply app_inj_tail in E. destruct E as [_ E]. lia. Qed.

Lemma pow2_succ j : pow2 (S j) == 2 * pow2 j.
Proof. unfold pow2. rewrite Nat2Z.inj_succ, Z.pow_succ_r by lia. rewrite inject_Z_mult. reflexivity. Qed.
Lemma pow2_0 : pow2 0 == 1.
Proof. reflexivity. Qed.

(* sum_j 2^j * a(mk j) over j = s .. s+n-1  =  2^s * Horner value of the values *)
Lemma eval_pow_valq a (mk : nat -> var) n : forall s,
  eval a (map (fun j => (mk j, pow2 j)) (seq s n)) == pow2 s * valq (map (fun j => a (mk j)) (seq s n)).
Proof.
  induction n as [|n IH]; intros s; cbn [seq map eval valq fst snd]; [ring|].
  rewrite IH, pow2_succ. ring.
Qed.

Lemma map_seq_nth (vals : list Q) (f : nat -> Q) s :
  (forall i, (i < length vals)%nat -> f (s + i)%nat = nth i vals 0) ->
  map f (seq s (length vals)) = vals.
Proof.
  revert s. induction vals as [|q r IH]; intros s H; cbn [length seq map]; [reflexivity|].
  f_equal.
  - specialize (H O ltac:(cbn; lia)). rewrite Nat.add_0_r in H. exact H.
  - apply IH. intros i Hi. specialize (H (S i) ltac:(cbn; lia)). replace (S s + i)%nat with (s + S i)%nat by lia. exact H.
Qed.

Lemma bin_of_col a v : sat_col a {| cvar := v; clb := 0; cub := 1; cint := true |} -> bin (a v).
Proof.
  unfold sat_col. cbn [cvar clb cub cint]. intros (H0 & H1 & Hi). destruct (Hi eq_refl) as (z & Hz).
  rewrite Hz in H0, H1. unfold Qle, inject_Z in H0, H1. cbn [Qnum Qden] in H0, H1.
  assert (z = 0 \/ z = 1)%Z as [-> | ->] by lia; [left|right]; exact Hz.
Qed.
Lemma col_of_bin a v : bin (a v) -> sat_col a {| cvar := v; clb := 0; cub := 1; cint := true |}.
Proof.
  unfold sat_col. cbn [cvar clb cub cint]. intros [H|H]; (split; [lra|split; [lra|]]); intros _; [exists 0%Z|exists 1%Z]; exact H.
Qed.

Lemma Forall2_len {A B} (R : A -> B -> Prop) l1 l2 : Forall2 R l1 l2 -> length l1 = length l2.
Proof. induction 1; cbn; congruence. Qed.

Section IntProdBridge.
  Variables (x c p : var) (lb ub : Q) (n : nat).
  Hypothesis Hx : vfam x <> fBit /\ vfam x <> fComp.
  Hypothesis Hc : vfam c <> fBit /\ vfam c <> fComp.
  Hypothesis Hp : vfam p <> fBit /\ vfam p <> fComp.

  Let bitv (j : nat) := Bit p (N.of_nat j).
  Let compv (j : nat) := Comp p (N.of_nat j).

  Lemma fam_bit j : vfam (bitv j) = fBit. Proof. reflexivity. Qed.
  Lemma fam_comp j : vfam (compv j) = fComp. Proof. reflexivity. Qed.

  (* rows and columns read semantically, for any assignment *)
  Lemma intprod_rows_sem a :
    Forall (sat_col a) (intprod_cols p lb ub n) /\ Forall (sat_row a) (intprod_rows x c p lb ub n) <->
    let bs := map (fun j => a (bitv j)) (seq 0 n) in
    let ms := map (fun j => a (compv j)) (seq 0 n) in
    Forall bin bs /\ Forall2 (fun b m => lb <= m <= ub /\ mcc b (a c) m lb ub) bs ms /\
    valq bs == a x /\ valq ms == a p.
  Proof.
    unfold intprod_cols, intprod_rows, bit_idx. cbn zeta.
    rewrite !Forall_app, !Forall_map, Forall_flat_map.
    assert (E1 : Forall (sat_row a) [mkrow (map (fun j => (Bit p (N.of_nat j), pow2 j)) (seq 0 n) ++ [(x, - (1))]) SEq 0]
                 <-> valq (map (fun j => a (bitv j)) (seq 0 n)) == a x).
    { pose proof (eval_pow_valq a bitv n 0) as E. rewrite pow2_0 in E. unfold bitv in E |- *. split.
      - intros H. inversion H as [|? ? H1 _]; subst. unfold sat_row, mkrow in H1. cbn [sns lhs rhs] in H1.
        rewrite eval_app in H1. cbn [eval fst snd] in H1. lra.
      - intros H. constructor; [|constructor]. unfold sat_row, mkrow. cbn [sns lhs rhs].
        rewrite eval_app. cbn [eval fst snd]. lra. }
    assert (E2 : Forall (sat_row a) [mkrow (map (fun j => (Comp p (N.of_nat j), pow2 j)) (seq 0 n) ++ [(p, - (1))]) SEq 0]
                 <-> valq (map (fun j => a (compv j)) (seq 0 n)) == a p).
    { pose proof (eval_pow_valq a compv n 0) as E. rewrite pow2_0 in E. unfold compv in E |- *. split.
      - intros H. inversion H as [|? ? H1 _]; subst. unfold sat_row, mkrow in H1. cbn [sns lhs rhs] in H1.
        rewrite eval_app in H1. cbn [eval fst snd] in H1. lra.
      - intros H. constructor; [|constructor]. unfold sat_row, mkrow. cbn [sns lhs rhs].
        rewrite eval_app. cbn [eval fst snd]. lra. }
    rewrite E1, E2. clear E1 E2.
    generalize (seq 0 n) as js. intros js.
    split.
    - intros ((HB & HC) & HX & HM & HP). repeat split; try assumption.
      + eapply Forall_impl; [|exact HB]. intros j Hj. apply bin_of_col. exact Hj.
      + clear HX HP. induction js as [|j js IH]; cbn [map]; constructor.
        * split.
          -- inversion HC as [|? ? Hj _]; subst. unfold sat_col in Hj. cbn [cvar clb cub cint] in Hj. tauto.
          -- apply sat_mcc_rows. apply HM. left. reflexivity.
        * apply IH.
          -- inversion HB; assumption.
          -- inversion HC; assumption.
          -- intros j' Hj'. apply HM. right. exact Hj'.
    - intros (HB & HF & HX & HP). repeat split; try assumption.
      + eapply Forall_impl; [|exact HB]. intros j Hj. apply col_of_bin. exact Hj.
      + clear HX HP. induction js as [|j js IH]; cbn [map] in *; constructor.
        * inversion HF as [|? ? ? ? [Hr _] _]; subst. unfold sat_col. cbn [cvar clb cub cint]. repeat split; try tauto. discriminate.
        * apply IH; [inversion HB; assumption|inversion HF; assumption].
      + intros j Hj. apply sat_mcc_rows. clear HX HP.
        induction js as [|j' js IH]; [destruct Hj|]. cbn [map] in HF. inversion HF as [|? ? ? ? [_ Hm] HF']; subst.
        destruct Hj as [->|Hj]; [exact Hm|]. apply IH; [inversion HB; assumption|exact HF'|exact Hj].
  Qed.

  (* the helper admits exactly: integer factor in [0, 2^n), product = integer * continuous;
     the auxiliary Bit/Comp variables are existentially quantified *)
  Theorem intprod_rows_exact a :
    lb <= a c <= ub -> lb <= 0 <= ub ->
    ((exists a', (forall v, vfam v <> fBit -> vfam v <> fComp -> a' v = a v) /\
                 Forall (sat_col a') (intprod_cols p lb ub n) /\ Forall (sat_row a') (intprod_rows x c p lb ub n))
     <-> exists z : Z, a x == inject_Z z /\ (0 <= z < 2 ^ Z.of_nat n)%Z /\ a p == a x * a c).
  Proof.
    intros Hca H0. rewrite <- (intprod_exact n (a x) (a c) (a p) lb ub Hca H0). split.
    - intros (a' & Hag & HCR). apply intprod_rows_sem in HCR. cbn zeta in HCR.
      destruct HCR as (HB & HF & HX & HP).
      rewrite (Hag x) in HX by tauto. rewrite (Hag p) in HP by tauto. rewrite (Hag c) in HF by tauto.
      exists (map (fun j => a' (bitv j)) (seq 0 n)), (map (fun j => a' (compv j)) (seq 0 n)).
      repeat split; try assumption. rewrite map_length, seq_length. reflexivity.
    - intros (bs & ms & L & HB & HF & HX & HP).
      assert (Lm : length ms = n) by (rewrite <- (Forall2_len _ _ _ HF); exact L).
      set (a' := setv bitv 0 bs (setv compv 0 ms a)).
      assert (Hout : forall v, vfam v <> fBit -> vfam v <> fComp -> a' v = a v).
      { intros v H1 H2. unfold a'. rewrite setv_out by (intros i E; apply H1; rewrite E; reflexivity).
        apply setv_out. intros i E. apply H2. rewrite E. reflexivity. }
      assert (Hb : map (fun j => a' (bitv j)) (seq 0 n) = bs).
      { rewrite <- L. apply map_seq_nth. intros i Hi. unfold a'. apply (setv_in bitv); [|exact Hi].
        intros i1 i2 E. apply (Bit_inj p). exact E. }
      assert (Hm : map (fun j => a' (compv j)) (seq 0 n) = ms).
      { rewrite <- Lm. apply map_seq_nth. intros i Hi. unfold a'.
        rewrite setv_out by (intros i' E; discriminate E).
        apply (setv_in compv); [|exact Hi]. intros i1 i2 E. apply (Comp_inj p). exact E. }
      exists a'. split; [exact Hout|]. apply intprod_rows_sem. cbn zeta. rewrite Hb, Hm.
      rewrite (Hout x), (Hout p), (Hout c) by tauto. repeat split; assumption.
  Qed.
End IntProdBridge.

(* num_bits ub is the least n with ub + 1 <= 2^n *)
Lemma least_pow_spec target : forall fuel n,
  (forall j, (j < n)%nat -> ~ target <= pow2 j) ->
  (target <= pow2 (n + fuel)) ->
  let r := least_pow fuel n target in
  target <= pow2 r /\ forall j, (j < r)%nat -> ~ target <= pow2 j.
Proof.
  induction fuel as [|f IH]; intros n Hlt Hub; cbn [least_pow].
  - rewrite Nat.add_0_r in Hub. split; assumption.
  - fold (pow2 n). destruct (Qle_bool target (pow2 n)) eqn:E.
    + apply Qle_bool_iff in E. split; assumption.
    + apply IH.
      * intros j Hj. destruct (Nat.eq_dec j n) as [->|Hne].
        -- intros Hle. apply Qle_bool_iff in Hle. congruence.
        -- apply Hlt. lia.
      * replace (S n + f)%nat with (n + S f)%nat by lia. exact Hub.
Qed.

Lemma pow2_ge_numerator (t : Q) : 0 <= t -> t <= pow2 (S (Z.to_nat (Qnum t))).
Proof.
  intros Ht. destruct t as [tn td]. unfold pow2, Qle, inject_Z in *. cbn [Qnum Qden] in *.
  assert (0 <= tn)%Z by lia. rewrite Nat2Z.inj_succ, Z2Nat.id by lia.
  pose proof (Z.pow_gt_lin_r 2 (Z.succ tn) ltac:(lia)) as P.
  nia.
Qed.

Theorem num_bits_spec ub : 0 <= ub ->
  ub + 1 <= pow2 (num_bits ub) /\ forall j, (j < num_bits ub)%nat -> ~ ub + 1 <= pow2 j.
Proof.
  intros H. unfold num_bits. apply least_pow_spec.
  - intros j Hj. lia.
  - cbn [plus]. apply pow2_ge_numerator. lra.
Qed.

(* ---------------- piecewise constant ---------------- *)
Fixpoint sumql (l : list Q) : Q := match l with [] => 0 | a :: r => a + sumql r end.

Definition rows_piece (M x y : Q) (p : piece) (z : Q) : Prop :=
  pL p - M <= x - M * z /\ x + M * z <= pU p + M /\ y + M * z <= pC p + M /\ pC p - M <= y - M * z.

Definition pwc (M x y : Q) (ps : list piece) : Prop :=
  exists zs, Forall bin zs /\ sumql zs == 1 /\ Forall2 (rows_piece M x y) ps zs.

Lemma sumql_nonneg zs : Forall bin zs -> 0 <= sumql zs.
Proof. induction 1 as [|z zs [Hz|Hz] _ IH]; simpl; [lra|rewrite Hz; lra|rewrite Hz; lra]. Qed.

(* soundness needs nothing about M *)
Theorem pwc_sound M x y ps : pwc M x y ps ->
  exists p, In p ps /\ pL p <= x <= pU p /\ y == pC p.
Proof.
  intros (zs & Hb & Hs & Hr). revert Hb Hs. induction Hr as [|p z ps zs Hp _ IH]; intros Hb Hs.
  - simpl in Hs. lra.
  - inversion Hb as [|? ? Hz Hb']; subst. simpl in Hs. destruct Hz as [Hz|Hz].
    + destruct IH as (p' & Hin & Hx & Hy); [assumption|rewrite Hz in Hs; lra|].
      exists p'. split; [right; assumption|tauto].
    + unfold rows_piece in Hp. rewrite Hz in Hp.
      exists p. split; [left; reflexivity|]. destruct Hp as (H1 & H2 & H3 & H4). repeat split; lra.
Qed.

(* completeness needs M to dominate the distance of x to every range AND the spread of the constants *)
Theorem pwc_complete M x y ps p :
  In p ps -> pL p <= x <= pU p -> y == pC p ->
  (forall p', In p' ps -> pL p' - M <= x /\ x <= pU p' + M /\ pC p - pC p' <= M /\ pC p' - pC p <= M) ->
  pwc M x y ps.
Proof.
  intros Hin Hx Hy HM. unfold pwc.
  assert (Zero : forall qs, (forall p', In p' qs -> pL p' - M <= x /\ x <= pU p' + M /\ pC p - pC p' <= M /\ pC p' - pC p <= M) ->
            exists zs, Forall bin zs /\ sumql zs == 0 /\ Forall2 (rows_piece M x y) qs zs).
  { induction qs as [|p' qs IHq]; intros H.
    - exists []. repeat split; constructor.
    - destruct IHq as (zs & B & S & F); [intros; apply H; right; assumption|].
      exists (0 :: zs). repeat split; [constructor; [left; reflexivity|assumption]|simpl; lra|].
      constructor; [|assumption]. unfold rows_piece. destruct (H p' (or_introl eq_refl)) as (A1 & A2 & A3 & A4).
      repeat split; lra. }
  induction ps as [|p' ps IH]; [destruct Hin|].
  destruct Hin as [E|Hin].
  - subst p'. destruct (Zero ps) as (zs & B & S & F); [intros; apply HM; right; assumption|].
    exists (1 :: zs). repeat split; [constructor; [right; reflexivity|assumption]|simpl; lra|].
    constructor; [|assumption]. unfold rows_piece. repeat split; lra.
  - destruct IH as (zs & B & S & F); [assumption|intros; apply HM; right; assumption|].
    exists (0 :: zs). repeat split; [constructor; [left; reflexivity|assumption]|simpl; lra|].
    constructor; [|assumption]. unfold rows_piece. destruct (HM p' (or_introl eq_refl)) as (A1 & A2 & A3 & A4).
    repeat split; lra.
Qed.

(* the M the code computes: 2 * (max U - min L) *)
Lemma qmax_ge_l a b : a <= qmax a b. Proof. unfold qmax. destruct (Qle_bool a b) eqn:E; [apply Qle_bool_iff in E; exact E|lra]. Qed.
Lemma qmax_ge_r a b : b <= qmax a b.
Proof. unfold qmax. destruct (Qle_bool a b) eqn:E; [lra|]. destruct (Qlt_le_dec b a) as [H|H]; [lra|apply Qle_bool_iff in H; congruence]. Qed.
Lemma qmin_le_l a b : qmin a b <= a.
Proof. unfold qmin. destruct (Qle_bool a b) eqn:E; [lra|]. destruct (Qlt_le_dec b a) as [H|H]; [lra|apply Qle_bool_iff in H; congruence]. Qed.
Lemma qmin_le_r a b : qmin a b <= b. Proof. unfold qmin. destruct (Qle_bool a b) eqn:E; [apply Qle_bool_iff in E; exact E|lra]. Qed.

Lemma list_max_ge l : forall d, d <= list_max d l /\ forall q, In q l -> q <= list_max d l.
Proof.
  unfold list_max. induction l as [|a l IH]; intros d; cbn [fold_left]; [split; [lra|intros q []]|].
  destruct (IH (qmax d a)) as [I1 I2]. split.
  - pose proof (qmax_ge_l d a). lra.
  - intros q [<-|Hq]; [pose proof (qmax_ge_r d a); lra|apply I2; exact Hq].
Qed.
Lemma list_min_le l : forall d, list_min d l <= d /\ forall q, In q l -> list_min d l <= q.
Proof.
  unfold list_min. induction l as [|a l IH]; intros d; cbn [fold_left]; [split; [lra|intros q []]|].
  destruct (IH (qmin d a)) as [I1 I2]. split.
  - pose proof (qmin_le_l d a). lra.
  - intros q [<-|Hq]; [pose proof (qmin_le_r d a); lra|apply I2; exact Hq].
Qed.

Lemma pwc_M_dominates ps p : In p ps ->
  pU p <= list_max (pU (hd p ps)) (map pU (tl ps)) /\ list_min (pL (hd p ps)) (map pL (tl ps)) <= pL p /\
  pC p <= list_max (pC (hd p ps)) (map pC (tl ps)) /\ list_min (pC (hd p ps)) (map pC (tl ps)) <= pC p.
Proof.
  destruct ps as [|p0 r]; [intros []|]. cbn [hd tl]. intros [<-|Hin].
  - repeat split; first [apply (proj1 (list_max_ge _ _))|apply (proj1 (list_min_le _ _))].
  - repeat split; first [apply (proj2 (list_max_ge _ _)); apply in_map; exact Hin|apply (proj2 (list_min_le _ _)); apply in_map; exact Hin].
Qed.

(* with the code's M the helper is exact under exactly its documented preconditions:
   non-empty ranges and x inside one of them *)
Theorem pwc_code_M_complete x y ps p :
  (forall p', In p' ps -> pL p' <= pU p') ->
  In p ps -> pL p <= x <= pU p -> y == pC p ->
  pwc (pwc_M ps) x y ps.
Proof.
  intros Hne Hin Hx Hy. apply (pwc_complete _ x y ps p Hin Hx Hy).
  intros p' Hin'.
  destruct ps as [|p0 r]; [destruct Hin|]. unfold pwc_M.
  destruct (pwc_M_dominates (p0 :: r) p Hin) as (A1 & A2 & A3 & A4).
  destruct (pwc_M_dominates (p0 :: r) p' Hin') as (B1 & B2 & B3 & B4).
  cbn [hd tl] in *. pose proof (Hne p' Hin'). pose proof (Hne p Hin).
  set (S1 := ((list_max (pU p0) (map pU r) - list_min (pL p0) (map pL r)) * 2)) in *.
  set (S2 := (list_max (pC p0) (map pC r) - list_min (pC p0) (map pC r))) in *.
  pose proof (qmax_ge_l S1 S2). pose proof (qmax_ge_r S1 S2). subst S1 S2.
  repeat split; lra.
Qed.

(* the M used before the fix did not cover the constants: ranges [0,1],[2,3], constants 0 and 100 *)
Theorem pwc_M_old_refuted : exists x y ps p,
  (forall p', In p' ps -> pL p' <= pU p') /\ In p ps /\ pL p <= x <= pU p /\ y == pC p /\ ~ pwc (pwc_M_old ps) x y ps.
Proof.
  exists 0, 0, [(0, 1, 0); (2, 3, 100)], (0, 1, 0).
  split; [intros p' [<-|[<-|[]]]; unfold pL, pU; cbn; lra|].
  split; [left; reflexivity|]. split; [unfold pL, pU; cbn; lra|]. split; [reflexivity|].
  intros (zs & Hb & Hs & Hr).
  assert (EM : pwc_M_old [(0, 1, 0); (2, 3, 100)] == 6) by (vm_compute; reflexivity).
  inversion Hr as [|p1 z1 ? ? H1 Hr1]; subst. inversion Hr1 as [|p2 z2 ? ? H2 Hr2]; subst. inversion Hr2; subst.
  unfold rows_piece in H2. destruct H2 as (_ & _ & _ & H2). unfold pC in H2. cbn [snd] in H2. rewrite EM in H2.
  inversion Hb as [|? ? B1 Hb1]; subst. inversion Hb1 as [|? ? B2 _]; subst.
  destruct B2 as [B2|B2]; rewrite B2 in H2; lra.
Qed.

(* bridge rows -> semantic relation *)
Lemma indexed_rows_sem a x y M : forall ps s,
  Forall (sat_row a) (flat_map (fun jp => pwc_piece_rows x y M (fst jp) (snd jp)) (indexed s ps)) <->
  Forall2 (rows_piece M (a x) (a y)) ps (map (fun j => a (Zsel y (N.of_nat j))) (seq s (length ps))).
Proof.
  induction ps as [|p ps IH]; intros s; cbn [indexed flat_map length seq map].
  - split; constructor.
  - rewrite Forall_app, IH. cbn [fst snd]. split.
    + intros [H4 HF]. constructor; [|exact HF].
      unfold pwc_piece_rows in H4. inversion H4 as [|? ? R1 H4']; subst. inversion H4' as [|? ? R2 H4'']; subst.
      inversion H4'' as [|? ? R3 H4''']; subst. inversion H4''' as [|? ? R4 _]; subst.
      unfold sat_row, mkrow in *. cbn [sns lhs rhs eval fst snd] in *. unfold rows_piece. repeat split; lra.
    + intros HF. inversion HF as [|? ? ? ? (R1 & R2 & R3 & R4) HF']; subst. split; [|exact HF'].
      unfold pwc_piece_rows. repeat constructor; unfold sat_row, mkrow; cbn [sns lhs rhs eval fst snd]; lra.
Qed.

Lemma eval_ones a (mk : nat -> var) js : eval a (map (fun j => (mk j, 1)) js) == sumql (map (fun j => a (mk j)) js).
Proof. induction js as [|j js IH]; cbn [map eval sumql fst snd]; [reflexivity|]. rewrite IH. ring. Qed.

Section PwcBridge.
  Variables (x y : var) (M : Q) (ps : list piece).
  Hypothesis Hx : vfam x <> fZ.
  Hypothesis Hy : vfam y <> fZ.
  Let zv (j : nat) := Zsel y (N.of_nat j).

  Lemma pwc_rows_sem a :
    Forall (sat_col a) (pwc_cols y ps) /\ Forall (sat_row a) (pwc_rows_M x y M ps) <->
    let zs := map (fun j => a (zv j)) (seq 0 (length ps)) in
    Forall bin zs /\ sumql zs == 1 /\ Forall2 (rows_piece M (a x) (a y)) ps zs.
  Proof.
    unfold pwc_cols, pwc_rows_M. cbn zeta. rewrite Forall_app, !Forall_map, indexed_rows_sem.
    assert (E : Forall (sat_row a) [mkrow (map (fun j => (Zsel y (N.of_nat j), 1)) (seq 0 (length ps))) SEq 1]
                <-> sumql (map (fun j => a (zv j)) (seq 0 (length ps))) == 1).
    { pose proof (eval_ones a zv (seq 0 (length ps))) as E. unfold zv in E |- *. split.
      - intros H. inversion H as [|? ? H1 _]; subst. unfold sat_row, mkrow in H1. cbn [sns lhs rhs] in H1. lra.
      - intros H. constructor; [|constructor]. unfold sat_row, mkrow. cbn [sns lhs rhs]. lra. }
    rewrite E. clear E. unfold zv. split.
    - intros (HC & HS & HF). repeat split; try assumption.
      eapply Forall_impl; [|exact HC]. intros j Hj. apply bin_of_col. exact Hj.
    - intros (HB & HS & HF). repeat split; try assumption.
      eapply Forall_impl; [|exact HB]. intros j Hj. apply col_of_bin. exact Hj.
  Qed.

  Theorem pwc_rows_exact a :
    ((exists a', (forall v, vfam v <> fZ -> a' v = a v) /\
                 Forall (sat_col a') (pwc_cols y ps) /\ Forall (sat_row a') (pwc_rows_M x y M ps))
     <-> pwc M (a x) (a y) ps).
  Proof.
    split.
    - intros (a' & Hag & HCR). apply pwc_rows_sem in HCR. cbn zeta in HCR. destruct HCR as (HB & HS & HF).
      rewrite (Hag x Hx), (Hag y Hy) in HF. eexists. repeat split; eassumption.
    - intros (zs & HB & HS & HF).
      assert (L : length zs = length ps) by (symmetry; apply (Forall2_len _ _ _ HF)).
      set (a' := setv zv 0 zs a).
      assert (Hout : forall v, vfam v <> fZ -> a' v = a v).
      { intros v H1. unfold a'. apply setv_out. intros i E. apply H1. rewrite E. reflexivity. }
      assert (Hz : map (fun j => a' (zv j)) (seq 0 (length ps)) = zs).
      { rewrite <- L. apply map_seq_nth. intros i Hi. unfold a'. apply (setv_in zv); [|exact Hi].
        intros i1 i2 E. apply (Zsel_inj y). exact E. }
      exists a'. split; [exact Hout|]. apply pwc_rows_sem. cbn zeta. rewrite Hz, (Hout x Hx), (Hout y Hy).
      repeat split; assumption.
  Qed.
End PwcBridge.

(* ---------------- the helpers as called by the code ---------------- *)
Theorem intprod_helper_exact (x c p : var) (lb ub : Q) (a : var -> Q) :
  (vfam x <> fBit /\ vfam x <> fComp) -> (vfam c <> fBit /\ vfam c <> fComp) -> (vfam p <> fBit /\ vfam p <> fComp) ->
  lb <= a c <= ub -> lb <= 0 <= ub ->
  let n := num_bits ub in
  ((exists a', (forall v, vfam v <> fBit -> vfam v <> fComp -> a' v = a v) /\
               Forall (sat_col a') (intprod_cols p lb ub n) /\ Forall (sat_row a') (intprod_rows x c p lb ub n))
   <-> exists z : Z, a x == inject_Z z /\ (0 <= z < 2 ^ Z.of_nat n)%Z /\ a p == a x * a c).
Proof. intros Hx Hc Hp Hca H0 n. apply intprod_rows_exact; assumption. Qed.

(* finding: the bit width comes from the bound of the CONTINUOUS factor, so an integer factor that
   is admissible for its own variable can be cut off (here ub = 0: zero bits, x = 1 excluded) *)
Theorem intprod_domain_refuted : exists (lb ub x c : Q),
  lb <= c <= ub /\ lb <= 0 <= ub /\ (exists z : Z, x == inject_Z z /\ (0 <= z)%Z) /\
  ~ intprod (num_bits ub) x c (x * c) lb ub.
Proof.
  exists 0, 0, 1, 0. split; [lra|]. split; [lra|]. split; [exists 1%Z; split; [reflexivity|lia]|].
  apply (intprod_cuts_off (num_bits 0) 1 0 (1 * 0) 0 0 1%Z); [lra|lra|reflexivity|].
  vm_compute. discriminate.
Qed.

Theorem pwc_helper_exact (x y : var) (ps : list piece) (a : var -> Q) :
  vfam x <> fZ -> vfam y <> fZ ->
  (forall p', In p' ps -> pL p' <= pU p') ->
  ((exists a', (forall v, vfam v <> fZ -> a' v = a v) /\
               Forall (sat_col a') (pwc_cols y ps) /\ Forall (sat_row a') (pwc_rows x y ps))
   <-> exists p, In p ps /\ pL p <= a x <= pU p /\ a y == pC p).
Proof.
  intros Hx Hy Hne. unfold pwc_rows. rewrite (pwc_rows_exact x y (pwc_M ps) ps Hx Hy a). split.
  - apply pwc_sound.
  - intros (p & Hin & Hr & Hc). apply (pwc_code_M_complete (a x) (a y) ps p Hne Hin Hr Hc).
Qed.
