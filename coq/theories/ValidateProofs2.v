(* C19 — proofs about Validate.v, part 2: covers, MinErrorFlow, cyclic models, the property at full strength *)
From Coq Require Import List Bool ZArith QArith Arith Lia.
Import ListNotations.
From FP Require Import Validate ValidateProofs.
Local Close Scope Q_scope.
Local Open Scope bool_scope.
Set Default Timeout 120.

Ltac complete_script i ::=
  unfold dev_noncons in *; unfold_dom; unfold_all; destruct (origin i) eqn:O; bsimp; try reflexivity; try solve [fing];
  (destruct (cons_wf i) eqn:W; [use_wf i | use_bad i]);
  rw_origin i O; prep_lists; rw_goal; bsimp; fing; crunch.

(* ================================================================== kPathCover *)
Theorem validate_sound_kPathCover i : validate_kPathCover i = RaiseValueError -> in_domain_kPathCover i = false.
Proof. intros H. destruct (in_domain_kPathCover i) eqn:D; [exfalso|reflexivity]. sound_script i. Qed.
Theorem validate_complete_kPathCover i : in_domain_kPathCover i = false -> validate_kPathCover i = RaiseValueError.
Proof. intros D. complete_script i. Qed.
Theorem accepts_domain_kPathCover i : in_domain_kPathCover i = true -> validate_kPathCover i = Accept.
Proof. intros D. accept_script i. Qed.

(* ================================================================== MinPathCover *)
Definition deviates_MinPathCover (i : input) := negb (search_enters i).
Theorem validate_sound_MinPathCover i : validate_MinPathCover i = RaiseValueError -> in_domain_MinPathCover i = false.
Proof. intros H. destruct (in_domain_MinPathCover i) eqn:D; [exfalso|reflexivity]. sound_script i. Qed.
Theorem validate_complete_MinPathCover i :
  in_domain_MinPathCover i = false -> deviates_MinPathCover i = false -> validate_MinPathCover i = RaiseValueError.
Proof. intros D V. unfold deviates_MinPathCover in V. norm_hyps. complete_script i. Qed.
Theorem accepts_domain_MinPathCover i :
  in_domain_MinPathCover i = true -> search_enters i = true -> validate_MinPathCover i = Accept.
Proof. intros D S. accept_script i. Qed.

(* ================================================================== MinErrorFlow: fail-closed without precondition *)
Theorem validate_sound_MinErrorFlow i : validate_MinErrorFlow i = RaiseValueError -> in_domain_MinErrorFlow i = false.
Proof.
  intros H. destruct (in_domain_MinErrorFlow i) eqn:D; [exfalso|reflexivity].
  unfold_dom; unfold_all; destruct (origin i) eqn:O; bsimp; try discriminate;
  split_dom D; use_size; norm_hyps; prep_lists; rw_in H; bsimp; fin H; crunch.
Qed.
Theorem validate_complete_MinErrorFlow i : in_domain_MinErrorFlow i = false -> validate_MinErrorFlow i = RaiseValueError.
Proof.
  intros D. unfold_dom; unfold_all; destruct (origin i) eqn:O; bsimp; try reflexivity; prep_lists; fing; crunch.
Qed.
Theorem accepts_domain_MinErrorFlow i : in_domain_MinErrorFlow i = true -> validate_MinErrorFlow i = Accept.
Proof.
  intros D. unfold_dom; unfold_all; destruct (origin i) eqn:O; bsimp; try discriminate;
  split_dom D; use_size; norm_hyps; prep_lists; rw_goal; bsimp; fing; crunch.
Qed.

(* ================================================================== kFlowDecompCycles *)
Definition deviates_kFlowDecompCycles (i : input) := all_ignored i || dev_noncons i.
Theorem validate_sound_kFlowDecompCycles i :
  validate_kFlowDecompCycles i = RaiseValueError -> in_domain_kFlowDecompCycles i = false.
Proof. intros H. destruct (in_domain_kFlowDecompCycles i) eqn:D; [exfalso|reflexivity]. sound_script i. Qed.
Theorem validate_complete_kFlowDecompCycles i :
  in_domain_kFlowDecompCycles i = false -> deviates_kFlowDecompCycles i = false ->
  validate_kFlowDecompCycles i = RaiseValueError.
Proof. intros D V. unfold deviates_kFlowDecompCycles in V. split_dev V. complete_script i. Qed.
Theorem accepts_domain_kFlowDecompCycles i :
  in_domain_kFlowDecompCycles i = true -> has_live i = true -> validate_kFlowDecompCycles i = Accept.
Proof. intros D L. rewrite has_live_all_ignored in L. apply negb_true_iff in L. accept_script i. Qed.
(* OPEN (DESIGN #21): a non-conserving flow is not rejected, the model is infeasible (unsolved) *)
Theorem validate_kFlowDecompCycles_refuted_nonconserving :
  exists i, in_domain_kFlowDecompCycles i = false /\ validate_kFlowDecompCycles i = AcceptsButUnsolved.
Proof. exists (set_flags ex_graph false false true [true; true]). vm_compute. auto. Qed.

(* ================================================================== kLeastAbsErrorsCycles / kMinPathErrorCycles *)
Definition deviates_kErrCycles (i : input) := all_ignored i.
(* numpy only sees the out-of-range percentile when some edge carries the attribute; otherwise every element lacks it and the
   weight check (or, with everything ignored, DESIGN #24) decides *)
Lemma no_weight_all_missing i : some_weight i = false -> forallb (fun e => missing_w (e_w e)) (elems i) = true.
Proof.
  unfold some_weight. induction (elems i) as [|e l IH]; cbn; auto.
  intros H. apply orb_false_elim in H as [H1 H2]. apply negb_false_iff in H1. rewrite H1, (IH H2). reflexivity.
Qed.
Lemma no_weight_bad_live i : some_weight i = false -> all_ignored i = false -> bad_live i = true.
Proof.
  intros S A. apply all_missing_live_bad; [apply no_weight_all_missing; exact S|].
  rewrite has_live_all_ignored, A. reflexivity.
Qed.
Ltac unfold_lae := unfold validate_kLeastAbsErrorsCycles, in_domain_kLeastAbsErrorsCycles, validate_kMinPathErrorCycles,
  in_domain_kMinPathErrorCycles, pct_bad, pct_set in *.

Theorem validate_sound_kLeastAbsErrorsCycles i :
  validate_kLeastAbsErrorsCycles i = RaiseValueError -> in_domain_kLeastAbsErrorsCycles i = false.
Proof.
  intros H. destruct (in_domain_kLeastAbsErrorsCycles i) eqn:D; [exfalso|reflexivity].
  unfold_lae. destruct (trust_pct i); sound_script i.
Qed.
Theorem validate_complete_kLeastAbsErrorsCycles i :
  in_domain_kLeastAbsErrorsCycles i = false -> deviates_kErrCycles i = false -> validate_kLeastAbsErrorsCycles i = RaiseValueError.
Proof.
  intros D V. unfold deviates_kErrCycles in V. unfold_lae.
  destruct (trust_pct i) eqn:T; bsimp; try solve [complete_script i].
  destruct (some_weight i) eqn:S; [complete_script i|].
  pose proof (no_weight_bad_live i S V) as B. complete_script i.
Qed.
Theorem accepts_domain_kLeastAbsErrorsCycles i :
  in_domain_kLeastAbsErrorsCycles i = true -> has_live i = true -> validate_kLeastAbsErrorsCycles i = Accept.
Proof.
  intros D L. rewrite has_live_all_ignored in L. apply negb_true_iff in L.
  unfold_lae. destruct (trust_pct i); accept_script i.
Qed.

Theorem validate_sound_kMinPathErrorCycles i :
  validate_kMinPathErrorCycles i = RaiseValueError -> in_domain_kMinPathErrorCycles i = false.
Proof.
  intros H. destruct (in_domain_kMinPathErrorCycles i) eqn:D; [exfalso|reflexivity].
  unfold_lae. destruct (trust_pct i), (ign_pct i); sound_script i.
Qed.
Theorem validate_complete_kMinPathErrorCycles i :
  in_domain_kMinPathErrorCycles i = false -> deviates_kErrCycles i = false -> validate_kMinPathErrorCycles i = RaiseValueError.
Proof.
  intros D V. unfold deviates_kErrCycles in V. unfold_lae.
  destruct (trust_pct i), (ign_pct i); bsimp; complete_script i.
Qed.
Theorem accepts_domain_kMinPathErrorCycles i :
  in_domain_kMinPathErrorCycles i = true -> has_live i = true -> validate_kMinPathErrorCycles i = Accept.
Proof.
  intros D L. rewrite has_live_all_ignored in L. apply negb_true_iff in L.
  unfold_lae. destruct (trust_pct i), (ign_pct i); accept_script i.
Qed.

(* ================================================================== kPathCoverCycles *)
Theorem validate_sound_kPathCoverCycles i :
  validate_kPathCoverCycles i = RaiseValueError -> in_domain_kPathCoverCycles i = false.
Proof. intros H. destruct (in_domain_kPathCoverCycles i) eqn:D; [exfalso|reflexivity]. sound_script i. Qed.
Theorem validate_complete_kPathCoverCycles i :
  in_domain_kPathCoverCycles i = false -> validate_kPathCoverCycles i = RaiseValueError.
Proof. intros D. complete_script i. Qed.
Theorem accepts_domain_kPathCoverCycles i :
  in_domain_kPathCoverCycles i = true -> validate_kPathCoverCycles i = Accept.
Proof. intros D. accept_script i. Qed.

(* ================================================================== MinPathCoverCycles *)
Definition deviates_MinPathCoverCycles (i : input) := negb (search_enters i).
Theorem validate_sound_MinPathCoverCycles i :
  validate_MinPathCoverCycles i = RaiseValueError -> in_domain_MinPathCoverCycles i = false.
Proof. intros H. destruct (in_domain_MinPathCoverCycles i) eqn:D; [exfalso|reflexivity]. sound_script i. Qed.
Theorem validate_complete_MinPathCoverCycles i :
  in_domain_MinPathCoverCycles i = false -> deviates_MinPathCoverCycles i = false ->
  validate_MinPathCoverCycles i = RaiseValueError.
Proof. intros D V. unfold deviates_MinPathCoverCycles in V. norm_hyps. complete_script i. Qed.
Theorem accepts_domain_MinPathCoverCycles i :
  in_domain_MinPathCoverCycles i = true -> search_enters i = true -> validate_MinPathCoverCycles i = Accept.
Proof. intros D S. accept_script i. Qed.

(* old behaviour: an out-of-range length-based coverage was accepted when no constraint was passed *)
Theorem old_validate_kPathCover_refuted_coverage_length :
  exists i, in_domain_kPathCover i = false /\ old_validate_kPathCover i = Accept.
Proof. exists (set_covlen ex_dag (Some (3#2)%Q) true). vm_compute. auto. Qed.

(* ---------------------------------------------------------------- k and solution_weights_superset *)
(* every k-model looks at the caller's k before and independently of the given weights: whatever has_superset says, a k that
   is not a positive int (0, negative, float, bool, None where it is not documented, str) never gets through *)
Theorem kFlowDecomp_k_checked_independently_of_given_weights i :
  k_bad i = true -> validate_kFlowDecomp i <> Accept.
Proof.
  intros K H. unfold validate_kFlowDecomp in H. destruct (origin i) eqn:O; try discriminate;
  unfold_all; norm_hyps; rw_in H; bsimp;
  try (destruct (expand_cons (cons i)) as [o|] eqn:E; [apply expand_outcomes in E; subst o|]);
  (destruct (check_cons (internal_cons i)) as [o|] eqn:E2; [apply check_cons_ve in E2; subst o|]);
  bsimp; fin H; crunch.
Qed.
Theorem kErrDAG_k_checked_first none_ok i : k_bad_gen none_ok i = true -> validate_kErrDAG none_ok i = RaiseValueError.
Proof. intros K. unfold validate_kErrDAG. rewrite K. reflexivity. Qed.
(* OLD BEHAVIOUR (before 29f2322): kLeastAbsErrors / kMinPathError never looked at the caller's k when the weights were given *)
Theorem old_validate_kErrDAG_refuted_k_with_given_weights :
  exists i, in_domain_kErrDAG false i = false /\ k_bad i = true /\ old_validate_kErrDAG i = Accept.
Proof. exists (set_superset (set_k ex_dag (KInt 0)) true). vm_compute. auto. Qed.
(* OLD BEHAVIOUR: kFlowDecomp's own test let a bool through, and with given weights the base class validated len(weights) *)
Theorem old_validate_kFlowDecomp_refuted_bool_k_with_given_weights :
  exists i, in_domain_kFlowDecomp i = false /\ old_validate_kFlowDecomp i = Accept.
Proof. exists (set_superset (set_k ex_dag (KBool true)) true). vm_compute. auto. Qed.

(* ---------------------------------------------------------------- the constraint-type decision of the node-weighted models *)
(* NodeExpandedDiGraph.get_expanded_subpath_constraints decides by the FIRST element whether the constraints are lists of nodes or
   lists of edges; a constraint list whose elements are not all of that kind (and present in the graph) is rejected with
   ValueError: mixed node/edge lists never get through, in either order *)
Lemma first_bad_none_kind l : first_bad_edge_item l = None -> forallb (fun it => kind_eqb (it_kind it) IPair) l = true.
Proof.
  intros H. apply first_bad_none in H. rewrite item_good_split in H. apply andb_prop in H as [H _]. exact H.
Qed.
Theorem expand_cons_uniform cs :
  expand_cons cs = None ->
  forallb (fun it => kind_eqb (it_kind it) IStr) (all_items cs) = true \/
  forallb (fun it => kind_eqb (it_kind it) IPair) (all_items cs) = true.
Proof.
  unfold expand_cons, guard, seq. destruct (forallb c_is_list cs); cbn [negb]; [|discriminate].
  destruct (existsb (fun c => is_nil (c_items c)) cs) eqn:NE; [discriminate|].
  destruct cs as [|c0 r]; [left; reflexivity|].
  destruct (c_items c0) as [|it0 l0] eqn:I0.
  { cbn in NE. rewrite I0 in NE. discriminate. }
  destruct (it_kind it0).
  - destruct (forallb (item_good IStr) (all_items (c0 :: r))) eqn:G; cbn; [|discriminate].
    intros _. left. rewrite item_good_split in G. apply andb_prop in G as [G _]. exact G.
  - intros H. right. apply first_bad_none_kind. exact H.
  - intros H. right. apply first_bad_none_kind. exact H.
  - discriminate.
Qed.
