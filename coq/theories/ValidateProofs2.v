(* C19 — proofs about Validate.v, part 2: covers, MinErrorFlow, cyclic models (tactics and lemmas: ValidateProofs.v) *)
From Coq Require Import List Bool ZArith QArith Arith Lia.
Import ListNotations.
From FP Require Import Validate ValidateProofs.
Local Close Scope Q_scope.
Local Open Scope bool_scope.
Set Default Timeout 60.

Ltac unfold_all ::=
  unfold validate_stDAG, validate_stDiGraph, validate_NodeExpandedDiGraph, validate_kFlowDecomp, validate_MinFlowDecomp,
    validate_kMinPathError, validate_kLeastAbsErrors, validate_kErrDAG, validate_kPathCover, validate_MinPathCover,
    validate_MinErrorFlow, validate_kFlowDecompCycles, validate_kLeastAbsErrorsCycles, validate_kMinPathErrorCycles,
    validate_kErrCycles, validate_kPathCoverCycles, validate_MinPathCoverCycles, validate_MinFlowDecompCycles,
    mfd_solve, kfd_core, kfdc_core, front_cover, front, front_node, front_edge, v_stdag, v_stdigraph, v_ssg_common, v_nodeexp,
    v_maxflow, v_pathmodel, v_walkmodel, v_walkmodel_k, v_fooled, st_of, en_of, VE in *.

(* ================================================================== kPathCover *)
Definition is_node (i : input) := match origin i with ONode => true | _ => false end.
Definition deviates_kPathCover (i : input) := dev_cov i || dev_expand i || dev_k_nonint i || dev_k_le0 i.
Theorem validate_sound_kPathCover i : validate_kPathCover i = RaiseValueError -> in_domain_kPathCover i = false.
Proof.
  intros H. destruct (in_domain_kPathCover i) eqn:D; [exfalso|reflexivity]. sound_script i.
Qed.
Theorem validate_complete_kPathCover i :
  in_domain_kPathCover i = false -> deviates_kPathCover i = false -> validate_kPathCover i = RaiseValueError.
Proof.
  intros D V. unfold deviates_kPathCover in V. split_dev V. norm_hyps.
  assert (K : k_pos_int i = true) by (apply k_pos_from; unfold dev_k_nonint, dev_k_le0 in *; norm_hyps; assumption).
  complete_script i.
Qed.
Theorem accepts_domain_kPathCover i : in_domain_kPathCover i = true -> validate_kPathCover i = Accept.
Proof. intros D. accept_script i. Qed.
(* DESIGN #17: k = 0 is accepted (the model is merely unsolved) *)
Theorem validate_kPathCover_refuted_k0 :
  exists i, in_domain_kPathCover i = false /\ validate_kPathCover i = AcceptsButUnsolved.
Proof. exists (set_k ex_dag (KInt 0)). vm_compute. auto. Qed.

(* ================================================================== MinPathCover *)
Definition deviates_MinPathCover (i : input) := dev_cov i || dev_expand i || negb (search_enters i).
Theorem validate_sound_MinPathCover i : validate_MinPathCover i = RaiseValueError -> in_domain_MinPathCover i = false.
Proof.
  intros H. destruct (in_domain_MinPathCover i) eqn:D; [exfalso|reflexivity]. sound_script i.
Qed.
Theorem validate_complete_MinPathCover i :
  in_domain_MinPathCover i = false -> deviates_MinPathCover i = false -> validate_MinPathCover i = RaiseValueError.
Proof.
  intros D V. unfold deviates_MinPathCover in V. split_dev V. norm_hyps. complete_script i.
Qed.
Theorem accepts_domain_MinPathCover i :
  in_domain_MinPathCover i = true -> search_enters i = true -> validate_MinPathCover i = Accept.
Proof. intros D S. accept_script i. Qed.

(* ================================================================== MinErrorFlow *)
Definition deviates_MinErrorFlow (i : input) :=
  negb (acyclic i) && negb (is_node i) && negb (all_str i).
Theorem validate_sound_MinErrorFlow i : validate_MinErrorFlow i = RaiseValueError -> in_domain_MinErrorFlow i = false.
Proof.
  intros H. destruct (in_domain_MinErrorFlow i) eqn:D; [exfalso|reflexivity].
  unfold_dom; unfold_all; destruct (origin i) eqn:O; bsimp; try discriminate;
  split_dom D; use_size; norm_hyps; prep_lists; rw_in H; bsimp; fin H.
Qed.
Theorem validate_complete_MinErrorFlow i :
  in_domain_MinErrorFlow i = false -> deviates_MinErrorFlow i = false -> validate_MinErrorFlow i = RaiseValueError.
Proof.
  intros D V. unfold deviates_MinErrorFlow, is_node in V.
  unfold_dom; unfold_all; destruct (origin i) eqn:O; bsimp; try reflexivity; prep_lists; fing.
Qed.
Theorem accepts_domain_MinErrorFlow i : in_domain_MinErrorFlow i = true -> validate_MinErrorFlow i = Accept.
Proof.
  intros D. unfold_dom; unfold_all; destruct (origin i) eqn:O; bsimp; try discriminate;
  split_dom D; use_size; norm_hyps; prep_lists; rw_goal; bsimp; fing.
Qed.
(* a cyclic graph in edge mode is never wrapped in an st-graph: non-string nodes are accepted *)
Theorem validate_MinErrorFlow_refuted_nonstring_cyclic :
  exists i, in_domain_MinErrorFlow i = false /\ validate_MinErrorFlow i = Accept.
Proof. exists (set_flags ex_graph false true true [true; false]). vm_compute. auto. Qed.
