(* C20 — whole files: block splitting of read_graphs, round trip for every well-formed multi-block
   description, rejection inside a file, the n == 0 deviation, and the number-token lemmas. *)
From Coq Require Import List NArith ZArith Bool Arith Lia.
Import ListNotations.
From FP Require Import Parser ParserProofs1 ParserProofs2 ParserProofs3.
Set Default Timeout 30.
Open Scope N_scope.

(* ================================================================ span *)
Lemma span_all {A} (p : A -> bool) a b :
  Forall (fun x => p x = true) a -> match b with [] => True | x :: _ => p x = false end -> span p (a ++ b) = (a, b).
Proof.
  intros Ha Hb. induction Ha as [|x a Hx _ IH].
  - cbn [app]. destruct b as [|y b]; [reflexivity|]. cbn [span]. rewrite Hb. reflexivity.
  - cbn [app span]. rewrite Hx, IH. reflexivity.
Qed.
Lemma span_app {A} (p : A -> bool) l : l = fst (span p l) ++ snd (span p l).
Proof.
  induction l as [|x l IH]; [reflexivity|]. cbn [span]. destruct (p x); [|reflexivity].
  destruct (span p l) as [a b]. cbn [fst snd app] in *. f_equal. exact IH.
Qed.
Lemma span_stop {A} (p : A -> bool) l : match snd (span p l) with [] => True | x :: _ => p x = false end.
Proof.
  induction l as [|x l IH]; [exact I|]. cbn [span]. destruct (p x) eqn:E.
  - destruct (span p l) as [a b]. exact IH.
  - cbn [snd]. exact E.
Qed.

(* ================================================================ block splitting *)
Definition hdr_or_nil (l : list str) : Prop := match l with [] => True | x :: _ => is_hdr x = true end.
(* a block as read_graphs cuts it: header lines, then at least one non-header line *)
Definition shaped (B : list str) : Prop :=
  exists hs body, B = hs ++ body /\ hs <> [] /\ Forall (fun l => is_hdr l = true) hs /\
                  Forall (fun l => is_hdr l = false) body /\ body <> [].

Lemma not_hdr_true l : not_hdr l = true <-> is_hdr l = false.
Proof. unfold not_hdr. destruct (is_hdr l); split; intros H; try reflexivity; discriminate. Qed.
Lemma Forall_not_hdr body : Forall (fun l => is_hdr l = false) body -> Forall (fun l => not_hdr l = true) body.
Proof. intros H. eapply Forall_impl; [|exact H]. intros l Hl. apply not_hdr_true. exact Hl. Qed.

Lemma blocks_pre fuel pre X : Forall (fun l => is_hdr l = false) pre -> blocks_fuel fuel (pre ++ X) = blocks_fuel fuel X.
Proof.
  intros Hp. destruct fuel as [|k]; [reflexivity|]. cbn [blocks_fuel].
  assert (E : snd (span not_hdr (pre ++ X)) = snd (span not_hdr X)).
  { induction Hp as [|l pre Hl _ IH]; [reflexivity|]. cbn [app span].
    assert (E1 : not_hdr l = true) by (apply not_hdr_true; assumption). rewrite E1.
    destruct (span not_hdr (pre ++ X)) as [a b]. cbn [snd] in *. exact IH. }
  destruct (span not_hdr (pre ++ X)) as [a1 b1]. destruct (span not_hdr X) as [a2 b2]. cbn [snd] in E. subst. reflexivity.
Qed.

Lemma blocks_step k hs body rest :
  hs <> [] -> Forall (fun l => is_hdr l = true) hs -> Forall (fun l => is_hdr l = false) body ->
  (body <> [] \/ rest = []) -> hdr_or_nil rest ->
  blocks_fuel (S k) (hs ++ body ++ rest) =
  match blocks_fuel k rest with Some bs => Some ((hs ++ body) :: bs) | None => None end.
Proof.
  intros Hne Hh Hb Hbr Hr. cbn [blocks_fuel].
  destruct hs as [|h0 hs']; [congruence|]. inversion Hh as [|? ? Hh0 Hh']; subst.
  (* skip to the first header: nothing to skip *)
  cbn [app span]. assert (E0 : not_hdr h0 = false) by (unfold not_hdr; rewrite Hh0; reflexivity). rewrite E0.
  (* header lines *)
  change (h0 :: hs' ++ body ++ rest) with ((h0 :: hs') ++ (body ++ rest)).
  rewrite (span_all is_hdr (h0 :: hs') (body ++ rest)); [|assumption|].
  2:{ destruct body as [|b0 body'].
      - destruct Hbr as [Hbr|Hbr]; [congruence|]. subst. exact I.
      - cbn [app]. inversion Hb; assumption. }
  (* body lines *)
  rewrite (span_all not_hdr body rest); [|apply Forall_not_hdr; assumption|].
  2:{ destruct rest as [|r0 rest']; [exact I|]. cbn [hdr_or_nil] in Hr. unfold not_hdr. rewrite Hr. reflexivity. }
  reflexivity.
Qed.

Lemma hdr_or_nil_concat Bs tail : Forall shaped Bs -> hdr_or_nil tail -> hdr_or_nil (concat Bs ++ tail).
Proof.
  intros HB Ht. destruct HB as [|B Bs (hs & body & -> & Hne & Hh & _) _]; [exact Ht|].
  cbn [concat]. destruct hs as [|h0 hs']; [congruence|]. inversion Hh; subst. cbn [app hdr_or_nil]. assumption.
Qed.

Lemma blocks_good Bs : Forall shaped Bs -> forall f tail, hdr_or_nil tail ->
  blocks_fuel (length Bs + f) (concat Bs ++ tail) =
  match blocks_fuel f tail with Some bs => Some (Bs ++ bs) | None => None end.
Proof.
  induction 1 as [|B Bs HB HBs IH]; intros f tail Ht.
  - cbn [length concat app plus]. destruct (blocks_fuel f tail); reflexivity.
  - destruct HB as (hs & body & -> & Hne & Hh & Hb & Hbne). cbn [length concat plus].
    rewrite <- !app_assoc. rewrite blocks_step; try assumption; [|left; assumption|apply hdr_or_nil_concat; assumption].
    rewrite IH by assumption. destruct (blocks_fuel f tail); reflexivity.
Qed.

Lemma blocks_total fuel : forall lines, (length lines < fuel)%nat -> exists bs, blocks_fuel fuel lines = Some bs.
Proof.
  induction fuel as [|k IH]; intros lines Hlen; [lia|]. cbn [blocks_fuel].
  pose proof (span_app not_hdr lines) as E1. pose proof (span_stop not_hdr lines) as S1.
  destruct (span not_hdr lines) as [a1 l1]. cbn [fst snd] in E1, S1.
  destruct l1 as [|x l1']; [exists []; reflexivity|].
  assert (Hx : is_hdr x = true) by (unfold not_hdr in S1; destruct (is_hdr x); [reflexivity|discriminate]).
  cbn [span]. rewrite Hx.
  pose proof (span_app is_hdr l1') as E2. destruct (span is_hdr l1') as [hs l2]. cbn [fst snd] in E2.
  pose proof (span_app not_hdr l2) as E3. destruct (span not_hdr l2) as [body l3]. cbn [fst snd] in E3.
  destruct (IH l3) as (bs & Hbs).
  { apply (f_equal (@length str)) in E1. apply (f_equal (@length str)) in E2. apply (f_equal (@length str)) in E3.
    rewrite app_length in E1, E2, E3. cbn [length] in E1. lia. }
  rewrite Hbs. eexists. reflexivity.
Qed.

(* ================================================================ files of well-formed blocks *)
(* inside read_graphs: at least one '#' line and no comment lines after the count (a '#' line starts a new block) *)
Definition wf_fblock (b : bdesc) : Prop := wf_block false b /\ b_items b <> [].

Lemma render_hitem_hdr it : wf_hitem it -> is_hdr (render_hitem it) = true.
Proof. destruct it; cbn [wf_hitem render_hitem]; intros (Hl & _); apply is_hdr_lead_hash; assumption. Qed.

Lemma wf_body_not_hdr body : Forall (wf_bitem false) body -> Forall (fun l => is_hdr l = false) (map render_bitem body).
Proof.
  induction 1 as [|b body Hb _ IH]; [constructor|]. cbn [map]. constructor; [|exact IH].
  destruct b as [lead u gu v gv w gw x|l]; cbn [wf_bitem render_bitem] in *.
  - destruct Hb as (Hl & Hc & Hn & _). cbn [wf_cells] in Hc. destruct Hc as (Hu & _). cbn [glue].
    apply is_hdr_lead_token; assumption.
  - destruct Hb as [Hb|[Hb _]]; [apply is_hdr_blank; assumption|discriminate].
Qed.

Lemma shaped_block items blanks cl body :
  Forall wf_hitem items -> items <> [] -> Forall all_ws blanks -> is_hdr cl = false ->
  Forall (fun l => is_hdr l = false) body ->
  shaped (map render_hitem items ++ blanks ++ cl :: body).
Proof.
  intros Hi Hne Hb Hc Hbody. exists (map render_hitem items), (blanks ++ cl :: body). repeat split.
  - destruct items; [congruence|discriminate].
  - apply Forall_map. eapply Forall_impl; [|exact Hi]. apply render_hitem_hdr.
  - apply Forall_app. split.
    + eapply Forall_impl; [|exact Hb]. intros l Hl. apply is_hdr_blank. apply is_blank_all_ws. exact Hl.
    + constructor; assumption.
  - destruct blanks; discriminate.
Qed.
Lemma wf_block_body_not_hdr b : wf_block false b -> Forall (fun l => is_hdr l = false) (map render_bitem (b_body b)).
Proof.
  intros (_ & _ & [(_ & _ & Hsk)|(_ & Hbody & _)]); [|apply wf_body_not_hdr; assumption].
  eapply Forall_impl; [|exact Hsk]. intros l [Hl|[Hl _]]; [apply is_hdr_blank; assumption|discriminate].
Qed.
Lemma shaped_render b : wf_fblock b -> shaped (render_block b).
Proof.
  intros (Hw & Hne). pose proof (wf_block_body_not_hdr b Hw) as Hbody. destruct Hw as ((Hi & Hb & Hl & Ht & Hc) & _).
  unfold render_block. apply shaped_block; try assumption. apply count_line_not_hdr; assumption.
Qed.

Lemma seq_blocks_ok bs : Forall wf_fblock bs -> seq_blocks (map render_block bs) = Ok (map denote bs).
Proof.
  induction 1 as [|b bs (Hb & _) _ IH]; [reflexivity|]. cbn [map seq_blocks].
  rewrite (read_render_block false b Hb), IH. reflexivity.
Qed.
Lemma seq_blocks_error good B e more : Forall wf_fblock good -> read_graph B = Error e ->
  seq_blocks (map render_block good ++ B :: more) = Error e.
Proof.
  intros Hg He. induction Hg as [|b bs (Hb & _) _ IH]; cbn [map app seq_blocks].
  - rewrite He. reflexivity.
  - rewrite (read_render_block false b Hb), IH. reflexivity.
Qed.

Lemma length_concat_shaped Bs : Forall shaped Bs -> (length Bs <= length (concat Bs))%nat.
Proof.
  induction 1 as [|B Bs (hs & body & -> & Hne & _) _ IH]; [cbn; lia|].
  cbn [length concat]. rewrite !app_length. destruct hs; [congruence|]. cbn [length]. lia.
Qed.

(* any non-header lines first (they are skipped), then the blocks *)
Theorem read_render pre bs :
  Forall (fun l => is_hdr l = false) pre -> Forall wf_fblock bs ->
  read_graphs (pre ++ concat (map render_block bs)) = FRes (Ok (map denote bs)).
Proof.
  intros Hp Hb. unfold read_graphs. rewrite blocks_pre by assumption.
  assert (Hs : Forall shaped (map render_block bs)).
  { apply Forall_map. eapply Forall_impl; [|exact Hb]. apply shaped_render. }
  pose proof (length_concat_shaped _ Hs) as Hlen.
  set (lines := pre ++ concat (map render_block bs)).
  assert (Hl : (length (concat (map render_block bs)) <= length lines)%nat) by (unfold lines; rewrite app_length; lia).
  replace (S (length lines)) with (length (map render_block bs) + S (length lines - length (map render_block bs)))%nat by lia.
  rewrite <- (app_nil_r (concat (map render_block bs))). rewrite blocks_good; [|assumption|exact I].
  cbn [blocks_fuel span]. rewrite app_nil_r. rewrite seq_blocks_ok by assumption. reflexivity.
Qed.

(* a block that read_graph rejects, after any number of good blocks, followed by anything that starts with '#' (or nothing) *)
Theorem corrupt_block_rejected pre good B rest e :
  Forall (fun l => is_hdr l = false) pre -> Forall wf_fblock good ->
  shaped B -> hdr_or_nil rest -> read_graph B = Error e ->
  read_graphs (pre ++ concat (map render_block good) ++ B ++ rest) = FRes (Error e).
Proof.
  intros Hp Hg HB Hr He. unfold read_graphs. rewrite blocks_pre by assumption.
  assert (Hs : Forall shaped (map render_block good)).
  { apply Forall_map. eapply Forall_impl; [|exact Hg]. apply shaped_render. }
  pose proof (length_concat_shaped _ Hs) as Hlen.
  set (lines := pre ++ concat (map render_block good) ++ B ++ rest).
  assert (HBne : (1 <= length B)%nat).
  { destruct HB as (hs & body & -> & Hne & _). rewrite app_length. destruct hs; [congruence|]. cbn [length]. lia. }
  assert (Hl : (length (concat (map render_block good)) + length B + length rest <= length lines)%nat).
  { unfold lines. rewrite !app_length. lia. }
  replace (S (length lines)) with (length (map render_block good) + S (length lines - length (map render_block good)))%nat by lia.
  rewrite blocks_good; [|assumption|].
  2:{ destruct HB as (hs & body & -> & Hne & Hh & _). destruct hs as [|h0 hs']; [congruence|]. inversion Hh; subst. cbn [app hdr_or_nil]. assumption. }
  destruct HB as (hs & body & -> & Hne & Hh & Hb & Hbne). rewrite <- app_assoc.
  rewrite blocks_step; try assumption; [|left; assumption].
  destruct (blocks_total (length lines - length (map render_block good)) rest) as (more & Hm); [lia|].
  rewrite Hm. rewrite (seq_blocks_error good (hs ++ body) e more Hg He). reflexivity.
Qed.

(* a file that ends inside the header part of its last block (no vertex-count line) *)
Theorem missing_count_at_eof pre good items blanks :
  Forall (fun l => is_hdr l = false) pre -> Forall wf_fblock good ->
  Forall wf_hitem items -> items <> [] -> Forall all_ws blanks ->
  read_graphs (pre ++ concat (map render_block good) ++ map render_hitem items ++ blanks) = FRes (Error EMissingCount).
Proof.
  intros Hp Hg Hi Hne Hb. unfold read_graphs. rewrite blocks_pre by assumption.
  assert (Hs : Forall shaped (map render_block good)).
  { apply Forall_map. eapply Forall_impl; [|exact Hg]. apply shaped_render. }
  set (lines := pre ++ concat (map render_block good) ++ map render_hitem items ++ blanks).
  pose proof (length_concat_shaped _ Hs) as Hlen.
  assert (Hl : (length (concat (map render_block good)) + 1 <= length lines)%nat).
  { unfold lines. rewrite !app_length, map_length. destruct items; [congruence|]. cbn [length]. lia. }
  replace (S (length lines)) with (length (map render_block good) + S (length lines - length (map render_block good)))%nat by lia.
  assert (Hh : Forall (fun l => is_hdr l = true) (map render_hitem items)).
  { apply Forall_map. eapply Forall_impl; [|exact Hi]. apply render_hitem_hdr. }
  rewrite blocks_good; [|assumption|].
  2:{ destruct items as [|i0 items']; [congruence|]. cbn [map app hdr_or_nil]. inversion Hh; assumption. }
  rewrite <- (app_nil_r (map render_hitem items ++ blanks)). rewrite <- app_assoc.
  rewrite blocks_step; [|destruct items; [congruence|discriminate]|assumption| |right; reflexivity|exact I].
  2:{ eapply Forall_impl; [|exact Hb]. intros l Hl'. apply is_hdr_blank. apply is_blank_all_ws. exact Hl'. }
  destruct (length lines - length (map render_block good))%nat eqn:Ek; [lia|].
  cbn [blocks_fuel span].
  rewrite (seq_blocks_error good (map render_hitem items ++ blanks) EMissingCount [] Hg (missing_count_rejected items blanks Hi Hb)). reflexivity.
Qed.

(* ================================================================ number tokens *)
Lemma digit_not_ws c : is_digit c = true -> is_ws c = false.
Proof.
  unfold is_digit, is_ws. intros H. apply andb_true_iff in H. destruct H as [H1 H2]. apply N.leb_le in H1, H2.
  repeat (apply orb_false_iff; split); try (apply andb_false_iff; right; apply N.leb_gt; lia); try (apply N.eqb_neq; lia).
  apply andb_false_iff. left. apply N.leb_gt. lia.
Qed.
Lemma span_digits_spec s : forall a b, span_digits s = (a, b) -> s = a ++ b /\ Forall (fun c => is_digit c = true) a.
Proof.
  induction s as [|c s IH]; intros a b E; cbn [span_digits] in E.
  - inversion E; subst. split; [reflexivity|constructor].
  - destruct (is_digit c) eqn:D.
    + destruct (span_digits s) as [a' b']. inversion E; subst. destruct (IH a' b eq_refl) as [-> Hd]. split; [reflexivity|constructor; assumption].
    + inversion E; subst. split; [reflexivity|constructor].
Qed.
Lemma digits_no_ws a : Forall (fun c => is_digit c = true) a -> no_ws a.
Proof. intros H. eapply Forall_impl; [|exact H]. apply digit_not_ws. Qed.
Lemma strip_sign_spec s neg b : strip_sign s = (neg, b) ->
  exists sg, s = sg ++ b /\ no_ws sg /\ (forall c r, b = c :: r -> is_digit c = true -> nohash s /\ s <> []).
Proof.
  destruct s as [|c r]; cbn [strip_sign]; intros E.
  - inversion E; subst. exists []. split; [reflexivity|]. split; [constructor|]. intros c r H. discriminate.
  - destruct (c =? c_plus) eqn:E1; [|destruct (c =? c_minus) eqn:E2]; inversion E; subst.
    + apply N.eqb_eq in E1. subst. exists [c_plus]. split; [reflexivity|]. split; [repeat constructor|].
      intros c r0 _ _. split; [cbn; discriminate|discriminate].
    + apply N.eqb_eq in E2. subst. exists [c_minus]. split; [reflexivity|]. split; [repeat constructor|].
      intros c0 r0 _ _. split; [cbn; discriminate|discriminate].
    + exists []. split; [reflexivity|]. split; [constructor|]. intros c0 r0 H Hd. inversion H; subst.
      split; [|discriminate]. cbn [nohash]. intros ->. discriminate.
Qed.

(* a token whose value the model decides is a white-space-free field that does not start with '#' *)
Lemma parse_int_ok_text s z : parse_int s = IOk z -> token s /\ nohash s.
Proof.
  unfold parse_int. destruct (non_ascii s); [discriminate|]. destruct (4000 <? length s)%nat; [discriminate|].
  destruct (strip_sign s) as [neg b] eqn:Es. destruct (span_digits b) as [ds r] eqn:Ed.
  destruct ds as [|d ds']; [destruct (udigits b false); discriminate|].
  destruct r; [|destruct (udigits b false); discriminate]. intros _.
  destruct (span_digits_spec _ _ _ Ed) as [Eb Hd]. rewrite app_nil_r in Eb.
  destruct (strip_sign_spec _ _ _ Es) as (sg & -> & Hsg & Hfirst).
  inversion Hd; subst. destruct (Hfirst d ds' eq_refl) as [Hn Hne]; [assumption|].
  split; [|exact Hn]. split; [exact Hne|]. apply Forall_app. split; [assumption|]. apply digits_no_ws. assumption.
Qed.
Lemma parse_float_ok_token s d : parse_float s = FOk d -> token s.
Proof.
  unfold parse_float. destruct (non_ascii s); [discriminate|]. destruct (simple_float s) as [d'|] eqn:E; [|destruct (py_float_ok s); discriminate].
  intros _. unfold simple_float in E. destruct (strip_sign s) as [neg b] eqn:Es. destruct (span_digits b) as [ip r1] eqn:Ed.
  destruct ip as [|i0 ip']; [discriminate|].
  destruct (span_digits_spec _ _ _ Ed) as [Eb Hd].
  destruct (strip_sign_spec _ _ _ Es) as (sg & -> & Hsg & Hfirst).
  inversion Hd; subst. destruct (Hfirst i0 (ip' ++ r1) eq_refl) as [_ Hne]; [assumption|].
  split; [exact Hne|]. apply Forall_app. split; [assumption|]. apply Forall_app. split; [apply digits_no_ws; assumption|].
  destruct r1 as [|c r2]; [constructor|]. destruct (c =? c_dot) eqn:Ec; [|discriminate]. apply N.eqb_eq in Ec. subst.
  destruct (span_digits r2) as [fp r3] eqn:Ef. destruct fp as [|f0 fp']; [discriminate|]. destruct r3; [|discriminate].
  destruct (span_digits_spec _ _ _ Ef) as [Er Hf]. rewrite app_nil_r in Er. subst r2. constructor; [reflexivity|apply digits_no_ws; assumption].
Qed.

(* value of the tokens of the grammar  [+-]? digits ( . digits )? *)
Definition is_digits (ds : str) : Prop := ds <> [] /\ Forall (fun c => is_digit c = true) ds.
Definition sign_str (neg : bool) (plus : bool) : str := if neg then [c_minus] else if plus then [c_plus] else [].

Lemma span_digits_all ds rest : Forall (fun c => is_digit c = true) ds ->
  match rest with [] => True | c :: _ => is_digit c = false end -> span_digits (ds ++ rest) = (ds, rest).
Proof.
  intros Hd Hr. induction Hd as [|c ds Hc _ IH].
  - cbn [app]. destruct rest as [|c r]; [reflexivity|]. cbn [span_digits]. rewrite Hr. reflexivity.
  - cbn [app span_digits]. rewrite Hc, IH. reflexivity.
Qed.
Lemma strip_sign_sign neg plus c r : is_digit c = true -> strip_sign (sign_str neg plus ++ c :: r) = (neg, c :: r).
Proof.
  intros H1. unfold sign_str. destruct neg; [reflexivity|]. destruct plus; [reflexivity|].
  cbn [app strip_sign]. unfold is_digit in H1. apply andb_true_iff in H1. destruct H1 as [H1 H1']. apply N.leb_le in H1, H1'.
  destruct (N.eqb_spec c c_plus) as [E|_]; [unfold c_plus in E; lia|]. destruct (N.eqb_spec c c_minus) as [E|_]; [unfold c_minus in E; lia|]. reflexivity.
Qed.
Lemma non_ascii_digits neg plus ds rest : Forall (fun c => is_digit c = true) ds -> non_ascii rest = false ->
  non_ascii (sign_str neg plus ++ ds ++ rest) = false.
Proof.
  intros Hd Hr. unfold non_ascii in *. rewrite !existsb_app. rewrite Hr.
  assert (E1 : existsb (fun c => 128 <=? c) (sign_str neg plus) = false) by (destruct neg, plus; reflexivity).
  assert (E2 : existsb (fun c => 128 <=? c) ds = false).
  { induction Hd as [|c ds Hc _ IH]; [reflexivity|]. cbn [existsb]. rewrite IH.
    unfold is_digit in Hc. apply andb_true_iff in Hc. destruct Hc as [_ Hc]. apply N.leb_le in Hc.
    assert (E : (128 <=? c) = false) by (apply N.leb_gt; lia). rewrite E. reflexivity. }
  rewrite E1, E2. reflexivity.
Qed.

Theorem parse_float_integer neg plus ip : is_digits ip ->
  parse_float (sign_str neg plus ++ ip) = FOk {| dneg := neg; dmant := digits_val ip 0; dscale := 0 |}.
Proof.
  intros [Hne Hd]. unfold parse_float.
  rewrite <- (app_nil_r ip) at 1. rewrite non_ascii_digits by (try assumption; reflexivity).
  unfold simple_float. destruct ip as [|c r]; [congruence|]. inversion Hd; subst.
  rewrite strip_sign_sign by assumption.
  rewrite <- (app_nil_r (c :: r)) at 1. rewrite span_digits_all by (try assumption; exact I). reflexivity.
Qed.
Theorem parse_float_decimal neg plus ip fp : is_digits ip -> is_digits fp ->
  parse_float (sign_str neg plus ++ ip ++ c_dot :: fp) =
  FOk {| dneg := neg; dmant := digits_val (ip ++ fp) 0; dscale := length fp |}.
Proof.
  intros [Hne Hd] [Hne2 Hd2]. unfold parse_float.
  rewrite non_ascii_digits; [|assumption|].
  2:{ pose proof (non_ascii_digits false false fp [] Hd2 eq_refl) as X. cbn [sign_str app] in X. rewrite app_nil_r in X.
      unfold non_ascii in *. cbn [existsb]. rewrite X. reflexivity. }
  unfold simple_float. destruct ip as [|c r]; [congruence|]. pose proof Hd as Hd'. inversion Hd'; subst.
  change ((c :: r) ++ c_dot :: fp) with (c :: (r ++ c_dot :: fp)). rewrite strip_sign_sign by assumption.
  change (c :: r ++ c_dot :: fp) with ((c :: r) ++ c_dot :: fp).
  rewrite span_digits_all by (try assumption; reflexivity).
  rewrite N.eqb_refl. rewrite <- (app_nil_r fp) at 1. rewrite span_digits_all by (try assumption; exact I).
  destruct fp; [congruence|reflexivity].
Qed.
Theorem parse_int_digits neg plus ds : is_digits ds -> (length ds < 4000)%nat ->
  parse_int (sign_str neg plus ++ ds) = IOk (if neg then (- Z.of_N (digits_val ds 0))%Z else Z.of_N (digits_val ds 0)).
Proof.
  intros [Hne Hd] Hlen. unfold parse_int.
  rewrite <- (app_nil_r ds) at 1. rewrite non_ascii_digits by (try assumption; reflexivity).
  assert (E : (4000 <? length (sign_str neg plus ++ ds))%nat = false).
  { apply Nat.ltb_ge. rewrite app_length. destruct neg, plus; cbn [sign_str length]; lia. }
  rewrite E. destruct ds as [|c r]; [congruence|]. inversion Hd; subst.
  rewrite strip_sign_sign by assumption.
  rewrite <- (app_nil_r (c :: r)) at 1. rewrite span_digits_all by (try assumption; exact I). reflexivity.
Qed.

(* ================================================================ the named corruptions inside a multi-block file *)
Lemma count_text_of_int t z : parse_int t = IOk z -> count_text t.
Proof. intros H. destruct (parse_int_ok_text t z H) as [Ht Hn]. split; [apply Ht|]. split; [apply token_trimmed; assumption|assumption]. Qed.

Lemma bad_weight_line_not_hdr l : bad_weight_line l -> is_hdr l = false.
Proof.
  intros (lead & u & gu & v & gv & w & gw & -> & Hl & Hc & Hn & _). cbn [wf_cells] in Hc. destruct Hc as (Hu & _).
  cbn [glue]. apply is_hdr_lead_token; assumption.
Qed.

(* damaged edge line (malformed, or non-numeric weight) in a block with a non-zero count *)
Theorem corrupt_line_in_file pre good b body_pre l post rest e :
  Forall (fun x => is_hdr x = false) pre -> Forall wf_fblock good ->
  wf_head b -> b_items b <> [] -> parse_int (b_ctok b) = IOk (b_n b) -> b_n b <> 0%Z ->
  Forall (wf_bitem false) body_pre ->
  (bad_edge_line l /\ e = EBadEdge) \/ (bad_weight_line l /\ e = EBadWeight) ->
  Forall (fun x => is_hdr x = false) post -> hdr_or_nil rest ->
  read_graphs (pre ++ concat (map render_block good) ++
               (map render_hitem (b_items b) ++ b_blanks b ++ count_line b :: (map render_bitem body_pre ++ l :: post)) ++ rest)
  = FRes (Error e).
Proof.
  intros Hp Hg Hh Hne Hpi Hz Hbp Hbad Hpost Hr. pose proof Hh as (Hi & Hb & Hl & Ht & Hc).
  apply corrupt_block_rejected; try assumption.
  - apply shaped_block; try assumption; [apply count_line_not_hdr; assumption|].
    apply Forall_app. split; [apply wf_body_not_hdr; assumption|]. constructor; [|assumption].
    destruct Hbad as [[(_ & H & _) _]|[H _]]; [exact H|apply bad_weight_line_not_hdr; exact H].
  - apply (bad_line_rejected false); assumption.
Qed.

(* non-numeric vertex count *)
Theorem bad_count_in_file pre good items blanks lead t trail body rest :
  Forall (fun x => is_hdr x = false) pre -> Forall wf_fblock good ->
  Forall wf_hitem items -> items <> [] -> Forall all_ws blanks -> all_ws lead -> all_ws trail -> count_text t ->
  parse_int t = IBad ->
  Forall (fun x => is_hdr x = false) body -> hdr_or_nil rest ->
  read_graphs (pre ++ concat (map render_block good) ++ (map render_hitem items ++ blanks ++ (lead ++ t ++ trail) :: body) ++ rest)
  = FRes (Error EBadCount).
Proof.
  intros Hp Hg Hi Hne Hb Hl Ht Hc Hbad Hbody Hr.
  apply corrupt_block_rejected; try assumption.
  - apply shaped_block; try assumption. apply count_line_not_hdr; assumption.
  - apply bad_count_rejected; assumption.
Qed.

(* a constraint edge that no edge line lists, in a block with a non-zero count *)
Theorem missing_constraint_edge_in_file pre good b rest :
  Forall (fun x => is_hdr x = false) pre -> Forall wf_fblock good ->
  wf_head b -> b_items b <> [] -> parse_int (b_ctok b) = IOk (b_n b) -> b_n b <> 0%Z ->
  Forall (wf_bitem false) (b_body b) ->
  (exists c p, In c (spec_cons (b_items b)) /\ In p c /\ ~ In p (map fst (listed (b_body b)))) ->
  hdr_or_nil rest ->
  read_graphs (pre ++ concat (map render_block good) ++ render_block b ++ rest) = FRes (Error EMissingConstraintEdge).
Proof.
  intros Hp Hg Hh Hne Hpi Hz Hbody Hmiss Hr. pose proof Hh as (Hi & Hb & Hl & Ht & Hc).
  apply corrupt_block_rejected; try assumption.
  - unfold render_block. apply shaped_block; try assumption; [apply count_line_not_hdr; assumption|apply wf_body_not_hdr; assumption].
  - apply (missing_constraint_edge_rejected false); assumption.
Qed.

(* ================================================================ whatever the count (zero-vertex blocks are validated since fc0735f) *)
Theorem corrupt_line_in_file_any_count pre good b body_pre l post rest :
  Forall (fun x => is_hdr x = false) pre -> Forall wf_fblock good ->
  wf_head b -> b_items b <> [] -> parse_int (b_ctok b) = IOk (b_n b) ->
  Forall (wf_bitem false) body_pre -> bad_edge_line l \/ bad_weight_line l ->
  Forall (fun x => is_hdr x = false) post -> hdr_or_nil rest ->
  exists e, read_graphs (pre ++ concat (map render_block good) ++
               (map render_hitem (b_items b) ++ b_blanks b ++ count_line b :: (map render_bitem body_pre ++ l :: post)) ++ rest)
            = FRes (Error e).
Proof.
  intros Hp Hg Hh Hne Hpi Hbp Hbad Hpost Hr. pose proof Hh as (Hi & Hb & Hl & Ht & Hc).
  destruct (bad_line_rejected_any_count false b body_pre l post Hh Hpi Hbp Hbad) as (e & He).
  exists e. apply corrupt_block_rejected; try assumption.
  apply shaped_block; try assumption; [apply count_line_not_hdr; assumption|].
  apply Forall_app. split; [apply wf_body_not_hdr; assumption|]. constructor; [|assumption].
  destruct Hbad as [(_ & H & _)|H]; [exact H|apply bad_weight_line_not_hdr; exact H].
Qed.

Theorem missing_constraint_edge_in_file_any_count pre good b rest :
  Forall (fun x => is_hdr x = false) pre -> Forall wf_fblock good ->
  wf_head b -> b_items b <> [] -> parse_int (b_ctok b) = IOk (b_n b) ->
  (b_n b <> 0%Z -> Forall (wf_bitem false) (b_body b)) ->
  Forall (fun x => is_hdr x = false) (map render_bitem (b_body b)) ->
  (exists c p, In c (spec_cons (b_items b)) /\ In p c /\ ~ In p (map fst (listed (b_body b)))) ->
  hdr_or_nil rest ->
  exists e, read_graphs (pre ++ concat (map render_block good) ++ render_block b ++ rest) = FRes (Error e).
Proof.
  intros Hp Hg Hh Hne Hpi Hbody Hnh Hmiss Hr. pose proof Hh as (Hi & Hb & Hl & Ht & Hc).
  destruct (missing_constraint_edge_rejected_any_count false b Hh Hpi Hbody Hmiss) as (e & He).
  exists e. apply corrupt_block_rejected; try assumption.
  unfold render_block. apply shaped_block; try assumption. apply count_line_not_hdr; assumption.
Qed.

(* a zero-vertex block with a constraint or with any non-blank line after the count, anywhere in a file *)
Theorem zero_block_in_file pre good b body rest :
  Forall (fun x => is_hdr x = false) pre -> Forall wf_fblock good ->
  wf_head b -> b_items b <> [] -> parse_int (b_ctok b) = IOk 0%Z ->
  Forall (fun x => is_hdr x = false) body ->
  spec_cons (b_items b) <> [] \/ (exists l, In l body /\ unskipped l) ->
  hdr_or_nil rest ->
  exists e, read_graphs (pre ++ concat (map render_block good) ++ (map render_hitem (b_items b) ++ b_blanks b ++ count_line b :: body) ++ rest)
            = FRes (Error e) /\ (e = EZeroHasConstraints \/ e = EZeroHasEdges).
Proof.
  intros Hp Hg Hh Hne Hpi Hnh Hbad Hr. pose proof Hh as (Hi & Hb & Hl & Ht & Hc).
  destruct (zero_block_rejected b body Hh Hpi Hbad) as (e & He & Hk).
  exists e. split; [|exact Hk]. apply corrupt_block_rejected; try assumption.
  apply shaped_block; try assumption. apply count_line_not_hdr; assumption.
Qed.
